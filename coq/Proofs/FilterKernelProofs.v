(* K1: the in-place row compaction of _remove_rows_csr (_filter.pyx), over the definition that
   tools/py2v generates from the source on every check (Gen/FilterGen.v: remove_rows,
   remove_rows_row, remove_rows_copy).

   remove_rows_ok: for every well-formed CSR triple and every boolean mask, the truncated
   (indptr', indices', data') are exactly the concatenation of the kept rows' segments, indptr'
   is the list of their prefix sums, and the shape is (number of kept rows, n).

   Invariant of the compaction after the rows < r: the first nnz positions of data/indices hold
   the kept segments, every position >= the start of row r still holds the original value,
   indptr holds the prefix sums at positions <= #kept and the original values at positions >= r. *)
From Coq Require Import List Arith ZArith Lia Bool.
From BiomV Require Import Base.ListUtil Gen.FilterGen.
Import ListNotations.

(* ---------- list facts ---------- *)
Lemma nth_firstn_lt {A} (l : list A) n k d : k < n -> nth k (firstn n l) d = nth k l d.
Proof.
  revert n k. induction l as [|x l IH]; intros n k H.
  - rewrite firstn_nil. reflexivity.
  - destruct n; [lia|]. destruct k; [reflexivity|]. simpl. apply IH. lia.
Qed.

Lemma nth_skipn_add {A} (l : list A) s k d : nth k (skipn s l) d = nth (s + k) l d.
Proof.
  revert l. induction s as [|s IH]; intros l; [reflexivity|].
  destruct l as [|x l]; simpl; [destruct k; reflexivity|]. apply IH.
Qed.

(* prefix sums: acc, acc+x1, acc+x1+x2, ... *)
Fixpoint psums (acc : nat) (l : list nat) : list nat :=
  acc :: match l with [] => [] | x :: t => psums (acc + x) t end.

Lemma psums_length a l : length (psums a l) = S (length l).
Proof. revert a. induction l as [|x l IH]; intros a; simpl; [reflexivity|]. rewrite IH. reflexivity. Qed.

Lemma psums_snoc a l x : psums a (l ++ [x]) = psums a l ++ [a + nsum l + x].
Proof.
  revert a. induction l as [|y l IH]; intros a; simpl.
  - f_equal. f_equal. lia.
  - f_equal. rewrite IH. f_equal. f_equal. lia.
Qed.

Lemma psums_last a l : nth (length l) (psums a l) 0 = a + nsum l.
Proof.
  revert a. induction l as [|y l IH]; intros a; simpl; [lia|].
  destruct l as [|z l]; simpl in *; [lia|]. rewrite IH. simpl. lia.
Qed.

(* ---------- the copy loop on one array ---------- *)
Definition copy1 {A} (d : A) (offset : nat) (l : list A) (j : nat) : list A :=
  upd l (j - offset) (nth j l d).

Lemma copy_pair offset js (dt : list Z) (ix : list nat) :
  fold_left (remove_rows_copy offset) js (dt, ix) =
  (fold_left (copy1 0%Z offset) js dt, fold_left (copy1 0 offset) js ix).
Proof.
  revert dt ix. induction js as [|j js IH]; intros dt ix; [reflexivity|].
  simpl. rewrite <- IH. reflexivity.
Qed.

(* copying the segment [s, s+len) down by offset, in place and ascending: the part below the
   target is untouched, the target holds the segment, everything from the end of the target on
   is untouched (in particular everything from the end of the source on) *)
Lemma copy1_fold {A} (d : A) offset s len (l : list A) :
  offset <= s -> s + len <= length l ->
  length (fold_left (copy1 d offset) (seq s len) l) = length l /\
  (forall p, p < s - offset -> nth p (fold_left (copy1 d offset) (seq s len) l) d = nth p l d) /\
  (forall k, k < len -> nth (s - offset + k) (fold_left (copy1 d offset) (seq s len) l) d = nth (s + k) l d) /\
  (forall p, s - offset + len <= p -> nth p (fold_left (copy1 d offset) (seq s len) l) d = nth p l d).
Proof.
  intros Ho. induction len as [|len IH]; intros Hl.
  - simpl. repeat split; intros; try lia; reflexivity.
  - destruct IH as (L & B & S_ & T); [lia|].
    rewrite seq_S, fold_left_app. simpl.
    set (l1 := fold_left (copy1 d offset) (seq s len) l) in *.
    change (copy1 d offset l1 (s + len)) with (upd l1 (s + len - offset) (nth (s + len) l1 d)).
    assert (Hsrc : nth (s + len) l1 d = nth (s + len) l d) by (apply T; lia).
    rewrite Hsrc. repeat split.
    + rewrite upd_length. exact L.
    + intros p Hp. rewrite nth_upd_neq by lia. apply B. exact Hp.
    + intros k Hk. destruct (Nat.eq_dec k len) as [->|Hne].
      * replace (s - offset + len) with (s + len - offset) by lia.
        rewrite nth_upd_eq by lia. reflexivity.
      * rewrite nth_upd_neq by lia. apply S_. lia.
    + intros p Hp. rewrite nth_upd_neq by lia. apply T. lia.
Qed.

(* ---------- specification ---------- *)
Definition rlen (indptr : list nat) (i : nat) : nat := nth (S i) indptr 0 - nth i indptr 0.
Definition rseg {A} (indptr : list nat) (l : list A) (i : nat) : list A :=
  firstn (rlen indptr i) (skipn (nth i indptr 0) l).
Definition kept_rows (mask : list bool) (r : nat) : list nat :=
  filter (fun i => nth i mask false) (seq 0 r).

Definition wf_csr (m : nat) (indptr indices : list nat) (data : list Z) : Prop :=
  length indptr = S m /\ nth 0 indptr 0 = 0 /\
  (forall i, i < m -> nth i indptr 0 <= nth (S i) indptr 0) /\
  nth m indptr 0 = length data /\ length indices = length data.

Lemma kept_rows_S mask r :
  kept_rows mask (S r) = kept_rows mask r ++ (if nth r mask false then [r] else []).
Proof. unfold kept_rows. rewrite seq_S, filter_app. simpl. destruct (nth r mask false); reflexivity. Qed.

Lemma kept_rows_length mask r : length (kept_rows mask r) <= r.
Proof.
  induction r as [|r IH]; [simpl; lia|]. rewrite kept_rows_S, app_length.
  destruct (nth r mask false); simpl; lia.
Qed.

Lemma nth_seg {A} indptr (l : list A) i k d :
  k < rlen indptr i -> nth k (rseg indptr l i) d = nth (nth i indptr 0 + k) l d.
Proof. intros H. unfold rseg. rewrite nth_firstn_lt by exact H. apply nth_skipn_add. Qed.

Section Compaction.
  Variable m : nat.
  Variable indptr : list nat.
  Variable mask : list bool.
  Hypothesis Hlen : length indptr = S m.
  Hypothesis Hmono : forall i, i < m -> nth i indptr 0 <= nth (S i) indptr 0.

  Lemma indptr_mono i j : i <= j -> j <= m -> nth i indptr 0 <= nth j indptr 0.
  Proof.
    intros Hij Hj. induction j as [|j IH]; [replace i with 0 by lia; lia|].
    destruct (Nat.eq_dec i (S j)) as [->|Hne]; [lia|].
    specialize (Hmono j). lia.
  Qed.

  Definition cat {A} (l : list A) (r : nat) : list A := concat (map (rseg indptr l) (kept_rows mask r)).
  Definition lens (r : nat) : list nat := map (rlen indptr) (kept_rows mask r).

  Lemma cat_S {A} (l : list A) r :
    cat l (S r) = cat l r ++ (if nth r mask false then rseg indptr l r else []).
  Proof.
    unfold cat. rewrite kept_rows_S, map_app, concat_app.
    destruct (nth r mask false); simpl; [rewrite app_nil_r|]; reflexivity.
  Qed.

  Lemma lens_S r : lens (S r) = lens r ++ (if nth r mask false then [rlen indptr r] else []).
  Proof. unfold lens. rewrite kept_rows_S, map_app. destruct (nth r mask false); reflexivity. Qed.

  Lemma seg_length {A} (l : list A) i : i < m -> nth m indptr 0 <= length l -> length (rseg indptr l i) = rlen indptr i.
  Proof.
    intros Hi Hl. unfold rseg. rewrite firstn_length, skipn_length. unfold rlen.
    pose proof (indptr_mono (S i) m). pose proof (Hmono i Hi). lia.
  Qed.

  Lemma cat_length {A} (l : list A) r : r <= m -> nth m indptr 0 <= length l -> length (cat l r) = nsum (lens r).
  Proof.
    intros Hr Hl. induction r as [|r IH]; [reflexivity|].
    rewrite cat_S, lens_S, app_length, nsum_app, IH by lia.
    destruct (nth r mask false); simpl; [rewrite seg_length by (try lia; exact Hl)|]; lia.
  Qed.

  (* one array (data or indices) during the compaction *)
  Definition InvL {A} (d : A) (orig cur : list A) (r nnz : nat) : Prop :=
    length cur = length orig /\
    (forall p, p < nnz -> nth p cur d = nth p (cat orig r) d) /\
    (forall p, nth r indptr 0 <= p -> nth p cur d = nth p orig d).

  Lemma InvL_keep {A} (d : A) orig cur r nnz off :
    r < m -> nth m indptr 0 <= length orig -> nth r mask false = true ->
    nnz + off = nth r indptr 0 -> nnz = nsum (lens r) ->
    InvL d orig cur r nnz ->
    InvL d orig (fold_left (copy1 d off) (seq (nth r indptr 0) (rlen indptr r)) cur) (S r) (nnz + rlen indptr r).
  Proof.
    intros Hr Hl Hm Hoff Hn (L & P & Q).
    pose proof (Hmono r Hr) as Hse. pose proof (indptr_mono (S r) m ltac:(lia) ltac:(lia)) as Hem.
    assert (Hs : nth r indptr 0 - off = nnz) by lia.
    destruct (copy1_fold d off (nth r indptr 0) (rlen indptr r) cur) as (L' & B & S_ & T);
      [lia|unfold rlen; lia|].
    rewrite Hs in B, S_, T.
    assert (Hc : length (cat orig r) = nnz) by (rewrite cat_length by (try lia; exact Hl); lia).
    repeat split.
    - rewrite L'. exact L.
    - intros p Hp. rewrite cat_S, Hm. destruct (Nat.lt_ge_cases p nnz) as [Hlt|Hge].
      + rewrite B by exact Hlt. rewrite app_nth1 by lia. apply P. exact Hlt.
      + replace p with (nnz + (p - nnz)) at 1 by lia. rewrite S_ by lia.
        rewrite Q by lia. rewrite app_nth2 by lia. rewrite Hc.
        rewrite nth_seg by lia. reflexivity.
    - intros p Hp. rewrite T by (unfold rlen; lia). apply Q. lia.
  Qed.

  Lemma InvL_drop {A} (d : A) orig cur r nnz :
    r < m -> nth r mask false = false -> InvL d orig cur r nnz -> InvL d orig cur (S r) nnz.
  Proof.
    intros Hr Hm (L & P & Q). pose proof (Hmono r Hr). repeat split; [exact L| |].
    - intros p Hp. rewrite cat_S, Hm, app_nil_r. apply P. exact Hp.
    - intros p Hp. apply Q. lia.
  Qed.

  Variable indices : list nat.
  Variable data : list Z.
  Hypothesis Hend : nth m indptr 0 = length data.
  Hypothesis Hix : length indices = length data.

  Definition Inv (r : nat) (st : list nat * nat * nat * list Z * nat * list nat) : Prop :=
    let '(ip, orows, nnz, dt, off, ix) := st in
    orows + length (kept_rows mask r) = r /\
    nnz + off = nth r indptr 0 /\
    (orows = 0 -> off = 0) /\
    nnz = nsum (lens r) /\
    length ip = S m /\
    InvL 0%Z data dt r nnz /\ InvL 0 indices ix r nnz /\
    (forall q, q <= length (kept_rows mask r) -> nth q ip 0 = nth q (psums 0 (lens r)) 0) /\
    (forall q, r <= q -> nth q ip 0 = nth q indptr 0).

  Lemma row_inv r st : r < m -> Inv r st -> Inv (S r) (remove_rows_row mask st r).
  Proof.
    intros Hr. destruct st as [[[[[ip orows] nnz] dt] off] ix].
    intros (Hk & Hoff & Hz & Hn & Hipl & Hd & Hi & Hps & Horig).
    unfold remove_rows_row. cbv zeta.
    rewrite (Horig r (le_n r)), (Horig (S r)) by lia.
    pose proof (Hmono r Hr) as Hse. pose proof (kept_rows_length mask r) as Hkl.
    change (nth (S r) indptr 0 - nth r indptr 0) with (rlen indptr r).
    destruct (nth r mask false) eqn:Hm.
    - (* kept *)
      rewrite copy_pair. unfold Inv.
      assert (Hpos : r - orows = length (kept_rows mask r)) by lia.
      rewrite kept_rows_S, lens_S, Hm, app_length, psums_snoc. simpl length.
      rewrite <- Hn. simpl plus.
      refine (conj _ (conj _ (conj _ (conj _ (conj _ (conj _ (conj _ (conj _ _)))))))).
      + lia.
      + unfold rlen. lia.
      + exact Hz.
      + rewrite nsum_app. simpl. lia.
      + rewrite !upd_length. exact Hipl.
      + apply InvL_keep; try assumption; lia.
      + apply InvL_keep; try assumption; lia.
      + intros q Hq. rewrite Hpos.
        destruct (Nat.eq_dec q (S (length (kept_rows mask r)))) as [->|Hne1].
        * rewrite nth_upd_eq by (rewrite upd_length; lia).
          rewrite app_nth2 by (rewrite psums_length; unfold lens; rewrite map_length; lia).
          rewrite psums_length. unfold lens at 1. rewrite map_length, Nat.sub_diag. reflexivity.
        * rewrite nth_upd_neq by lia.
          rewrite app_nth1 by (rewrite psums_length; unfold lens; rewrite map_length; lia).
          destruct (Nat.eq_dec q (length (kept_rows mask r))) as [->|Hne2].
          -- rewrite nth_upd_eq by lia.
             replace (length (kept_rows mask r)) with (length (lens r)) by (unfold lens; apply map_length).
             rewrite psums_last. lia.
          -- rewrite nth_upd_neq by lia. apply Hps. lia.
      + intros q Hq. rewrite Hpos.
        destruct (Nat.eq_dec q (S (length (kept_rows mask r)))) as [->|Hne1].
        * rewrite nth_upd_eq by (rewrite upd_length; lia).
          assert (orows = 0) by lia. specialize (Hz H).
          replace (S (length (kept_rows mask r))) with (S r) by lia. unfold rlen. lia.
        * rewrite nth_upd_neq by lia. rewrite nth_upd_neq by lia. apply Horig. lia.
    - (* dropped *)
      unfold Inv. rewrite kept_rows_S, lens_S, Hm, !app_nil_r.
      refine (conj _ (conj _ (conj _ (conj _ (conj _ (conj _ (conj _ (conj _ _)))))))).
      + lia.
      + unfold rlen. lia.
      + intros H. discriminate.
      + exact Hn.
      + exact Hipl.
      + apply InvL_drop; assumption.
      + apply InvL_drop; assumption.
      + exact Hps.
      + intros q Hq. apply Horig. lia.
  Qed.

  Lemma rows_inv r : r <= m -> nth 0 indptr 0 = 0 ->
    Inv r (fold_left (remove_rows_row mask) (seq 0 r) (indptr, 0, 0, data, 0, indices)).
  Proof.
    intros Hr H0. induction r as [|r IH].
    - simpl. unfold Inv, InvL. simpl.
      refine (conj _ (conj _ (conj _ (conj _ (conj _ (conj _ (conj _ (conj _ _)))))))); try lia; try reflexivity.
      + repeat split; intros; try lia; reflexivity.
      + repeat split; intros; try lia; reflexivity.
      + intros q Hq. replace q with 0 by lia. simpl. exact H0.
    - rewrite seq_S, fold_left_app. simpl. apply row_inv; [lia|]. apply IH. lia.
  Qed.
End Compaction.

Theorem remove_rows_ok_lemma m n indptr indices data mask :
  wf_csr m indptr indices data ->
  remove_rows indptr indices data (m, n) mask =
    (psums 0 (map (rlen indptr) (kept_rows mask m)),
     concat (map (rseg indptr indices) (kept_rows mask m)),
     concat (map (rseg indptr data) (kept_rows mask m)),
     (length (kept_rows mask m), n)).
Proof.
  intros (Hlen & H0 & Hmono & Hend & Hix).
  pose proof (rows_inv m indptr mask Hlen Hmono indices data Hend Hix m (le_n m) H0) as I.
  unfold remove_rows. cbv zeta.
  destruct (fold_left (remove_rows_row mask) (seq 0 m) (indptr, 0, 0, data, 0, indices))
    as [[[[[ip orows] nnz] dt] off] ix].
  destruct I as (Hk & Hoff & Hz & Hn & Hipl & (Ld & Pd & _) & (Li & Pi & _) & Hps & _).
  pose proof (kept_rows_length mask m) as Hkl.
  assert (Hcd : length (cat indptr mask data m) = nnz)
    by (rewrite (cat_length m indptr mask Hlen Hmono) by lia; lia).
  assert (Hci : length (cat indptr mask indices m) = nnz)
    by (rewrite (cat_length m indptr mask Hlen Hmono) by lia; lia).
  replace (m - orows) with (length (kept_rows mask m)) by lia.
  assert (E1 : firstn (S (length (kept_rows mask m))) ip = psums 0 (map (rlen indptr) (kept_rows mask m))).
  { apply (nth_ext _ _ 0 0).
    - rewrite firstn_length, psums_length, map_length. lia.
    - intros q Hq. rewrite firstn_length in Hq. rewrite nth_firstn_lt by lia. apply Hps. lia. }
  assert (E2 : firstn nnz ix = cat indptr mask indices m).
  { apply (nth_ext _ _ 0 0).
    - rewrite firstn_length. lia.
    - intros p Hp. rewrite firstn_length in Hp. rewrite nth_firstn_lt by lia. apply Pi. lia. }
  assert (E3 : firstn nnz dt = cat indptr mask data m).
  { apply (nth_ext _ _ 0%Z 0%Z).
    - rewrite firstn_length. lia.
    - intros p Hp. rewrite firstn_length in Hp. rewrite nth_firstn_lt by lia. apply Pd. lia. }
  rewrite E1, E2, E3. reflexivity.
Qed.

(* ================================================================================================
   remove_rows_denotes: from the arrays to the content.  For EVERY well-formed compressed matrix
   (Model/Sparse.v wf_cs: unsorted indices and stored zeros allowed) the arrays the kernel leaves
   behind are exactly Sparse.of_segs of the kept rows' segments, so they form a well-formed
   compressed matrix that denotes the row selection of the dense matrix.                           *)
From BiomV Require Import Base.Matrix Model.Sparse Proofs.SparseProofs.

Lemma last_nth_pred (l : list nat) : last l 0 = nth (length l - 1) l 0.
Proof.
  induction l as [|x l IH]; [reflexivity|]. destruct l as [|y l]; [reflexivity|].
  change (last (x :: y :: l) 0) with (last (y :: l) 0). rewrite IH. simpl. rewrite Nat.sub_0_r. reflexivity.
Qed.

Lemma monotone_step l : monotone l -> forall i, S i < length l -> nth i l 0 <= nth (S i) l 0.
Proof.
  induction l as [|x l IH]; intros M i Hi; [simpl in Hi; lia|].
  destruct l as [|y l]; [simpl in Hi; lia|]. destruct M as [Hxy M].
  destruct i as [|i]; [exact Hxy|]. apply (IH M i). simpl in *. lia.
Qed.

Lemma wf_cs_wf_csr r : wf_cs r -> wf_csr (major r) (indptr r) (indices r) (data r).
Proof.
  intros (Hl & H0 & Hm & Hlast & Hix & _). unfold wf_csr. repeat split; try assumption.
  - intros i Hi. apply monotone_step; [exact Hm|lia].
  - rewrite last_nth_pred, Hl in Hlast. simpl in Hlast. rewrite Nat.sub_0_r in Hlast. exact Hlast.
Qed.

Lemma offsets_psums a ss : offsets a ss = psums a (map (@length entry) ss).
Proof. revert a. induction ss as [|s ss IH]; intros a; simpl; [reflexivity|]. rewrite IH. reflexivity. Qed.

Lemma map_fst_combine_eq {A B} (l : list A) (l' : list B) : length l = length l' -> map fst (combine l l') = l.
Proof.
  revert l'. induction l as [|x l IH]; intros [|y l'] H; simpl in *; try reflexivity; try discriminate.
  rewrite IH by lia. reflexivity.
Qed.

Lemma map_snd_combine_eq {A B} (l : list A) (l' : list B) : length l = length l' -> map snd (combine l l') = l'.
Proof.
  revert l'. induction l as [|x l IH]; intros [|y l'] H; simpl in *; try reflexivity; try discriminate.
  rewrite IH by lia. reflexivity.
Qed.

Lemma map_firstn {A B} (f : A -> B) n l : map f (firstn n l) = firstn n (map f l).
Proof. revert l. induction n as [|n IH]; intros [|x l]; simpl; try reflexivity. rewrite IH. reflexivity. Qed.

Lemma map_skipn {A B} (f : A -> B) n l : map f (skipn n l) = skipn n (map f l).
Proof. revert l. induction n as [|n IH]; intros [|x l]; simpl; try reflexivity. apply IH. Qed.

(* the segment of the entries projects onto the segments of the two arrays *)
Lemma seg_fst r i : length (indices r) = length (data r) -> map fst (Sparse.seg r i) = rseg (indptr r) (indices r) i.
Proof.
  intros H. unfold Sparse.seg, rseg, rlen, entries. cbv zeta.
  rewrite map_firstn, map_skipn, map_fst_combine_eq by exact H. reflexivity.
Qed.

Lemma seg_snd r i : length (indices r) = length (data r) -> map snd (Sparse.seg r i) = rseg (indptr r) (data r) i.
Proof.
  intros H. unfold Sparse.seg, rseg, rlen, entries. cbv zeta.
  rewrite map_firstn, map_skipn, map_snd_combine_eq by exact H. reflexivity.
Qed.

Lemma concat_map_map {A B} (f : A -> B) (ll : list (list A)) : map f (concat ll) = concat (map (map f) ll).
Proof. induction ll as [|l ll IH]; [reflexivity|]. simpl. rewrite map_app, IH. reflexivity. Qed.

Lemma kept_rows_lt mask m i : In i (kept_rows mask m) -> i < m.
Proof. unfold kept_rows. intros H. apply filter_In in H. destruct H as [H _]. apply in_seq in H. lia. Qed.

(* K1 restated over Sparse: the result IS of_segs of the kept segments *)
Lemma remove_rows_of_segs r mask : wf_cs r ->
  remove_rows (indptr r) (indices r) (data r) (major r, minor r) mask =
  (let c := of_segs (minor r) (map (Sparse.seg r) (kept_rows mask (major r))) in
   (indptr c, indices c, data c, (major c, minor c))).
Proof.
  intros W. pose proof (wf_cs_wf_csr r W) as Wc.
  rewrite (remove_rows_ok_lemma _ _ _ _ _ mask Wc).
  destruct Wc as (Hl & H0 & Hmono & Hend & Hix).
  unfold of_segs. cbv zeta. cbn [indptr indices data major minor].
  rewrite offsets_psums, !concat_map_map, !map_map, map_length.
  assert (E1 : map (fun x => length (Sparse.seg r x)) (kept_rows mask (major r)) = map (rlen (indptr r)) (kept_rows mask (major r))).
  { apply map_ext_in. intros i Hi. apply kept_rows_lt in Hi.
    change (Sparse.seg r i) with (rseg (indptr r) (entries r) i).
    apply (seg_length (major r) (indptr r) Hl Hmono); [exact Hi|].
    unfold entries, entry. rewrite combine_length, Hix, Nat.min_id, Hend. lia. }
  assert (E2 : map (fun x => map fst (Sparse.seg r x)) (kept_rows mask (major r)) = map (rseg (indptr r) (indices r)) (kept_rows mask (major r)))
    by (apply map_ext; intros i; apply seg_fst; exact Hix).
  assert (E3 : map (fun x => map snd (Sparse.seg r x)) (kept_rows mask (major r)) = map (rseg (indptr r) (data r)) (kept_rows mask (major r)))
    by (apply map_ext; intros i; apply seg_snd; exact Hix).
  rewrite E1, E2, E3. reflexivity.
Qed.

Lemma select_map_filter {A B} (g : A -> bool) (f : A -> B) l : select (map g l) (map f l) = map f (filter g l).
Proof. induction l as [|x l IH]; [reflexivity|]. simpl. destruct (g x); simpl; rewrite IH; reflexivity. Qed.

(* a mask is read with default false: shorter masks drop the remaining rows, longer ones are cut *)
Lemma select_pad {A} (l : list A) : forall mask,
  select mask l = select (map (fun i => nth i mask false) (seq 0 (length l))) l.
Proof.
  induction l as [|x l IH]; intros mask; [destruct mask; reflexivity|].
  cbn [length seq map]. rewrite <- seq_shift, map_map. destruct mask as [|b mk].
  - cbn [nth select]. rewrite (map_ext (fun i => nth (S i) [] false) (fun i => nth i [] false))
      by (intros [|i]; reflexivity).
    rewrite <- IH. reflexivity.
  - cbn [nth select]. rewrite (IH mk). reflexivity.
Qed.

Theorem remove_rows_denotes_lemma r mask : wf_cs r ->
  let '(ip, ind, dat, (m', n)) := remove_rows (indptr r) (indices r) (data r) (major r, minor r) mask in
  wf_cs (mkCS m' n ip ind dat) /\ dense_of (mkCS m' n ip ind dat) = sel_rows mask (dense_of r).
Proof.
  intros W. rewrite (remove_rows_of_segs r mask W). cbv beta iota zeta.
  set (ss := map (Sparse.seg r) (kept_rows mask (major r))).
  change (mkCS (major (of_segs (minor r) ss)) (minor (of_segs (minor r) ss)) (indptr (of_segs (minor r) ss))
               (indices (of_segs (minor r) ss)) (data (of_segs (minor r) ss))) with (of_segs (minor r) ss).
  split.
  - apply wf_of_segs. pose proof (wf_segs r W) as F. rewrite Forall_forall in F. apply Forall_forall.
    intros s Hs. unfold ss in Hs. apply in_map_iff in Hs. destruct Hs as (i & <- & Hi).
    apply F. unfold segs. apply in_map. apply in_seq. apply kept_rows_lt in Hi. lia.
  - rewrite dense_of_of_segs. unfold sel_rows. rewrite (select_pad (dense_of r) mask), dense_of_length.
    unfold dense_of, dense_of_segs, segs, ss. rewrite !map_map.
    rewrite (select_map_filter (fun i => nth i mask false) (fun i => row_of_seg (minor r) (Sparse.seg r i))).
    reflexivity.
Qed.
