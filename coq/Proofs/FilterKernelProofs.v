(* K1: the in-place row compaction of _remove_rows_csr (_filter.pyx), over the definition that
   tools/py2v generates from the source on every check (Gen/FilterGen.v: remove_rows,
   remove_rows_row, remove_rows_copy).

   remove_rows_ok: for every well-formed CSR triple and every boolean mask, the truncated
   (indptr', indices', data') are exactly the concatenation of the kept rows' segments, indptr'
   is the list of their prefix sums, and the shape is (number of kept rows, n).

   Invariant of the compaction after the rows < r: the first nnz positions of data/indices hold
   the kept segments, every position >= the start of row r still holds the original value,
   indptr holds the prefix sums at positions <= #kept and the original values at positions >= r. *)
From Coq Require Import List Arith ZArith Lia Bool.
From BiomV Require Import Base.ListUtil Gen.FilterGen.
Import ListNotations.

(* ---------- list facts ---------- *)
Lemma nth_firstn_lt {A} (l : list A) n k d : k < n -> nth k (firstn n l) d = nth k l d.
Proof.
  revert n k. induction l as [|x l IH]; intros n k H.
  - rewrite firstn_nil. reflexivity.
  - destruct n; [lia|]. destruct k; [reflexivity|]. simpl. apply IH. lia.
Qed.

Lemma nth_skipn_add {A} (l : list A) s k d : nth k (skipn s l) d = nth (s + k) l d.
Proof.
  revert l. induction s as [|s IH]; intros l; [reflexivity|].
  destruct l as [|x l]; simpl; [destruct k; reflexivity|]. apply IH.
Qed.

(* prefix sums: acc, acc+x1, acc+x1+x2, ... *)
Fixpoint psums (acc : nat) (l : list nat) : list nat :=
  acc :: match l with [] => [] | x :: t => psums (acc + x) t end.

Lemma psums_length a l : length (psums a l) = S (length l).
Proof. revert a. induction l as [|x l IH]; intros a; simpl; [reflexivity|]. rewrite IH. reflexivity. Qed.

Lemma psums_snoc a l x : psums a (l ++ [x]) = psums a l ++ [a + nsum l + x].
Proof.
  revert a. induction l as [|y l IH]; intros a; simpl.
  - f_equal. f_equal. lia.
  - f_equal. rewrite IH. f_equal. f_equal. lia.
Qed.

Lemma psums_last a l : nth (length l) (psums a l) 0 = a + nsum l.
Proof.
  revert a. induction l as [|y l IH]; intros a; simpl; [lia|].
  destruct l as [|z l]; simpl in *; [lia|]. rewrite IH. simpl. lia.
Qed.

(* ---------- the copy loop on one array ---------- *)
Definition copy1 {A} (d : A) (offset : nat) (l : list A) (j : nat) : list A :=
  upd l (j - offset) (nth j l d).

Lemma copy_pair offset js (dt : list Z) (ix : list nat) :
  fold_left (remove_rows_copy offset) js (dt, ix) =
  (fold_left (copy1 0%Z offset) js dt, fold_left (copy1 0 offset) js ix).
Proof.
  revert dt ix. induction js as [|j js IH]; intros dt ix; [reflexivity|].
  simpl. rewrite <- IH. reflexivity.
Qed.

(* copying the segment [s, s+len) down by offset, in place and ascending: the part below the
   target is untouched, the target holds the segment, everything from the end of the target on
   is untouched (in particular everything from the end of the source on) *)
Lemma copy1_fold {A} (d : A) offset s len (l : list A) :
  offset <= s -> s + len <= length l ->
  length (fold_left (copy1 d offset) (seq s len) l) = length l /\
  (forall p, p < s - offset -> nth p (fold_left (copy1 d offset) (seq s len) l) d = nth p l d) /\
  (forall k, k < len -> nth (s - offset + k) (fold_left (copy1 d offset) (seq s len) l) d = nth (s + k) l d) /\
  (forall p, s - offset + len <= p -> nth p (fold_left (copy1 d offset) (seq s len) l) d = nth p l d).
Proof.
  intros Ho. induction len as [|len IH]; intros Hl.
  - simpl. repeat split; intros; try lia; reflexivity.
  - destruct IH as (L & B & S_ & T); [lia|].
    rewrite seq_S, fold_left_app. simpl.
    set (l1 := fold_left (copy1 d offset) (seq s len) l) in *.
    change (copy1 d offset l1 (s + len)) with (upd l1 (s + len - offset) (nth (s + len) l1 d)).
    assert (Hsrc : nth (s + len) l1 d = nth (s + len) l d) by (apply T; lia).
    rewrite Hsrc. repeat split.
    + rewrite upd_length. exact L.
    + intros p Hp. rewrite nth_upd_neq by lia. apply B. exact Hp.
    + intros k Hk. destruct (Nat.eq_dec k len) as [->|Hne].
      * replace (s - offset + len) with (s + len - offset) by lia.
        rewrite nth_upd_eq by lia. reflexivity.
      * rewrite nth_upd_neq by lia. apply S_. lia.
    + intros p Hp. rewrite nth_upd_neq by lia. apply T. lia.
Qed.

(* ---------- specification ---------- *)
Definition rlen (indptr : list nat) (i : nat) : nat := nth (S i) indptr 0 - nth i indptr 0.
Definition seg {A} (indptr : list nat) (l : list A) (i : nat) : list A :=
  firstn (rlen indptr i) (skipn (nth i indptr 0) l).
Definition kept_rows (mask : list bool) (r : nat) : list nat :=
  filter (fun i => nth i mask false) (seq 0 r).

Definition wf_csr (m : nat) (indptr indices : list nat) (data : list Z) : Prop :=
  length indptr = S m /\ nth 0 indptr 0 = 0 /\
  (forall i, i < m -> nth i indptr 0 <= nth (S i) indptr 0) /\
  nth m indptr 0 = length data /\ length indices = length data.

Lemma kept_rows_S mask r :
  kept_rows mask (S r) = kept_rows mask r ++ (if nth r mask false then [r] else []).
Proof. unfold kept_rows. rewrite seq_S, filter_app. simpl. destruct (nth r mask false); reflexivity. Qed.

Lemma kept_rows_length mask r : length (kept_rows mask r) <= r.
Proof.
  induction r as [|r IH]; [simpl; lia|]. rewrite kept_rows_S, app_length.
  destruct (nth r mask false); simpl; lia.
Qed.

Lemma nth_seg {A} indptr (l : list A) i k d :
  k < rlen indptr i -> nth k (seg indptr l i) d = nth (nth i indptr 0 + k) l d.
Proof. intros H. unfold seg. rewrite nth_firstn_lt by exact H. apply nth_skipn_add. Qed.

Section Compaction.
  Variable m : nat.
  Variable indptr : list nat.
  Variable mask : list bool.
  Hypothesis Hlen : length indptr = S m.
  Hypothesis Hmono : forall i, i < m -> nth i indptr 0 <= nth (S i) indptr 0.

  Lemma indptr_mono i j : i <= j -> j <= m -> nth i indptr 0 <= nth j indptr 0.
  Proof.
    intros Hij Hj. induction j as [|j IH]; [replace i with 0 by lia; lia|].
    destruct (Nat.eq_dec i (S j)) as [->|Hne]; [lia|].
    specialize (Hmono j). lia.
  Qed.

  Definition cat {A} (l : list A) (r : nat) : list A := concat (map (seg indptr l) (kept_rows mask r)).
  Definition lens (r : nat) : list nat := map (rlen indptr) (kept_rows mask r).

  Lemma cat_S {A} (l : list A) r :
    cat l (S r) = cat l r ++ (if nth r mask false then seg indptr l r else []).
  Proof.
    unfold cat. rewrite kept_rows_S, map_app, concat_app.
    destruct (nth r mask false); simpl; [rewrite app_nil_r|]; reflexivity.
  Qed.

  Lemma lens_S r : lens (S r) = lens r ++ (if nth r mask false then [rlen indptr r] else []).
  Proof. unfold lens. rewrite kept_rows_S, map_app. destruct (nth r mask false); reflexivity. Qed.

  Lemma seg_length {A} (l : list A) i : i < m -> nth m indptr 0 <= length l -> length (seg indptr l i) = rlen indptr i.
  Proof.
    intros Hi Hl. unfold seg. rewrite firstn_length, skipn_length. unfold rlen.
    pose proof (indptr_mono (S i) m). pose proof (Hmono i Hi). lia.
  Qed.

  Lemma cat_length {A} (l : list A) r : r <= m -> nth m indptr 0 <= length l -> length (cat l r) = nsum (lens r).
  Proof.
    intros Hr Hl. induction r as [|r IH]; [reflexivity|].
    rewrite cat_S, lens_S, app_length, nsum_app, IH by lia.
    destruct (nth r mask false); simpl; [rewrite seg_length by (try lia; exact Hl)|]; lia.
  Qed.

  (* one array (data or indices) during the compaction *)
  Definition InvL {A} (d : A) (orig cur : list A) (r nnz : nat) : Prop :=
    length cur = length orig /\
    (forall p, p < nnz -> nth p cur d = nth p (cat orig r) d) /\
    (forall p, nth r indptr 0 <= p -> nth p cur d = nth p orig d).

  Lemma InvL_keep {A} (d : A) orig cur r nnz off :
    r < m -> nth m indptr 0 <= length orig -> nth r mask false = true ->
    nnz + off = nth r indptr 0 -> nnz = nsum (lens r) ->
    InvL d orig cur r nnz ->
    InvL d orig (fold_left (copy1 d off) (seq (nth r indptr 0) (rlen indptr r)) cur) (S r) (nnz + rlen indptr r).
  Proof.
    intros Hr Hl Hm Hoff Hn (L & P & Q).
    pose proof (Hmono r Hr) as Hse. pose proof (indptr_mono (S r) m ltac:(lia) ltac:(lia)) as Hem.
    assert (Hs : nth r indptr 0 - off = nnz) by lia.
    destruct (copy1_fold d off (nth r indptr 0) (rlen indptr r) cur) as (L' & B & S_ & T);
      [lia|unfold rlen; lia|].
    rewrite Hs in B, S_, T.
    assert (Hc : length (cat orig r) = nnz) by (rewrite cat_length by (try lia; exact Hl); lia).
    repeat split.
    - rewrite L'. exact L.
    - intros p Hp. rewrite cat_S, Hm. destruct (Nat.lt_ge_cases p nnz) as [Hlt|Hge].
      + rewrite B by exact Hlt. rewrite app_nth1 by lia. apply P. exact Hlt.
      + replace p with (nnz + (p - nnz)) at 1 by lia. rewrite S_ by lia.
        rewrite Q by lia. rewrite app_nth2 by lia. rewrite Hc.
        rewrite nth_seg by lia. reflexivity.
    - intros p Hp. rewrite T by (unfold rlen; lia). apply Q. lia.
  Qed.

  Lemma InvL_drop {A} (d : A) orig cur r nnz :
    r < m -> nth r mask false = false -> InvL d orig cur r nnz -> InvL d orig cur (S r) nnz.
  Proof.
    intros Hr Hm (L & P & Q). pose proof (Hmono r Hr). repeat split; [exact L| |].
    - intros p Hp. rewrite cat_S, Hm, app_nil_r. apply P. exact Hp.
    - intros p Hp. apply Q. lia.
  Qed.

  Variable indices : list nat.
  Variable data : list Z.
  Hypothesis Hend : nth m indptr 0 = length data.
  Hypothesis Hix : length indices = length data.

  Definition Inv (r : nat) (st : list nat * nat * nat * list Z * nat * list nat) : Prop :=
    let '(ip, orows, nnz, dt, off, ix) := st in
    orows + length (kept_rows mask r) = r /\
    nnz + off = nth r indptr 0 /\
    (orows = 0 -> off = 0) /\
    nnz = nsum (lens r) /\
    length ip = S m /\
    InvL 0%Z data dt r nnz /\ InvL 0 indices ix r nnz /\
    (forall q, q <= length (kept_rows mask r) -> nth q ip 0 = nth q (psums 0 (lens r)) 0) /\
    (forall q, r <= q -> nth q ip 0 = nth q indptr 0).

  Lemma row_inv r st : r < m -> Inv r st -> Inv (S r) (remove_rows_row mask st r).
  Proof.
    intros Hr. destruct st as [[[[[ip orows] nnz] dt] off] ix].
    intros (Hk & Hoff & Hz & Hn & Hipl & Hd & Hi & Hps & Horig).
    unfold remove_rows_row. cbv zeta.
    rewrite (Horig r (le_n r)), (Horig (S r)) by lia.
    pose proof (Hmono r Hr) as Hse. pose proof (kept_rows_length mask r) as Hkl.
    change (nth (S r) indptr 0 - nth r indptr 0) with (rlen indptr r).
    destruct (nth r mask false) eqn:Hm.
    - (* kept *)
      rewrite copy_pair. unfold Inv.
      assert (Hpos : r - orows = length (kept_rows mask r)) by lia.
      rewrite kept_rows_S, lens_S, Hm, app_length, psums_snoc. simpl length.
      rewrite <- Hn. simpl plus.
      refine (conj _ (conj _ (conj _ (conj _ (conj _ (conj _ (conj _ (conj _ _)))))))).
      + lia.
      + unfold rlen. lia.
      + exact Hz.
      + rewrite nsum_app. simpl. lia.
      + rewrite !upd_length. exact Hipl.
      + apply InvL_keep; try assumption; lia.
      + apply InvL_keep; try assumption; lia.
      + intros q Hq. rewrite Hpos.
        destruct (Nat.eq_dec q (S (length (kept_rows mask r)))) as [->|Hne1].
        * rewrite nth_upd_eq by (rewrite upd_length; lia).
          rewrite app_nth2 by (rewrite psums_length; unfold lens; rewrite map_length; lia).
          rewrite psums_length. unfold lens at 1. rewrite map_length, Nat.sub_diag. reflexivity.
        * rewrite nth_upd_neq by lia.
          rewrite app_nth1 by (rewrite psums_length; unfold lens; rewrite map_length; lia).
          destruct (Nat.eq_dec q (length (kept_rows mask r))) as [->|Hne2].
          -- rewrite nth_upd_eq by lia.
             replace (length (kept_rows mask r)) with (length (lens r)) by (unfold lens; apply map_length).
             rewrite psums_last. lia.
          -- rewrite nth_upd_neq by lia. apply Hps. lia.
      + intros q Hq. rewrite Hpos.
        destruct (Nat.eq_dec q (S (length (kept_rows mask r)))) as [->|Hne1].
        * rewrite nth_upd_eq by (rewrite upd_length; lia).
          assert (orows = 0) by lia. specialize (Hz H).
          replace (S (length (kept_rows mask r))) with (S r) by lia. unfold rlen. lia.
        * rewrite nth_upd_neq by lia. rewrite nth_upd_neq by lia. apply Horig. lia.
    - (* dropped *)
      unfold Inv. rewrite kept_rows_S, lens_S, Hm, !app_nil_r.
      refine (conj _ (conj _ (conj _ (conj _ (conj _ (conj _ (conj _ (conj _ _)))))))).
      + lia.
      + unfold rlen. lia.
      + intros H. discriminate.
      + exact Hn.
      + exact Hipl.
      + apply InvL_drop; assumption.
      + apply InvL_drop; assumption.
      + exact Hps.
      + intros q Hq. apply Horig. lia.
  Qed.

  Lemma rows_inv r : r <= m -> nth 0 indptr 0 = 0 ->
    Inv r (fold_left (remove_rows_row mask) (seq 0 r) (indptr, 0, 0, data, 0, indices)).
  Proof.
    intros Hr H0. induction r as [|r IH].
    - simpl. unfold Inv, InvL. simpl.
      refine (conj _ (conj _ (conj _ (conj _ (conj _ (conj _ (conj _ (conj _ _)))))))); try lia; try reflexivity.
      + repeat split; intros; try lia; reflexivity.
      + repeat split; intros; try lia; reflexivity.
      + intros q Hq. replace q with 0 by lia. simpl. exact H0.
    - rewrite seq_S, fold_left_app. simpl. apply row_inv; [lia|]. apply IH. lia.
  Qed.
End Compaction.

Theorem remove_rows_ok_lemma m n indptr indices data mask :
  wf_csr m indptr indices data ->
  remove_rows indptr indices data (m, n) mask =
    (psums 0 (map (rlen indptr) (kept_rows mask m)),
     concat (map (seg indptr indices) (kept_rows mask m)),
     concat (map (seg indptr data) (kept_rows mask m)),
     (length (kept_rows mask m), n)).
Proof.
  intros (Hlen & H0 & Hmono & Hend & Hix).
  pose proof (rows_inv m indptr mask Hlen Hmono indices data Hend Hix m (le_n m) H0) as I.
  unfold remove_rows. cbv zeta.
  destruct (fold_left (remove_rows_row mask) (seq 0 m) (indptr, 0, 0, data, 0, indices))
    as [[[[[ip orows] nnz] dt] off] ix].
  destruct I as (Hk & Hoff & Hz & Hn & Hipl & (Ld & Pd & _) & (Li & Pi & _) & Hps & _).
  pose proof (kept_rows_length mask m) as Hkl.
  assert (Hcd : length (cat indptr mask data m) = nnz)
    by (rewrite (cat_length m indptr mask Hlen Hmono) by lia; lia).
  assert (Hci : length (cat indptr mask indices m) = nnz)
    by (rewrite (cat_length m indptr mask Hlen Hmono) by lia; lia).
  replace (m - orows) with (length (kept_rows mask m)) by lia.
  assert (E1 : firstn (S (length (kept_rows mask m))) ip = psums 0 (map (rlen indptr) (kept_rows mask m))).
  { apply (nth_ext _ _ 0 0).
    - rewrite firstn_length, psums_length, map_length. lia.
    - intros q Hq. rewrite firstn_length in Hq. rewrite nth_firstn_lt by lia. apply Hps. lia. }
  assert (E2 : firstn nnz ix = cat indptr mask indices m).
  { apply (nth_ext _ _ 0 0).
    - rewrite firstn_length. lia.
    - intros p Hp. rewrite firstn_length in Hp. rewrite nth_firstn_lt by lia. apply Pi. lia. }
  assert (E3 : firstn nnz dt = cat indptr mask data m).
  { apply (nth_ext _ _ 0%Z 0%Z).
    - rewrite firstn_length. lia.
    - intros p Hp. rewrite firstn_length in Hp. rewrite nth_firstn_lt by lia. apply Pd. lia. }
  rewrite E1, E2, E3. reflexivity.
Qed.
