(* Lemmas shared by the C10 and C11 proofs: sorting, positions, orientation,
   constructor normalisation of metadata, sort_order on columns. *)
From Coq Require Import List Arith ZArith Lia Bool Permutation Sorted.
From BiomV Require Import Base.Tree Base.ListUtil Base.Matrix Model.Table Model.Orient.
Import ListNotations.

(* ---------------------------------------------------------------- small list facts *)
Lemma NoDup_app_intro {A} (a b : list A) :
  NoDup a -> NoDup b -> (forall x, In x a -> ~ In x b) -> NoDup (a ++ b).
Proof.
  induction a as [|x a IH]; simpl; intros Ha Hb Hd; [exact Hb|].
  inversion Ha as [|? ? Hx Ha']; subst. constructor.
  - rewrite in_app_iff. intros [H|H]; [contradiction|]. apply (Hd x); [left; reflexivity|exact H].
  - apply IH; [exact Ha'|exact Hb|]. intros y Hy. apply Hd. right. exact Hy.
Qed.

Lemma NoDup_app_l {A} (a b : list A) : NoDup (a ++ b) -> NoDup a.
Proof.
  induction a as [|x a IH]; simpl; intros H; [constructor|].
  inversion H as [|? ? Hx H']; subst. constructor; [|apply IH; exact H'].
  intros Hi. apply Hx. apply in_or_app. left. exact Hi.
Qed.

Lemma NoDup_app_disj {A} (a b : list A) x : NoDup (a ++ b) -> In x a -> ~ In x b.
Proof.
  induction a as [|y a IH]; simpl; intros H Ha Hb; [contradiction|].
  inversion H as [|? ? Hy H']; subst. destruct Ha as [Ha|Ha].
  - subst. apply Hy. apply in_or_app. right. exact Hb.
  - exact (IH H' Ha Hb).
Qed.

Lemma existsb_zmem_false l seen :
  existsb (fun x => zmem x seen) l = false <-> forall x, In x l -> ~ In x seen.
Proof.
  split.
  - intros H x Hx Hs. assert (E : existsb (fun x => zmem x seen) l = true).
    { apply existsb_exists. exists x. split; [exact Hx|apply zmem_In; exact Hs]. }
    congruence.
  - intros H. destruct (existsb (fun x => zmem x seen) l) eqn:E; [|reflexivity].
    apply existsb_exists in E. destruct E as [x [Hx Hs]]. apply zmem_In in Hs. exfalso. exact (H x Hx Hs).
Qed.

Lemma nth_map_rows {A} (f : list A -> list A) (m : list (list A)) i :
  i < length m -> nth i (map f m) [] = f (nth i m []).
Proof.
  intros H. rewrite (nth_indep _ [] (f [])) by (rewrite map_length; exact H). apply map_nth.
Qed.

Lemma filter_NoDup {A} (f : A -> bool) l : NoDup l -> NoDup (filter f l).
Proof.
  induction l as [|x l IH]; simpl; intros H; [constructor|].
  inversion H as [|? ? Hx H']; subst. destruct (f x); [|apply IH; exact H'].
  constructor; [|apply IH; exact H']. intros Hi. apply filter_In in Hi. tauto.
Qed.

(* ---------------------------------------------------------------- sorted() *)
Lemma insert_perm x l : Permutation (insert x l) (x :: l).
Proof.
  induction l as [|y r IH]; simpl; [apply Permutation_refl|].
  destruct (Z.leb x y); [apply Permutation_refl|].
  eapply Permutation_trans; [apply perm_skip; exact IH|apply perm_swap].
Qed.

Lemma isort_perm l : Permutation (isort l) l.
Proof.
  induction l as [|x r IH]; simpl; [constructor|].
  eapply Permutation_trans; [apply insert_perm|apply perm_skip; exact IH].
Qed.

Lemma isort_In l y : In y (isort l) <-> In y l.
Proof. split; apply Permutation_in; [apply isort_perm|apply Permutation_sym, isort_perm]. Qed.

Lemma isort_NoDup l : NoDup l -> NoDup (isort l).
Proof. intros H. eapply Permutation_NoDup; [apply Permutation_sym, isort_perm|exact H]. Qed.

Lemma isort_length l : length (isort l) = length l.
Proof. apply Permutation_length, isort_perm. Qed.

Lemma insert_sorted x l : StronglySorted Z.le l -> StronglySorted Z.le (insert x l).
Proof.
  induction l as [|y r IH]; simpl; intros H.
  - constructor; constructor.
  - destruct (Z.leb x y) eqn:E.
    + apply Z.leb_le in E. constructor; [exact H|].
      inversion H as [|? ? Hs Hf]; subst. constructor; [exact E|].
      eapply Forall_impl; [|exact Hf]. intros z Hz. simpl in Hz. lia.
    + apply Z.leb_gt in E. inversion H as [|? ? Hs Hf]; subst.
      constructor; [apply IH; exact Hs|].
      rewrite Forall_forall. intros z Hz.
      apply (Permutation_in _ (insert_perm x r)) in Hz. destruct Hz as [Hz|Hz]; [subst; lia|].
      rewrite Forall_forall in Hf. apply Hf. exact Hz.
Qed.

Lemma isort_sorted l : StronglySorted Z.le (isort l).
Proof. induction l as [|x r IH]; simpl; [constructor|apply insert_sorted; exact IH]. Qed.

Lemma sorted_le_lt l : StronglySorted Z.le l -> NoDup l -> StronglySorted Z.lt l.
Proof.
  induction 1 as [|x r Hs IH Hf]; intros Hn; [constructor|].
  inversion Hn as [|? ? Hx Hn']; subst. constructor; [apply IH; exact Hn'|].
  rewrite Forall_forall in *. intros z Hz. specialize (Hf z Hz).
  assert (z <> x) by (intros ->; contradiction). lia.
Qed.

(* sorted(set) is strictly increasing *)
Lemma isort_strict l : NoDup l -> StronglySorted Z.lt (isort l).
Proof. intros H. apply sorted_le_lt; [apply isort_sorted|apply isort_NoDup; exact H]. Qed.

(* ---------------------------------------------------------------- positions *)
Lemma pos_In x l : In x l -> exists i, pos x l = Some i.
Proof.
  intros H. destruct (pos x l) as [i|] eqn:E; [exists i; reflexivity|].
  apply pos_None in E. contradiction.
Qed.

Lemma pos_app_l x a b : In x a -> pos x (a ++ b) = pos x a.
Proof.
  unfold pos. induction a as [|y a IH]; simpl; intros H; [contradiction|].
  destruct (Z.eqb x y) eqn:E; [reflexivity|].
  destruct H as [H|H]; [subst; rewrite Z.eqb_refl in E; discriminate|].
  rewrite IH by exact H. reflexivity.
Qed.

Lemma pos_app_r x a b : ~ In x a -> pos x (a ++ b) = option_map (fun i => length a + i) (pos x b).
Proof.
  unfold pos. induction a as [|y a IH]; simpl; intros H.
  - destruct (index_of Z.eqb x b); reflexivity.
  - destruct (Z.eqb x y) eqn:E.
    + apply Z.eqb_eq in E. subst. exfalso. apply H. left. reflexivity.
    + rewrite IH by (intros Hi; apply H; right; exact Hi).
      destruct (index_of Z.eqb x b); reflexivity.
Qed.

Lemma pos0_nth l i : NoDup l -> i < length l -> pos0 (nth i l 0%Z) l = i.
Proof. intros Hn Hi. unfold pos0. rewrite pos_nth_NoDup by assumption. reflexivity. Qed.

Lemma pos0_lt x l : In x l -> pos0 x l < length l /\ nth (pos0 x l) l 0%Z = x.
Proof.
  intros H. destruct (pos_In x l H) as [i E]. unfold pos0. rewrite E.
  apply pos_Some in E. tauto.
Qed.

(* ---------------------------------------------------------------- constructor normalisation *)
Definition entry_view (md : option (list Tree)) (i : nat) : Tree :=
  match md with
  | Some l => match nth_error l i with Some m => cast_entry m | None => md_empty end
  | None => md_empty
  end.

Lemma cast_entry_falsy m : md_falsy m = true -> cast_entry m = md_empty.
Proof.
  unfold md_falsy, cast_entry. intros H. apply orb_true_iff in H. destruct H as [H|H].
  - rewrite H. reflexivity.
  - destruct (tree_eqb m md_none); [reflexivity|]. apply tree_eqb_eq in H. exact H.
Qed.

Lemma cast_entry_idem m : cast_entry (cast_entry m) = cast_entry m.
Proof.
  unfold cast_entry. destruct (tree_eqb m md_none) eqn:E; [reflexivity|]. rewrite E. reflexivity.
Qed.

Lemma entry_view_ctor md i : entry_view (ctor_md md) i = entry_view md i.
Proof.
  destruct md as [l|]; [|reflexivity]. unfold ctor_md.
  destruct (forallb md_falsy l) eqn:F; simpl.
  - destruct (nth_error l i) as [m|] eqn:E; [|reflexivity].
    rewrite forallb_forall in F. symmetry. apply cast_entry_falsy. apply F.
    eapply nth_error_In. exact E.
  - rewrite nth_error_map. destruct (nth_error l i); simpl; [apply cast_entry_idem|reflexivity].
Qed.

Lemma md_ok_ctor md n : md_ok md n -> md_ok (ctor_md md) n.
Proof.
  destruct md as [l|]; simpl; [|trivial]. intros H.
  destruct (forallb md_falsy l); simpl; [trivial|]. rewrite map_length. exact H.
Qed.

Lemma md_view_entry a t x :
  md_view a t x = match pos x (ids a t) with Some i => entry_view (mds a t) i | None => md_empty end.
Proof.
  unfold md_view, md_of, md_at, entry_view. destruct (pos x (ids a t)); [|reflexivity].
  destruct (mds a t); [|reflexivity]. reflexivity.
Qed.

Lemma entry_view_Some_nth l i : i < length l -> entry_view (Some l) i = cast_entry (nth i l md_none).
Proof.
  intros H. simpl. destruct (nth_error l i) as [m|] eqn:E.
  - rewrite (nth_error_nth _ _ _ E). reflexivity.
  - apply nth_error_None in E. lia.
Qed.

Lemma entry_view_md_list md n i : md_ok md n -> i < n -> cast_entry (nth i (md_list md n) md_none) = entry_view md i.
Proof.
  intros Hok Hi. destruct md as [l|]; simpl in *.
  - subst n. destruct (nth_error l i) as [m|] eqn:E.
    + rewrite (nth_error_nth _ _ _ E). reflexivity.
    + apply nth_error_None in E. lia.
  - rewrite nth_repeat. reflexivity.
Qed.

(* ---------------------------------------------------------------- orientation *)
Lemma wf_flip t : wf t -> wf (flip t).
Proof.
  unfold wf, flip, nobs, nsamp; simpl. intros (H1 & H2 & H3 & H4 & H5 & H6).
  repeat split; try assumption.
  - apply transpose_length.
  - rewrite <- H1. apply transpose_rect.
Qed.

Lemma flip_flip t : wf t -> flip (flip t) = t.
Proof.
  intros (H1 & H2 & _). destruct t as [o s m om sm ty]. unfold flip, nobs, nsamp in *; simpl in *.
  f_equal. rewrite <- H1. apply transpose_involutive. exact H2.
Qed.

Lemma cell_flip t x y : wf t -> cell (flip t) x y = cell t y x.
Proof.
  intros W. unfold cell, flip; simpl.
  destruct (pos x (sids t)) as [j|] eqn:Ej; destruct (pos y (oids t)) as [i|] eqn:Ei; try reflexivity.
  f_equal. apply get_transpose. apply pos_Some in Ej. unfold nsamp. tauto.
Qed.

Lemma wf_orient a t : wf t -> wf (orient a t).
Proof. destruct a; simpl; [trivial|apply wf_flip]. Qed.

Lemma orient_orient a t : wf t -> orient a (orient a t) = t.
Proof. destruct a; simpl; [reflexivity|apply flip_flip]. Qed.

Lemma cell_orient a t x y : wf t -> cell (orient a t) x y = cellx a t x y.
Proof. destruct a; simpl; [reflexivity|apply cell_flip]. Qed.

Lemma cellx_orient a t x y : wf t -> cellx a (orient a t) x y = cell t x y.
Proof. destruct a; simpl; [reflexivity|]. intros W. apply cell_flip. exact W. Qed.

Lemma oids_orient a t : oids (orient a t) = ids a t.
Proof. destruct a; reflexivity. Qed.
Lemma sids_orient a t : sids (orient a t) = ids (other a) t.
Proof. destruct a; reflexivity. Qed.
Lemma omd_orient a t : omd (orient a t) = mds a t.
Proof. destruct a; reflexivity. Qed.
Lemma smd_orient a t : smd (orient a t) = mds (other a) t.
Proof. destruct a; reflexivity. Qed.
Lemma ttype_orient a t : ttype (orient a t) = ttype t.
Proof. destruct a; reflexivity. Qed.
Lemma ids_orient_back a t : ids a (orient a t) = oids t.
Proof. destruct a; reflexivity. Qed.
Lemma ids_other_orient_back a t : ids (other a) (orient a t) = sids t.
Proof. destruct a; reflexivity. Qed.
Lemma mds_orient_back a t : mds a (orient a t) = omd t.
Proof. destruct a; reflexivity. Qed.
Lemma mds_other_orient_back a t : mds (other a) (orient a t) = smd t.
Proof. destruct a; reflexivity. Qed.

Lemma md_view_orient a t x : md_view Obs (orient a t) x = md_view a t x.
Proof. rewrite !md_view_entry. simpl. rewrite oids_orient, omd_orient. reflexivity. Qed.
Lemma md_view_orient_other a t y : md_view Samp (orient a t) y = md_view (other a) t y.
Proof. rewrite !md_view_entry. simpl. rewrite sids_orient, smd_orient. reflexivity. Qed.
Lemma md_view_orient_back a t x : md_view a (orient a t) x = md_view Obs t x.
Proof. rewrite !md_view_entry. rewrite ids_orient_back, mds_orient_back. reflexivity. Qed.
Lemma md_view_orient_back_other a t y : md_view (other a) (orient a t) y = md_view Samp t y.
Proof. rewrite !md_view_entry. rewrite ids_other_orient_back, mds_other_orient_back. reflexivity. Qed.

(* ---------------------------------------------------------------- sums *)
Lemma zsum_map_add {A} (f g : A -> Z) l :
  zsum (map (fun x => (f x + g x)%Z) l) = (zsum (map f l) + zsum (map g l))%Z.
Proof. induction l as [|x l IH]; simpl; [reflexivity|]. rewrite IH. lia. Qed.

Lemma zsum_nth_seq r : zsum (map (fun j => nth j r 0%Z) (seq 0 (length r))) = zsum r.
Proof.
  induction r as [|x r IH]; simpl; [reflexivity|]. f_equal.
  rewrite <- seq_shift, map_map. exact IH.
Qed.

Lemma zsum_perm a b : Permutation a b -> zsum a = zsum b.
Proof. induction 1; simpl; lia. Qed.

Lemma msum_transpose c m : rect c m -> msum (transpose c m) = msum m.
Proof.
  unfold msum, transpose. rewrite map_map. induction m as [|r m IH]; intros R.
  - simpl. induction (seq 0 c) as [|j l IHl]; simpl; [reflexivity|exact IHl].
  - inversion R as [|? ? Hr R']; subst. simpl.
    rewrite (zsum_map_add (fun j => nth j r 0%Z) (fun j => zsum (mcol m j))).
    rewrite zsum_nth_seq. rewrite IH by exact R'. reflexivity.
Qed.

Lemma msum_flip t : wf t -> msum (mat (flip t)) = msum (mat t).
Proof. intros (_ & H2 & _). simpl. apply msum_transpose. exact H2. Qed.

Lemma msum_orient a t : wf t -> msum (mat (orient a t)) = msum (mat t).
Proof. destruct a; simpl; [reflexivity|apply msum_flip]. Qed.

Lemma msum_app a b : msum (a ++ b) = (msum a + msum b)%Z.
Proof. unfold msum. rewrite map_app, zsum_app. reflexivity. Qed.
