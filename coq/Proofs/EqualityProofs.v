(* Proofs for C16: segment-level facts about the scipy conversions used by the read accessors
   (eliminate_zeros, sort_indices, tocsr/tocsc), the count of true non-zeros, and the
   characterisation of Table.__eq__ by content for every pair of representations. *)
From Coq Require Import List Arith ZArith Lia Bool Permutation.
From BiomV Require Import Base.Tree Base.ListUtil Base.Matrix Model.Table Model.Sparse Model.Equality.
Import ListNotations.

(* ================================================================== generic list facts *)
Lemma list_eqb_spec {A} (eqb : A -> A -> bool) :
  (forall x y, eqb x y = true <-> x = y) -> forall a b, list_eqb eqb a b = true <-> a = b.
Proof.
  intros H. induction a as [|x a IH]; intros [|y b]; simpl; split; intros E;
    try reflexivity; try discriminate.
  - apply andb_true_iff in E. destruct E as [E1 E2]. apply H in E1. apply IH in E2. congruence.
  - inversion E; subst. apply andb_true_iff. split; [apply H; reflexivity|apply IH; reflexivity].
Qed.

Lemma md_eqb_eq a b : md_eqb a b = true <-> a = b.
Proof.
  destruct a as [x|], b as [y|]; simpl; try (split; [discriminate|discriminate]);
    try (split; reflexivity).
  rewrite (list_eqb_spec tree_eqb tree_eqb_eq). split; congruence.
Qed.

Lemma nsum_map_ext {A} (f g : A -> nat) l : (forall x, In x l -> f x = g x) -> nsum (map f l) = nsum (map g l).
Proof.
  induction l as [|x l IH]; simpl; intros H; [reflexivity|].
  rewrite H by (left; reflexivity). rewrite IH; [reflexivity|]. intros y Hy. apply H. right. exact Hy.
Qed.

Lemma nsum_map_add {A} (f g : A -> nat) l : nsum (map (fun x => f x + g x) l) = nsum (map f l) + nsum (map g l).
Proof. induction l as [|x l IH]; simpl; [reflexivity|]. rewrite IH. lia. Qed.

(* ================================================================== count_nz *)
Definition b1 (v : Z) : nat := if nzb v then 1 else 0.

Lemma count_nz_cons v l : count_nz (v :: l) = b1 v + count_nz l.
Proof. unfold count_nz, b1, nzb. simpl. destruct (negb (v =? 0)%Z); reflexivity. Qed.

Lemma count_nz_app a b : count_nz (a ++ b) = count_nz a + count_nz b.
Proof. unfold count_nz. rewrite filter_app, app_length. reflexivity. Qed.

Lemma count_nz_nil : count_nz [] = 0. Proof. reflexivity. Qed.

Lemma count_nz_upd l k v : k < length l ->
  count_nz (upd l k v) + b1 (nth k l 0%Z) = count_nz l + b1 v.
Proof.
  intros Hk. unfold upd.
  assert (E : skipn k l = nth k l 0%Z :: skipn (S k) l).
  { clear v. revert k Hk. induction l as [|x l IH]; intros k Hk; simpl in Hk; [lia|].
    destruct k as [|k]; [reflexivity|]. simpl. apply IH. lia. }
  rewrite E.
  replace (count_nz l) with (count_nz (firstn k l ++ nth k l 0%Z :: skipn (S k) l))
    by (rewrite <- E, firstn_skipn; reflexivity).
  rewrite !count_nz_app, !count_nz_cons. lia.
Qed.

(* count of the non-zero cells by columns = by rows *)
Lemma count_nz_as_sum row c : length row = c ->
  count_nz row = nsum (map (fun j => b1 (nth j row 0%Z)) (seq 0 c)).
Proof.
  revert c. induction row as [|x row IH] using rev_ind; intros c Hc.
  - simpl in Hc. subst. reflexivity.
  - rewrite app_length in Hc. simpl in Hc. destruct c as [|c]; [lia|].
    assert (Hl : length row = c) by lia.
    rewrite count_nz_app, count_nz_cons, count_nz_nil.
    rewrite seq_S, map_app, nsum_app. simpl.
    rewrite app_nth2 by lia. rewrite Hl, Nat.sub_diag. simpl.
    rewrite (IH c Hl).
    rewrite (nsum_map_ext (fun j => b1 (nth j (row ++ [x]) 0%Z)) (fun j => b1 (nth j row 0%Z))); [lia|].
    intros j Hj. apply in_seq in Hj. rewrite app_nth1 by lia. reflexivity.
Qed.

Lemma count_nonzero_cons r m : count_nonzero (r :: m) = count_nz r + count_nonzero m.
Proof. reflexivity. Qed.

Lemma mcol_cons r m j : mcol (r :: m) j = nth j r 0%Z :: mcol m j.
Proof. reflexivity. Qed.

Lemma count_nonzero_transpose c m : rect c m -> count_nonzero (transpose c m) = count_nonzero m.
Proof.
  intros R. induction m as [|r m IH].
  - unfold transpose, count_nonzero. rewrite map_map. simpl.
    induction (seq 0 c) as [|x l IHl]; simpl; [reflexivity|exact IHl].
  - inversion R as [|? ? Hr R']; subst.
    rewrite count_nonzero_cons, <- (IH R').
    unfold transpose, count_nonzero. rewrite !map_map.
    rewrite (nsum_map_ext (fun j => count_nz (mcol (r :: m) j))
                          (fun j => b1 (nth j r 0%Z) + count_nz (mcol m j))).
    + rewrite nsum_map_add. f_equal. symmetry. apply count_nz_as_sum. reflexivity.
    + intros j _. rewrite mcol_cons, count_nz_cons. reflexivity.
Qed.

(* ================================================================== lookup in a segment *)
Lemma lookup_cons k v t j : lookup j ((k, v) :: t) = if Nat.eqb k j then v else lookup j t.
Proof. unfold lookup. simpl. destruct (Nat.eqb k j); reflexivity. Qed.

Lemma find_idx_notin j s : ~ In j (map fst s) -> find_idx j s = None.
Proof.
  induction s as [|[k v] t IH]; simpl; intros H; [reflexivity|].
  destruct (Nat.eqb k j) eqn:E.
  - apply Nat.eqb_eq in E. exfalso. apply H. left. exact E.
  - apply IH. intros Hin. apply H. right. exact Hin.
Qed.

Lemma lookup_notin j s : ~ In j (map fst s) -> lookup j s = 0%Z.
Proof. intros H. unfold lookup. rewrite find_idx_notin by exact H. reflexivity. Qed.

Lemma find_idx_app j a b :
  find_idx j (a ++ b) = match find_idx j a with Some v => Some v | None => find_idx j b end.
Proof.
  induction a as [|[k v] a IH]; simpl; [reflexivity|]. destruct (Nat.eqb k j); [reflexivity|exact IH].
Qed.

Lemma nth_row_of_seg mn s i : i < mn -> nth i (row_of_seg mn s) 0%Z = lookup i s.
Proof.
  intros Hi. unfold row_of_seg.
  rewrite (nth_indep _ 0%Z (lookup 0 s)) by (rewrite map_length, seq_length; exact Hi).
  rewrite (map_nth (fun j => lookup j s)). rewrite seq_nth by exact Hi. reflexivity.
Qed.

Lemma row_of_seg_length mn s : length (row_of_seg mn s) = mn.
Proof. unfold row_of_seg. rewrite map_length, seq_length. reflexivity. Qed.

Lemma dense_of_segs_length mn ss : length (dense_of_segs mn ss) = length ss.
Proof. apply map_length. Qed.

Lemma dense_of_segs_rect mn ss : rect mn (dense_of_segs mn ss).
Proof.
  apply Forall_forall. intros r Hr. apply in_map_iff in Hr. destruct Hr as [s [Hs _]]. subst.
  apply row_of_seg_length.
Qed.

Lemma get_dense_of_segs mn ss i j : i < length ss -> j < mn ->
  get (dense_of_segs mn ss) i j = lookup j (nth i ss []).
Proof.
  intros Hi Hj. unfold get, dense_of_segs.
  rewrite (nth_indep _ [] (row_of_seg mn [])) by (rewrite map_length; exact Hi).
  rewrite (map_nth (row_of_seg mn)). apply nth_row_of_seg. exact Hj.
Qed.

Lemma row_of_seg_ext mn s s' : (forall j, j < mn -> lookup j s = lookup j s') -> row_of_seg mn s = row_of_seg mn s'.
Proof.
  intros H. unfold row_of_seg. apply map_ext_in. intros j Hj. apply in_seq in Hj. apply H. lia.
Qed.

(* ================================================================== eliminate_zeros *)
Lemma NoDup_map_fst_filter (p : entry -> bool) s : NoDup (map fst s) -> NoDup (map fst (filter p s)).
Proof.
  induction s as [|e t IH]; simpl; intros H; [constructor|].
  inversion H as [|? ? Hn Hd]; subst. destruct (p e); simpl.
  - constructor; [|apply IH; exact Hd]. intros Hin. apply Hn.
    apply in_map_iff in Hin. destruct Hin as [x [Hx Hf]]. apply filter_In in Hf.
    apply in_map_iff. exists x. tauto.
  - apply IH. exact Hd.
Qed.

Lemma Forall_filter {A} (P : A -> Prop) (p : A -> bool) l : Forall P l -> Forall P (filter p l).
Proof.
  rewrite !Forall_forall. intros H x Hx. apply filter_In in Hx. apply H. tauto.
Qed.

Lemma seg_ok_elim mn s : seg_ok mn s -> seg_ok mn (elim_seg s).
Proof.
  intros [H1 H2]. split; [apply NoDup_map_fst_filter; exact H1|apply Forall_filter; exact H2].
Qed.

Lemma lookup_elim s j : NoDup (map fst s) -> lookup j (elim_seg s) = lookup j s.
Proof.
  induction s as [|[k v] t IH]; intros H; [reflexivity|].
  inversion H as [|? ? Hn Hd]; subst. simpl in Hn.
  unfold elim_seg in *. simpl. rewrite lookup_cons.
  destruct (nzb v) eqn:Ev.
  - rewrite lookup_cons. destruct (Nat.eqb k j); [reflexivity|apply IH; exact Hd].
  - rewrite (IH Hd). destruct (Nat.eqb k j) eqn:E; [|reflexivity].
    apply Nat.eqb_eq in E. subst j. rewrite lookup_notin by exact Hn.
    unfold nzb in Ev. apply negb_false_iff in Ev. apply Z.eqb_eq in Ev. symmetry. exact Ev.
Qed.

Lemma dense_elim mn ss : Forall (seg_ok mn) ss ->
  dense_of_segs mn (map elim_seg ss) = dense_of_segs mn ss.
Proof.
  intros F. unfold dense_of_segs. rewrite map_map. apply map_ext_in. intros s Hs.
  rewrite Forall_forall in F. destruct (F s Hs) as [Hn _].
  apply row_of_seg_ext. intros j _. apply lookup_elim. exact Hn.
Qed.

(* ================================================================== sort_indices *)
Lemma insert_entry_perm e s : Permutation (insert_entry e s) (e :: s).
Proof.
  induction s as [|x t IH]; simpl; [apply Permutation_refl|].
  destruct (Nat.leb (fst e) (fst x)); [apply Permutation_refl|].
  eapply Permutation_trans; [apply perm_skip; exact IH|apply perm_swap].
Qed.

Lemma sort_seg_perm s : Permutation (sort_seg s) s.
Proof.
  induction s as [|e t IH]; simpl; [constructor|].
  eapply Permutation_trans; [apply insert_entry_perm|apply perm_skip; exact IH].
Qed.

Lemma seg_ok_perm mn s s' : Permutation s s' -> seg_ok mn s' -> seg_ok mn s.
Proof.
  intros P [H1 H2]. split.
  - eapply Permutation_NoDup; [|exact H1]. apply Permutation_map. apply Permutation_sym. exact P.
  - eapply Permutation_Forall; [|exact H2]. apply Permutation_sym. exact P.
Qed.

Lemma lookup_insert e s j : ~ In (fst e) (map fst s) ->
  lookup j (insert_entry e s) = if Nat.eqb (fst e) j then snd e else lookup j s.
Proof.
  destruct e as [k v]. simpl. induction s as [|[k' v'] t IH]; intros Hn; simpl.
  - rewrite lookup_cons. reflexivity.
  - simpl in Hn. destruct (Nat.leb k k').
    + rewrite lookup_cons. reflexivity.
    + rewrite !lookup_cons. destruct (Nat.eqb k' j) eqn:E1.
      * destruct (Nat.eqb k j) eqn:E2; [|reflexivity].
        apply Nat.eqb_eq in E1. apply Nat.eqb_eq in E2. exfalso. apply Hn. left. lia.
      * apply IH. intros Hin. apply Hn. right. exact Hin.
Qed.

Lemma lookup_sort s j : NoDup (map fst s) -> lookup j (sort_seg s) = lookup j s.
Proof.
  induction s as [|[k v] t IH]; intros H; [reflexivity|].
  inversion H as [|? ? Hn Hd]; subst. simpl.
  rewrite lookup_insert.
  - simpl. rewrite lookup_cons, (IH Hd). reflexivity.
  - simpl. intros Hin. apply Hn.
    eapply Permutation_in; [apply Permutation_map; apply sort_seg_perm|exact Hin].
Qed.

Lemma seg_ok_sort mn s : seg_ok mn s -> seg_ok mn (sort_seg s).
Proof. apply seg_ok_perm. apply sort_seg_perm. Qed.

Lemma dense_sort mn ss : Forall (seg_ok mn) ss ->
  dense_of_segs mn (map sort_seg ss) = dense_of_segs mn ss.
Proof.
  intros F. unfold dense_of_segs. rewrite map_map. apply map_ext_in. intros s Hs.
  rewrite Forall_forall in F. destruct (F s Hs) as [Hn _].
  apply row_of_seg_ext. intros j _. apply lookup_sort. exact Hn.
Qed.

(* ================================================================== tocsr / tocsc *)
Lemma find_idx_tag x i c s : find_idx x (tag i c s) = if Nat.eqb i x then find_idx c s else None.
Proof.
  unfold tag. induction s as [|[k v] t IH]; simpl.
  - destruct (Nat.eqb i x); reflexivity.
  - destruct (Nat.eqb k c) eqn:E; simpl.
    + destruct (Nat.eqb i x); [reflexivity|exact IH].
    + exact IH.
Qed.

Lemma find_idx_bucket_low base c ss x : x < base -> find_idx x (bucket_from base c ss) = None.
Proof.
  revert base. induction ss as [|s t IH]; intros base Hx; simpl; [reflexivity|].
  rewrite find_idx_app, find_idx_tag.
  destruct (Nat.eqb base x) eqn:E; [apply Nat.eqb_eq in E; lia|]. apply IH. lia.
Qed.

Lemma find_idx_bucket base c ss i : i < length ss ->
  find_idx (base + i) (bucket_from base c ss) = find_idx c (nth i ss []).
Proof.
  revert base i. induction ss as [|s t IH]; intros base i Hi; simpl in Hi; [lia|].
  simpl. rewrite find_idx_app, find_idx_tag. destruct i as [|i].
  - rewrite Nat.add_0_r, Nat.eqb_refl. destruct (find_idx c s) eqn:E; [reflexivity|].
    apply find_idx_bucket_low. lia.
  - destruct (Nat.eqb base (base + S i)) eqn:E; [apply Nat.eqb_eq in E; lia|].
    replace (base + S i) with (S base + i) by lia. apply IH. lia.
Qed.

Lemma lookup_bucket c ss i : i < length ss -> lookup i (bucket c ss) = lookup c (nth i ss []).
Proof.
  intros Hi. unfold lookup, bucket. rewrite <- (find_idx_bucket 0 c ss i Hi). reflexivity.
Qed.

Lemma swap_segs_length mn ss : length (swap_segs mn ss) = mn.
Proof. unfold swap_segs. rewrite map_length, seq_length. reflexivity. Qed.

Lemma nth_swap_segs mn ss c : c < mn -> nth c (swap_segs mn ss) [] = bucket c ss.
Proof.
  intros Hc. unfold swap_segs.
  rewrite (nth_indep _ [] (bucket 0 ss)) by (rewrite map_length, seq_length; exact Hc).
  rewrite (map_nth (fun c => bucket c ss)). rewrite seq_nth by exact Hc. reflexivity.
Qed.

Theorem dense_swap mn ss :
  dense_of_segs (length ss) (swap_segs mn ss) = transpose mn (dense_of_segs mn ss).
Proof.
  apply (mat_ext (length ss)).
  - rewrite dense_of_segs_length, swap_segs_length, transpose_length. reflexivity.
  - apply dense_of_segs_rect.
  - pose proof (transpose_rect mn (dense_of_segs mn ss)) as R.
    rewrite dense_of_segs_length in R. exact R.
  - intros c i Hc Hi. rewrite dense_of_segs_length, swap_segs_length in Hc.
    rewrite get_dense_of_segs by (try rewrite swap_segs_length; assumption).
    rewrite nth_swap_segs by exact Hc. rewrite lookup_bucket by exact Hi.
    rewrite get_transpose by exact Hc. rewrite get_dense_of_segs by assumption. reflexivity.
Qed.

Lemma filter_idx_nil c (s : segment) : ~ In c (map fst s) -> filter (fun e : entry => Nat.eqb (fst e) c) s = [].
Proof.
  induction s as [|[k v] t IH]; intros Hn; [reflexivity|]. simpl in *.
  destruct (Nat.eqb k c) eqn:E.
  - apply Nat.eqb_eq in E. exfalso. apply Hn. left. exact E.
  - apply IH. intros Hin. apply Hn. right. exact Hin.
Qed.

Lemma filter_idx_le1 c (s : segment) : NoDup (map fst s) ->
  length (filter (fun e : entry => Nat.eqb (fst e) c) s) <= 1.
Proof.
  induction s as [|[k v] t IH]; simpl; intros H; [lia|].
  inversion H as [|? ? Hn Hd]; subst. destruct (Nat.eqb k c) eqn:E; [|apply IH; exact Hd].
  apply Nat.eqb_eq in E. subst k. rewrite (filter_idx_nil c t Hn). simpl. lia.
Qed.

Lemma map_fst_tag i c s : map fst (tag i c s) = repeat i (length (filter (fun e : entry => Nat.eqb (fst e) c) s)).
Proof.
  unfold tag, entry. generalize (filter (fun e : nat * Z => Nat.eqb (fst e) c) s). intros l.
  induction l as [|e l IH]; simpl; [reflexivity|]. rewrite IH. reflexivity.
Qed.

Lemma bucket_tags base c ss x : In x (map fst (bucket_from base c ss)) -> base <= x < base + length ss.
Proof.
  revert base. induction ss as [|s t IH]; intros base Hin; simpl in Hin; [destruct Hin|].
  rewrite map_app, in_app_iff in Hin. destruct Hin as [Hin|Hin].
  - rewrite map_fst_tag in Hin. apply repeat_spec in Hin. subst. simpl. lia.
  - apply IH in Hin. simpl. lia.
Qed.

Lemma bucket_nodup base c ss : Forall (fun s => NoDup (map fst s)) ss ->
  NoDup (map fst (bucket_from base c ss)).
Proof.
  revert base. induction ss as [|s t IH]; intros base F; simpl; [constructor|].
  inversion F as [|? ? Hs Ft]; subst. rewrite map_app, map_fst_tag.
  pose proof (filter_idx_le1 c s Hs) as Hle.
  destruct (length (filter (fun e : entry => Nat.eqb (fst e) c) s)) as [|[|n]]; simpl; try lia.
  - apply IH. exact Ft.
  - constructor; [|apply IH; exact Ft]. intros Hin. apply bucket_tags in Hin. lia.
Qed.

Lemma seg_ok_swap mn ss : Forall (seg_ok mn) ss -> Forall (seg_ok (length ss)) (swap_segs mn ss).
Proof.
  intros F. apply Forall_forall. intros b Hb. unfold swap_segs in Hb.
  apply in_map_iff in Hb. destruct Hb as [c [Hc _]]. subst b. unfold bucket. split.
  - apply bucket_nodup. eapply Forall_impl; [|exact F]. intros s [H _]. exact H.
  - apply Forall_forall. intros e He.
    assert (Hin : In (fst e) (map fst (bucket_from 0 c ss))) by (apply in_map; exact He).
    apply bucket_tags in Hin. lia.
Qed.

(* ================================================================== stored non-zeros = true non-zeros *)
Definition cnt (s : segment) : nat := length (filter nzb (map snd s)).

Lemma row_of_seg_cons mn k v t : k < mn ->
  row_of_seg mn ((k, v) :: t) = upd (row_of_seg mn t) k v.
Proof.
  intros Hk. apply list_ext_Z.
  - rewrite upd_length, !row_of_seg_length. reflexivity.
  - intros i Hi. rewrite row_of_seg_length in Hi. rewrite nth_row_of_seg by exact Hi.
    rewrite lookup_cons. destruct (Nat.eqb k i) eqn:E.
    + apply Nat.eqb_eq in E. subst i. rewrite nth_upd_eq by (rewrite row_of_seg_length; exact Hk). reflexivity.
    + apply Nat.eqb_neq in E. rewrite nth_upd_neq by exact E. rewrite nth_row_of_seg by exact Hi. reflexivity.
Qed.

Lemma count_row_of_seg mn s : seg_ok mn s -> count_nz (row_of_seg mn s) = cnt s.
Proof.
  induction s as [|[k v] t IH]; intros [Hn Hf].
  - unfold row_of_seg, cnt. simpl. induction (seq 0 mn) as [|x l IHl]; [reflexivity|].
    simpl. rewrite count_nz_cons. unfold b1, lookup. simpl. exact IHl.
  - inversion Hn as [|? ? Hk Hd]; subst. inversion Hf as [|? ? Hlt Hft]; subst. simpl in Hlt, Hk.
    rewrite row_of_seg_cons by exact Hlt.
    pose proof (count_nz_upd (row_of_seg mn t) k v) as U.
    rewrite row_of_seg_length in U. specialize (U Hlt).
    rewrite nth_row_of_seg in U by exact Hlt. rewrite lookup_notin in U by exact Hk.
    rewrite (IH (conj Hd Hft)) in U. unfold cnt in *. simpl. unfold b1 in U. simpl in U.
    destruct (nzb v); simpl; lia.
Qed.

Lemma stored_count ss : length (filter nzb (map snd (concat ss))) = nsum (map cnt ss).
Proof.
  induction ss as [|s t IH]; [reflexivity|]. simpl.
  rewrite map_app, filter_app, app_length, IH. reflexivity.
Qed.

Lemma count_nonzero_dense mn ss : Forall (seg_ok mn) ss ->
  count_nonzero (dense_of_segs mn ss) = length (filter nzb (map snd (concat ss))).
Proof.
  intros F. rewrite stored_count. unfold count_nonzero, dense_of_segs. rewrite map_map.
  apply nsum_map_ext. intros s Hs. rewrite Forall_forall in F. apply count_row_of_seg. apply F. exact Hs.
Qed.

(* ================================================================== representation level *)
Lemma seg_okb_ok mn s : seg_okb mn s = true <-> seg_ok mn s.
Proof.
  unfold seg_okb, seg_ok. rewrite andb_true_iff, negb_true_iff, forallb_forall, Forall_forall.
  assert (N : forall l, ndup l = false <-> NoDup l).
  { induction l as [|x t IH]; simpl.
    - split; [constructor|reflexivity].
    - rewrite orb_false_iff. split.
      + intros [A B]. constructor; [|apply IH; exact B]. intros Hin.
        assert (nmem x t = true); [|congruence]. unfold nmem. apply existsb_exists.
        exists x. split; [exact Hin|apply Nat.eqb_refl].
      + intros H. inversion H as [|? ? Hn Hd]; subst. split; [|apply IH; exact Hd].
        destruct (nmem x t) eqn:E; [|reflexivity]. unfold nmem in E. apply existsb_exists in E.
        destruct E as [y [Hy He]]. apply Nat.eqb_eq in He. subst. contradiction. }
  rewrite N. split; intros [A B]; (split; [exact A|]); intros e He; specialize (B e He);
    [apply Nat.ltb_lt in B|apply Nat.ltb_lt]; exact B.
Qed.

Lemma wf_repb_wf r : wf_repb r = true <-> wf_rep r.
Proof.
  unfold wf_repb, wf_rep. rewrite forallb_forall, Forall_forall.
  split; intros H s Hs; apply seg_okb_ok; apply H; exact Hs.
Qed.

Lemma coherentb_coherent s : coherentb s = true <-> coherent s.
Proof.
  unfold coherentb, coherent. rewrite !andb_true_iff, wfb_wf, wf_repb_wf, mat_eqb_eq, !Nat.eqb_eq, Z.eqb_eq.
  tauto.
Qed.

(* what a conversion must keep *)
Definition same_denotation (r r' : repr) : Prop :=
  wf_rep r' /\ rep_matrix r' = rep_matrix r /\ rep_rows r' = rep_rows r /\ rep_cols r' = rep_cols r.

Lemma tocsr_same r : wf_rep r -> same_denotation r (r_tocsr r).
Proof.
  intros W. unfold same_denotation, r_tocsr, rep_matrix, rep_rows, rep_cols, wf_rep in *.
  destruct r as [f mn ss]; destruct f; simpl in *.
  - tauto.
  - split; [apply seg_ok_swap; exact W|]. split; [apply dense_swap|].
    split; [apply swap_segs_length|reflexivity].
Qed.

Lemma tocsc_same r : wf_rep r -> same_denotation r (r_tocsc r).
Proof.
  intros W. unfold same_denotation, r_tocsc, rep_matrix, rep_rows, rep_cols, wf_rep in *.
  destruct r as [f mn ss]; destruct f; simpl in *.
  - split; [apply seg_ok_swap; exact W|]. split.
    + rewrite dense_swap. rewrite <- (dense_of_segs_length mn ss) at 1.
      apply transpose_involutive. apply dense_of_segs_rect.
    + split; [reflexivity|apply swap_segs_length].
  - tauto.
Qed.

Lemma Forall_map_seg (f : segment -> segment) mn ss :
  (forall s, seg_ok mn s -> seg_ok mn (f s)) -> Forall (seg_ok mn) ss -> Forall (seg_ok mn) (map f ss).
Proof.
  intros H F. apply Forall_forall. intros s Hs. apply in_map_iff in Hs. destruct Hs as [x [Hx Hin]]. subst.
  apply H. rewrite Forall_forall in F. apply F. exact Hin.
Qed.

Lemma elim_same r : wf_rep r -> same_denotation r (r_elim r).
Proof.
  intros W. unfold same_denotation, r_elim, rep_matrix, rep_rows, rep_cols, wf_rep in *.
  destruct r as [f mn ss]; simpl in *.
  split; [apply Forall_map_seg; [apply seg_ok_elim|exact W]|].
  rewrite (dense_elim mn ss W), map_length. destruct f; tauto.
Qed.

Lemma sort_same r : wf_rep r -> same_denotation r (r_sort r).
Proof.
  intros W. unfold same_denotation, r_sort, rep_matrix, rep_rows, rep_cols, wf_rep in *.
  destruct r as [f mn ss]; simpl in *.
  split; [apply Forall_map_seg; [apply seg_ok_sort|exact W]|].
  rewrite (dense_sort mn ss W), map_length. destruct f; tauto.
Qed.

Lemma same_refl r : wf_rep r -> same_denotation r r.
Proof. unfold same_denotation. tauto. Qed.

Lemma same_trans r1 r2 r3 : same_denotation r1 r2 -> same_denotation r2 r3 -> same_denotation r1 r3.
Proof. unfold same_denotation. intros (A & B & C & D) (A' & B' & C' & D'). repeat split; congruence. Qed.

Lemma coherent_with_rep s r : coherent s -> same_denotation (rep s) r -> coherent (with_rep s r).
Proof.
  unfold coherent, same_denotation, with_rep. simpl.
  intros (A & B & C & D & E & F) (A' & B' & C' & D').
  split; [exact A|]. split; [exact A'|]. split; [congruence|]. split; [congruence|]. split; [congruence|exact F].
Qed.

(* the count compared by _data_equality is the number of non-zero cells of the table matrix *)
Lemma count_nonzero_rep r : wf_rep r -> r_count_nonzero r = count_nonzero (rep_matrix r).
Proof.
  intros W. unfold r_count_nonzero, stored, rep_matrix, wf_rep in *. destruct r as [f mn ss]; simpl in *.
  rewrite <- (count_nonzero_dense mn ss W). destruct f; [reflexivity|].
  symmetry. apply count_nonzero_transpose. apply dense_of_segs_rect.
Qed.

(* ================================================================== accessors *)
Theorem access_coherent a s : coherent s -> coherent (access a s) /\ cont (access a s) = cont s.
Proof.
  intros C. assert (W : wf_rep (rep s)) by (destruct C; tauto).
  destruct a; simpl.
  - split; [apply coherent_with_rep; [exact C|apply elim_same; exact W]|reflexivity].
  - split; [apply coherent_with_rep; [exact C|apply tocsr_same; exact W]|reflexivity].
  - split; [apply coherent_with_rep; [exact C|apply tocsc_same; exact W]|reflexivity].
  - destruct (Nat.eqb (rep_rows (rep s)) 0); [tauto|].
    split; [apply coherent_with_rep; [exact C|apply tocsr_same; exact W]|reflexivity].
  - destruct (Nat.eqb (rep_cols (rep s)) 0); [tauto|].
    split; [apply coherent_with_rep; [exact C|apply tocsc_same; exact W]|reflexivity].
  - tauto.
  - tauto.
  - split; [|reflexivity]. apply coherent_with_rep; [exact C|].
    pose proof (elim_same _ W) as S1. assert (W1 : wf_rep (r_elim (rep s))) by (destruct S1; assumption).
    pose proof (tocsr_same _ W1) as S2. assert (W2 : wf_rep (r_tocsr (r_elim (rep s)))) by (destruct S2; assumption).
    exact (same_trans _ _ _ (same_trans _ _ _ S1 S2) (tocsc_same _ W2)).
  - assert (H1 : coherent (if Nat.eqb (rep_rows (rep s)) 0 then s else with_rep s (r_tocsr (rep s))) /\
                 cont (if Nat.eqb (rep_rows (rep s)) 0 then s else with_rep s (r_tocsr (rep s))) = cont s).
    { destruct (Nat.eqb (rep_rows (rep s)) 0); [tauto|].
      split; [apply coherent_with_rep; [exact C|apply tocsr_same; exact W]|reflexivity]. }
    destruct H1 as [C1 E1]. set (s1 := if Nat.eqb (rep_rows (rep s)) 0 then s else with_rep s (r_tocsr (rep s))) in *.
    assert (W1 : wf_rep (rep s1)) by (destruct C1; tauto).
    destruct (Nat.eqb (rep_cols (rep s1)) 0); [tauto|].
    split; [apply coherent_with_rep; [exact C1|apply tocsc_same; exact W1]|exact E1].
Qed.

Theorem copy_coherent s : coherent s -> coherent (copy_state s) /\ cont (copy_state s) = cont s.
Proof.
  intros C. assert (W : wf_rep (rep s)) by (destruct C; tauto).
  split; [|reflexivity].
  pose proof (tocsr_same (rep s) W) as S1.
  assert (W1 : wf_rep (r_tocsr (rep s))) by (destruct S1; assumption).
  pose proof (same_trans _ _ _ S1 (elim_same _ W1)) as S2.
  destruct C as (A & B & C & D & E & F). destruct S2 as (A' & B' & C' & D').
  unfold coherent, copy_state. simpl.
  split; [exact A|]. split; [exact A'|]. split; [congruence|]. split; [congruence|]. split; [congruence|reflexivity].
Qed.

(* nnz returns the number of non-zero cells *)
Lemma filter_nz_elim s : filter nzb (map snd (elim_seg s)) = map snd (elim_seg s).
Proof.
  unfold elim_seg. induction s as [|[k v] s IH]; [reflexivity|]. simpl.
  destruct (nzb v) eqn:E; [|exact IH]. simpl. rewrite E, IH. reflexivity.
Qed.

Lemma stored_elim ss :
  filter nzb (map snd (concat (map elim_seg ss))) = map snd (concat (map elim_seg ss)).
Proof.
  induction ss as [|x t IH]; [reflexivity|].
  change (concat (map elim_seg (x :: t))) with (elim_seg x ++ concat (map elim_seg t)).
  rewrite map_app, filter_app. f_equal; [apply filter_nz_elim|exact IH].
Qed.

Theorem nnz_value_spec s : coherent s -> nnz_value s = count_nonzero (mat (cont s)).
Proof.
  intros C. assert (W : wf_rep (rep s)) by (destruct C; tauto).
  destruct (elim_same (rep s) W) as (W' & M & _).
  unfold nnz_value. destruct C as (_ & _ & C & _). rewrite <- C, <- M.
  rewrite <- (count_nonzero_rep _ W').
  unfold r_nnz, r_count_nonzero, stored, r_elim. simpl. rewrite stored_elim. reflexivity.
Qed.

(* ================================================================== equality *)
Lemma head_eqb_spec a b : head_eqb a b = true <->
  ttype a = ttype b /\ oids a = oids b /\ sids a = sids b /\ omd a = omd b /\ smd a = smd b.
Proof.
  unfold head_eqb. rewrite !andb_true_iff, Z.eqb_eq, !list_eqb_Z_eq, !md_eqb_eq. tauto.
Qed.

Lemma table_eq_fields (a b : table) :
  a = b <-> (ttype a = ttype b /\ oids a = oids b /\ sids a = sids b /\ omd a = omd b /\ smd a = smd b)
            /\ mat a = mat b.
Proof.
  split; [intros ->; tauto|]. destruct a, b; simpl. intros [(A & B & C & D & E) F]. congruence.
Qed.

(* the data comparison, for tables of the same shape *)
Lemma data_eq_spec a b : coherent a -> coherent b ->
  nobs (cont a) = nobs (cont b) -> nsamp (cont a) = nsamp (cont b) ->
  let '(v, ra, rb) := data_eq a b in
  (v = true <-> mat (cont a) = mat (cont b)) /\ same_denotation (rep a) ra /\ same_denotation (rep b) rb.
Proof.
  intros Ca Cb Hr Hc.
  assert (Wa : wf_rep (rep a)) by (destruct Ca; tauto).
  assert (Wb : wf_rep (rep b)) by (destruct Cb; tauto).
  destruct Ca as (_ & _ & Ma & Ra & Ka & Da). destruct Cb as (_ & _ & Mb & Rb & Kb & Db).
  unfold data_eq, data_eq_gen.
  rewrite Ra, Rb, Ka, Kb, Hr, Hc, !Nat.eqb_refl. simpl.
  rewrite Da, Db, Z.eqb_refl. simpl.
  pose proof (sort_same _ Wa) as Sa. pose proof (sort_same _ Wb) as Sb.
  assert (Wa1 : wf_rep (r_sort (rep a))) by (destruct Sa; assumption).
  assert (Wb1 : wf_rep (r_sort (rep b))) by (destruct Sb; assumption).
  rewrite (count_nonzero_rep _ Wa1), (count_nonzero_rep _ Wb1).
  destruct Sa as (_ & Sa2 & Sa3 & Sa4). destruct Sb as (_ & Sb2 & Sb3 & Sb4).
  rewrite Sa2, Sb2, Ma, Mb.
  destruct (Nat.eqb (count_nonzero (mat (cont a))) (count_nonzero (mat (cont b)))) eqn:En; simpl.
  - pose proof (tocsr_same _ Wa1) as Ta. pose proof (tocsr_same _ Wb1) as Tb.
    destruct Ta as (Ta1 & Ta2 & Ta3 & Ta4). destruct Tb as (Tb1 & Tb2 & Tb3 & Tb4).
    rewrite Ta2, Tb2, Sa2, Sb2, Ma, Mb. split; [apply mat_eqb_eq|].
    split; unfold same_denotation; repeat split; try assumption; congruence.
  - split.
    + split; [discriminate|]. intros E. rewrite E, Nat.eqb_refl in En. discriminate.
    + split; unfold same_denotation; repeat split; try assumption; congruence.
Qed.

Lemma eq_step_spec a b : coherent a -> coherent b ->
  let '(v, a', b') := eq_step a b in
  (v = true <-> cont a = cont b) /\ coherent a' /\ coherent b' /\ cont a' = cont a /\ cont b' = cont b.
Proof.
  intros Ca Cb. unfold eq_step, eq_step_gen.
  destruct (head_eqb (cont a) (cont b)) eqn:H.
  - apply head_eqb_spec in H.
    assert (Hr : nobs (cont a) = nobs (cont b)) by (unfold nobs; destruct H as (_ & E & _); rewrite E; reflexivity).
    assert (Hc : nsamp (cont a) = nsamp (cont b)) by (unfold nsamp; destruct H as (_ & _ & E & _); rewrite E; reflexivity).
    pose proof (data_eq_spec a b Ca Cb Hr Hc) as D.
    destruct (data_eq a b) as [[v ra] rb]. destruct D as (D1 & D2 & D3).
    split; [rewrite table_eq_fields, D1; tauto|].
    split; [apply coherent_with_rep; assumption|]. split; [apply coherent_with_rep; assumption|].
    split; reflexivity.
  - split.
    + split; [discriminate|]. intros E. rewrite E in H.
      assert (head_eqb (cont b) (cont b) = true) by (apply head_eqb_spec; tauto). congruence.
    + tauto.
Qed.

Theorem eq_iff_content_lemma a b : coherent a -> coherent b -> (eq_impl a b = true <-> cont a = cont b).
Proof.
  intros Ca Cb. pose proof (eq_step_spec a b Ca Cb) as S. unfold eq_impl.
  destruct (eq_step a b) as [[v a'] b']. simpl. tauto.
Qed.

Lemma bool_iff (x y : bool) (P : Prop) : (x = true <-> P) -> (y = true <-> P) -> x = y.
Proof.
  intros [H1 H1'] [H2 H2']. destruct x, y; try reflexivity.
  - symmetry. apply H2'. apply H1. reflexivity.
  - apply H1'. apply H2. reflexivity.
Qed.

Lemma eq_impl_by_content a b a' b' :
  coherent a -> coherent b -> coherent a' -> coherent b' -> cont a' = cont a -> cont b' = cont b ->
  eq_impl a' b' = eq_impl a b.
Proof.
  intros Ca Cb Ca' Cb' Ea Eb.
  pose proof (eq_iff_content_lemma a b Ca Cb) as H1. pose proof (eq_iff_content_lemma a' b' Ca' Cb') as H2.
  rewrite Ea, Eb in H2. exact (bool_iff _ _ _ H2 H1).
Qed.

Theorem eq_refl_lemma a : coherent a -> eq_impl a a = true.
Proof. intros C. apply eq_iff_content_lemma; [exact C|exact C|reflexivity]. Qed.

Theorem eq_sym_lemma a b : coherent a -> coherent b -> eq_impl a b = eq_impl b a.
Proof.
  intros Ca Cb. pose proof (eq_iff_content_lemma a b Ca Cb) as H1. pose proof (eq_iff_content_lemma b a Cb Ca) as H2.
  apply (bool_iff _ _ (cont a = cont b)); [exact H1|]. split; [intros E; symmetry; apply H2; exact E|].
  intros E. apply H2. symmetry. exact E.
Qed.

Theorem eq_trans_lemma a b c : coherent a -> coherent b -> coherent c ->
  eq_impl a b = true -> eq_impl b c = true -> eq_impl a c = true.
Proof.
  intros Ca Cb Cc H1 H2. apply eq_iff_content_lemma in H1; [|assumption|assumption].
  apply eq_iff_content_lemma in H2; [|assumption|assumption].
  apply eq_iff_content_lemma; [assumption|assumption|congruence].
Qed.

Theorem copy_eq_lemma a : coherent a ->
  eq_impl a (copy_state a) = true /\ eq_impl (copy_state a) a = true /\ coherent (copy_state a).
Proof.
  intros C. destruct (copy_coherent a C) as [Cc Ec].
  split; [apply eq_iff_content_lemma; [exact C|exact Cc|symmetry; exact Ec]|].
  split; [apply eq_iff_content_lemma; [exact Cc|exact C|exact Ec]|exact Cc].
Qed.

Theorem ne_desc_lemma a b : coherent a -> coherent b ->
  ne_impl a b = negb (eq_impl a b) /\ (desc_impl a b = 0%Z <-> eq_impl a b = true).
Proof.
  intros Ca Cb. split; [reflexivity|].
  unfold desc_impl, eq_impl, eq_step, eq_step_gen, head_code, head_eqb.
  destruct (Z.eqb (ttype (cont a)) (ttype (cont b))); simpl; [|split; discriminate].
  destruct (list_eqb Z.eqb (oids (cont a)) (oids (cont b))); simpl; [|split; discriminate].
  destruct (list_eqb Z.eqb (sids (cont a)) (sids (cont b))); simpl; [|split; discriminate].
  destruct (md_eqb (omd (cont a)) (omd (cont b))); simpl; [|split; discriminate].
  destruct (md_eqb (smd (cont a)) (smd (cont b))); simpl; [|split; discriminate].
  destruct (data_eq a b) as [[v ra] rb]. simpl. destruct v; split; try reflexivity; discriminate.
Qed.

(* ================================================================== histories *)
Lemma wget_upd_eq w i s : i < length w -> wget (upd w i s) i = s.
Proof. intros H. unfold wget. apply nth_upd_eq. exact H. Qed.
Lemma wget_upd_neq w i j s : i <> j -> wget (upd w i s) j = wget w j.
Proof. intros H. unfold wget. apply nth_upd_neq. exact H. Qed.

Definition world_ok (w : world) : Prop := forall i, i < length w -> coherent (wget w i).

Lemma world_ok_upd w i s : world_ok w -> coherent s -> world_ok (upd w i s).
Proof.
  intros W C j Hj. rewrite upd_length in Hj. destruct (Nat.eq_dec i j) as [->|Hn].
  - rewrite wget_upd_eq by exact Hj. exact C.
  - rewrite wget_upd_neq by exact Hn. apply W. exact Hj.
Qed.

Lemma cont_upd w i s k : cont s = cont (wget w i) -> cont (wget (upd w i s) k) = cont (wget w k).
Proof.
  intros E. destruct (Nat.eq_dec i k) as [->|Hn].
  - destruct (Nat.lt_ge_cases k (length w)) as [H|H].
    + rewrite wget_upd_eq by exact H. exact E.
    + unfold wget. rewrite !nth_overflow; try reflexivity; try rewrite upd_length; exact H.
  - rewrite wget_upd_neq by exact Hn. reflexivity.
Qed.

Lemma step_inv w o : world_ok w ->
  world_ok (step w o) /\ length w <= length (step w o) /\
  forall k, k < length w -> cont (wget (step w o) k) = cont (wget w k).
Proof.
  intros W. destruct o as [i a|i j|i]; simpl.
  - destruct (Nat.ltb i (length w)) eqn:Hi; [|split; [exact W|split; [lia|intros; reflexivity]]].
    apply Nat.ltb_lt in Hi. destruct (access_coherent a (wget w i) (W i Hi)) as [C E].
    split; [apply world_ok_upd; assumption|]. split; [rewrite upd_length; lia|].
    intros k _. apply cont_upd. exact E.
  - destruct (Nat.ltb i (length w) && Nat.ltb j (length w)) eqn:Hij; [|split; [exact W|split; [lia|intros; reflexivity]]].
    apply andb_true_iff in Hij. destruct Hij as [Hi Hj]. apply Nat.ltb_lt in Hi. apply Nat.ltb_lt in Hj.
    pose proof (eq_step_spec (wget w i) (wget w j) (W i Hi) (W j Hj)) as S.
    destruct (eq_step (wget w i) (wget w j)) as [[v a'] b']. destruct S as (_ & Ca & Cb & Ea & Eb).
    destruct (Nat.eqb i j) eqn:Eij.
    + split; [apply world_ok_upd; assumption|]. split; [rewrite upd_length; lia|].
      intros k _. apply cont_upd. exact Ea.
    + apply Nat.eqb_neq in Eij.
      split; [apply world_ok_upd; [apply world_ok_upd|]; assumption|].
      split; [rewrite !upd_length; lia|].
      intros k _. rewrite cont_upd; [apply cont_upd; exact Eb|].
      rewrite wget_upd_neq by (intros X; apply Eij; symmetry; exact X). exact Ea.
  - destruct (Nat.ltb i (length w)) eqn:Hi; [|split; [exact W|split; [lia|intros; reflexivity]]].
    apply Nat.ltb_lt in Hi. destruct (copy_coherent (wget w i) (W i Hi)) as [C _].
    split.
    + intros k Hk. rewrite app_length in Hk. simpl in Hk. unfold wget.
      destruct (Nat.lt_ge_cases k (length w)) as [H|H].
      * rewrite app_nth1 by exact H. apply W. exact H.
      * rewrite app_nth2 by exact H. replace (k - length w) with 0 by lia. exact C.
    + split; [rewrite app_length; lia|]. intros k Hk. unfold wget. rewrite app_nth1 by exact Hk. reflexivity.
Qed.

Lemma run_ops_inv ops : forall w, world_ok w ->
  world_ok (run_ops ops w) /\ length w <= length (run_ops ops w) /\
  forall k, k < length w -> cont (wget (run_ops ops w) k) = cont (wget w k).
Proof.
  induction ops as [|o ops IH]; intros w W; simpl.
  - split; [exact W|split; [lia|intros; reflexivity]].
  - destruct (step_inv w o W) as (W1 & L1 & E1). destruct (IH (step w o) W1) as (W2 & L2 & E2).
    split; [exact W2|]. split; [lia|]. intros k Hk. rewrite E2 by lia. apply E1. exact Hk.
Qed.

Theorem history_independent_lemma w ops i j : world_ok w -> i < length w -> j < length w ->
  eq_impl (wget (run_ops ops w) i) (wget (run_ops ops w) j) = eq_impl (wget w i) (wget w j).
Proof.
  intros W Hi Hj. destruct (run_ops_inv ops w W) as (W' & L & E).
  apply eq_impl_by_content; try (apply W; assumption); try (apply W'; lia); apply E; assumption.
Qed.

(* ================================================================== one difference *)
Theorem unequal_content_lemma a b : coherent a -> coherent b -> cont a <> cont b -> eq_impl a b = false.
Proof.
  intros Ca Cb H. destruct (eq_impl a b) eqn:E; [|reflexivity].
  apply eq_iff_content_lemma in E; [contradiction|assumption|assumption].
Qed.

(* ================================================================== queries *)
Theorem export_factors_lemma a b : cont a = cont b -> forall q, ask q (cont a) = ask q (cont b).
Proof. intros E q. rewrite E. reflexivity. Qed.

Theorem repr_queries_agree_lemma a b : coherent a -> coherent b -> eq_impl a b = true ->
  rep_matrix (rep a) = rep_matrix (rep b) /\ (forall q, ask q (cont a) = ask q (cont b)).
Proof.
  intros Ca Cb E. apply eq_iff_content_lemma in E; [|assumption|assumption].
  split; [|apply export_factors_lemma; exact E].
  destruct Ca as (_ & _ & Ma & _). destruct Cb as (_ & _ & Mb & _). congruence.
Qed.

(* ================================================================== the defect that was repaired *)
Definition old_t : table := mkT [10;20]%Z [1;2;3]%Z [[5;0;7];[0;0;2]]%Z None None 1%Z.
(* caller-made CSR holding an explicit zero at (0,1), indices of row 0 unsorted *)
Definition old_a : state := mkS old_t (mkR CSR 3 [[(2,7%Z);(1,0%Z);(0,5%Z)]; [(2,2%Z)]]) DT_FLOAT.
Definition old_b : state := fresh old_t.

Theorem eq_old_refuted_lemma :
  coherent old_a /\ coherent old_b /\ cont old_a = cont old_b /\
  eq_impl_old old_a old_b = false /\ eq_impl_old (access ANnz old_a) old_b = true /\
  eq_impl old_a old_b = true.
Proof.
  split; [apply coherentb_coherent; vm_compute; reflexivity|].
  split; [apply coherentb_coherent; vm_compute; reflexivity|].
  vm_compute. repeat split; reflexivity.
Qed.

(* ================================================================== exactly one difference *)
Definition differ (x y : table) : Prop :=
  (exists i j, get (mat x) i j <> get (mat y) i j) \/ oids x <> oids y \/ sids x <> sids y
  \/ omd x <> omd y \/ smd x <> smd y \/ ttype x <> ttype y.

Lemma differ_neq x y : differ x y -> x <> y.
Proof.
  intros D E. subst y. destruct D as [(i & j & H)|[H|[H|[H|[H|H]]]]]; apply H; reflexivity.
Qed.

Theorem one_change_lemma a b : coherent a -> coherent b -> differ (cont a) (cont b) ->
  eq_impl a b = false /\ eq_impl b a = false /\ ne_impl a b = true /\ desc_impl a b <> 0%Z.
Proof.
  intros Ca Cb D. pose proof (differ_neq _ _ D) as N.
  assert (E : eq_impl a b = false) by (apply unequal_content_lemma; assumption).
  split; [exact E|]. split; [rewrite <- eq_sym_lemma by assumption; exact E|].
  split; [unfold ne_impl; rewrite E; reflexivity|].
  intros H. apply (ne_desc_lemma a b Ca Cb) in H. congruence.
Qed.

(* the same ids in another order are a difference *)
Lemma swap_differs (l : list Z) i j : NoDup l -> i < length l -> j < length l -> i <> j ->
  upd (upd l i (nth j l 0%Z)) j (nth i l 0%Z) <> l.
Proof.
  intros N Hi Hj Hij E.
  assert (H : nth j (upd (upd l i (nth j l 0%Z)) j (nth i l 0%Z)) 0%Z = nth i l 0%Z)
    by (apply nth_upd_eq; rewrite upd_length; exact Hj).
  rewrite E in H. apply Hij. symmetry.
  apply (proj1 (NoDup_nth l 0%Z) N); assumption.
Qed.
