(* Bridges for the JSON-writer translator tools/py2v_json: the regenerated Table.to_json
   (Gen/JsonGen.v) against the hand-written text model Model/JsonText.v. *)
From Coq Require Import String.
From Coq Require Import List Arith ZArith Bool Lia.
From BiomV Require Import Base.Tree Base.ListUtil Base.Matrix Base.TreeStr Model.Table Model.Json Model.JsonText.
From BiomV Require Import Gen.JsonPrelude Gen.JsonGen Proofs.JsonDocProofs.
Import ListNotations.
Open Scope Z_scope.

Example gen_ex_table :
  gen_to_json ex_fmt ex_dumps ex_table (K "None") (K "x") (str_of_json (j_genby ex_table))
              (Some (str_of_json (j_date ex_table)))
  = ROk (to_json_text ex_fmt ex_dumps ex_table (K "None")).
Proof. vm_compute. reflexivity. Qed.

Lemma join_nil_concat : forall l : list str, join [] l = concat l.
Proof.
  induction l as [|x t IH]; [reflexivity|].
  destruct t as [|y t]; cbn [join concat] in *; [now rewrite app_nil_r|].
  rewrite IH. reflexivity.
Qed.

Lemma show_int_of_nat : forall n, show_int (Z.of_nat n) = show_nat n.
Proof.
  intro n. unfold show_int. destruct (Z.ltb_spec (Z.of_nat n) 0) as [H|H]; [lia|].
  now rewrite Nat2Z.id.
Qed.

Lemma of_nat_gtb : forall n, (Z.of_nat n >? 0) = (0 <? n)%nat.
Proof. intros [|n]; reflexivity. Qed.

Lemma record_text_unfold : forall dumps_md id md,
  record_text dumps_md id md
  = [123;34;105;100;34;58;32] ++ dumps_str id ++ [44;32;34;109;101;116;97;100;97;116;97;34;58;32] ++ dumps_md md ++ [125].
Proof.
  intros. unfold record_text, field, raw_literal, quote.
  repeat ((rewrite <- app_assoc) || (progress cbn [app K codes_of_string])). reflexivity.
Qed.
