(* Bridges for the JSON-writer translator tools/py2v_json: the regenerated Table.to_json
   (Gen/JsonGen.v) against the hand-written text model Model/JsonText.v. *)
From Coq Require Import String.
From Coq Require Import List Arith ZArith Bool Lia.
From BiomV Require Import Base.Tree Base.ListUtil Base.Matrix Base.TreeStr Model.Table Model.Json Model.JsonText.
From BiomV Require Import Gen.JsonPrelude Gen.JsonGen Proofs.JsonDocProofs.
Import ListNotations.
Open Scope Z_scope.


Lemma join_nil_concat : forall l : list str, join [] l = concat l.
Proof.
  induction l as [|x t IH]; [reflexivity|].
  destruct t as [|y t]; cbn [join concat] in *; [now rewrite app_nil_r|].
  rewrite IH. reflexivity.
Qed.

Lemma show_int_of_nat : forall n, show_int (Z.of_nat n) = show_nat n.
Proof.
  intro n. unfold show_int. destruct (Z.ltb_spec (Z.of_nat n) 0) as [H|H]; [lia|].
  now rewrite Nat2Z.id.
Qed.

Lemma of_nat_gtb : forall n, (Z.of_nat n >? 0) = (0 <? n)%nat.
Proof. intros [|n]; reflexivity. Qed.

Lemma record_text_unfold : forall dumps_md id md,
  record_text dumps_md id md
  = [123;34;105;100;34;58;32] ++ dumps_str id ++ [44;32;34;109;101;116;97;100;97;116;97;34;58;32] ++ dumps_md md ++ [125].
Proof.
  intros. unfold record_text, field, raw_literal, quote.
  repeat ((rewrite <- app_assoc) || (progress cbn [app K codes_of_string])). reflexivity.
Qed.

Definition piece (R : item -> text) (cl : text) (n k : Z) (x : item) : text :=
  if negb (k =? n) then R x ++ [44] else R x ++ cl.
Fixpoint pieces (R : item -> text) (cl : text) (n k : Z) (l : list item) : list text :=
  match l with [] => [] | x :: t => piece R cl n k x :: pieces R cl n (k + 1) t end.
Fixpoint recs_text (R : item -> text) (cl : text) (l : list item) : text :=
  match l with
  | [] => []
  | [x] => R x ++ cl
  | x :: t => R x ++ [44] ++ recs_text R cl t
  end.

Lemma pieces_concat R cl n : forall l k,
  k + Z.of_nat (length l) = n + 1 -> concat (pieces R cl n k l) = recs_text R cl l.
Proof.
  induction l as [|x t IH]; intros k H; [reflexivity|].
  cbn [pieces concat]. destruct t as [|y t].
  - cbn [length] in H. unfold piece. replace (k =? n) with true by (symmetry; apply Z.eqb_eq; lia).
    cbn. now rewrite app_nil_r.
  - rewrite IH by (cbn [length] in *; lia). unfold piece.
    replace (k =? n) with false by (symmetry; apply Z.eqb_neq; cbn [length] in H; lia).
    cbn [negb recs_text]. now rewrite <- app_assoc.
Qed.

Lemma pieces_length R cl n : forall l k, length (pieces R cl n k l) = length l.
Proof. induction l; intros; cbn [pieces length]; [reflexivity|now rewrite IHl]. Qed.

Lemma recs_loop_spec (F : list text -> Z * item -> list text) R cl n :
  (forall st k x, F st (k, x) = st ++ [piece R cl n k x]) ->
  forall l k st, fold_left F (enumerate_from k l) st = st ++ pieces R cl n k l.
Proof.
  intros HF. induction l as [|x t IH]; intros k st; cbn [enumerate_from fold_left pieces].
  - now rewrite app_nil_r.
  - rewrite HF, IH, <- app_assoc. reflexivity.
Qed.

Section Bridge.
Variable fmt : Z -> str.
Variable dumps_md : json -> str.

Lemma inner_loop_spec (F : list text -> Z * Z -> list text) (i : nat) :
  (forall st j v, 0 <= j ->
     F st (j, v) = if negb (v =? 0) then st ++ [triple_text fmt (i, Z.to_nat j, v)] else st) ->
  forall r j st, fold_left F (enumerate_from (Z.of_nat j) r) st
                 = st ++ map (triple_text fmt) (row_triples i j r).
Proof.
  intros HF. induction r as [|v t IH]; intros j st; cbn [enumerate_from fold_left row_triples map].
  - now rewrite app_nil_r.
  - rewrite HF by lia. rewrite Nat2Z.id. replace (Z.of_nat j + 1) with (Z.of_nat (S j)) by lia.
    rewrite IH. destruct (v =? 0); cbn [negb map]; [reflexivity|now rewrite <- app_assoc].
Qed.

Definition built_of (k : Z) (x : item) : list text :=
  map (triple_text fmt) (row_triples (Z.to_nat k) 0 (it_vals x)).

Lemma obs_loop_spec (F : (list text * list text * bool) -> Z * item -> (list text * list text * bool)) R cl n :
  (forall rows data hw k x, 0 <= k -> F (rows, data, hw) (k, x) =
     (rows ++ [piece R cl n k x],
      if list_empty (built_of k x) then data
      else (if hw then data ++ [[44]] else data) ++ [join [44] (built_of k x)],
      if list_empty (built_of k x) then hw else true)) ->
  forall m recs k rows data hw, length m = length recs ->
   fst (fst (fold_left F (enumerate_from (Z.of_nat k) (mk_items m recs)) (rows, data, hw)))
     = rows ++ pieces R cl n (Z.of_nat k) (mk_items m recs)
   /\ concat (snd (fst (fold_left F (enumerate_from (Z.of_nat k) (mk_items m recs)) (rows, data, hw))))
     = concat data ++ data_rows fmt k m hw.
Proof.
  intros HF. induction m as [|r m IH]; intros [|rc recs] k rows data hw H; try discriminate H.
  - cbn. now rewrite !app_nil_r.
  - unfold mk_items. cbn [combine map enumerate_from fold_left]. fold (mk_items m recs).
    rewrite HF by lia. replace (Z.of_nat k + 1) with (Z.of_nat (S k)) by lia.
    cbn [length] in H.
    match goal with |- context [fold_left F _ (?a, ?b, ?c)] =>
      destruct (IH recs (S k) a b c ltac:(lia)) as [A B] end.
    split.
    + rewrite A. cbn [pieces]. replace (Z.of_nat k + 1) with (Z.of_nat (S k)) by lia.
      now rewrite <- app_assoc.
    + rewrite B. unfold built_of. cbn [it_vals fst snd]. rewrite Nat2Z.id. cbn [data_rows].
      destruct (map (triple_text fmt) (row_triples k 0 r)) as [|b0 bs]; cbn [list_empty]; [reflexivity|].
      destruct hw; rewrite !concat_app; cbn [concat]; rewrite ?app_nil_r, <- ?app_assoc; reflexivity.
Qed.
End Bridge.

Lemma show_int_nonneg : forall z, 0 <= z -> show_int z = show_nat (Z.to_nat z).
Proof. intros z H. unfold show_int. destruct (Z.ltb_spec z 0); [lia|reflexivity]. Qed.

Lemma mk_items_length : forall (vals : list (list Z)) (recs : list (text * json)),
  length vals = length recs -> length (mk_items vals recs) = length recs.
Proof. intros. unfold mk_items. rewrite map_length, combine_length. lia. Qed.

Section Main.
Variable fmt : Z -> str.
Variable dumps_md : json -> str.

Definition Rrec (x : item) : text := record_text dumps_md (it_id x) (it_md x).

Lemma recs_text_cons2 R cl a b t :
  recs_text R cl (a :: b :: t) = R a ++ [44] ++ recs_text R cl (b :: t).
Proof. reflexivity. Qed.
Lemma records_text_cons2 a b t :
  records_text dumps_md (a :: b :: t)
  = record_text dumps_md (fst a) (snd a) ++ K "," ++ records_text dumps_md (b :: t).
Proof. reflexivity. Qed.

Lemma recs_text_items suf : forall recs vals, length vals = length recs -> recs <> [] ->
  recs_text Rrec ([93] ++ suf) (mk_items vals recs) = records_text dumps_md recs ++ suf.
Proof.
  induction recs as [|rc recs IH]; intros vals H Hne; [congruence|].
  destruct vals as [|v vals]; [discriminate H|]. destruct recs as [|rc2 recs].
  - destruct vals; [|discriminate H]. unfold mk_items. cbn [combine map recs_text records_text].
    unfold Rrec. cbn [it_id it_md fst snd]. rewrite <- app_assoc. reflexivity.
  - destruct vals as [|v2 vals]; [discriminate H|].
    assert (IH' := IH (v2 :: vals) ltac:(cbn [length] in *; lia) ltac:(discriminate)).
    unfold mk_items in *. cbn [combine map] in *.
    rewrite recs_text_cons2, records_text_cons2. match goal with |- _ ++ _ ++ ?X = _ =>
      replace X with (records_text dumps_md (rc2 :: recs) ++ suf) by (symmetry; exact IH') end. unfold Rrec at 1. cbn [it_id it_md fst snd]. rewrite <- !app_assoc. reflexivity.
Qed.

Lemma axis_text hdr1 emp cl hdr suf ids md vals :
  hdr1 = hdr ++ [91] -> emp = hdr ++ [91;93] ++ suf -> cl = [93] ++ suf ->
  length vals = length ids -> md_len md (length ids) ->
  join [] (if Z.of_nat (length ([hdr1] ++ pieces Rrec cl (Z.of_nat (length ids) - 1) 0
                                   (mk_items vals (combine ids (md_list (length ids) md))))) =? 1
           then [emp]
           else [hdr1] ++ pieces Rrec cl (Z.of_nat (length ids) - 1) 0
                                   (mk_items vals (combine ids (md_list (length ids) md))))
  = hdr ++ axis_value dumps_md ids md ++ suf.
Proof.
  intros -> -> -> Hv Hmd.
  assert (Hr : length (combine ids (md_list (length ids) md)) = length ids).
  { rewrite combine_length. destruct md as [l|]; cbn [md_list md_len] in *; [|rewrite repeat_length]; lia. }
  unfold axis_value, axis_recs.
  remember (combine ids (md_list (length ids) md)) as recs eqn:Er.
  destruct ids as [|i ids].
  - destruct recs; [|discriminate Hr]. destruct vals; [|discriminate Hv]. cbn. rewrite ?app_nil_r. reflexivity.
  - destruct recs as [|rc recs]; [discriminate Hr|]. destruct vals as [|v vals]; [discriminate Hv|].
    assert (Hl : length (mk_items (v :: vals) (rc :: recs)) = length (rc :: recs))
      by (apply mk_items_length; congruence).
    remember (mk_items (v :: vals) (rc :: recs)) as items eqn:Ei.
    assert (Hc : (Z.of_nat (length ([hdr ++ [91]] ++ pieces Rrec ([93] ++ suf) (Z.of_nat (length (i :: ids)) - 1) 0 items)) =? 1) = false).
    { rewrite app_length, pieces_length, Hl. cbn [length]. apply Z.eqb_neq. lia. }
    rewrite Hc. rewrite join_nil_concat, concat_app. cbn [concat]. rewrite app_nil_r.
    rewrite pieces_concat by (rewrite Hl, Hr; cbn [length]; lia).
    rewrite Ei, recs_text_items by (congruence || discriminate).
    transitivity (hdr ++ K "[" ++ records_text dumps_md (rc :: recs) ++ suf);
      [rewrite <- !app_assoc; reflexivity | rewrite Er; reflexivity].
Qed.
End Main.

Lemma obs_loop_spec0 fmt (F : (list text * list text * bool) -> Z * item -> (list text * list text * bool)) R cl n :
  (forall rows data hw k x, 0 <= k -> F (rows, data, hw) (k, x) =
     (rows ++ [piece R cl n k x],
      if list_empty (built_of fmt k x) then data
      else (if hw then data ++ [[44]] else data) ++ [join [44] (built_of fmt k x)],
      if list_empty (built_of fmt k x) then hw else true)) ->
  forall m recs rows data hw, length m = length recs ->
   fst (fst (fold_left F (enumerate_from 0 (mk_items m recs)) (rows, data, hw)))
     = rows ++ pieces R cl n 0 (mk_items m recs)
   /\ concat (snd (fst (fold_left F (enumerate_from 0 (mk_items m recs)) (rows, data, hw))))
     = concat data ++ data_rows fmt 0 m hw.
Proof. intros HF m recs rows data hw H. exact (obs_loop_spec fmt F R cl n HF m recs 0%nat rows data hw H). Qed.

Lemma inner_loop_spec0 fmt (F : list text -> Z * Z -> list text) (i : nat) :
  (forall st j v, 0 <= j ->
     F st (j, v) = if negb (v =? 0) then st ++ [triple_text fmt (i, Z.to_nat j, v)] else st) ->
  forall r st, fold_left F (enumerate_from 0 r) st = st ++ map (triple_text fmt) (row_triples i 0 r).
Proof. intros HF r st. exact (inner_loop_spec fmt F i HF r 0%nat st). Qed.

Lemma triple_eq {A B C} (a a' : A) (b b' : B) (c c' : C) :
  a = a' -> b = b' -> c = c' -> (a, b, c) = (a', b', c').
Proof. now intros -> -> ->. Qed.

Ltac norm_text := repeat ((rewrite <- app_assoc) || (progress cbn [app])).

(* T16: the string Table.to_json returns is the text of Model/JsonText.v.  Hypotheses: the
   invariants the constructor establishes (one matrix row per observation ID, metadata lists as
   long as their axis). *)
Theorem to_json_text_is_source_partial : forall fmt dumps_md c tid now,
  length (j_mat c) = length (j_oids c) ->
  md_len (j_omd c) (length (j_oids c)) -> md_len (j_smd c) (length (j_sids c)) ->
  gen_to_json fmt dumps_md c tid now (str_of_json (j_genby c)) (Some (str_of_json (j_date c)))
  = ROk (to_json_text fmt dumps_md c tid).
Proof.
  intros fmt dumps_md c tid now Hm Ho Hs. unfold gen_to_json. cbv zeta.
  cbn [text_isstr negb rbind dt_isoformat str_of_tid tbl_shape].
  unfold enumerate_z, iter_obs, iter_samp, ids_obs, ids_samp, str_join.
  assert (Hrec : length (j_mat c) = length (combine (j_oids c) (md_list (length (j_oids c)) (j_omd c)))).
  { rewrite combine_length. destruct (j_omd c); cbn [md_list md_len] in *; [|rewrite repeat_length]; lia. }
  (* the observation loop *)
  match goal with |- context [fold_left ?F (enumerate_from 0 (mk_items (j_mat c) ?recs)) ?init] =>
    assert (HF : forall rows data hw k x, 0 <= k -> F (rows, data, hw) (k, x) =
      (rows ++ [piece (Rrec dumps_md) [93;44] (Z.of_nat (length (j_oids c)) - 1) k x],
       if list_empty (built_of fmt k x) then data
       else (if hw then data ++ [[44]] else data) ++ [join [44] (built_of fmt k x)],
       if list_empty (built_of fmt k x) then hw else true));
    [|remember (fold_left F (enumerate_from 0 (mk_items (j_mat c) recs)) init) as res eqn:EF;
      assert (AB : fst (fst res) = [[34;114;111;119;115;34;58;32;91]] ++ pieces (Rrec dumps_md) [93;44] (Z.of_nat (length (j_oids c)) - 1) 0 (mk_items (j_mat c) recs)
                   /\ concat (snd (fst res)) = concat [[34;100;97;116;97;34;58;32;91]] ++ data_rows fmt 0 (j_mat c) false)
        by (subst res; exact (obs_loop_spec0 fmt F _ _ _ HF (j_mat c) recs _ _ false Hrec));
      clear EF; destruct res as [[rows data] hw]; destruct AB as [A B]]
  end.
  { intros rows data hw k x Hk. cbv beta iota.
    rewrite (inner_loop_spec0 fmt _ (Z.to_nat k)).
    2:{ intros st j v Hj. cbv beta iota. unfold float_eqb, float_of_float, float_zero, triple_text.
        rewrite !show_int_nonneg by lia. reflexivity. }
    cbn [app]. fold (built_of fmt k x).
    destruct (list_empty (built_of fmt k x)); cbn [negb]; apply triple_eq.
    all: try reflexivity.
    all: unfold piece, Rrec; rewrite record_text_unfold; destruct (k =? Z.of_nat (length (j_oids c)) - 1); cbn [negb];
      norm_text; reflexivity. }
  cbn [fst snd] in A, B. subst rows. clear HF.
  (* the sample loop *)
  match goal with |- context [fold_left ?F (enumerate_from 0 (mk_items ?vals (combine (j_sids c) ?mds))) ?init] =>
    assert (HF : forall st k x, F st (k, x) = st ++ [piece (Rrec dumps_md) [93] (Z.of_nat (length (j_sids c)) - 1) k x]);
    [|rewrite !(recs_loop_spec F _ _ _ HF); clear HF]
  end.
  { intros st k x. cbv beta iota. unfold piece, Rrec. rewrite record_text_unfold.
    destruct (k =? Z.of_nat (length (j_sids c)) - 1); cbn [negb]; norm_text; reflexivity. }
  rewrite !of_nat_gtb. unfold to_json_text, element_type.
  destruct ((0 <? jnobs c)%nat && (0 <? jnsamp c)%nat); cbn [py_isint py_isfloat py_isstr rbind].
  all: match goal with |- context [join [] (if ?C then [[34;114;111;119;115;34;58;32;91;93;44]] else ?L)] =>
    replace (join [] (if C then [[34;114;111;119;115;34;58;32;91;93;44]] else L))
      with ([34;114;111;119;115;34;58;32] ++ axis_value dumps_md (j_oids c) (j_omd c) ++ [44])
      by (symmetry; exact (axis_text dumps_md [34;114;111;119;115;34;58;32;91] [34;114;111;119;115;34;58;32;91;93;44] [93;44] [34;114;111;119;115;34;58;32] [44] (j_oids c) (j_omd c) (j_mat c) eq_refl eq_refl eq_refl Hm Ho))
  end.
  all: match goal with |- context [join [] (if ?C then [[34;99;111;108;117;109;110;115;34;58;32;91;93]] else ?L)] =>
    replace (join [] (if C then [[34;99;111;108;117;109;110;115;34;58;32;91;93]] else L))
      with ([34;99;111;108;117;109;110;115;34;58;32] ++ axis_value dumps_md (j_sids c) (j_smd c) ++ [])
      by (symmetry; refine (axis_text dumps_md [34;99;111;108;117;109;110;115;34;58;32;91] [34;99;111;108;117;109;110;115;34;58;32;91;93] [93] [34;99;111;108;117;109;110;115;34;58;32] [] (j_sids c) (j_smd c) _ eq_refl eq_refl eq_refl _ Hs);
          now rewrite map_length, seq_length)
  end.
  all: rewrite (join_nil_concat (data ++ _)), concat_app, B; clear B.
  all: unfold type_value, tbl_type, rows_value, columns_value, dt_isoformat, str_of_tid.
  all: rewrite !show_int_of_nat.
  all: f_equal; destruct (j_type c); unfold data_value, field, raw_literal, quote; cbn [join concat];
    rewrite ?app_nil_r; norm_text; reflexivity.
Qed.
Print Assumptions to_json_text_is_source_partial.

(* the hypotheses are satisfiable (the 1 x 2 witness table of JsonDocProofs) *)
Example to_json_text_is_source_partial_witness :
  length (j_mat ex_table) = length (j_oids ex_table)
  /\ md_len (j_omd ex_table) (length (j_oids ex_table)) /\ md_len (j_smd ex_table) (length (j_sids ex_table)).
Proof. vm_compute. repeat split. Qed.


(* creation_date=None: the date written is datetime.now().isoformat() *)
Theorem to_json_default_date_is_source : forall fmt dumps_md c tid now g,
  gen_to_json fmt dumps_md c tid now g None = gen_to_json fmt dumps_md c tid now g (Some now).
Proof. reflexivity. Qed.
Print Assumptions to_json_default_date_is_source.

(* the streamed variant (direct_io truthy) is regenerated too; it is not bridged for all tables
   (the hand model has the streamed writer as a tree only).  On the witness table the text it
   writes reads back as exactly the hand-written streamed tree, key order included. *)
Example gen_direct_ex_table :
  match gen_to_json_direct ex_fmt ex_dumps ex_table (K "None") (K "x") (str_of_json (j_genby ex_table))
              (Some (str_of_json (j_date ex_table))) with
  | ROk t => parse_json ex_scan 40 t = Some (to_json_tree_direct ex_table (K "None"))
  | RErr _ => False
  end.
Proof. vm_compute. reflexivity. Qed.

(* computed agreement of the string variant with the hand model on the witness table (kept after the
   theorem so that a changed source is reported by the obligation of the theorem it breaks) *)
Example gen_ex_table :
  gen_to_json ex_fmt ex_dumps ex_table (K "None") (K "x") (str_of_json (j_genby ex_table))
              (Some (str_of_json (j_date ex_table)))
  = ROk (to_json_text ex_fmt ex_dumps ex_table (K "None")).
Proof. vm_compute. reflexivity. Qed.
