(* Bridge (DESIGN 3.1 T23): the reader regenerated from Table.from_hdf5 by tools/py2v_h5r
   (Gen/Hdf5ReadGen.v over the vocabulary Gen/H5ReadPrelude.v) is the hand-written reader
   Model/Hdf5.v from_hdf5, for every file tree and both axis names; any other axis name is
   refused with the UnknownAxisError code. *)
From Coq Require Import List Arith ZArith Bool Lia.
From BiomV Require Import Base.Tree Base.ListUtil Base.Matrix Model.Table Model.Sparse Model.Hdf5
     Gen.H5ReadPrelude Gen.Hdf5ReadGen.
Import ListNotations.

Lemma bind_ret : forall A (r : result A), bind r (fun t => ret t) = r.
Proof. intros A [a|e]; reflexivity. Qed.

(* the metadata axis_load hands over is None or non-empty, so `md or None` leaves it alone *)
Lemma axis_load_or_none : forall f a ids md g,
  axis_load f a = ROk (ids, md, g) -> or_none md = md.
Proof.
  intros f a ids md g. unfold axis_load.
  destruct (need_dset f [a; b_ids]) as [d|]; cbn [bind]; [|discriminate].
  destruct (load_ids d) as [i|]; cbn [bind]; [|discriminate].
  destruct (has_group f [a; b_metadata]); cbn [bind]; [|discriminate].
  destruct (mapM _ (children f [a; b_metadata])) as [cols|]; cbn [bind]; [|discriminate].
  destruct (has_group f [a; b_group_metadata]); cbn [bind]; [|discriminate].
  destruct (mapM _ (children f [a; b_group_metadata])) as [gm|]; cbn [bind]; [|discriminate].
  intro H. injection H as _ Hmd _. subst md.
  match goal with |- or_none (if existsb ?p ?l then _ else _) = _ => destruct l as [|r l'] end.
  - reflexivity.
  - match goal with |- or_none (if ?c then _ else _) = _ => destruct c end; reflexivity.
Qed.

(* the parser table the source builds selects the list parser exactly for the reserved names *)
Lemma parser_table : forall cat,
  pupdate (pset (pset (pset (pset (pdefault P_general) s_taxonomy P_vlen_list) s_Taxonomy P_vlen_list)
                      s_KEGG P_vlen_list) s_collapsed P_vlen_list) [] cat
  = if reserved cat then P_vlen_list else P_general.
Proof.
  intro cat. unfold pupdate, pset, pdefault, reserved.
  destruct (lz_eqb cat s_taxonomy), (lz_eqb cat s_Taxonomy), (lz_eqb cat s_KEGG), (lz_eqb cat s_collapsed); reflexivity.
Qed.

Lemma parse_with_column : forall cat d,
  parse_with (if reserved cat then P_vlen_list else P_general) d = parse_column cat d.
Proof. intros cat d. unfold parse_column. destruct (reserved cat); reflexivity. Qed.

Lemma mapM_ext : forall A B (f g : A -> result B) l, (forall x, f x = g x) -> mapM f l = mapM g l.
Proof. intros A B f g l H. induction l as [|x t IH]; cbn [mapM]; [reflexivity|]. rewrite H, IH. reflexivity. Qed.

Lemma seq_empty_rows : forall ids : list str, length (empty_rows ids) = length ids.
Proof. intro ids. unfold empty_rows. apply map_length. Qed.

(* the nested axis_load regenerated from the source (ids, the parser table, the rows, all-empty
   metadata -> None, group metadata) is the hand-written axis_load *)
Theorem axis_load_is_source : forall f a, axis_load_gen f [] [a] = axis_load f a.
Proof.
  intros f a. unfold axis_load_gen, axis_load, h5_ids, md_loop, gmd_read, any_row, ret. cbn [app].
  destruct (need_dset f [a; b_ids]) as [d|]; cbn [bind]; [|reflexivity].
  destruct (load_ids d) as [ids|]; cbn [bind]; [|reflexivity].
  destruct (has_group f [a; b_metadata]); cbn [bind]; [|reflexivity].
  rewrite (mapM_ext _ _ _
    (fun nd => bind (dec (fst nd)) (fun name => let cat := unsanitize name in
               bind (parse_column cat (snd nd)) (fun vals => ROk (cat, vals))))).
  2:{ intro nd. destruct (dec (fst nd)); cbn [bind]; [|reflexivity].
      cbv zeta. rewrite parser_table, parse_with_column. reflexivity. }
  rewrite seq_empty_rows.
  destruct (mapM _ (children f [a; b_metadata])) as [cols|]; cbn [bind]; [|reflexivity].
  destruct (has_group f [a; b_group_metadata]); cbn [bind]; [|reflexivity].
  destruct (mapM _ (children f [a; b_group_metadata])) as [gm|]; cbn [bind]; reflexivity.
Qed.

Lemma type_read : forall f,
  bind (bind (h5_attr f b_type) (fun v => ret (str_eq v [])))
       (fun c => if c then ret None else bind (h5_attr f b_type) (fun v => ret (Some v)))
  = bind (attr_text f b_type) (fun ty => ROk (match ty with [] => None | _ => Some ty end)).
Proof.
  intro f. unfold h5_attr. destruct (attr_text f b_type) as [[|c s]|e] eqn:E; cbn [bind ret]; try reflexivity.
Qed.

Theorem from_hdf5_is_source : forall f ax, from_hdf5_gen f (axis_name ax) = from_hdf5 f ax.
Proof.
  intros f ax. unfold from_hdf5_gen, from_hdf5.
  match goal with |- (if ?c then _ else _) = _ => replace c with false by (destruct ax; reflexivity) end.
  rewrite type_read. unfold h5_attr, raise.
  destruct (attr_text f b_id) as [id_|]; cbn [bind]; [|reflexivity].
  destruct (attr_text f b_creation_date) as [date|]; cbn [bind]; [|reflexivity].
  destruct (attr_text f b_generated_by) as [genby|]; cbn [bind]; [|reflexivity].
  unfold h5_attr_shape.
  destruct (get_attr (attrs f) b_shape) as [[b|z|[|n [|m [|x l]]]]|]; cbn [bind]; try reflexivity.
  destruct (attr_text f b_type) as [ty|]; cbn [bind]; [|reflexivity].
  rewrite !axis_load_is_source.
  destruct (axis_load f b_observation) as [[[oids omd] ogmd]|] eqn:Eo; cbn [bind]; [|reflexivity].
  destruct (axis_load f b_sample) as [[[sids smd] sgmd]|] eqn:Es; cbn [bind]; [|reflexivity].
  rewrite (axis_load_or_none _ _ _ _ _ Eo), (axis_load_or_none _ _ _ _ _ Es).
  unfold h5_dset, h5_group. cbn [app].
  destruct (need_dset f [axis_name ax; b_matrix; b_data]) as [dd|]; cbn [bind]; [|reflexivity].
  destruct (need_dset f [axis_name ax; b_matrix; b_indices]) as [di|]; cbn [bind]; [|reflexivity].
  destruct (need_dset f [axis_name ax; b_matrix; b_indptr]) as [dp|]; cbn [bind]; [|reflexivity].
  rewrite bind_ret.
  destruct ax; reflexivity.
Qed.

Theorem from_hdf5_unknown_axis_is_source : forall f a,
  lz_eqb a b_sample = false -> lz_eqb a b_observation = false -> from_hdf5_gen f a = RErr E_UNKNOWN.
Proof.
  intros f a H1 H2. unfold from_hdf5_gen, name_in. cbn [existsb]. rewrite H1, H2. reflexivity.
Qed.
