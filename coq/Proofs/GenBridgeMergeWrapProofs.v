(* Bridges for C09: Table.merge as tools/py2v_merge regenerates it on every check from
   biom/table.py (Gen/MergeGen.v, over Gen/MergePrelude.v), against the hand-written entry point
   Merge.merge_dispatch.  The generated method takes the function its recursive call goes to as a
   parameter; the source recurses only from the pairwise loop and only with a single table, for
   which the callee never recurses again, so two unfoldings are the method for every argument,
   whatever stands at the third level. *)
From Coq Require Import List Arith ZArith Lia Bool.
From BiomV Require Import Base.Tree Base.ListUtil Base.Matrix Model.Table Model.Merge.
From BiomV Require Import Gen.MergePrelude Gen.MergeGen Proofs.MergeProofs Proofs.GenBridgeMergeProofs.
Import ListNotations.

Definition merge_rec := table -> marg -> mode -> mode -> option mdf -> option mdf -> result table.

Lemma no_md_gen l :
  forallb (fun t => forallb (fun ax => is_none (tb_metadata t ax)) [Samp; Obs]) l = forallb no_md l.
Proof.
  induction l as [|t l IH]; [reflexivity|]. cbn [forallb] in *. rewrite IH. f_equal.
  unfold no_md, tb_metadata. destruct (omd t), (smd t); reflexivity.
Qed.

Lemma mode_eqb_union m : mode_eqb m Union = is_union m.
Proof. destruct m; reflexivity. Qed.

Lemma rbind_ok {A} (r : result A) : rbind r (fun x => ROk x) = r.
Proof. destruct r; reflexivity. Qed.

(* ---- the general path ---- *)
Lemma items_sorted : forall (d : zdict nat) k, map snd d = seq k (length d) -> items_by_value d = d.
Proof.
  induction d as [|p d IH]; intros k H; [reflexivity|].
  cbn [map length seq] in H. injection H as Hp Hd.
  change (items_by_value (p :: d)) with (ins_by_value p (items_by_value d)).
  rewrite (IH (S k) Hd).
  destruct d as [|q r]; [reflexivity|]. cbn [map length seq] in Hd. injection Hd as Hq _.
  cbn [ins_by_value]. rewrite Hp, Hq. rewrite (proj2 (Nat.leb_le k (S k))) by lia. reflexivity.
Qed.

(* what the source computes for one axis: the sorted (id, index) pairs of the order dictionary *)
Definition gen_order (m : mode) (self : table) (a b : list Z) : option (zdict nat) :=
  match m with
  | Union => Some (items_by_value (tb_union_id_order self a b))
  | Inter => Some (items_by_value (tb_intersect_id_order self a b))
  | BadMode => None
  end.

Lemma gen_order_spec m self a b : NoDup a ->
  match gen_order m self a b, order_for m a b with
  | Some d, Some l => map fst d = l /\ map snd d = seq 0 (length d)
  | None, None => True
  | _, _ => False
  end.
Proof.
  intros Hn. destruct m; cbn [gen_order order_for]; [| |exact Logic.I].
  - unfold tb_union_id_order. destruct (union_order_bridge a b) as (H1 & H2).
    assert (L : length (union_order a b) = length (union_id_order a b)) by (rewrite <- H1, map_length; reflexivity).
    rewrite L in H2. rewrite (items_sorted _ 0 H2). split; assumption.
  - unfold tb_intersect_id_order. destruct (intersect_order_bridge_partial a b Hn) as (H1 & H2).
    assert (L : length (intersect_order a b) = length (intersect_id_order a b)) by (rewrite <- H1, map_length; reflexivity).
    rewrite L in H2. rewrite (items_sorted _ 0 H2). split; assumption.
Qed.

(* ---- the metadata loops ---- *)
Lemma fold_res_step {S X} (body : result S -> X -> result S) (step : S -> X -> S) :
  (forall s x, body (ROk s) x = ROk (step s x)) ->
  forall l s, fold_left body l (ROk s) = ROk (fold_left step l s).
Proof. intros H. induction l as [|x l IH]; intros s; [reflexivity|]. cbn [fold_left]. rewrite H. apply IH. Qed.

Definition md_step (g : mdf) (ax : axis) (a b : table) (st : list Z * list (option Tree)) (it : Z * nat)
  : list Z * list (option Tree) :=
  (fst st ++ [fst it], snd st ++ [g (md_of ax a (fst it)) (md_of ax b (fst it))]).

Lemma md_step_fold g ax a b l : forall st,
  fold_left (md_step g ax a b) l st
  = (fst st ++ map fst l, snd st ++ map (fun p => g (md_of ax a (fst p)) (md_of ax b (fst p))) l).
Proof.
  induction l as [|p l IH]; intros [i m]; cbn [fold_left map fst snd].
  - rewrite !app_nil_r. reflexivity.
  - rewrite IH. unfold md_step. cbn [fst snd]. rewrite <- !app_assoc. reflexivity.
Qed.

Lemma zmem_false_pos x l : zmem x l = false -> pos x l = None.
Proof.
  unfold zmem, pos. induction l as [|y l IH]; [reflexivity|]. cbn [existsb index_of].
  destruct (Z.eqb x y); [discriminate|]. cbn [orb]. intros H. rewrite (IH H). reflexivity.
Qed.

(* the guarded look-up of the source is the model's md_of *)
Lemma md_of_guard ax t id :
  md_of ax t id = (if is_none (tb_metadata t ax) || negb (tb_exists t id ax) then None
                   else md_subscript (tb_metadata t ax) (ids ax t) id).
Proof.
  unfold md_of, md_at, md_subscript, tb_exists.
  assert (E : mds ax t = tb_metadata t ax) by (destruct ax; reflexivity). rewrite E.
  destruct (tb_metadata t ax) as [l|]; cbn [is_none orb].
  - destruct (zmem id (ids ax t)) eqn:Z; cbn [negb]; [reflexivity|]. rewrite (zmem_false_pos _ _ Z). reflexivity.
  - destruct (pos id (ids ax t)); reflexivity.
Qed.

Definition ids_nodup (t : table) : Prop := NoDup (oids t) /\ NoDup (sids t).

(* one metadata loop: the side condition of fold_res_step for the generated body *)
Ltac md_body ax self o :=
  intros [i m] [id_ idx]; cbn [rbind]; cbv beta iota zeta; unfold md_step; cbn [fst snd];
  rewrite (md_of_guard ax self id_), (md_of_guard ax o id_);
  destruct (is_none (tb_metadata self ax) || negb (tb_exists self id_ ax));
  destruct (is_none (tb_metadata o ax) || negb (tb_exists o id_ ax));
  reflexivity.

(* what is built once both orders are known and not empty *)
Ltac build_case self o gs go :=
  match goal with |- context [is_empty ?d] => destruct d as [|? ?]; [reflexivity|] end;
  match goal with |- context [is_empty ?d] => destruct d as [|? ?]; [destruct (map fst _); reflexivity|] end;
  cbn [is_empty];
  rewrite (fold_res_step _ (md_step gs Samp self o)) by md_body Samp self o;
  cbn [rbind]; cbv beta iota zeta;
  rewrite (fold_res_step _ (md_step go Obs self o)) by md_body Obs self o;
  cbn [rbind]; rewrite !md_step_fold; cbv beta iota zeta; cbn [fst snd app];
  unfold tb_construct, merge_vectors, merged_md; rewrite !map_map; reflexivity.

(* a single table: no call of the recursion parameter *)
Lemma gen_merge_single (rec : merge_rec) self o sm om fs fo : ids_nodup self ->
  gen_merge rec self (ATable o) sm om fs fo = merge_pair sm om fs fo self o.
Proof.
  intros (Ho & Hs).
  unfold gen_merge, merge_pair, fast_ok. cbv beta zeta. cbn [arg_is_seq arg_table arg_list app].
  rewrite no_md_gen, !mode_eqb_union.
  cbn [length Nat.eqb negb list_item nth_error rbind]. unfold tb_fast_merge.
  pose proof (gen_order_spec sm self (sids self) (sids o) Hs) as Ps.
  pose proof (gen_order_spec om self (oids self) (oids o) Ho) as Po.
  (* the general path, whichever way it is reached *)
  match goal with
  | |- (if _ then (if _ then _ else ?G) else ?G) = _ =>
      assert (HG : G = merge_general self o sm om fs fo); [|rewrite HG]
  end.
  - unfold merge_general.
    destruct fs as [gs|], fo as [go|]; cbn [is_none f_or_drop];
      destruct sm, om; cbn [gen_order order_for is_union mode_eqb] in *; try reflexivity;
      try (destruct Ps as (Ps & _); rewrite <- Ps;
           match goal with |- context [match map fst ?d with _ => _ end] => destruct d; reflexivity end);
      destruct Ps as (Ps & _); destruct Po as (Po & _); rewrite <- Ps, <- Po.
    all: first [ build_case self o gs go | build_case self o gs drop_md
               | build_case self o drop_md go | build_case self o drop_md drop_md ].
  - destruct (forallb no_md [self; o] || (is_none fs && is_none fo)); cbn [andb];
      [destruct (is_union sm), (is_union om); cbn [andb]|]; reflexivity.
Qed.

Lemma merge_pair_nodup sm om fs fo self o m :
  ids_nodup self -> merge_pair sm om fs fo self o = ROk m -> ids_nodup m.
Proof.
  intros (Ho & Hs). unfold merge_pair. destruct (fast_ok [self; o] sm om fs fo).
  - intros E. injection E as <-. unfold fast_merge. cbv zeta. split; cbn [oids sids]; apply usort_NoDup.
  - unfold merge_general.
    destruct (order_for sm (sids self) (sids o)) as [sord|] eqn:Es; [|discriminate].
    destruct (order_for om (oids self) (oids o)) as [oord|] eqn:Eo; [|destruct sord; discriminate].
    pose proof (order_for_NoDup _ _ _ _ Hs Es) as Ns. pose proof (order_for_NoDup _ _ _ _ Ho Eo) as No.
    destruct sord as [|s sord]; [discriminate|]. destruct oord as [|x oord]; [discriminate|].
    intros E. injection E as <-. split; assumption.
Qed.

Lemma pair_loop (rec : merge_rec) sm om fs fo others : forall acc,
  (forall m, acc = ROk m -> ids_nodup m) ->
  fold_left (fun (acc : result table) (other : table) => rbind acc (fun merged : table =>
     rbind (gen_merge rec merged (ATable other) sm om fs fo) (fun merged : table => ROk merged))) others acc
  = fold_left (pair_step sm om fs fo) others acc.
Proof.
  induction others as [|o l IH]; intros acc Hacc; [reflexivity|]. cbn [fold_left].
  assert (E : rbind acc (fun merged : table =>
                rbind (gen_merge rec merged (ATable o) sm om fs fo) (fun merged0 : table => ROk merged0))
              = pair_step sm om fs fo acc o).
  { destruct acc as [m|c]; cbn [rbind pair_step]; [|reflexivity]. rewrite rbind_ok.
    apply gen_merge_single. apply Hacc. reflexivity. }
  rewrite E. apply IH. intros m Hm. destruct acc as [m0|c]; cbn [pair_step] in Hm; [|discriminate].
  eapply merge_pair_nodup; [apply Hacc; reflexivity|exact Hm].
Qed.

Lemma gen_merge_list (rec : merge_rec) self others sm om fs fo : ids_nodup self ->
  gen_merge (gen_merge rec) self (AList others) sm om fs fo = merge_dispatch self others sm om fs fo.
Proof.
  intros Hn. destruct others as [|o [|o2 l]].
  - unfold gen_merge at 1. unfold merge_dispatch, fast_ok. cbv beta zeta. cbn [arg_is_seq arg_list app].
    rewrite no_md_gen, !mode_eqb_union. cbn [length Nat.eqb negb fold_left rbind]. unfold tb_fast_merge, tb_copy.
    destruct (forallb no_md [self] || (is_none fs && is_none fo)); cbn [andb];
      [destruct (is_union sm), (is_union om); cbn [andb]|]; reflexivity.
  - (* one table in a list: as the single table *)
    transitivity (gen_merge (gen_merge rec) self (ATable o) sm om fs fo); [reflexivity|].
    rewrite gen_merge_single by exact Hn. reflexivity.
  - unfold gen_merge at 1. unfold merge_dispatch, fast_ok. cbv beta zeta. cbn [arg_is_seq arg_list app].
    rewrite no_md_gen, !mode_eqb_union. cbn [length Nat.eqb negb]. unfold tb_fast_merge, tb_copy.
    rewrite rbind_ok, pair_loop by (intros m E; injection E as <-; exact Hn).
    destruct (forallb no_md (self :: o :: o2 :: l) || (is_none fs && is_none fo)); cbn [andb];
      [destruct (is_union sm), (is_union om); cbn [andb]|]; reflexivity.
Qed.

(* the method, with the recursion closed after two unfoldings (the third level is never reached) *)
Definition merge_bottom : merge_rec := fun _ _ _ _ _ _ => RErr E_OTHER.
Definition gen_merge_closed : merge_rec := gen_merge (gen_merge merge_bottom).

Theorem merge_dispatch_bridge_partial self sm om fs fo :
  NoDup (oids self) -> NoDup (sids self) ->
  (forall others, gen_merge_closed self (AList others) sm om fs fo = merge_dispatch self others sm om fs fo) /\
  (forall other, gen_merge_closed self (ATable other) sm om fs fo = merge_dispatch self [other] sm om fs fo).
Proof.
  intros Ho Hs. assert (Hn : ids_nodup self) by (split; assumption).
  split; intros x; unfold gen_merge_closed.
  - apply gen_merge_list. exact Hn.
  - rewrite gen_merge_single by exact Hn. unfold merge_pair, merge_dispatch. reflexivity.
Qed.

(* the level the recursion is cut at does not matter *)
Theorem merge_recursion_closed_partial (rec : merge_rec) self a sm om fs fo :
  NoDup (oids self) -> NoDup (sids self) ->
  gen_merge (gen_merge rec) self a sm om fs fo = gen_merge_closed self a sm om fs fo.
Proof.
  intros Ho Hs. assert (Hn : ids_nodup self) by (split; assumption).
  unfold gen_merge_closed. destruct a as [o|l].
  - rewrite !gen_merge_single by exact Hn. reflexivity.
  - rewrite !gen_merge_list by exact Hn. reflexivity.
Qed.

(* the hypothesis is satisfiable (ids of a well-formed table are distinct, C05) *)
Example merge_bridge_hypothesis_satisfiable :
  exists t : table, NoDup (oids t) /\ NoDup (sids t) /\ oids t <> [] /\ sids t <> [].
Proof.
  exists (mkT [1%Z; 2%Z] [7%Z] [[1%Z]; [0%Z]] None None NOTYPE). cbn [oids sids].
  repeat split; try discriminate; repeat constructor; cbn [In]; intuition discriminate.
Qed.
