(* Bridges for C09: Table.merge as tools/py2v_merge regenerates it on every check from
   biom/table.py (Gen/MergeGen.v, over Gen/MergePrelude.v), against the hand-written entry point
   Merge.merge_dispatch.  The generated method takes the function its recursive call goes to as a
   parameter; the source recurses only from the pairwise loop and only with a single table, for
   which the callee never recurses again, so two unfoldings are the method for every argument,
   whatever stands at the third level. *)
From Coq Require Import List Arith ZArith Lia Bool.
From BiomV Require Import Base.Tree Base.ListUtil Base.Matrix Model.Table Model.Merge.
From BiomV Require Import Gen.MergePrelude Gen.MergeGen.
Import ListNotations.

Definition merge_rec := table -> marg -> mode -> mode -> option mdf -> option mdf -> result table.

Lemma no_md_gen l :
  forallb (fun t => forallb (fun ax => is_none (tb_metadata t ax)) [Samp; Obs]) l = forallb no_md l.
Proof.
  induction l as [|t l IH]; [reflexivity|]. cbn [forallb] in *. rewrite IH. f_equal.
  unfold no_md, tb_metadata. destruct (omd t), (smd t); reflexivity.
Qed.

Lemma mode_eqb_union m : mode_eqb m Union = is_union m.
Proof. destruct m; reflexivity. Qed.

Lemma rbind_ok {A} (r : result A) : rbind r (fun x => ROk x) = r.
Proof. destruct r; reflexivity. Qed.

(* a single table: no call of the recursion parameter *)
Lemma gen_merge_single (rec : merge_rec) self o sm om fs fo :
  gen_merge rec self (ATable o) sm om fs fo = merge_pair sm om fs fo self o.
Proof.
  unfold gen_merge, merge_pair, fast_ok. cbv zeta. cbn [arg_is_seq arg_table arg_list app].
  rewrite no_md_gen, !mode_eqb_union.
  cbn [length Nat.eqb negb list_item nth_error rbind]. unfold merge_tail, tb_fast_merge.
  destruct (forallb no_md [self; o] || (is_none fs && is_none fo)); cbn [andb];
    [destruct (is_union sm && is_union om) eqn:E|].
  - destruct (is_union sm), (is_union om); try discriminate. reflexivity.
  - destruct (is_union sm), (is_union om); try discriminate; reflexivity.
  - reflexivity.
Qed.

Lemma pair_loop (rec : merge_rec) sm om fs fo others : forall acc,
  fold_left (fun (acc : result table) (other : table) => rbind acc (fun merged : table =>
     rbind (gen_merge rec merged (ATable other) sm om fs fo) (fun merged : table => ROk merged))) others acc
  = fold_left (pair_step sm om fs fo) others acc.
Proof.
  induction others as [|o l IH]; intros acc; [reflexivity|]. cbn [fold_left]. rewrite IH. f_equal.
  destruct acc; cbn [rbind pair_step]; [|reflexivity]. rewrite rbind_ok. apply gen_merge_single.
Qed.

Lemma gen_merge_list (rec : merge_rec) self others sm om fs fo :
  gen_merge (gen_merge rec) self (AList others) sm om fs fo = merge_dispatch self others sm om fs fo.
Proof.
  unfold gen_merge at 1. unfold merge_dispatch, fast_ok. cbv zeta. cbn [arg_is_seq arg_list app].
  rewrite no_md_gen, !mode_eqb_union. unfold tb_fast_merge, tb_copy, merge_tail.
  assert (K : (if negb (Nat.eqb (length others) 1)
               then rbind (fold_left (fun (acc : result table) (other : table) => rbind acc (fun merged : table =>
                      rbind (gen_merge rec merged (ATable other) sm om fs fo) (fun merged : table => ROk merged)))
                      others (ROk self)) (fun merged : table => ROk merged)
               else rbind (list_item others 0) (fun other : table => merge_general self other sm om fs fo))
              = match others with
                | [other] => merge_general self other sm om fs fo
                | _ => fold_left (pair_step sm om fs fo) others (ROk self)
                end).
  { rewrite rbind_ok, pair_loop. destruct others as [|o [|o2 l]]; reflexivity. }
  destruct (forallb no_md (self :: others) || (is_none fs && is_none fo)); cbn [andb];
    [destruct (is_union sm), (is_union om); cbn [andb]|]; try reflexivity; exact K.
Qed.

(* the method, with the recursion closed after two unfoldings (the third level is never reached) *)
Definition merge_bottom : merge_rec := fun _ _ _ _ _ _ => RErr E_OTHER.
Definition gen_merge_closed : merge_rec := gen_merge (gen_merge merge_bottom).

Theorem merge_dispatch_bridge self sm om fs fo :
  (forall others, gen_merge_closed self (AList others) sm om fs fo = merge_dispatch self others sm om fs fo) /\
  (forall other, gen_merge_closed self (ATable other) sm om fs fo = merge_dispatch self [other] sm om fs fo).
Proof.
  split; intros x; unfold gen_merge_closed.
  - apply gen_merge_list.
  - rewrite gen_merge_single. unfold merge_pair, merge_dispatch. reflexivity.
Qed.

(* the level the recursion is cut at does not matter *)
Theorem merge_recursion_closed (rec : merge_rec) self a sm om fs fo :
  gen_merge (gen_merge rec) self a sm om fs fo = gen_merge_closed self a sm om fs fo.
Proof.
  unfold gen_merge_closed. destruct a as [o|l].
  - rewrite !gen_merge_single. reflexivity.
  - rewrite !gen_merge_list. reflexivity.
Qed.
