(* Bridges between the REGENERATED wrappers of filtering (Gen/FilterWrapGen.v, from biom/_filter.pyx _filter and
   biom/table.py Table.filter / remove_empty / head by tools/py2v_filt) and the hand-written model
   Model/Filter.v.  Restated at the end of Props/C08.v. *)
From Coq Require Import List Arith ZArith Bool Lia.
From BiomV Require Import Base.Tree Base.ListUtil Base.Matrix Gen.FiltPrelude Gen.FilterWrapGen Proofs.FilterProofs.
Import ListNotations.

Lemma rmap_eta {A B} (f : A -> result B) l : rmap (fun x => r <- f x ;; ROk r) l = rmap f l.
Proof. induction l as [|x l IH]; simpl; [reflexivity|]. destruct (f x); simpl; [rewrite IH|]; reflexivity. Qed.

(* the list comprehension of lookups: all found (their positions) or KeyError *)
Lemma rmap_index_get ids keep :
  rmap (index_get ids) keep =
  if forallb (fun x => zmem x ids) keep then ROk (map (fun x => match pos x ids with Some i => i | None => 0 end) keep)
  else RErr E_KEY.
Proof.
  induction keep as [|k keep IH]; simpl; [reflexivity|].
  unfold index_get at 1. destruct (pos k ids) as [i|] eqn:P.
  - assert (Z : zmem k ids = true).
    { apply zmem_In. destruct (pos_Some _ _ _ P) as [E L]. rewrite <- E. apply nth_In. exact L. }
    rewrite Z. simpl. rewrite IH. destruct (forallb _ keep); reflexivity.
  - assert (Z : zmem k ids = false).
    { destruct (zmem k ids) eqn:E; [|reflexivity]. apply zmem_In in E. apply pos_None in P. contradiction. }
    rewrite Z. reflexivity.
Qed.

Lemma upd_oob {A} (l : list A) i v : length l <= i -> upd l i v = l.
Proof. intros H. unfold upd. rewrite skipn_all2 by lia. rewrite firstn_all2 by lia. apply app_nil_r. Qed.

Lemma put_nth idx : forall l p,
  nth p (np_put l idx true) false = nth p l false || (Nat.ltb p (length l) && existsb (Nat.eqb p) idx).
Proof.
  unfold np_put. induction idx as [|i idx IH]; intros l p; cbn [fold_left existsb].
  - rewrite andb_false_r, orb_false_r. reflexivity.
  - rewrite IH, upd_length. destruct (Nat.eqb_spec p i) as [->|N].
    + destruct (Nat.ltb_spec i (length l)) as [L|L].
      * rewrite nth_upd_eq by exact L. cbn [orb andb]. rewrite orb_true_r. reflexivity.
      * rewrite upd_oob by lia. cbn [andb]. reflexivity.
    + rewrite nth_upd_neq by (intro; apply N; congruence). cbn [orb]. reflexivity.
Qed.

Lemma put_length idx : forall l, length (np_put l idx true) = length l.
Proof. unfold np_put. induction idx as [|i idx IH]; intros l; simpl; [reflexivity|]. rewrite IH. apply upd_length. Qed.

Lemma NoDup_nth_Z (l : list Z) i j : NoDup l -> i < length l -> j < length l -> nth i l 0%Z = nth j l 0%Z -> i = j.
Proof. intros N. apply (proj1 (NoDup_nth l 0%Z) N). Qed.

Lemma map_nth_lt {A B} (f : A -> B) l d d' p : p < length l -> nth p (map f l) d = f (nth p l d').
Proof. revert p. induction l as [|x l IH]; intros [|p] H; simpl in *; try lia; [reflexivity|]. apply IH. lia. Qed.

Lemma keep_mask ids keep invert : NoDup ids -> forallb (fun x => zmem x ids) keep = true ->
  np_xor (np_put (np_zeros_bool (length ids)) (map (fun x => match pos x ids with Some i => i | None => 0 end) keep) true) invert
  = map (fun i => xorb (zmem i keep) invert) ids.
Proof.
  intros N K. unfold np_xor.
  apply (nth_ext _ _ false false).
  - rewrite !map_length, put_length. unfold np_zeros_bool. apply repeat_length.
  - intros p Hp. rewrite map_length, put_length in Hp. unfold np_zeros_bool in Hp. rewrite repeat_length in Hp.
    rewrite (map_nth_lt (fun x => xorb x invert) _ false false) by (rewrite put_length; unfold np_zeros_bool; rewrite repeat_length; exact Hp).
    rewrite (map_nth_lt (fun i => xorb (zmem i keep) invert) ids false 0%Z) by exact Hp.
    f_equal. rewrite put_nth. unfold np_zeros_bool. rewrite repeat_length.
    assert (R : nth p (repeat false (length ids)) false = false).
    { destruct (nth_in_or_default p (repeat false (length ids)) false) as [I|E]; [apply repeat_spec in I; exact I|exact E]. }
    rewrite R. simpl. destruct (Nat.ltb_spec p (length ids)) as [_|L]; [|lia]. simpl.
    clear R. induction keep as [|k keep IH]; simpl; [reflexivity|].
    simpl in K. apply andb_true_iff in K. destruct K as [K1 K2]. rewrite IH by exact K2. f_equal.
    apply zmem_In in K1. destruct (pos k ids) as [i|] eqn:P; [|apply pos_None in P; contradiction].
    destruct (pos_Some _ _ _ P) as [E L].
    destruct (Nat.eqb_spec p i) as [->|Np].
    + symmetry. apply Z.eqb_eq. exact E.
    + symmetry. apply Z.eqb_neq. intros Q. apply Np. apply (NoDup_nth_Z ids); try assumption. congruence.
Qed.

Lemma py_errcheck_ok o : NoDup (oids (o_t o)) -> NoDup (sids (o_t o)) -> py_errcheck o = ROk tt.
Proof.
  intros A B. unfold py_errcheck, errcheck.
  apply zdup_false_NoDup in A. apply zdup_false_NoDup in B. rewrite A, B. reflexivity.
Qed.

Arguments np_zeros_bool : simpl never.
Arguments np_xor : simpl never.
Arguments np_put : simpl never.
Arguments py_errcheck : simpl never.

(* Table.filter with an iterable of ids (through the regenerated _filter): the hand model, the receiver afterwards
   (the result when in place, untouched otherwise) and both stored lookups rebuilt consistently.
   PARTIAL: ids without duplicates on both axes (part of Model/Table.v wf; a table with a duplicate is refused
   by errcheck, and its dict lookup keeps the LAST position where the model's pos gives the first). *)
Theorem gen_filter_ids_is_source_partial : forall keep invert a t inplace, NoDup (oids t) -> NoDup (sids t) ->
  gen_filter (lift t) (KIter keep) (name_of a) invert inplace =
  match filter_ids keep invert a t with
  | ROk t' => ROk (if inplace then lift t' else lift t, lift t')
  | RErr c => RErr c
  end.
Proof.
  intros keep invert a t inplace No Ns. destruct t as [oi si m om sm ty]. cbn [oids sids] in No, Ns.
  unfold gen_filter, filter_ids.
  destruct a, inplace; cbn; rewrite rmap_eta, rmap_index_get;
    (destruct (forallb _ keep) eqn:K; [|reflexivity]); cbn; unfold np_view_u8; rewrite keep_mask by assumption;
    (rewrite py_errcheck_ok; [| cbn; unfold np_asarray_ids, py_compress; try apply select_NoDup; assumption ..]);
    cbn; unfold np_asarray_ids, py_compress, lift, norm_md, filter_table, filter_mask; cbn.
  all: try (destruct om; reflexivity). all: try (destruct sm; reflexivity).
  Show.
Qed.
