(* Bridges between the REGENERATED wrappers of filtering (Gen/FilterWrapGen.v, from biom/_filter.pyx _filter and
   biom/table.py Table.filter / remove_empty / head by tools/py2v_filt) and the hand-written model
   Model/Filter.v.  Restated at the end of Props/C08.v. *)
From Coq Require Import List Arith ZArith Bool Lia.
From BiomV Require Import Base.Tree Base.ListUtil Base.Matrix Gen.FiltPrelude Gen.FilterWrapGen Proofs.FilterProofs.
Import ListNotations.

Lemma rmap_eta {A B} (f : A -> result B) l : rmap (fun x => r <- f x ;; ROk r) l = rmap f l.
Proof. induction l as [|x l IH]; simpl; [reflexivity|]. destruct (f x); simpl; [rewrite IH|]; reflexivity. Qed.

(* the list comprehension of lookups: all found (their positions) or KeyError *)
Lemma rmap_index_get ids keep :
  rmap (index_get ids) keep =
  if forallb (fun x => zmem x ids) keep then ROk (map (fun x => match pos x ids with Some i => i | None => 0 end) keep)
  else RErr E_KEY.
Proof.
  induction keep as [|k keep IH]; simpl; [reflexivity|].
  unfold index_get at 1. destruct (pos k ids) as [i|] eqn:P.
  - assert (Z : zmem k ids = true).
    { apply zmem_In. destruct (pos_Some _ _ _ P) as [E L]. rewrite <- E. apply nth_In. exact L. }
    rewrite Z. simpl. rewrite IH. destruct (forallb _ keep); reflexivity.
  - assert (Z : zmem k ids = false).
    { destruct (zmem k ids) eqn:E; [|reflexivity]. apply zmem_In in E. apply pos_None in P. contradiction. }
    rewrite Z. reflexivity.
Qed.

Lemma upd_oob {A} (l : list A) i v : length l <= i -> upd l i v = l.
Proof. intros H. unfold upd. rewrite skipn_all2 by lia. rewrite firstn_all2 by lia. apply app_nil_r. Qed.

Lemma put_nth idx : forall l p,
  nth p (np_put l idx true) false = nth p l false || (Nat.ltb p (length l) && existsb (Nat.eqb p) idx).
Proof.
  unfold np_put. induction idx as [|i idx IH]; intros l p; cbn [fold_left existsb].
  - rewrite andb_false_r, orb_false_r. reflexivity.
  - rewrite IH, upd_length. destruct (Nat.eqb_spec p i) as [->|N].
    + destruct (Nat.ltb_spec i (length l)) as [L|L].
      * rewrite nth_upd_eq by exact L. cbn [orb andb]. rewrite orb_true_r. reflexivity.
      * rewrite upd_oob by lia. cbn [andb]. reflexivity.
    + rewrite nth_upd_neq by (intro; apply N; congruence). cbn [orb]. reflexivity.
Qed.

Lemma put_length idx : forall l, length (np_put l idx true) = length l.
Proof. unfold np_put. induction idx as [|i idx IH]; intros l; simpl; [reflexivity|]. rewrite IH. apply upd_length. Qed.

Lemma NoDup_nth_Z (l : list Z) i j : NoDup l -> i < length l -> j < length l -> nth i l 0%Z = nth j l 0%Z -> i = j.
Proof. intros N. apply (proj1 (NoDup_nth l 0%Z) N). Qed.

Lemma map_nth_lt {A B} (f : A -> B) l d d' p : p < length l -> nth p (map f l) d = f (nth p l d').
Proof. revert p. induction l as [|x l IH]; intros [|p] H; simpl in *; try lia; [reflexivity|]. apply IH. lia. Qed.

Lemma keep_mask ids keep invert : NoDup ids -> forallb (fun x => zmem x ids) keep = true ->
  np_xor (np_put (np_zeros_bool (length ids)) (map (fun x => match pos x ids with Some i => i | None => 0 end) keep) true) invert
  = map (fun i => xorb (zmem i keep) invert) ids.
Proof.
  intros N K. unfold np_xor.
  apply (nth_ext _ _ false false).
  - rewrite !map_length, put_length. unfold np_zeros_bool. apply repeat_length.
  - intros p Hp. rewrite map_length, put_length in Hp. unfold np_zeros_bool in Hp. rewrite repeat_length in Hp.
    rewrite (map_nth_lt (fun x => xorb x invert) _ false false) by (rewrite put_length; unfold np_zeros_bool; rewrite repeat_length; exact Hp).
    rewrite (map_nth_lt (fun i => xorb (zmem i keep) invert) ids false 0%Z) by exact Hp.
    f_equal. rewrite put_nth. unfold np_zeros_bool. rewrite repeat_length.
    assert (R : nth p (repeat false (length ids)) false = false).
    { destruct (nth_in_or_default p (repeat false (length ids)) false) as [I|E]; [apply repeat_spec in I; exact I|exact E]. }
    rewrite R. simpl. destruct (Nat.ltb_spec p (length ids)) as [_|L]; [|lia]. simpl.
    clear R. induction keep as [|k keep IH]; simpl; [reflexivity|].
    simpl in K. apply andb_true_iff in K. destruct K as [K1 K2]. rewrite IH by exact K2. f_equal.
    apply zmem_In in K1. destruct (pos k ids) as [i|] eqn:P; [|apply pos_None in P; contradiction].
    destruct (pos_Some _ _ _ P) as [E L].
    destruct (Nat.eqb_spec p i) as [->|Np].
    + symmetry. apply Z.eqb_eq. exact E.
    + symmetry. apply Z.eqb_neq. intros Q. apply Np. apply (NoDup_nth_Z ids); try assumption. congruence.
Qed.

Lemma py_errcheck_ok o : NoDup (oids (o_t o)) -> NoDup (sids (o_t o)) -> py_errcheck o = ROk tt.
Proof.
  intros A B. unfold py_errcheck, errcheck.
  apply zdup_false_NoDup in A. apply zdup_false_NoDup in B. rewrite A, B. reflexivity.
Qed.

Arguments np_zeros_bool : simpl never.
Arguments np_xor : simpl never.
Arguments np_put : simpl never.
Arguments py_errcheck : simpl never.

(* Table.filter with an iterable of ids (through the regenerated _filter): the hand model, the receiver afterwards
   (the result when in place, untouched otherwise) and both stored lookups rebuilt consistently.
   PARTIAL: ids without duplicates on both axes (part of Model/Table.v wf; a table with a duplicate is refused
   by errcheck, and its dict lookup keeps the LAST position where the model's pos gives the first). *)
Theorem gen_filter_ids_is_source_partial : forall keep invert a t inplace, NoDup (oids t) -> NoDup (sids t) ->
  gen_filter (lift t) (KIter keep) (name_of a) invert inplace =
  match filter_ids keep invert a t with
  | ROk t' => ROk (if inplace then lift t' else lift t, lift t')
  | RErr c => RErr c
  end.
Proof.
  intros keep invert a t inplace No Ns. destruct t as [oi si m om sm ty]. cbn [oids sids] in No, Ns.
  unfold gen_filter, filter_ids.
  destruct a, inplace; cbn; rewrite rmap_eta, rmap_index_get;
    (destruct (forallb _ keep) eqn:K; [|reflexivity]); cbn; unfold np_view_u8; rewrite keep_mask by assumption;
    (rewrite py_errcheck_ok; [| cbn; unfold np_asarray_ids, py_compress; try apply select_NoDup; assumption ..]);
    cbn; unfold np_asarray_ids, py_compress, lift, norm_md, filter_table, filter_mask; cbn.
  all: try (destruct om; reflexivity). all: try (destruct sm; reflexivity).

Qed.

(* Table.filter with a function: its verdicts are an input of the model (Model/Filter.v filter_pred) *)
Theorem gen_filter_pred_is_source_partial : forall verdicts invert a t inplace, NoDup (oids t) -> NoDup (sids t) ->
  gen_filter (lift t) (KFun verdicts) (name_of a) invert inplace =
  ROk (if inplace then lift (filter_pred verdicts invert a t) else lift t, lift (filter_pred verdicts invert a t)).
Proof.
  intros verdicts invert a t inplace No Ns. destruct t as [oi si m om sm ty]. cbn [oids sids] in No, Ns.
  unfold gen_filter, filter_pred.
  destruct a, inplace; cbn;
    (rewrite py_errcheck_ok; [| cbn; unfold np_asarray_ids, py_compress; try apply select_NoDup; assumption ..]);
    cbn; unfold np_asarray_ids, py_compress, lift, norm_md, filter_table, filter_mask; cbn.
  all: try (destruct om; reflexivity). all: try (destruct sm; reflexivity).
Qed.

(* anything else is TypeError; an axis name that is none of the two is UnknownAxisError, before anything is touched *)
Theorem gen_filter_other_refused : forall a t invert inplace,
  gen_filter (lift t) KOther (name_of a) invert inplace = RErr E_TYPE.
Proof. intros [] t invert []; reflexivity. Qed.
Theorem gen_filter_bad_axis_refused : forall n o k invert inplace, n = N_whole \/ n = N_other ->
  gen_filter o k n invert inplace = RErr E_UNKNOWN.
Proof. intros n o k invert inplace [-> | ->]; destruct inplace; reflexivity. Qed.

(* ---- remove_empty *)
Lemma count_nz_pos l : Nat.ltb 0 (count_nz l) = negb (all_zero l).
Proof.
  unfold count_nz, all_zero. induction l as [|v l IH]; simpl; [reflexivity|].
  destruct v; simpl; try exact IH; reflexivity.
Qed.

Lemma xor_false_map v : map (fun b => xorb b false) v = v.
Proof. induction v as [|b v IH]; simpl; [reflexivity|]. rewrite IH, xorb_false_r. reflexivity. Qed.

Lemma mask_samp t : np_gt0 (np_asarray_ravel (sp_count_along (sp_ne0 (tb_get_data (lift t))) 0%Z)) = nonempty_mask Samp t.
Proof.
  unfold np_gt0, np_asarray_ravel, sp_count_along, sp_ne0, tb_get_data, nonempty_mask. cbn.
  rewrite map_map. apply map_ext. intros i. apply count_nz_pos.
Qed.
Lemma mask_obs t : np_gt0 (np_asarray_ravel (sp_count_along (sp_ne0 (tb_get_data (lift t))) 1%Z)) = nonempty_mask Obs t.
Proof.
  unfold np_gt0, np_asarray_ravel, sp_count_along, sp_ne0, tb_get_data, nonempty_mask. cbn.
  rewrite map_map. apply map_ext. intros i. apply count_nz_pos.
Qed.

Lemma nonempty_mask_length a t : length (nonempty_mask a t) = length (ids a t).
Proof. unfold nonempty_mask. rewrite map_length, seq_length. reflexivity. Qed.

Lemma wf_NoDup t : wf t -> NoDup (oids t) /\ NoDup (sids t).
Proof. intros (_ & _ & A & B & _). split; assumption. Qed.

(* filtering (in place) by the ids a mask selects = the mask *)
Lemma gen_filter_mask a t mask : wf t -> length mask = length (ids a t) ->
  gen_filter (lift t) (KIter (np_mask_index (ids a t) mask)) (name_of a) false true =
  ROk (lift (filter_table mask a t), lift (filter_table mask a t)).
Proof.
  intros W L. destruct (wf_NoDup t W) as [No Ns].
  rewrite gen_filter_ids_is_source_partial by assumption.
  change (np_mask_index (ids a t) mask) with (accepted mask a t).
  rewrite filter_pred_eq_ids by assumption. unfold filter_pred. rewrite xor_false_map. reflexivity.
Qed.

Arguments gen_filter : simpl never.
Arguments np_gt0 : simpl never.
Arguments sp_count_along : simpl never.
Arguments tb_get_data : simpl never.
Arguments np_mask_index : simpl never.
Arguments lift : simpl never.

Lemma step_obs t : wf t ->
  gen_filter (lift t) (KIter (np_mask_index (oids (o_t (lift t)))
     (np_gt0 (np_asarray_ravel (sp_count_along (sp_ne0 (tb_get_data (lift t))) 1%Z))))) N_observation false true
  = ROk (lift (remove_empty_axis Obs t), lift (remove_empty_axis Obs t)).
Proof.
  intros W. rewrite mask_obs. change (o_t (lift t)) with t. change (oids t) with (ids Obs t).
  change N_observation with (name_of Obs). apply gen_filter_mask; [exact W|apply nonempty_mask_length].
Qed.
Lemma step_samp t : wf t ->
  gen_filter (lift t) (KIter (np_mask_index (sids (o_t (lift t)))
     (np_gt0 (np_asarray_ravel (sp_count_along (sp_ne0 (tb_get_data (lift t))) 0%Z))))) N_sample false true
  = ROk (lift (remove_empty_axis Samp t), lift (remove_empty_axis Samp t)).
Proof.
  intros W. rewrite mask_samp. change (o_t (lift t)) with t. change (sids t) with (ids Samp t).
  change N_sample with (name_of Samp). apply gen_filter_mask; [exact W|apply nonempty_mask_length].
Qed.

(* remove_empty on one axis / on 'whole' (samples first, then the observations of the result) / refusal.
   PARTIAL: wf t (coherent table: rectangular matrix, ids without duplicates, metadata of matching length) *)
Theorem gen_remove_empty_axis_is_source_partial : forall a t inplace, wf t ->
  gen_remove_empty (lift t) (name_of a) inplace =
  ROk (if inplace then lift (remove_empty_axis a t) else lift t, lift (remove_empty_axis a t)).
Proof.
  intros a t inplace W. unfold gen_remove_empty.
  destruct a, inplace; cbn; unfold tb_copy; rewrite ?step_obs, ?step_samp by exact W; reflexivity.
Qed.

Theorem gen_remove_empty_whole_is_source_partial : forall t inplace, wf t ->
  gen_remove_empty (lift t) N_whole inplace =
  ROk (if inplace then lift (remove_empty_whole t) else lift t, lift (remove_empty_whole t)).
Proof.
  intros t inplace W. unfold gen_remove_empty, remove_empty_whole.
  assert (W' : wf (remove_empty_axis Samp t)) by (apply wf_filter_table; exact W).
  destruct inplace; cbn; unfold tb_copy; rewrite step_samp by exact W; cbn; rewrite step_obs by exact W'; reflexivity.
Qed.

Theorem gen_remove_empty_bad_axis_refused : forall o inplace, gen_remove_empty o N_other inplace = RErr E_UNKNOWN.
Proof. reflexivity. Qed.

(* ---- head *)
Lemma head_mask_length k len : length (head_mask k len) = len.
Proof. unfold head_mask. rewrite map_length, seq_length. reflexivity. Qed.

Lemma gen_filter_head a t z inplace : wf t ->
  gen_filter (lift t) (KIter (np_slice_to (ids a t) z)) (name_of a) false inplace =
  ROk (if inplace then lift (filter_table (head_mask (Z.to_nat z) (length (ids a t))) a t) else lift t,
       lift (filter_table (head_mask (Z.to_nat z) (length (ids a t))) a t)).
Proof.
  intros W. destruct (wf_NoDup t W) as [No Ns]. unfold np_slice_to.
  rewrite gen_filter_ids_is_source_partial by assumption.
  replace (firstn (Z.to_nat z) (ids a t)) with (accepted (head_mask (Z.to_nat z) (length (ids a t))) a t)
    by (unfold accepted, head_mask; rewrite select_head_mask, Nat.sub_0_r; reflexivity).
  rewrite filter_pred_eq_ids by (try exact W; apply head_mask_length).
  unfold filter_pred. rewrite xor_false_map. reflexivity.
Qed.

(* head(n, m): the two refusals, then the observation filter on a copy and the sample filter of that copy in place;
   the receiver is untouched.  PARTIAL: wf t *)
Theorem gen_head_is_source_partial : forall n m t, wf t ->
  gen_head (lift t) n m = match head n m t with ROk t' => ROk (lift t, lift t') | RErr c => RErr c end.
Proof.
  intros n m t W. unfold gen_head, head.
  destruct (Z.leb n 0); [reflexivity|]. destruct (Z.leb m 0); [reflexivity|]. cbn.
  change (o_t (lift t)) with t. change (oids t) with (ids Obs t). change N_observation with (name_of Obs).
  rewrite gen_filter_head by exact W. cbn.
  set (t1 := filter_table (head_mask (Z.to_nat n) (length (oids t))) Obs t).
  assert (W1 : wf t1) by (apply wf_filter_table; exact W).
  change (sids t) with (ids Samp t1). change N_sample with (name_of Samp).
  rewrite gen_filter_head by exact W1. cbn. reflexivity.
Qed.

(* the hypotheses of the partial bridges are satisfiable *)
Definition bridge_ex : table := mkT [1; 2]%Z [7; 8; 9]%Z [[0; 1; 0]; [0; 0; 0]]%Z None (Some [md_empty; md_empty; md_empty]) 0%Z.
Example bridge_ex_wf : wf bridge_ex.
Proof.
  unfold wf, bridge_ex; cbn. repeat split; try reflexivity.
  - repeat constructor; cbn; intuition congruence.
  - repeat constructor; cbn; intuition congruence.
  - repeat constructor; cbn; intuition congruence.
Qed.
Example bridge_ex_remove_empty :
  option_map (fun p => (oids (o_t (snd p)), sids (o_t (snd p)), mat (o_t (snd p))))
    (match gen_remove_empty (lift bridge_ex) N_whole true with ROk p => Some p | RErr _ => None end)
  = Some ([1], [8], [[1]])%Z.
Proof. vm_compute. reflexivity. Qed.
