(* Bridges between the summary functions tools/py2v_sum regenerates from biom/util.py
   (Gen/SummaryGen.v, over the vocabulary Gen/SumPrelude.v) and the hand-written model Model/Summary.v. *)
From Coq Require Import List Arith ZArith Lia Bool.
From BiomV Require Import Base.Tree Base.ListUtil Base.Matrix Model.Table Model.Sparse Model.Summary
                          Gen.SumPrelude Gen.SummaryGen Proofs.SummaryProofs.
Import ListNotations.

Lemma bvec_sum_ne v : bvec_sum (vec_ne v 0%Z) = Z.of_nat (count_nz v).
Proof.
  unfold bvec_sum, vec_ne, count_nz. f_equal.
  induction v as [|x t IH]; [reflexivity|]. cbn [map filter].
  destruct (negb (x =? 0)%Z); cbn [length]; rewrite IH; reflexivity.
Qed.

(* one turn of the generated loop stores vcount of the vector under the sample id *)
Lemma loop_vcount b rt d v i :
  compute_counts_per_sample_stats_loop1 b rt d (v, i, tt) = dict_set d i (vcount b v).
Proof.
  unfold compute_counts_per_sample_stats_loop1, vcount. destruct b.
  - rewrite bvec_sum_ne. reflexivity.
  - reflexivity.
Qed.

Lemma dict_set_fresh d k v : ~ In k (map fst d) -> dict_set d k v = d ++ [(k, v)].
Proof.
  induction d as [|[k' v'] t IH]; intro H; [reflexivity|]. cbn [dict_set app].
  destruct (Z.eqb_spec k k') as [E|E].
  - exfalso. apply H. left. symmetry. exact E.
  - rewrite IH; [reflexivity|]. intro I. apply H. right. exact I.
Qed.

Lemma loop_fold b rt : forall vs ids d, NoDup (map fst d ++ ids) ->
  fold_left (compute_counts_per_sample_stats_loop1 b rt)
            (map (fun p => (fst p, snd p, tt)) (combine vs ids)) d
  = d ++ combine ids (map (vcount b) vs).
Proof.
  induction vs as [|v vs IH]; intros ids d ND.
  - cbn. destruct ids; cbn; rewrite app_nil_r; reflexivity.
  - destruct ids as [|i ids]; [cbn; rewrite app_nil_r; reflexivity|].
    cbn [combine map fold_left fst snd]. rewrite loop_vcount.
    assert (F : ~ In i (map fst d)).
    { intro I. apply NoDup_remove_2 in ND. apply ND. apply in_or_app. left. exact I. }
    rewrite (dict_set_fresh _ _ _ F). rewrite IH.
    + rewrite <- app_assoc. reflexivity.
    + rewrite map_app. cbn [map fst]. rewrite <- app_assoc. exact ND.
Qed.

Lemma values_combine : forall (ids l : list Z), length l = length ids -> map snd (combine ids l) = l.
Proof.
  induction ids as [|i ids IH]; intros [|x l] H; try reflexivity; try discriminate.
  cbn. f_equal. apply IH. injection H as H. exact H.
Qed.

Lemma samp_vectors_length rt : dims_ok rt -> length (r_vectors Samp rt) = length (r_sids rt).
Proof.
  unfold dims_ok, r_vectors, col_segs, col_mn, r_nsamp. rewrite dense_of_segs_length.
  destruct (r_fmt rt); intros [A B].
  - rewrite swap_segs_length. exact B.
  - exact A.
Qed.

Lemma stats_tuple (l : list Z) (d : list (Z * Z)) :
  (if Z.eqb (py_len (py_list l)) 0%Z
   then (0%Z, 0%Z, q_of_Z 0%Z, q_of_Z 0%Z, d)
   else (np_min (py_list l), np_max (py_list l), np_median (py_list l), np_mean (py_list l), d))
  = (stats l, d).
Proof. destruct l; reflexivity. Qed.

(* compute_counts_per_sample_stats as regenerated = the hand model r_stats, for a representation whose
   sample ids are distinct and whose dimensions fit its ids (both part of wf_r) *)
Theorem counts_per_sample_stats_bridge_partial : forall binary rt, NoDup (r_sids rt) -> dims_ok rt ->
  compute_counts_per_sample_stats rt binary = r_stats binary rt.
Proof.
  intros b rt ND D. unfold compute_counts_per_sample_stats, r_stats, table_iter, dict_empty.
  rewrite loop_fold by exact ND. cbn [app]. unfold dict_values, r_sample_counts.
  rewrite values_combine by (rewrite map_length; apply samp_vectors_length; exact D).
  apply stats_tuple.
Qed.

Corollary counts_per_sample_stats_bridge_wf : forall binary rt, wf_r rt ->
  compute_counts_per_sample_stats rt binary = r_stats binary rt.
Proof. intros b rt (_ & ND & D & _). apply counts_per_sample_stats_bridge_partial; assumption. Qed.
