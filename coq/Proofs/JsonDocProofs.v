(* The text Table.to_json concatenates is well-formed JSON and denotes the tree of Model/Json.v:
   reading it with the reader of Model/JsonText.v gives back to_json_tree.  The number text
   and the metadata text are oracles with stated contracts (Section hypotheses). *)
From Coq Require Import String.
From Coq Require Import List Arith ZArith Lia Bool.
From BiomV Require Import Base.Tree Base.ListUtil Base.Matrix Base.TreeStr Model.Table Model.Json Model.JsonText.
From BiomV Require Import Proofs.JsonProofs Proofs.JsonTextProofs.
Import ListNotations.
Open Scope Z_scope.

(* ------------------------------------------------------------------ decimal text *)
Lemma dec_val_snoc s c : dec_val (s ++ [c]) = dec_val s * 10 + (c - 48).
Proof. unfold dec_val. rewrite fold_left_app. reflexivity. Qed.

Lemma digits_of_spec f : forall n, (n < f)%nat ->
  dec_val (digits_of f n) = Z.of_nat n /\ forallb is_dec (digits_of f n) = true /\ digits_of f n <> [].
Proof.
  induction f as [|f IH]; intros n H; [lia|]. cbn [digits_of].
  destruct (Nat.ltb_spec n 10) as [L|L].
  - split; [unfold dec_val, digit_char; cbn [fold_left]; lia|]. split; [|discriminate].
    cbn [forallb]. unfold is_dec, digit_char. rewrite andb_true_r.
    apply andb_true_iff. split; apply Z.leb_le; lia.
  - assert (Hd : (n / 10 < f)%nat).
    { assert (n / 10 < n)%nat by (apply Nat.div_lt; lia). lia. }
    destruct (IH _ Hd) as (V & D & N). split; [|split].
    + rewrite dec_val_snoc, V. unfold digit_char.
      pose proof (Nat.div_mod_eq n 10). lia.
    + rewrite forallb_app, D. cbn [forallb andb]. rewrite andb_true_r. unfold is_dec, digit_char.
      pose proof (Nat.mod_upper_bound n 10 ltac:(lia)).
      apply andb_true_iff. split; apply Z.leb_le; lia.
    + intros E. apply app_eq_nil in E. destruct E as [_ E]. discriminate.
Qed.

Lemma show_nat_spec n :
  dec_val (show_nat n) = Z.of_nat n /\ forallb is_dec (show_nat n) = true /\ show_nat n <> [].
Proof. apply digits_of_spec. lia. Qed.

(* ------------------------------------------------------------------ blanks and number spans *)
Definition stops (rest : str) : Prop :=
  match rest with [] => True | c :: _ => is_numchar c = false end.

Lemma span_num_app n : forall rest,
  forallb is_numchar n = true -> stops rest -> span_num (n ++ rest) = (n, rest).
Proof.
  induction n as [|c t IH]; intros rest H S.
  - cbn [app]. destruct rest as [|c r]; [reflexivity|]. cbn [span_num]. cbn [stops] in S. rewrite S. reflexivity.
  - cbn [forallb] in H. apply andb_true_iff in H. destruct H as [Hc Ht].
    cbn [app span_num]. rewrite Hc. rewrite (IH rest Ht S). reflexivity.
Qed.

Lemma is_dec_numchar c : is_dec c = true -> is_numchar c = true.
Proof. unfold is_numchar. intros ->. reflexivity. Qed.

Lemma forallb_dec_numchar s : forallb is_dec s = true -> forallb is_numchar s = true.
Proof.
  intros H. apply forallb_forall. intros c Hc. apply is_dec_numchar.
  rewrite forallb_forall in H. exact (H c Hc).
Qed.

(* what a number character is not *)
Lemma numchar_cases c : is_numchar c = true ->
  In c [48; 49; 50; 51; 52; 53; 54; 55; 56; 57; 45; 43; 46; 101; 69].
Proof.
  unfold is_numchar, is_dec. intros H.
  assert (E : (48 <= c <= 57) \/ c = 45 \/ c = 43 \/ c = 46 \/ c = 101 \/ c = 69).
  { repeat (apply orb_true_iff in H; destruct H as [H|H]);
      try (apply Z.eqb_eq in H; lia).
    apply andb_true_iff in H. destruct H as [A B]. apply Z.leb_le in A. apply Z.leb_le in B. lia. }
  assert (c = 48 \/ c = 49 \/ c = 50 \/ c = 51 \/ c = 52 \/ c = 53 \/ c = 54 \/ c = 55 \/ c = 56 \/ c = 57
          \/ c = 45 \/ c = 43 \/ c = 46 \/ c = 101 \/ c = 69) as X by lia.
  cbn [In]. repeat (destruct X as [X|X]; [subst; tauto|]). subst; tauto.
Qed.

Ltac norm_app := repeat (rewrite <- app_assoc); cbn [app]; repeat (rewrite <- app_assoc); cbn [app].

Section Doc.
  Variable fmt : Z -> str.
  Variable scan_float : str -> option Z.
  Variable dumps_md : json -> str.
  Variable md_fuel : json -> nat.
  Variable ovals : list Z.                 (* the matrix values the number contract is needed for *)
  Variable omds : list json.               (* the metadata values the metadata contract is needed for *)

  (* contract of the number oracle: repr(float) is made of number characters, is not an
     integer literal, and float() of it is the value *)
  Definition fmt_contract : Prop :=
    forall v, In v ovals ->
      fmt v <> [] /\ forallb is_numchar (fmt v) = true /\ int_of_text (fmt v) = None
      /\ scan_float (fmt v) = Some v.
  (* contract of the metadata oracle: what dumps writes for a metadata entry reads back as
     that entry, given enough fuel, whatever follows the closing character *)
  Definition md_contract : Prop :=
    forall j f c rest, In j omds -> (md_fuel j <= f)%nat -> (c = 44 \/ c = 125 \/ c = 93) ->
      parse_value scan_float f (dumps_md j ++ c :: rest) = Some (j, c :: rest).

  Hypothesis Hfmt : fmt_contract.
  Hypothesis Hmd : md_contract.

  Notation pv := (parse_value scan_float).

  (* ---- scalars ---- *)
  Lemma pv_string f s rest : Forall scalar s -> pv (S f) (dumps_str s ++ rest) = Some (JStr s, rest).
  Proof.
    intros Hs. cbn [parse_value]. unfold dumps_str, quote. cbn [app skip_ws].
    change (is_ws 34) with false. cbn iota. change (34 =? 34) with true. cbn iota.
    pose proof (string_literal_roundtrip s rest Hs) as R. unfold dumps_str, quote in R. cbn [app] in R.
    rewrite R. reflexivity.
  Qed.

  Lemma pv_raw f s rest : Forall clean s -> pv (S f) (raw_literal s ++ rest) = Some (JStr s, rest).
  Proof.
    intros Hs. cbn [parse_value]. unfold raw_literal, quote. cbn [app skip_ws].
    change (is_ws 34) with false. cbn iota. change (34 =? 34) with true. cbn iota.
    pose proof (proj2 (raw_literal_iff s rest) Hs) as R. unfold raw_literal, quote in R. cbn [app] in R.
    rewrite R. reflexivity.
  Qed.

  (* the head of a number text selects the number branch of the reader *)
  Lemma pv_number_head f c r :
    is_numchar c = true -> pv (S f) (c :: r) = parse_number scan_float (c :: r).
  Proof.
    intros H. apply numchar_cases in H. cbn [In] in H.
    repeat (destruct H as [<-|H]; [reflexivity|]). contradiction.
  Qed.

  Lemma pv_nat f n rest : stops rest -> pv (S f) (show_nat n ++ rest) = Some (JInt (Z.of_nat n), rest).
  Proof.
    intros S. destruct (show_nat_spec n) as (V & D & N).
    destruct (show_nat n) as [|c t] eqn:E; [contradiction|].
    assert (Hc : is_numchar c = true).
    { cbn [forallb] in D. apply andb_true_iff in D. apply is_dec_numchar. tauto. }
    cbn [app]. rewrite pv_number_head by exact Hc.
    unfold parse_number. change (c :: t ++ rest) with ((c :: t) ++ rest).
    rewrite span_num_app by (try apply forallb_dec_numchar; assumption). cbn [fst snd].
    unfold int_of_text.
    assert (N45 : (c =? 45) = false).
    { cbn [forallb] in D. apply andb_true_iff in D. destruct D as [D _]. unfold is_dec in D.
      apply andb_true_iff in D. destruct D as [A _]. apply Z.leb_le in A. apply Z.eqb_neq. lia. }
    rewrite N45, D, V. reflexivity.
  Qed.

  Lemma pv_float f v rest : In v ovals -> stops rest -> pv (S f) (fmt v ++ rest) = Some (JFlt v, rest).
  Proof.
    intros Hin S. destruct (Hfmt v Hin) as (N & C & I & F).
    destruct (fmt v) as [|c t] eqn:E; [contradiction|].
    assert (Hc : is_numchar c = true) by (cbn [forallb] in C; apply andb_true_iff in C; tauto).
    cbn [app]. rewrite pv_number_head by exact Hc.
    unfold parse_number. change (c :: t ++ rest) with ((c :: t) ++ rest).
    rewrite span_num_app by assumption. cbn [fst snd]. rewrite I, F. reflexivity.
  Qed.

  (* ---- blanks ---- *)
  Lemma pv_blank f t : pv f (32 :: t) = pv f t.
  Proof. destruct f; reflexivity. Qed.

  Lemma skip_ws_nonblank c t : is_ws c = false -> skip_ws (c :: t) = c :: t.
  Proof. intros H. cbn [skip_ws]. rewrite H. reflexivity. Qed.

  (* ---- arrays ---- *)
  Definition cjoin (l : list str) : str := concat (map (fun x => 44 :: x) l).
  Lemma join_cons x t : join (K ",") (x :: t) = x ++ cjoin t.
  Proof.
    revert x. induction t as [|y t IH]; intros x; [cbn; rewrite app_nil_r; reflexivity|].
    change (join (K ",") (x :: y :: t)) with (x ++ K "," ++ join (K ",") (y :: t)).
    rewrite IH. reflexivity.
  Qed.
  Lemma cjoin_app a b : cjoin (a ++ b) = cjoin a ++ cjoin b.
  Proof. unfold cjoin. rewrite map_app, concat_app. reflexivity. Qed.

  Definition closes_elem (rest : str) : Prop := match rest with c :: _ => c = 44 \/ c = 93 | [] => False end.
  Definition elem_ok (f : nat) (txt : str) (v : json) : Prop :=
    forall rest, closes_elem rest -> pv f (txt ++ rest) = Some (v, rest).

  Lemma items_ok f texts vals : Forall2 (elem_ok f) texts vals ->
    forall x v n acc rest, elem_ok f x v -> (length texts < n)%nat ->
    parse_items (pv f) n (x ++ cjoin texts ++ 93 :: rest) acc = Some (rev acc ++ v :: vals, rest).
  Proof.
    induction 1 as [|y w t ws Hy Ht IH]; intros x v n acc rest Hx Hn.
    - destruct n as [|n]; [inversion Hn|]. cbn [cjoin map concat app parse_items].
      rewrite (Hx (93 :: rest)) by (right; reflexivity).
      rewrite skip_ws_nonblank by reflexivity.
      change (93 =? 44) with false. change (93 =? 93) with true. cbn iota. cbn [rev]. reflexivity.
    - destruct n as [|n]; [inversion Hn|]. cbn [parse_items].
      change (cjoin (y :: t)) with ((44 :: y) ++ cjoin t). rewrite <- app_assoc. cbn [app].
      rewrite (Hx (44 :: y ++ cjoin t ++ 93 :: rest)) by (left; reflexivity).
      rewrite skip_ws_nonblank by reflexivity. change (44 =? 44) with true. cbn iota.
      rewrite (IH y w n (v :: acc) rest Hy) by (cbn [length] in Hn; lia).
      cbn [rev]. rewrite <- app_assoc. reflexivity.
  Qed.

  Definition starts_elem (x : str) : Prop := exists c r, x = c :: r /\ is_ws c = false /\ c <> 93.

  Lemma pv_array f texts vals x v rest :
    Forall2 (elem_ok f) texts vals -> elem_ok f x v -> starts_elem x -> (length texts < f)%nat ->
    pv (S f) (91 :: x ++ cjoin texts ++ 93 :: rest) = Some (JArr (v :: vals), rest).
  Proof.
    intros Ht Hx (c & r & -> & Hw & Hc) Hn.
    cbn [parse_value]. rewrite skip_ws_nonblank by reflexivity.
    change (91 =? 34) with false. change (91 =? 91) with true. cbn iota.
    cbn [app]. rewrite skip_ws_nonblank by exact Hw.
    assert (E : (c =? 93) = false) by (apply Z.eqb_neq; exact Hc). rewrite E.
    change (c :: r ++ cjoin texts ++ 93 :: rest) with ((c :: r) ++ cjoin texts ++ 93 :: rest).
    rewrite (items_ok f texts vals Ht (c :: r) v f [] rest Hx Hn). reflexivity.
  Qed.

  Lemma pv_empty_array f rest : pv (S f) (91 :: 93 :: rest) = Some (JArr [], rest).
  Proof. reflexivity. Qed.

  (* ---- objects ---- *)
  Definition closes_member (rest : str) : Prop := match rest with c :: _ => c = 44 \/ c = 125 | [] => False end.
  Definition value_ok (f : nat) (vtext : str) (v : json) : Prop :=
    forall rest, closes_member rest -> pv f (vtext ++ rest) = Some (v, rest).

  (* a member: blanks, the key written raw between quotes, a colon, the text of the value *)
  Record member := mkM { m_lead : str; m_key : str; m_vtext : str; m_val : json }.
  Definition member_text (m : member) : str := m_lead m ++ raw_literal (m_key m) ++ 58 :: m_vtext m.
  Definition member_ok (f : nat) (m : member) : Prop :=
    forallb is_ws (m_lead m) = true /\ Forall clean (m_key m) /\ value_ok f (m_vtext m) (m_val m).
  Definition member_kv (m : member) : str * json := (m_key m, m_val m).

  Lemma skip_ws_lead lead t : forallb is_ws lead = true -> skip_ws (lead ++ 34 :: t) = 34 :: t.
  Proof.
    induction lead as [|c l IH]; intros H; [reflexivity|].
    cbn [forallb] in H. apply andb_true_iff in H. destruct H as [Hc Hl].
    cbn [app skip_ws]. rewrite Hc. exact (IH Hl).
  Qed.

  Lemma members_ok f ms : Forall (member_ok f) ms ->
    forall m n acc rest, member_ok f m -> (length ms < n)%nat ->
    parse_members (pv f) n (member_text m ++ cjoin (map member_text ms) ++ 125 :: rest) acc
    = Some (rev acc ++ member_kv m :: map member_kv ms, rest).
  Proof.
    induction 1 as [|m' t Hm' Ht IH]; intros m n acc rest (Hl & Hk & Hv) Hn.
    - destruct n as [|n]; [inversion Hn|]. cbn [map cjoin concat app parse_members].
      unfold member_text. rewrite <- app_assoc.
      change (raw_literal (m_key m)) with (34 :: m_key m ++ [34]). cbn [app].
      rewrite skip_ws_lead by exact Hl.
      pose proof (proj2 (raw_literal_iff (m_key m) ((58 :: m_vtext m) ++ 125 :: rest)) Hk) as R.
      unfold raw_literal, quote in R. cbn [app] in R. rewrite <- app_assoc in R. cbn [app] in R.
      rewrite <- !app_assoc. cbn [app]. rewrite R.
      rewrite skip_ws_nonblank by reflexivity. change (58 =? 58) with true. cbn iota.
      rewrite (Hv (125 :: rest)) by (right; reflexivity).
      rewrite skip_ws_nonblank by reflexivity.
      change (125 =? 44) with false. change (125 =? 125) with true. cbn iota.
      cbn [rev]. reflexivity.
    - destruct n as [|n]; [inversion Hn|]. cbn [map parse_members].
      change (cjoin (member_text m' :: map member_text t))
        with ((44 :: member_text m') ++ cjoin (map member_text t)).
      unfold member_text at 1. rewrite <- !app_assoc.
      change (raw_literal (m_key m)) with (34 :: m_key m ++ [34]). cbn [app].
      rewrite skip_ws_lead by exact Hl.
      pose proof (proj2 (raw_literal_iff (m_key m)
                    ((58 :: m_vtext m) ++ 44 :: member_text m' ++ cjoin (map member_text t) ++ 125 :: rest)) Hk) as R.
      unfold raw_literal, quote in R. cbn [app] in R. rewrite <- app_assoc in R. cbn [app] in R.
      rewrite <- !app_assoc. cbn [app]. rewrite R.
      rewrite skip_ws_nonblank by reflexivity. change (58 =? 58) with true. cbn iota.
      rewrite (Hv (44 :: member_text m' ++ cjoin (map member_text t) ++ 125 :: rest)) by (left; reflexivity).
      rewrite skip_ws_nonblank by reflexivity. change (44 =? 44) with true. cbn iota.
      change ((m_key m, m_val m) :: acc) with (member_kv m :: acc).
      rewrite (IH m' n (member_kv m :: acc) rest Hm') by (cbn [length] in Hn; lia).
      cbn [rev]. rewrite <- app_assoc. reflexivity.
  Qed.

  Lemma pv_object f ms m rest :
    Forall (member_ok f) ms -> member_ok f m -> m_lead m = [] -> (length ms < f)%nat ->
    pv (S f) (123 :: member_text m ++ cjoin (map member_text ms) ++ 125 :: rest)
    = Some (JObj (member_kv m :: map member_kv ms), rest).
  Proof.
    intros Hms Hm Hl Hn. cbn [parse_value]. rewrite skip_ws_nonblank by reflexivity.
    change (123 =? 34) with false. change (123 =? 91) with false. change (123 =? 123) with true. cbn iota.
    pose proof (members_ok f ms Hms m f [] rest Hm Hn) as P.
    unfold member_text at 1. unfold member_text at 1 in P. rewrite Hl in *.
    change (raw_literal (m_key m)) with (34 :: m_key m ++ [34]) in *. cbn [app] in *.
    rewrite skip_ws_nonblank by reflexivity. change (34 =? 125) with false. cbn iota.
    rewrite P. reflexivity.
  Qed.

  (* ---- the pieces of the document ---- *)
  Lemma closes_elem_stops rest : closes_elem rest -> stops rest.
  Proof. destruct rest as [|c r]; [intros []|]. intros [-> | ->]; reflexivity. Qed.

  Lemma show_nat_starts n : starts_elem (show_nat n).
  Proof.
    destruct (show_nat_spec n) as (_ & D & N). destruct (show_nat n) as [|c t]; [contradiction|].
    exists c, t. split; [reflexivity|]. cbn [forallb] in D. apply andb_true_iff in D. destruct D as [D _].
    unfold is_dec in D. apply andb_true_iff in D. destruct D as [A B]. apply Z.leb_le in A. apply Z.leb_le in B.
    split; [|lia]. unfold is_ws.
    repeat (apply orb_false_iff; split); apply Z.eqb_neq; lia.
  Qed.

  Lemma triple_text_form t rest :
    triple_text fmt t ++ rest =
    91 :: show_nat (fst (fst t)) ++ cjoin [show_nat (snd (fst t)); fmt (snd t)] ++ 93 :: rest.
  Proof.
    destruct t as [[i j] v]. unfold triple_text, cjoin. cbn [fst snd map concat].
    change (K "[") with [91]. change (K ",") with [44]. change (K "]") with [93].
    norm_app. reflexivity.
  Qed.

  Lemma pv_triple f t rest :
    In (snd t) ovals -> (2 < f)%nat -> pv (S f) (triple_text fmt t ++ rest) = Some (jtriple t, rest).
  Proof.
    intros Hin Hf. rewrite triple_text_form. destruct t as [[i j] v]. cbn [fst snd jtriple].
    destruct f as [|f]; [lia|].
    apply pv_array; [|intros r Hr; apply pv_nat; apply closes_elem_stops; exact Hr|apply show_nat_starts|cbn [length]; lia].
    constructor; [intros r Hr; apply pv_nat; apply closes_elem_stops; exact Hr|].
    constructor; [intros r Hr; apply pv_float; [exact Hin|apply closes_elem_stops; exact Hr]|constructor].
  Qed.

  Lemma triple_text_starts t : starts_elem (triple_text fmt t).
  Proof. destruct t as [[i j] v]. exists 91, (show_nat i ++ K "," ++ show_nat j ++ K "," ++ fmt v ++ K "]").
    split; [reflexivity|]. split; [reflexivity|discriminate]. Qed.

  (* the comma logic of the observation loop *)
  Lemma data_rows_spec m : forall i,
    data_rows fmt i m true = cjoin (map (triple_text fmt) (triples_from i m))
    /\ data_rows fmt i m false = match map (triple_text fmt) (triples_from i m) with
                                  | [] => []
                                  | x :: t => x ++ cjoin t
                                  end.
  Proof.
    induction m as [|r t IH]; intros i; [split; reflexivity|].
    destruct (IH (S i)) as [IHt IHf]. cbn [data_rows triples_from]. rewrite map_app.
    destruct (map (triple_text fmt) (row_triples i 0 r)) as [|x bt] eqn:E.
    - cbn [app]. split; assumption.
    - rewrite join_cons, IHt. cbn [app]. split.
      + change (K ",") with [44].
        change (cjoin (x :: bt ++ map (triple_text fmt) (triples_from (S i) t)))
          with ((44 :: x) ++ cjoin (bt ++ map (triple_text fmt) (triples_from (S i) t))).
        rewrite cjoin_app. norm_app. reflexivity.
      + rewrite cjoin_app. norm_app. reflexivity.
  Qed.

  Lemma pv_data f m rest :
    Forall (fun t => In (snd t) ovals) (triples m) -> (length (triples m) < f)%nat -> (3 < f)%nat ->
    pv (S f) (data_value fmt m ++ rest) = Some (JArr (map jtriple (triples m)), rest).
  Proof.
    intros Hv Hn Hf. unfold data_value. destruct (data_rows_spec m 0%nat) as [_ Sp]. rewrite Sp. fold (triples m).
    change (K "[") with [91]. change (K "]") with [93].
    destruct (triples m) as [|t0 ts] eqn:E.
    - reflexivity.
    - cbn [map]. rewrite <- !app_assoc. cbn [app].
      destruct f as [|f]; [lia|].
      inversion Hv as [|? ? Hv0 Hvs]; subst.
      apply pv_array.
      + clear E Hn Hv. induction ts as [|a l IHl]; [constructor|]. cbn [map].
        inversion Hvs as [|? ? Ha Hl]; subst. constructor; [|exact (IHl Hl)].
        intros r _. apply pv_triple; [exact Ha|lia].
      + intros r _. apply pv_triple; [exact Hv0|lia].
      + apply triple_text_starts.
      + rewrite map_length. cbn [length] in Hn. lia.
  Qed.

  (* records *)
  Definition KEY_ID : str := K "id".
  Definition KEY_MD : str := K "metadata".
  Lemma key_clean k : forallb cleanb k = true -> Forall clean k.
  Proof. apply forallb_clean. Qed.

  Lemma record_text_form id md rest :
    record_text dumps_md id md ++ rest =
    123 :: member_text (mkM [] KEY_ID (32 :: dumps_str id) (JStr id))
        ++ cjoin [member_text (mkM [32] KEY_MD (32 :: dumps_md md) md)] ++ 125 :: rest.
  Proof.
    unfold record_text, field, member_text, cjoin. cbn [m_lead m_key m_vtext map concat].
    change (K "{") with [123]. change (K ": ") with [58; 32]. change (K ", ") with [44; 32]. change (K "}") with [125].
    norm_app. reflexivity.
  Qed.

  Lemma pv_record f id md rest :
    Forall scalar id -> In md omds -> (md_fuel md < f)%nat -> (1 < f)%nat ->
    pv (S f) (record_text dumps_md id md ++ rest) = Some (jrecord id md, rest).
  Proof.
    intros Hid Hin Hmf Hf. rewrite record_text_form. destruct f as [|f]; [lia|].
    set (m1 := mkM [] KEY_ID (32 :: dumps_str id) (JStr id)).
    set (m2 := mkM [32] KEY_MD (32 :: dumps_md md) md).
    change (cjoin [member_text m2]) with (cjoin (map member_text [m2])).
    change (jrecord id md) with (JObj (member_kv m1 :: map member_kv [m2])).
    apply (pv_object (S f) [m2] m1 rest); [| |reflexivity|cbn [length]; lia].
    - constructor; [|constructor]. split; [reflexivity|]. split; [apply key_clean; vm_compute; reflexivity|].
      intros r Hr. cbn [m2 m_vtext m_val app]. rewrite pv_blank.
      destruct r as [|c r]; [destruct Hr|]. apply Hmd; [exact Hin|lia|]. destruct Hr as [->| ->]; auto.
    - split; [reflexivity|]. split; [apply key_clean; vm_compute; reflexivity|].
      intros r _. cbn [m1 m_vtext m_val app]. rewrite pv_blank. apply pv_string. exact Hid.
  Qed.

  Lemma record_text_starts id md : starts_elem (record_text dumps_md id md).
  Proof.
    eexists 123, _. split; [unfold record_text; change (K "{") with [123]; reflexivity|].
    split; [reflexivity|discriminate].
  Qed.

  Lemma records_text_spec a t :
    records_text dumps_md (a :: t)
    = record_text dumps_md (fst a) (snd a) ++ cjoin (map (fun x => record_text dumps_md (fst x) (snd x)) t) ++ [93].
  Proof.
    revert a. induction t as [|b t IH]; intros a.
    - cbn [records_text map]. change (K "]") with [93]. reflexivity.
    - change (records_text dumps_md (a :: b :: t))
        with (record_text dumps_md (fst a) (snd a) ++ K "," ++ records_text dumps_md (b :: t)).
      rewrite IH. change (K ",") with [44]. cbn [map]. unfold cjoin at 2. cbn [map concat]. fold (cjoin (map (fun x => record_text dumps_md (fst x) (snd x)) t)).
      rewrite <- !app_assoc. reflexivity.
  Qed.

  Definition recs_fuel (l : list (str * json)) : nat := fold_right (fun x a => (md_fuel (snd x) + a)%nat) 0%nat l.

  Lemma recs_fuel_bound l x : In x l -> (md_fuel (snd x) <= recs_fuel l)%nat.
  Proof.
    induction l as [|a t IH]; intros H; [destruct H|]. cbn [recs_fuel fold_right].
    destruct H as [->|H]; [lia|]. specialize (IH H). unfold recs_fuel in IH. lia.
  Qed.

  Lemma records_elems f t :
    Forall (fun x => Forall scalar (fst x)) t -> Forall (fun x => In (snd x) omds) t ->
    (forall x, In x t -> (md_fuel (snd x) < f)%nat) -> (1 < f)%nat ->
    Forall2 (elem_ok (S f)) (map (fun x => record_text dumps_md (fst x) (snd x)) t)
                            (map (fun x => jrecord (fst x) (snd x)) t).
  Proof.
    intros Hs Hi Hm Hf. induction t as [|b t IHt]; [constructor|]. cbn [map].
    inversion Hs as [|? ? Hb Ht']; subst. inversion Hi as [|? ? Hib Hit]; subst.
    constructor.
    - intros r _. apply pv_record; [exact Hb|exact Hib|apply Hm; left; reflexivity|exact Hf].
    - apply IHt; [exact Ht'|exact Hit|]. intros x Hx. apply Hm. right. exact Hx.
  Qed.

  Lemma pv_records f l rest :
    l <> [] -> Forall (fun x => Forall scalar (fst x)) l -> Forall (fun x => In (snd x) omds) l ->
    (length l + recs_fuel l + 2 < f)%nat ->
    pv (S f) (91 :: records_text dumps_md l ++ rest)
    = Some (JArr (map (fun x => jrecord (fst x) (snd x)) l), rest).
  Proof.
    intros Hne Hs Hi Hf. destruct l as [|a t]; [contradiction|]. rewrite records_text_spec.
    norm_app. cbn [map].
    inversion Hs as [|? ? Ha Ht]; subst. inversion Hi as [|? ? Hia Hit]; subst. destruct f as [|f]; [lia|].
    assert (B : forall x, In x (a :: t) -> (md_fuel (snd x) < f)%nat).
    { intros x Hx. pose proof (recs_fuel_bound _ _ Hx) as Hb. cbn [length] in Hf. clear - Hf Hb.
      cbv [str] in *. lia. }
    apply pv_array.
    - apply records_elems; [exact Ht|exact Hit| |cbn [length] in Hf; cbv [str] in *; lia]. intros x Hx. apply B. right. exact Hx.
    - intros r _. apply pv_record; [exact Ha|exact Hia|apply B; left; reflexivity|cbn [length] in Hf; cbv [str] in *; lia].
    - apply record_text_starts.
    - rewrite map_length. cbn [length] in Hf. cbv [str] in *. lia.
  Qed.

  (* ---- an axis ---- *)
  Lemma axis_recs_scalar ids md :
    Forall (Forall scalar) ids -> Forall (fun x => Forall scalar (fst x)) (axis_recs ids md).
  Proof.
    intros H. unfold axis_recs. apply Forall_forall. intros [i m] Hin. apply in_combine_l in Hin.
    rewrite Forall_forall in H. exact (H i Hin).
  Qed.

  Lemma pv_axis f ids md rest :
    md_len md (length ids) -> Forall (Forall scalar) ids -> Forall (fun x => In (snd x) omds) (axis_recs ids md) ->
    (length ids + recs_fuel (axis_recs ids md) + 2 < f)%nat ->
    pv (S f) (axis_value dumps_md ids md ++ rest) = Some (JArr (jrecords ids md), rest).
  Proof.
    intros L Hs Hi Hf. unfold axis_value. destruct ids as [|a t] eqn:E.
    - destruct f; reflexivity.
    - rewrite <- E in *. change (K "[") with [91]. cbn [app].
      assert (Ln : length (axis_recs ids md) = length ids).
      { unfold axis_recs. rewrite combine_length, md_list_length by exact L. apply Nat.min_id. }
      change (jrecords ids md) with (map (fun x => jrecord (fst x) (snd x)) (axis_recs ids md)).
      apply pv_records.
      + intros N. rewrite N in Ln. rewrite E in Ln. discriminate.
      + apply axis_recs_scalar. exact Hs.
      + exact Hi.
      + cbv [str] in *. lia.
  Qed.

  (* ---- the document ---- *)
  Definition text_ok (c : jtable) (tid : str) : Prop :=
    Forall scalar tid
    /\ (exists g, j_genby c = JStr g /\ Forall scalar g)
    /\ (exists d, j_date c = JStr d /\ Forall clean d)
    /\ (j_type c = JNull \/ exists ty, j_type c = JStr ty /\ Forall scalar ty)
    /\ Forall (Forall scalar) (j_oids c) /\ Forall (Forall scalar) (j_sids c)
    /\ md_len (j_omd c) (jnobs c) /\ md_len (j_smd c) (jnsamp c)
    /\ Forall (fun t => In (snd t) ovals) (triples (j_mat c))
    /\ Forall (fun x => In (snd x) omds) (axis_recs (j_oids c) (j_omd c))
    /\ Forall (fun x => In (snd x) omds) (axis_recs (j_sids c) (j_smd c)).

  Definition doc_fuel (c : jtable) : nat :=
    (20 + jnobs c + jnsamp c + length (triples (j_mat c))
     + recs_fuel (axis_recs (j_oids c) (j_omd c)) + recs_fuel (axis_recs (j_sids c) (j_smd c)))%nat.

  Definition doc_members (c : jtable) (tid : str) : list member :=
    [mkM [] (K "format") (32 :: raw_literal FORMAT_1_0) (JStr FORMAT_1_0);
     mkM [] (K "format_url") (32 :: raw_literal FORMAT_URL) (JStr FORMAT_URL);
     mkM [] (K "matrix_type") (32 :: raw_literal (K "sparse")) (JStr (K "sparse"));
     mkM [] (K "generated_by") (32 :: dumps_str (str_of_json (j_genby c))) (j_genby c);
     mkM [] (K "date") (32 :: raw_literal (str_of_json (j_date c))) (j_date c);
     mkM [] (K "type") (32 :: type_value c) (j_type c);
     mkM [] (K "matrix_element_type") (32 :: raw_literal (element_type c)) (JStr (element_type c));
     mkM [] (K "shape") (32 :: K "[" ++ show_nat (jnobs c) ++ K ", " ++ show_nat (jnsamp c) ++ K "]")
         (JArr [JInt (Z.of_nat (jnobs c)); JInt (Z.of_nat (jnsamp c))]);
     mkM [] (K "data") (32 :: data_value fmt (j_mat c)) (JArr (map jtriple (triples (j_mat c))));
     mkM [] (K "rows") (32 :: rows_value dumps_md c) (w_rows c);
     mkM [] (K "columns") (32 :: columns_value dumps_md c) (w_columns c)].
  Definition doc_first (tid : str) : member := mkM [] (K "id") (32 :: dumps_str tid) (JStr tid).

  Lemma to_json_text_form c tid rest :
    to_json_text fmt dumps_md c tid ++ rest
    = 123 :: member_text (doc_first tid) ++ cjoin (map member_text (doc_members c tid)) ++ 125 :: rest.
  Proof.
    unfold to_json_text. rewrite join_cons.
    unfold doc_first, doc_members, field, member_text, cjoin.
    cbn [map concat m_lead m_key m_vtext].
    change (K "{") with [123]. change (K "}") with [125]. change (K ": ") with [58; 32].
    norm_app. reflexivity.
  Qed.

  Lemma to_json_tree_form c tid :
    to_json_tree c tid = JObj (member_kv (doc_first tid) :: map member_kv (doc_members c tid)).
  Proof. reflexivity. Qed.

  Lemma shape_text_form a b rest :
    (K "[" ++ show_nat a ++ K ", " ++ show_nat b ++ K "]") ++ rest
    = 91 :: show_nat a ++ cjoin [32 :: show_nat b] ++ 93 :: rest.
  Proof.
    unfold cjoin. cbn [map concat]. change (K "[") with [91]. change (K ", ") with [44; 32]. change (K "]") with [93].
    norm_app. reflexivity.
  Qed.

  (* C02, text level: the characters to_json concatenates are well-formed JSON and denote
     to_json_tree, given the two oracle contracts and enough fuel for the reader *)
  Theorem json_text_roundtrip c tid f rest :
    text_ok c tid -> (doc_fuel c <= f)%nat ->
    pv f (to_json_text fmt dumps_md c tid ++ rest) = Some (to_json_tree c tid, rest).
  Proof.
    intros (Htid & (g & Hg & Sg) & (d & Hd & Cd) & Hty & So & Ss & Lo & Ls & Vv & Mo & Ms) Hf.
    unfold doc_fuel in Hf.
    destruct f as [|f0]; [lia|]. destruct f0 as [|f1]; [lia|].
    rewrite to_json_text_form, to_json_tree_form.
    assert (Kc : forall k, forallb cleanb k = true -> Forall clean k) by (intros; apply forallb_clean; assumption).
    apply pv_object; [| |reflexivity|cbn [length doc_members]; lia].
    2:{ split; [reflexivity|]. split; [apply Kc; vm_compute; reflexivity|].
        intros r _. cbn [doc_first m_vtext m_val app]. rewrite pv_blank. apply pv_string. exact Htid. }
    unfold doc_members.
    repeat (apply Forall_cons; [split; [reflexivity|]; split; [apply Kc; vm_compute; reflexivity|];
                                 intros r Hr; cbn [m_vtext m_val app]; rewrite pv_blank|]); [..|apply Forall_nil].
    - apply pv_raw. apply Kc. vm_compute. reflexivity.
    - apply pv_raw. apply Kc. vm_compute. reflexivity.
    - apply pv_raw. apply Kc. vm_compute. reflexivity.
    - rewrite Hg. cbn [str_of_json]. apply pv_string. exact Sg.
    - rewrite Hd. cbn [str_of_json]. apply pv_raw. exact Cd.
    - unfold type_value. destruct Hty as [Ty|(ty & Ty & Sty)]; rewrite Ty.
      + reflexivity.
      + cbn [str_of_json]. apply pv_string. exact Sty.
    - apply pv_raw. unfold element_type. destruct ((0 <? jnobs c)%nat && (0 <? jnsamp c)%nat);
        apply Kc; vm_compute; reflexivity.
    - rewrite shape_text_form. destruct f1 as [|f2]; [lia|].
      apply pv_array; [|intros r' Hr'; apply pv_nat; apply closes_elem_stops; exact Hr'|apply show_nat_starts|cbn [length]; lia].
      constructor; [|constructor]. intros r' Hr'. cbn [app]. rewrite pv_blank. apply pv_nat. apply closes_elem_stops. exact Hr'.
    - apply pv_data; [exact Vv|lia|lia].
    - unfold rows_value, w_rows. apply pv_axis; [exact Lo|exact So|exact Mo|]. unfold jnobs, jnsamp in Hf. cbv [str] in *. lia.
    - unfold columns_value, w_columns. apply pv_axis; [exact Ls|exact Ss|exact Ms|]. unfold jnobs, jnsamp in Hf. cbv [str] in *. lia.
  Qed.
End Doc.

(* the whole text is one JSON value denoting the tree *)
Corollary json_text_parses fmt scan_float dumps_md md_fuel ovals omds :
  fmt_contract fmt scan_float ovals -> md_contract scan_float dumps_md md_fuel omds ->
  forall c tid f, text_ok ovals omds c tid -> (doc_fuel md_fuel c <= f)%nat ->
  parse_json scan_float f (to_json_text fmt dumps_md c tid) = Some (to_json_tree c tid).
Proof.
  intros Hf Hm c tid f Ht Hfu. unfold parse_json.
  pose proof (json_text_roundtrip fmt scan_float dumps_md md_fuel ovals omds Hf Hm c tid f [] Ht Hfu) as R.
  rewrite app_nil_r in R. rewrite R. reflexivity.
Qed.

Lemma forallb_scalar s : forallb scalarb s = true -> Forall scalar s.
Proof.
  intros H. apply Forall_forall. intros c Hc. rewrite forallb_forall in H. specialize (H c Hc).
  unfold scalarb in H. apply andb_true_iff in H. destruct H as [H1 H2]. apply andb_true_iff in H1. destruct H1 as [A B].
  apply Z.leb_le in A. apply Z.ltb_lt in B. apply negb_true_iff in H2. unfold scalar. split; [lia|].
  intros [C D]. apply andb_false_iff in H2. destruct H2 as [E|E]; [apply Z.leb_gt in E|apply Z.leb_gt in E]; lia.
Qed.

(* a concrete instance of all hypotheses (non-vacuity): a 1 x 2 table with one non-zero value
   whose text is "1.5" *)
Definition ex_table : jtable :=
  mkJT [K "o""1"] [K "s1"; K "s2"] [[0; 96]] None None JNull (JStr (K "g")) (JStr (K "2020-01-02")).
Definition ex_fmt (v : Z) : str := K "1.5".
Definition ex_scan (s : str) : option Z := if str_eqb s (K "1.5") then Some 96 else None.
Definition ex_dumps (j : json) : str := K "null".
Definition ex_fuel (j : json) : nat := 1%nat.

Lemma ex_contracts :
  fmt_contract ex_fmt ex_scan [96] /\ md_contract ex_scan ex_dumps ex_fuel [JNull]
  /\ text_ok [96] [JNull] ex_table (K "None").
Proof.
  split; [|split].
  - intros v [<-|[]]. repeat split; try (vm_compute; reflexivity). discriminate.
  - intros j f c rest [<-|[]] Hf _. destruct f as [|f]; [inversion Hf|]. reflexivity.
  - unfold text_ok. cbn [ex_table j_genby j_date j_type j_oids j_sids j_omd j_smd j_mat jnobs jnsamp].
    split; [apply forallb_scalar; vm_compute; reflexivity|].
    split; [exists (K "g"); split; [reflexivity|apply forallb_scalar; vm_compute; reflexivity]|].
    split; [exists (K "2020-01-02"); split; [reflexivity|apply forallb_clean; vm_compute; reflexivity]|].
    split; [left; reflexivity|].
    split; [repeat (apply Forall_cons; [apply forallb_scalar; vm_compute; reflexivity|]); apply Forall_nil|].
    split; [repeat (apply Forall_cons; [apply forallb_scalar; vm_compute; reflexivity|]); apply Forall_nil|].
    split; [exact Logic.I|]. split; [exact Logic.I|].
    split; [vm_compute; repeat constructor|].
    split; vm_compute; repeat constructor.
Qed.

Lemma ex_parses : parse_json ex_scan 40 (to_json_text ex_fmt ex_dumps ex_table (K "None"))
                  = Some (to_json_tree ex_table (K "None")).
Proof.
  destruct ex_contracts as (A & B & C).
  apply (json_text_parses ex_fmt ex_scan ex_dumps ex_fuel [96] [JNull] A B); [exact C|].
  vm_compute. repeat constructor.
Qed.
