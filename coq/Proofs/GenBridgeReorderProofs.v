(* Bridges: coq/Gen/ReorderGen.v (regenerated from biom/table.py by tools/py2v_ord) = the hand-written
   model coq/Model/Reorder.v, for every input. *)
From Coq Require Import List Arith ZArith Lia Bool.
From BiomV Require Import Base.Tree Base.ListUtil Base.Matrix Model.Table Model.Orient Model.Reorder.
From BiomV Require Import Gen.OrdPrelude Gen.ReorderGen.
Import ListNotations.

(* the axis strings the hand model's [axis] stands for *)
Definition amode_of (a : axis) : amode := match a with Obs => AObservation | Samp => ASample end.

Lemma mapM_index_lookup_all t a order :
  mapM (fun i => h <- tb_index t i (amode_of a) ;; ROk h) order =
  match lookup_all order (ids a t) with Some f => ROk f | None => RErr E_UNKNOWN end.
Proof.
  induction order as [|x r IH]; [reflexivity|].
  cbn [mapM lookup_all]. rewrite IH.
  unfold tb_index. destruct a; cbn [amode_of axis_of];
    destruct (pos x _); cbn [rbind]; try reflexivity;
    destruct (lookup_all r _); reflexivity.
Qed.

Lemma take_md_guard fancy (md : pymd) :
  (if py_is_not_none md then ROk (np_take (np_array md) fancy) else ROk md) = ROk (take_md fancy md).
Proof. destruct md; reflexivity. Qed.

(* Table.sort_order, both axis branches *)
Theorem sort_order_gen_is_source : forall order a t,
  sort_order_gen t order (amode_of a) = sort_order order a t.
Proof.
  intros order a t. unfold sort_order_gen, sort_order.
  rewrite mapM_index_lookup_all.
  destruct (lookup_all order (ids a t)) as [fancy|]; [|reflexivity].
  cbn [rbind]. unfold np_int_array.
  destruct a; cbn [amode_of tb_metadata axis_of rbind md_of];
    rewrite take_md_guard; cbn [rbind ax_eqb tb_ids tb_metadata axis_of ids md_of];
    unfold tb_new, reorder, mx_take_cols, mx_take_rows, tb_matrix_data, py_slice_all, tb_type; cbn [snd];
    reflexivity.
Qed.

(* an axis string that names no axis: UnknownAxisError whatever the order *)
Theorem sort_order_gen_unknown_axis : forall order t m,
  axis_of m = None -> sort_order_gen t order m = RErr E_UNKNOWN.
Proof.
  intros order t m H. unfold sort_order_gen.
  destruct order as [|x r].
  - cbn [mapM rbind]. unfold tb_metadata. rewrite H. reflexivity.
  - cbn [mapM]. unfold tb_index. rewrite H. reflexivity.
Qed.

(* Table.sort: sort_f is an oracle *)
Theorem sort_gen_is_source : forall sortf a t,
  sort_gen t sortf (amode_of a) = sort sortf a t.
Proof.
  intros. unfold sort_gen, sort.
  replace (tb_ids t (amode_of a)) with (ROk (ids a t)) by (destruct a; reflexivity).
  cbn [rbind]. apply sort_order_gen_is_source.
Qed.

(* Table.copy: the constructor runs errcheck on the copy *)
Theorem copy_gen_is_source : forall t, copy_gen t = errcheck (copy t).
Proof. intros. reflexivity. Qed.
(* the hand model's copy is total: on a table whose ids are distinct (every constructed table) the two agree outright *)
Theorem copy_gen_wf_is_source : forall t, zdup (oids t) || zdup (sids t) = false -> copy_gen t = ROk (copy t).
Proof.
  intros t H. rewrite copy_gen_is_source. unfold errcheck. cbn [copy oids sids]. rewrite H. reflexivity.
Qed.

(* Table.transpose, whatever the storage format *)
Theorem transpose_gen_is_source : forall fmt t, transpose_gen fmt t = errcheck (transpose_c t).
Proof.
  intros. unfold transpose_gen.
  cbn [tb_metadata axis_of rbind md_of].
  destruct (fmt_eqb _ _); reflexivity.
Qed.

(* Table.align_to: all five kinds of axis argument *)
Theorem align_to_gen_is_source : forall other m t,
  align_to_gen t other m = align_to other m t.
Proof.
  intros other m t. unfold align_to_gen, align_to.
  cbn [tb_ids axis_of rbind ids]. unfold py_set, set_eqb.
  pose proof (sort_order_gen_is_source (oids other) Obs) as HO.
  pose proof (sort_order_gen_is_source (sids other) Samp) as HS.
  cbn [amode_of] in HO, HS.
  destruct (same_set (oids t) (oids other)), (same_set (sids t) (sids other)), m;
    cbn [ax_eqb andb orb negb rbind foldM py_append app tb_ids axis_of ids];
    rewrite ?HO, ?HS; try reflexivity;
    try (destruct (sort_order _ _ _); cbn [rbind]; rewrite ?HO, ?HS; try reflexivity;
         destruct (sort_order _ _ _); reflexivity).
Qed.
