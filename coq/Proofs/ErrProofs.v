(* proofs for C20 over the model of biom/err.py.  The definitions they are about are GENERATED
   from the source on every run (Gen/ErrGen.v); a change of the source that changes the
   emitted text makes these scripts be re-checked against the new text. *)
From Coq Require Import List String Bool Arith ZArith Lia.
From BiomV Require Import Base.Tree Base.ListUtil Base.Dict Model.Err.
Import ListNotations.
Open Scope string_scope. Open Scope list_scope.
Local Arguments smem : simpl never.
Local Arguments dmem : simpl never.
Local Arguments valid_states : simpl never.

(* a profile state is well formed when its kinds are distinct and every reaction is valid *)
Definition wf_state (s : dict string) : Prop :=
  NoDup (dkeys s) /\ Forall (fun kv => smem (snd kv) valid_states = true) s /\ dmem s "all" = false.

Lemma smem_In x l : smem x l = true <-> In x l.
Proof.
  unfold smem. rewrite existsb_exists. split.
  - intros [y [Hy He]]. apply String.eqb_eq in He. subst. exact Hy.
  - intros H. exists x. split; [exact H|apply String.eqb_refl].
Qed.

Lemma dmem_In {V} (d : dict V) k : dmem d k = true <-> In k (dkeys d).
Proof.
  unfold dmem, dkeys. induction d as [|[k' v] t IH]; simpl.
  - split; [discriminate|intros []].
  - destruct (String.eqb k k') eqn:E.
    + apply String.eqb_eq in E. subst. split; [left; reflexivity|reflexivity].
    + rewrite IH. apply String.eqb_neq in E. split; [right; assumption|intros [H|H]; [congruence|exact H]].
Qed.

(* ---------- the state setter ---------- *)
Lemma apply_body_pair s k v : apply_body s (k, v) = dset s k v.
Proof. reflexivity. Qed.

Lemma validate_raise_stays s l e : fold_left (validate_body s) l (Raise e) = Raise e.
Proof. induction l as [|kv l IH]; simpl; [reflexivity|exact IH]. Qed.

(* validation succeeds exactly when every entry names a known kind and a valid reaction *)
Lemma validate_ok_iff s l :
  (exists u, fold_left (validate_body s) l (Ok tt) = Ok u) <->
  Forall (fun kv => smem (snd kv) valid_states = true /\ dmem s (fst kv) = true) l.
Proof.
  induction l as [|[k v] l IH]; simpl.
  - split; [constructor|exists tt; reflexivity].
  - destruct (smem v valid_states) eqn:E1; simpl.
    + destruct (dmem s k) eqn:E2; simpl.
      * rewrite IH. split; [intros H; constructor; [split; assumption|exact H]|intros H; inversion H; assumption].
      * rewrite validate_raise_stays. split; [intros [u Hu]; discriminate|].
        intros H. inversion H as [|? ? [_ Hk] _]; subst. simpl in Hk. congruence.
    + rewrite validate_raise_stays. split; [intros [u Hu]; discriminate|].
      intros H. inversion H as [|? ? [Hv _] _]; subst. simpl in Hv. congruence.
Qed.

Lemma apply_keys s l :
  Forall (fun kv => dmem s (fst kv) = true) l -> dkeys (fold_left apply_body l s) = dkeys s.
Proof.
  revert s. induction l as [|[k v] l IH]; intros s H; simpl; [reflexivity|].
  inversion H as [|? ? Hk Hl]; subst. simpl in Hk. change (apply_body s (k, v)) with (dset s k v).
  rewrite IH.
  - apply dkeys_dset_mem. exact Hk.
  - eapply Forall_impl; [|exact Hl]. intros [k' v'] Hk'. simpl in *.
    apply dmem_In. rewrite dkeys_dset_mem by exact Hk. apply dmem_In. exact Hk'.
Qed.

Lemma dset_values_valid (s : dict string) k v :
  Forall (fun kv => smem (snd kv) valid_states = true) s -> smem v valid_states = true ->
  Forall (fun kv => smem (snd kv) valid_states = true) (dset s k v).
Proof.
  intros H Hv. induction s as [|[k' v'] t IH]; simpl.
  - constructor; [exact Hv|constructor].
  - inversion H as [|? ? H1 H2]; subst. destruct (String.eqb k k').
    + constructor; [exact Hv|exact H2].
    + constructor; [exact H1|apply IH; exact H2].
Qed.

Lemma apply_values_valid s l :
  Forall (fun kv => smem (snd kv) valid_states = true) s ->
  Forall (fun kv => smem (snd kv) valid_states = true) l ->
  Forall (fun kv => smem (snd kv) valid_states = true) (fold_left apply_body l s).
Proof.
  revert s. induction l as [|[k v] l IH]; intros s Hs Hl; simpl; [exact Hs|].
  inversion Hl as [|? ? H1 H2]; subst. apply IH; [|exact H2].
  apply dset_values_valid; assumption.
Qed.

(* the update is all-or-nothing, and a successful one keeps the profile well formed *)
Theorem state_set_atomic s n s' e : state_set s n = (s', Raise e) -> s' = s.
Proof.
  unfold state_set. destruct (fold_left _ _ (Ok tt)); intros H; inversion H; reflexivity.
Qed.

Lemma state_set_wf s n s' u : wf_state s -> state_set s n = (s', Ok u) -> wf_state s' /\ dkeys s' = dkeys s.
Proof.
  intros (Hn & Hv & Ha). unfold state_set.
  remember (if dmem n "all"
            then map (fun err => (err, match dget n "all" with Some v => v | None => "" end)) (dkeys s)
            else n) as tu eqn:Etu. clear Etu.
  destruct (fold_left (validate_body s) tu (Ok tt)) as [u'|e] eqn:V; intros H; inversion H; subst; clear H.
  assert (F : Forall (fun kv => smem (snd kv) valid_states = true /\ dmem s (fst kv) = true) tu).
  { apply validate_ok_iff. exists u'. destruct u'. exact V. }
  assert (K : dkeys (fold_left apply_body tu s) = dkeys s).
  { apply apply_keys. eapply Forall_impl; [|exact F]. intros kv [_ H]. exact H. }
  split; [|exact K]. repeat split.
  - rewrite K. exact Hn.
  - apply apply_values_valid; [exact Hv|]. eapply Forall_impl; [|exact F]. intros kv [H _]. exact H.
  - destruct (dmem (fold_left apply_body tu s) "all") eqn:E; [|reflexivity].
    apply dmem_In in E. rewrite K in E. apply dmem_In in E. congruence.
Qed.

(* ---------- seterr ---------- *)
Theorem seterr_atomic_lemma s kw s' e : seterr s kw = (s', Raise e) -> s' = s.
Proof.
  unfold seterr. destruct (dmem kw "all").
  - destruct (state_set s _) as [s1 [u|e1]] eqn:E; intros H; inversion H; subst.
    eapply state_set_atomic. exact E.
  - destruct (state_set s kw) as [s1 [u|e1]] eqn:E; intros H; inversion H; subst.
    eapply state_set_atomic. exact E.
Qed.

Lemma seterr_ok s kw s' old : wf_state s -> seterr s kw = (s', Ok old) ->
  old = s /\ wf_state s' /\ dkeys s' = dkeys s.
Proof.
  intros W. unfold seterr. destruct (dmem kw "all").
  - destruct (state_set s _) as [s1 [u|e1]] eqn:E; intros H; inversion H; subst.
    split; [reflexivity|]. eapply state_set_wf; eassumption.
  - destruct (state_set s kw) as [s1 [u|e1]] eqn:E; intros H; inversion H; subst.
    split; [reflexivity|]. eapply state_set_wf; eassumption.
Qed.

Lemma seterr_wf s kw : wf_state s -> wf_state (fst (seterr s kw)) /\ dkeys (fst (seterr s kw)) = dkeys s.
Proof.
  intros W. destruct (seterr s kw) as [s' [old|e]] eqn:E; simpl.
  - destruct (seterr_ok _ _ _ _ W E) as (_ & A & B). split; assumption.
  - apply seterr_atomic_lemma in E. subst. split; [exact W|reflexivity].
Qed.

(* an unknown kind or reaction is refused (when 'all' is not given every entry is examined) *)
Theorem seterr_refuses s kw :
  dmem kw "all" = false ->
  (exists k v, In (k, v) kw /\ (dmem s k = false \/ smem v valid_states = false)) ->
  exists e, seterr s kw = (s, Raise e).
Proof.
  intros Ha [k [v [Hin Hbad]]]. unfold seterr, state_set. rewrite Ha.
  destruct (fold_left (validate_body s) kw (Ok tt)) as [u|e] eqn:V.
  - exfalso. assert (F : Forall (fun kv => smem (snd kv) valid_states = true /\ dmem s (fst kv) = true) kw)
      by (apply validate_ok_iff; exists u; exact V).
    rewrite Forall_forall in F. destruct (F (k, v) Hin) as [A B]. simpl in *. destruct Hbad; congruence.
  - exists e. reflexivity.
Qed.

(* ---------- restoring a saved state ---------- *)
Lemma dset_app_notin {V} (a b : dict V) k v :
  ~ In k (dkeys a) -> dset (a ++ b) k v = a ++ dset b k v.
Proof.
  intros H. induction a as [|[k' v'] a IH]; simpl; [reflexivity|].
  destruct (String.eqb k k') eqn:E.
  - apply String.eqb_eq in E. subst. exfalso. apply H. left. reflexivity.
  - f_equal. apply IH. intros Hin. apply H. right. exact Hin.
Qed.

Lemma restore_prefix (o1 o2 s2 : dict string) :
  NoDup (dkeys (o1 ++ o2)) -> dkeys s2 = dkeys o2 ->
  fold_left apply_body o2 (o1 ++ s2) = o1 ++ o2.
Proof.
  revert o1 s2. induction o2 as [|[k v] o2 IH]; intros o1 s2 Hn Hk; simpl.
  - destruct s2; [reflexivity|discriminate].
  - destruct s2 as [|[k' v'] s2]; [discriminate|]. simpl in Hk. injection Hk as Hk1 Hk2. subst k'.
    rewrite ?apply_body_pair. simpl.
    assert (Hnot : ~ In k (dkeys o1)).
    { unfold dkeys in *. rewrite map_app in Hn. simpl in Hn. apply NoDup_remove_2 in Hn.
      intros Hin. apply Hn. apply in_or_app. left. exact Hin. }
    rewrite dset_app_notin by exact Hnot. simpl. rewrite String.eqb_refl.
    replace (o1 ++ (k, v) :: s2) with ((o1 ++ [(k, v)]) ++ s2) by (rewrite <- app_assoc; reflexivity).
    rewrite IH.
    + rewrite <- app_assoc. reflexivity.
    + rewrite <- app_assoc. exact Hn.
    + exact Hk2.
Qed.

(* seterr( **old ) puts back exactly the saved state, whatever was changed in between *)
Lemma restore_exact s old : wf_state old -> dkeys s = dkeys old -> fst (seterr s old) = old.
Proof.
  intros (Hn & Hv & Ha) Hk. unfold seterr, state_set. rewrite Ha.
  assert (F : Forall (fun kv => smem (snd kv) valid_states = true /\ dmem s (fst kv) = true) old).
  { apply Forall_forall. intros [k v] Hin. simpl. split.
    - rewrite Forall_forall in Hv. apply (Hv (k, v) Hin).
    - apply dmem_In. rewrite Hk. unfold dkeys. apply in_map_iff. exists (k, v). split; [reflexivity|exact Hin]. }
  apply validate_ok_iff in F. destruct F as [u V]. rewrite V. simpl.
  apply (restore_prefix [] old s); [exact Hn|exact Hk].
Qed.

(* ---------- programs ---------- *)
Section InstrInd.
  Variable P : instr -> Prop.
  Hypothesis H1 : forall kw, P (ISeterr kw).
  Hypothesis H2 : forall k cb, P (ISetcall k cb).
  Hypothesis H3 : forall k, P (IGetcall k).
  Hypothesis H4 : forall v args, P (ICheck v args).
  Hypothesis H5 : forall kw body exc, Forall P body -> P (IBlock kw body exc).
  Fixpoint instr_ind' (i : instr) : P i :=
    match i with
    | ISeterr kw => H1 kw
    | ISetcall k cb => H2 k cb
    | IGetcall k => H3 k
    | ICheck v args => H4 v args
    | IBlock kw body exc =>
        H5 kw body exc ((fix go (l : list instr) : Forall P l :=
                           match l with [] => Forall_nil P | x :: r => Forall_cons x (instr_ind' x) (go r) end) body)
    end.
End InstrInd.

Definition keeps_wf (i : instr) : Prop :=
  forall p, wf_state (st p) -> wf_state (st (fst (exec p i))) /\ dkeys (st (fst (exec p i))) = dkeys (st p).

Lemma exec_list_unfold p l :
  (fix go (p : profile) (l : list instr) : profile * list obs :=
     match l with
     | [] => (p, [])
     | i :: t => let '(p', o1) := exec p i in let '(p'', o2) := go p' t in (p'', o1 ++ o2)
     end) p l = exec_list p l.
Proof. revert p. induction l as [|i l IH]; intros p; simpl; [reflexivity|]. destruct (exec p i). rewrite IH. reflexivity. Qed.

Lemma exec_list_wf l : Forall keeps_wf l -> forall p, wf_state (st p) ->
  wf_state (st (fst (exec_list p l))) /\ dkeys (st (fst (exec_list p l))) = dkeys (st p).
Proof.
  induction l as [|i l IH]; intros F p W; simpl; [split; [exact W|reflexivity]|].
  inversion F as [|? ? Hi Hl]; subst.
  destruct (Hi p W) as [W1 K1]. destruct (exec p i) as [p1 o1] eqn:E1. simpl in *.
  destruct (IH Hl p1 W1) as [W2 K2]. destruct (exec_list p1 l) as [p2 o2]. simpl in *.
  split; [exact W2|congruence].
Qed.

Lemma exec_block p kw body exc :
  exec p (IBlock kw body exc) =
  match errstate_enter (st p) kw with
  | (s1, Raise e) => let p1 := {| st := s1; calls := calls p |} in (p1, [OEnter false; snap p1])
  | (s1, Ok old) =>
      let p1 := {| st := s1; calls := calls p |} in
      let '(p2, os) := exec_list p1 body in
      let s3 := if exc then fst (errstate_exit_exception (st p2) old TypeError)
                else fst (errstate_exit_normal (st p2) old) in
      let p3 := {| st := s3; calls := calls p2 |} in
      (p3, [OEnter true; snap p1] ++ os ++ [OExit; snap p3])
  end.
Proof.
  cbn [exec]. destruct (errstate_enter (st p) kw) as [s1 [old|e]]; [|reflexivity].
  rewrite exec_list_unfold. reflexivity.
Qed.

(* A scoped override restores the previous profile on exit: for every body (any nesting, any
   seterr inside), both when the block completes and when it is left by an exception, and
   also when entering is refused. *)
Lemma block_restores kw body exc : Forall keeps_wf body ->
  forall p, wf_state (st p) -> st (fst (exec p (IBlock kw body exc))) = st p.
Proof.
  intros F p W. rewrite exec_block. unfold errstate_enter.
  destruct (seterr (st p) kw) as [s1 [old|e]] eqn:E.
  - destruct (seterr_ok _ _ _ _ W E) as (Hold & W1 & K1). subst old.
    pose (p1 := {| st := s1; calls := calls p |}).
    destruct (exec_list_wf body F p1 W1) as [W2 K2].
    cbn zeta. fold p1. destruct (exec_list p1 body) as [p2 os]. simpl in *.
    assert (Hk : dkeys (st p2) = dkeys (st p)) by congruence.
    pose proof (restore_exact (st p2) (st p) W Hk) as R.
    unfold errstate_exit_exception, errstate_exit_normal.
    destruct exc; destruct (seterr (st p2) (st p)) as [s3 [o3|e3]]; exact R.
  - simpl. eapply seterr_atomic_lemma. exact E.
Qed.

Lemma all_keep_wf : forall i, keeps_wf i.
Proof.
  induction i as [kw|k cb|k|v args|kw body exc IH] using instr_ind'; intros p W.
  - simpl. destruct (seterr (st p) kw) as [s' r] eqn:E. simpl.
    pose proof (seterr_wf (st p) kw W) as H. rewrite E in H. exact H.
  - simpl. destruct (seterrcall (st p) (calls p) k cb). simpl. split; [exact W|reflexivity].
  - simpl. split; [exact W|reflexivity].
  - simpl. split; [exact W|reflexivity].
  - rewrite (block_restores kw body exc IH p W). split; [exact W|reflexivity].
Qed.

Theorem errstate_scoped_lemma kw body exc p :
  wf_state (st p) -> st (fst (exec p (IBlock kw body exc))) = st p.
Proof.
  intros W. apply block_restores; [|exact W]. apply Forall_forall. intros i _. apply all_keep_wf.
Qed.

(* inside the block the override is in force: the body starts from the updated profile *)
Theorem errstate_enter_applies s kw s1 old k v :
  wf_state s -> errstate_enter s kw = (s1, Ok old) -> dmem kw "all" = false ->
  NoDup (dkeys kw) -> In (k, v) kw -> dget s1 k = Some v.
Proof.
  intros W. unfold errstate_enter, seterr, state_set, state_get. intros H Ha Hn Hin. rewrite Ha in H.
  destruct (fold_left (validate_body s) kw (Ok tt)) as [u|e]; [|discriminate].
  inversion H as [[H1 H2]]. clear H H1 H2 W Ha s s1. revert old Hn Hin. induction kw as [|[k' v'] kw IH]; intros s Hn Hin; [destruct Hin|].
  simpl. rewrite ?apply_body_pair. simpl. inversion Hn as [|? ? Hk Hn']; subst.
  destruct Hin as [Hin|Hin].
  - inversion Hin; subst. clear IH.
    assert (G : forall l s0, ~ In k (dkeys l) -> dget (fold_left apply_body l s0) k = dget s0 k).
    { induction l as [|[a b] l IHl]; intros s0 Hni; simpl; [reflexivity|].
      rewrite IHl by (intros X; apply Hni; right; exact X).
      unfold apply_body. simpl. apply dget_dset_other. intros X. apply Hni. left. simpl. congruence. }
    rewrite G by exact Hk. apply dget_dset_same.
  - apply IH; assumption.
Qed.

(* reachable profiles are well formed *)
Lemma default_wf : wf_state default_state.
Proof.
  unfold wf_state. repeat split.
  - unfold dkeys, default_state. simpl. repeat constructor; simpl; intuition discriminate.
  - repeat constructor.
Qed.

Theorem reachable_wf prog : wf_state (st (fst (exec_list default_profile prog))).
Proof.
  apply exec_list_wf; [|exact default_wf]. apply Forall_forall. intros i _. apply all_keep_wf.
Qed.

(* ---------- the reaction table ---------- *)
Definition kinds : list string := ["empty";"obssize";"sampsize";"obsdup";"sampdup";"obsmdsize";"sampmdsize"].

(* the view triggers the test of kind k and of no other kind *)
Definition only_trigger (v : view) (k : string) : Prop :=
  forallb (fun kf => Bool.eqb (snd kf v) (String.eqb (fst kf) k)) registry = true.

(* the reaction configured for kind k: what the handler of k produces (the handler does not look
   at the offending item, so any item will do) *)
Definition null_view : view :=
  {| v_empty := false; v_rows := 0; v_cols := 0; v_oids := []; v_sids := []; v_omd := None; v_smd := None |}.
Definition expected_event (p : profile) (k : string) : event := handle_error p k null_view.

Lemma handle_error_item p k v : handle_error p k v = expected_event p k.
Proof. reflexivity. Qed.

Lemma sorted_registry :
  ssorted (dkeys registry) = ["empty";"obsdup";"obsmdsize";"obssize";"sampdup";"sampmdsize";"sampsize"].
Proof. vm_compute. reflexivity. Qed.

(* ErrorProfile.test: once a reaction has been produced the remaining kinds are skipped *)
Lemma test_fold_done p v r l : fold_left (test_body p v) l (Ok (Some r)) = Ok (Some r).
Proof. induction l as [|x l IH]; simpl; [reflexivity|exact IH]. Qed.

Lemma test_loop_honoured p v k :
  In k kinds -> only_trigger v k -> test_loop p v [] = Ok (expected_event p k).
Proof.
  intros Hk T. unfold test_loop. cbn [lnull]. rewrite sorted_registry.
  unfold only_trigger, registry in T. cbn [forallb fst snd] in T.
  repeat (apply andb_true_iff in T; destruct T as [?T T]). clear T.
  repeat match goal with H : Bool.eqb _ _ = true |- _ => apply Bool.eqb_prop in H end.
  unfold kinds in Hk. simpl in Hk.
  destruct Hk as [E|[E|[E|[E|[E|[E|[E|[]]]]]]]]; subst k;
    repeat match goal with H : _ v = String.eqb _ _ |- _ => cbn [String.eqb Ascii.eqb Bool.eqb] in H end;
    repeat (cbn [fold_left test_body dget registry String.eqb Ascii.eqb Bool.eqb];
            match goal with H : ?t v = _ |- context [?t v] => rewrite H; clear H end);
    match goal with |- context [String.eqb ?x "ignore"] => destruct (String.eqb x "ignore") eqn:Ei end;
    repeat (cbn [fold_left test_body dget registry String.eqb Ascii.eqb Bool.eqb];
            match goal with H : ?t v = _ |- context [?t v] => rewrite H; clear H end);
    cbn [fold_left test_body dget registry String.eqb Ascii.eqb Bool.eqb];
    try reflexivity;
    apply String.eqb_eq in Ei; unfold expected_event, handle_error; rewrite Ei; reflexivity.
Qed.

(* errcheck re-raises a returned exception instance; in the model that IS the EvRaise event *)
Lemma errcheck_test_loop p v args : errcheck p v args = test_loop p v args.
Proof.
  unfold errcheck. destruct (test_loop p v args) as [r|e]; [|reflexivity].
  destruct (ev_is_exn r); reflexivity.
Qed.

Theorem reaction_honoured_lemma p v k :
  In k kinds -> only_trigger v k -> errcheck p v [] = Ok (expected_event p k).
Proof. intros Hk T. rewrite errcheck_test_loop. apply test_loop_honoured; assumption. Qed.

(* what the expected event is, reaction by reaction *)
Lemma expected_event_table p k r :
  dget (st p) k = Some r ->
  expected_event p k =
    if String.eqb r "raise" then EvRaise k else if String.eqb r "warn" then EvWarn k
    else if String.eqb r "print" then EvPrint k
    else if String.eqb r "call" then EvCall k (match dget (calls p) k with Some c => c | None => 0%Z end)
    else EvNone.
Proof.
  intros H. unfold expected_event, handle_error. rewrite H. cbv zeta. unfold react.
  destruct (String.eqb r "ignore") eqn:E1, (String.eqb r "warn") eqn:E2, (String.eqb r "raise") eqn:E3,
           (String.eqb r "call") eqn:E4, (String.eqb r "print") eqn:E5; try reflexivity;
    repeat match goal with H : String.eqb r _ = true |- _ => apply String.eqb_eq in H end; congruence.
Qed.

(* ---------- several kinds at once: an ignored kind does not mask the others ---------- *)
Definition triggered (v : view) (k : string) : bool :=
  match dget registry k with Some f => f v | None => false end.
Definition ignored (p : profile) (k : string) : bool :=
  String.eqb (match dget (st p) k with Some r => r | None => "" end) "ignore".
(* the first kind, in the order errcheck examines them, that is triggered and not ignored *)
Definition first_live (p : profile) (v : view) (l : list string) : option string :=
  find (fun k => triggered v k && negb (ignored p k)) l.

Lemma test_fold_first_live p v l :
  Forall (fun k => dmem registry k = true) l ->
  fold_left (test_body p v) l (Ok None) = Ok (option_map (expected_event p) (first_live p v l)).
Proof.
  induction l as [|k l IH]; intros F; [reflexivity|].
  inversion F as [|? ? Hk Hl]; subst. cbn [fold_left first_live find].
  unfold triggered, ignored. unfold dmem in Hk. unfold test_body at 2.
  destruct (dget registry k) as [f|]; [|discriminate].
  destruct (f v); cbn [andb].
  - destruct (String.eqb _ "ignore"); cbn [negb].
    + apply IH. exact Hl.
    + rewrite test_fold_done. reflexivity.
  - apply IH. exact Hl.
Qed.

Theorem errcheck_first_live p v :
  errcheck p v [] = Ok (match first_live p v (ssorted (dkeys registry)) with
                        | Some k => expected_event p k | None => EvNone end).
Proof.
  rewrite errcheck_test_loop. unfold test_loop. cbn [lnull]. rewrite test_fold_first_live.
  - destruct (first_live p v _); reflexivity.
  - rewrite sorted_registry. repeat constructor.
Qed.

(* a table whose ids are distinct never triggers a duplicate test, whatever its size *)
Lemma distinct_NoDup l : NoDup l -> distinct l = l.
Proof.
  induction l as [|x l IH]; intros H; simpl; [reflexivity|].
  inversion H as [|? ? Hx Hl]; subst. destruct (zmem x l) eqn:E.
  - apply zmem_In in E. contradiction.
  - rewrite IH by exact Hl. reflexivity.
Qed.
Theorem dup_tests_independent v :
  (NoDup (v_oids v) -> test_obsdup v = false) /\ (NoDup (v_sids v) -> test_sampdup v = false).
Proof.
  unfold test_obsdup, test_sampdup. split; intros H; cbv zeta; rewrite distinct_NoDup by exact H;
    rewrite Nat.eqb_refl; reflexivity.
Qed.
