From BiomV Require Import Model.Err.
