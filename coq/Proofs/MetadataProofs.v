(* Proofs about metadata updates and mapping files (property C18). *)
From Coq Require Import List Arith ZArith Lia Bool.
From BiomV Require Import Base.Tree Base.ListUtil Base.Matrix Model.Table Model.Tsv Model.Metadata Proofs.TsvProofs.
Import ListNotations.
Open Scope Z_scope.

(* ------------------------------------------------------------------ text equality *)
Lemma text_eqb_refl t : text_eqb t t = true.
Proof. apply text_eqb_eq. reflexivity. Qed.

Lemma text_eqb_neq a b : text_eqb a b = false <-> a <> b.
Proof.
  split.
  - intros H E. apply text_eqb_eq in E. congruence.
  - intros H. destruct (text_eqb a b) eqn:E; [apply text_eqb_eq in E; contradiction|reflexivity].
Qed.

Lemma text_eqb_sym a b : text_eqb a b = text_eqb b a.
Proof.
  destruct (text_eqb a b) eqn:E.
  - apply text_eqb_eq in E. subst. symmetry. apply text_eqb_refl.
  - apply text_eqb_neq in E. symmetry. apply text_eqb_neq. congruence.
Qed.

Lemma nth_map_lt {A B} (f : A -> B) l i dB dA : (i < length l)%nat -> nth i (map f l) dB = f (nth i l dA).
Proof.
  revert i. induction l as [|x l IH]; intros i H; simpl in *; [lia|]. destruct i; [reflexivity|]. apply IH. lia.
Qed.

(* ------------------------------------------------------------------ positions *)
Lemma tpos_Some x l i : tpos x l = Some i -> nth i l [] = x /\ (i < length l)%nat.
Proof.
  unfold tpos. revert i. induction l as [|y t IH]; simpl; intros i H; [discriminate|].
  destruct (text_eqb x y) eqn:E.
  - inversion H; subst. apply text_eqb_eq in E. subst. simpl. split; [reflexivity|lia].
  - destruct (index_of text_eqb x t) as [k|] eqn:K; simpl in H; [|discriminate].
    inversion H; subst. destruct (IH k eq_refl) as [A B]. simpl. split; [exact A|lia].
Qed.

Lemma tpos_None x l : tpos x l = None <-> ~ In x l.
Proof.
  unfold tpos. induction l as [|y t IH]; simpl.
  - split; [intros _ []|reflexivity].
  - destruct (text_eqb x y) eqn:E.
    + apply text_eqb_eq in E. subst. split; [discriminate|]. intros H. exfalso. apply H. left; reflexivity.
    + apply text_eqb_neq in E. destruct (index_of text_eqb x t) as [k|] eqn:K; simpl.
      * split; [discriminate|]. intros H. exfalso. apply H. right.
        destruct (in_dec (list_eq_dec Z.eq_dec) x t) as [Hi|Hn]; [exact Hi|]. apply IH in Hn. discriminate.
      * split; [|reflexivity]. intros _ [H|H]; [congruence|]. destruct IH as [IH1 _]. exact (IH1 eq_refl H).
Qed.

Lemma tpos_In x l : In x l -> exists i, tpos x l = Some i.
Proof.
  intros H. destruct (tpos x l) as [i|] eqn:E; [eauto|]. apply tpos_None in E. contradiction.
Qed.

Lemma NoDup_nth_inj (l : list text) i j : NoDup l -> (i < length l)%nat -> (j < length l)%nat ->
  nth i l [] = nth j l [] -> i = j.
Proof. intros H Hi Hj E. apply (proj1 (NoDup_nth l []) H i j Hi Hj E). Qed.

(* ------------------------------------------------------------------ association lists *)
Lemma aget_aset_same a k v : aget (aset a k v) k = Some v.
Proof.
  induction a as [|[k' v'] r IH]; simpl.
  - rewrite text_eqb_refl. reflexivity.
  - destruct (text_eqb k k') eqn:E; simpl; [rewrite text_eqb_refl; reflexivity|rewrite E; exact IH].
Qed.

Lemma aget_aset_other a k k2 v : k2 <> k -> aget (aset a k v) k2 = aget a k2.
Proof.
  intros Hne. apply text_eqb_neq in Hne. induction a as [|[k' v'] r IH]; simpl.
  - rewrite Hne. reflexivity.
  - destruct (text_eqb k k') eqn:E; simpl.
    + apply text_eqb_eq in E. subst k'. rewrite Hne. reflexivity.
    + destruct (text_eqb k2 k'); [reflexivity|exact IH].
Qed.

Lemma aget_notin e k : ~ In k (map fst e) -> aget e k = None.
Proof.
  induction e as [|[k' v'] r IH]; simpl; intros H; [reflexivity|].
  destruct (text_eqb k k') eqn:E; [apply text_eqb_eq in E; subst; exfalso; apply H; left; reflexivity|].
  apply IH. intros Hin. apply H. right. exact Hin.
Qed.

(* d.update(e) for a dict e: the keys of e get e's values, the others keep theirs *)
Lemma aget_aupdate e : NoDup (map fst e) -> forall a k,
  aget (aupdate a e) k = match aget e k with Some v => Some v | None => aget a k end.
Proof.
  unfold aupdate. induction e as [|[k1 v1] e IH]; intros Hnd a k; simpl; [reflexivity|].
  inversion Hnd as [|? ? Hnot Hnd']; subst. rewrite (IH Hnd').
  destruct (text_eqb k k1) eqn:E.
  - apply text_eqb_eq in E. subst k1. rewrite (aget_notin e k Hnot). apply aget_aset_same.
  - apply text_eqb_neq in E. destruct (aget e k); [reflexivity|]. apply aget_aset_other. exact E.
Qed.

Lemma adel_all_filter ks : forall a,
  adel_all a ks = filter (fun kv => negb (tmem (fst kv) ks)) a.
Proof.
  unfold adel_all. induction ks as [|k ks IH]; intros a.
  - simpl. induction a as [|x a IHa]; simpl; [reflexivity|]. f_equal. exact IHa.
  - cbn [fold_left]. rewrite IH. unfold adel. clear IH.
    induction a as [|[k' v'] a IHa]; [reflexivity|].
    cbn [filter fst tmem existsb]. fold (tmem k' ks).
    destruct (text_eqb k' k) eqn:E; cbn [negb orb].
    + exact IHa.
    + cbn [filter fst]. fold (tmem k' ks). destruct (tmem k' ks); cbn [negb]; [exact IHa|f_equal; exact IHa].
Qed.

Lemma aget_filter (f : text -> bool) a k :
  aget (filter (fun kv => f (fst kv)) a) k = if f k then aget a k else None.
Proof.
  induction a as [|[k' v'] a IH]; simpl; [destruct (f k); reflexivity|].
  destruct (f k') eqn:Ef; simpl.
  - destruct (text_eqb k k') eqn:E; [apply text_eqb_eq in E; subst; rewrite Ef; reflexivity|exact IH].
  - destruct (text_eqb k k') eqn:E; [apply text_eqb_eq in E; subst; rewrite Ef in *; exact IH|exact IH].
Qed.

(* deleting keys: exactly those keys disappear *)
Lemma aget_adel_all a ks k : aget (adel_all a ks) k = if tmem k ks then None else aget a k.
Proof.
  rewrite adel_all_filter. rewrite (aget_filter (fun x => negb (tmem x ks))). destruct (tmem k ks); reflexivity.
Qed.

Lemma filter_idem {A} (f : A -> bool) l : filter f (filter f l) = filter f l.
Proof.
  induction l as [|x l IH]; simpl; [reflexivity|]. destruct (f x) eqn:E; simpl; [rewrite E, IH; reflexivity|exact IH].
Qed.

Lemma adel_all_idem a ks : adel_all (adel_all a ks) ks = adel_all a ks.
Proof. rewrite !adel_all_filter. apply filter_idem. Qed.

(* ------------------------------------------------------------------ what a table and a mapping are *)
Definition md_norm (md : option (list assoc)) (n : nat) : Prop :=
  match md with Some l => length l = n /\ l <> [] | None => True end.
(* what the constructor establishes: distinct ids; metadata is None or one dict per id (and
   never an empty tuple) *)
Definition mwf (t : mtab) : Prop :=
  NoDup (m_oids t) /\ NoDup (m_sids t)
  /\ md_norm (m_omd t) (length (m_oids t)) /\ md_norm (m_smd t) (length (m_sids t)).
(* a Python dict of dicts: distinct ids, distinct keys *)
Definition mapping_wf (m : mapping) : Prop :=
  NoDup (map fst m) /\ Forall (fun p => NoDup (map fst (snd p))) m.

Definition entry_of (md : option (list assoc)) (i : nat) : assoc :=
  match md with Some l => nth i l [] | None => [] end.
(* value of a key for an id on an axis (None: the id or the key is absent) *)
Definition md_lookup (t : mtab) (a : axis) (id k : text) : option Tree :=
  match tpos id (m_ids a t) with
  | Some i => aget (entry_of (m_mds a t) i) k
  | None => None
  end.

Lemma md_norm_cast md n : md_norm md n -> cast_md md = md.
Proof. destruct md as [[|e l]|]; simpl; [intros [_ H]; congruence|reflexivity|reflexivity]. Qed.

Lemma mlookup_notin id m : ~ In id (map fst m) -> mlookup id m = None.
Proof.
  induction m as [|[i e] r IH]; simpl; intros H; [reflexivity|].
  destruct (text_eqb id i) eqn:E; [apply text_eqb_eq in E; subst; exfalso; apply H; left; reflexivity|].
  apply IH. intros Hin. apply H. right. exact Hin.
Qed.

Lemma mlookup_In id m e : mlookup id m = Some e -> In (id, e) m.
Proof.
  induction m as [|[i e'] r IH]; simpl; [discriminate|].
  destruct (text_eqb id i) eqn:E.
  - apply text_eqb_eq in E. subst. intros H. inversion H. left. reflexivity.
  - intros H. right. apply IH. exact H.
Qed.

(* ------------------------------------------------------------------ add_metadata on an axis that has metadata *)
Lemma fold_add_length ids m : forall l, length (fold_left (add_step ids) m l) = length l.
Proof.
  induction m as [|p m IH]; intros l; simpl; [reflexivity|]. rewrite IH. unfold add_step.
  destruct (tpos (fst p) ids); [apply upd_length|reflexivity].
Qed.

Lemma fold_add_nth ids m i : NoDup ids -> (i < length ids)%nat -> forall l, length l = length ids ->
  nth i (fold_left (add_step ids) m l) []
  = fold_left (fun a p => if text_eqb (fst p) (nth i ids []) then aupdate a (snd p) else a) m (nth i l []).
Proof.
  intros Hnd Hi. induction m as [|p m IH]; intros l Hl; simpl; [reflexivity|].
  rewrite IH.
  - f_equal. unfold add_step. destruct (tpos (fst p) ids) as [j|] eqn:Ej.
    + destruct (tpos_Some _ _ _ Ej) as [Hj1 Hj2]. destruct (Nat.eq_dec j i) as [E|E].
      * subst j. rewrite nth_upd_eq by lia. rewrite <- Hj1, text_eqb_refl. reflexivity.
      * rewrite nth_upd_neq by exact E.
        destruct (text_eqb (fst p) (nth i ids [])) eqn:Eq; [|reflexivity].
        apply text_eqb_eq in Eq. exfalso. apply E. apply (NoDup_nth_inj ids); try assumption. congruence.
    + apply tpos_None in Ej. destruct (text_eqb (fst p) (nth i ids [])) eqn:Eq; [|reflexivity].
      apply text_eqb_eq in Eq. exfalso. apply Ej. rewrite Eq. apply nth_In. exact Hi.
  - unfold add_step. destruct (tpos (fst p) ids); [rewrite upd_length; exact Hl|exact Hl].
Qed.

Lemma fold_cond_absent id m : ~ In id (map fst m) -> forall a,
  fold_left (fun a p => if text_eqb (fst p) id then aupdate a (snd p) else a) m a = a.
Proof.
  induction m as [|p m IH]; intros H a; simpl; [reflexivity|].
  destruct (text_eqb (fst p) id) eqn:E.
  - apply text_eqb_eq in E. exfalso. apply H. left. exact E.
  - apply IH. intros Hin. apply H. right. exact Hin.
Qed.

Lemma fold_cond_unique id m : NoDup (map fst m) -> forall a,
  fold_left (fun a p => if text_eqb (fst p) id then aupdate a (snd p) else a) m a
  = match mlookup id m with Some e => aupdate a e | None => a end.
Proof.
  induction m as [|[i e] m IH]; intros Hnd a; simpl; [reflexivity|].
  inversion Hnd as [|? ? Hnot Hnd']; subst. rewrite (text_eqb_sym id i).
  destruct (text_eqb i id) eqn:E.
  - apply text_eqb_eq in E. subst i. apply fold_cond_absent. exact Hnot.
  - apply IH. exact Hnd'.
Qed.

Definition added (m : mapping) (id k : text) (old : option Tree) : option Tree :=
  match mlookup id m with
  | Some e => match aget e k with Some v => Some v | None => old end
  | None => old
  end.

Lemma add_axis_lookup ids md m : NoDup ids -> md_norm md (length ids) -> mapping_wf m ->
  forall i k, (i < length ids)%nat ->
  aget (entry_of (add_axis ids md m) i) k = added m (nth i ids []) k (aget (entry_of md i) k).
Proof.
  intros Hnd Hn [Hm1 Hm2] i k Hi. unfold added. destruct md as [l|]; unfold add_axis.
  - destruct Hn as [Hl Hne].
    assert (Hc : cast_md (Some (fold_left (add_step ids) m l)) = Some (fold_left (add_step ids) m l)).
    { apply (md_norm_cast _ (length ids)). split; [rewrite fold_add_length; exact Hl|].
      intros E. apply (f_equal (@length assoc)) in E. rewrite fold_add_length in E. simpl in E.
      destruct l; [congruence|discriminate]. }
    rewrite Hc. simpl entry_of. rewrite (fold_add_nth ids m i Hnd Hi l Hl).
    rewrite (fold_cond_unique _ m Hm1).
    destruct (mlookup (nth i ids []) m) as [e|] eqn:E; [|reflexivity].
    apply aget_aupdate. rewrite Forall_forall in Hm2. apply (Hm2 _ (mlookup_In _ _ _ E)).
  - unfold cast_opt. destruct (forallb is_none (map (fun id => mlookup id m) ids)) eqn:F.
    + simpl. rewrite forallb_forall in F.
      assert (H : is_none (mlookup (nth i ids []) m) = true).
      { apply F. apply in_map_iff. exists (nth i ids []). split; [reflexivity|apply nth_In; exact Hi]. }
      destruct (mlookup (nth i ids []) m); [discriminate|reflexivity].
    + simpl entry_of.
      rewrite (@nth_map_lt (option assoc) assoc _ _ i [] None) by (rewrite map_length; exact Hi).
      rewrite (@nth_map_lt text (option assoc) _ _ i None []) by exact Hi.
      destruct (mlookup (nth i ids []) m) as [e|]; [destruct (aget e k); reflexivity|reflexivity].
Qed.

Lemma add_axis_none ids md m : md_norm md (length ids) ->
  (add_axis ids md m = None <-> md = None /\ forall id, In id ids -> mlookup id m = None).
Proof.
  intros Hn. destruct md as [l|]; unfold add_axis.
  - destruct Hn as [Hl Hne]. split; [|intros [H _]; discriminate]. intros H. exfalso.
    destruct (fold_left (add_step ids) m l) eqn:E; [|discriminate].
    apply (f_equal (@length assoc)) in E. rewrite fold_add_length in E. simpl in E. destruct l; [congruence|discriminate].
  - unfold cast_opt. destruct (forallb is_none (map (fun id => mlookup id m) ids)) eqn:F.
    + split; [|reflexivity]. intros _. split; [reflexivity|]. intros id Hin. rewrite forallb_forall in F.
      destruct (mlookup id m) as [a|] eqn:E; [|reflexivity].
      assert (is_none (Some a) = true) by (apply F; apply in_map_iff; exists id; split; [exact E|exact Hin]). discriminate.
    + split; [discriminate|]. intros [_ H]. exfalso.
      assert (forallb is_none (map (fun id => mlookup id m) ids) = true).
      { apply forallb_forall. intros o Ho. apply in_map_iff in Ho. destruct Ho as [id [E Hin]]. subst. rewrite (H id Hin). reflexivity. }
      congruence.
Qed.

(* ---- add_metadata: exactly the named ids and keys change, with the given values ---- *)
Theorem add_md_local_proof t m a : mwf t -> mapping_wf m ->
  let t' := add_metadata t m a in
  m_oids t' = m_oids t /\ m_sids t' = m_sids t /\ m_mat t' = m_mat t
  /\ m_mds (other a) t' = m_mds (other a) t
  /\ (forall id k, In id (m_ids a t) -> md_lookup t' a id k = added m id k (md_lookup t a id k))
  /\ (m_mds a t' = None <-> m_mds a t = None /\ forall id, In id (m_ids a t) -> mlookup id m = None).
Proof.
  intros (W1 & W2 & W3 & W4) Hm. destruct a; simpl.
  - split; [reflexivity|]. split; [reflexivity|]. split; [reflexivity|].
    split; [apply (md_norm_cast _ _ W4)|]. split.
    + intros id k Hin. unfold md_lookup. simpl. destruct (tpos_In id _ Hin) as [i Hi]. rewrite Hi.
      destruct (tpos_Some _ _ _ Hi) as [A B]. rewrite (add_axis_lookup _ _ _ W1 W3 Hm i k B). rewrite A. reflexivity.
    + apply (add_axis_none _ _ _ W3).
  - split; [reflexivity|]. split; [reflexivity|]. split; [reflexivity|].
    split; [apply (md_norm_cast _ _ W3)|]. split.
    + intros id k Hin. unfold md_lookup. simpl. destruct (tpos_In id _ Hin) as [i Hi]. rewrite Hi.
      destruct (tpos_Some _ _ _ Hi) as [A B]. rewrite (add_axis_lookup _ _ _ W2 W4 Hm i k B). rewrite A. reflexivity.
    + apply (add_axis_none _ _ _ W4).
Qed.

Lemma add_then_lookup_proof t m a id e k v : mwf t -> mapping_wf m ->
  In id (m_ids a t) -> mlookup id m = Some e -> aget e k = Some v ->
  md_lookup (add_metadata t m a) a id k = Some v.
Proof.
  intros W Hm Hin He Hk. destruct (add_md_local_proof t m a W Hm) as (_ & _ & _ & _ & H & _).
  rewrite (H id k Hin). unfold added. rewrite He, Hk. reflexivity.
Qed.

(* add_metadata keeps a table a table *)
Lemma add_metadata_wf t m a : mwf t -> mwf (add_metadata t m a).
Proof.
  intros (W1 & W2 & W3 & W4).
  assert (K : forall ids md, md_norm md (length ids) -> md_norm (add_axis ids md m) (length ids)).
  { intros ids md Hn. destruct md as [l|]; unfold add_axis.
    - destruct Hn as [Hl Hne].
      assert (Hf : md_norm (Some (fold_left (add_step ids) m l)) (length ids)).
      { split; [rewrite fold_add_length; exact Hl|]. intros E. apply (f_equal (@length assoc)) in E.
        rewrite fold_add_length in E. destruct l; simpl in E; [congruence|discriminate]. }
      rewrite (md_norm_cast _ _ Hf). exact Hf.
    - unfold cast_opt. destruct (forallb is_none (map (fun id => mlookup id m) ids)) eqn:F; simpl; [trivial|].
      split; [rewrite !map_length; reflexivity|]. intros E. apply map_eq_nil in E. rewrite E in F. discriminate. }
  destruct a; simpl; unfold mwf; simpl; repeat split; try assumption.
  - apply K; exact W3.
  - rewrite (md_norm_cast _ _ W4). exact W4.
  - rewrite (md_norm_cast _ _ W3). exact W3.
  - apply K; exact W4.
Qed.

(* ------------------------------------------------------------------ del_metadata *)
Lemma del_axis_entry ks l i :
  entry_of (del_axis (Some ks) (Some l)) i = adel_all (nth i l []) ks.
Proof.
  unfold del_axis. set (l' := map (fun e => adel_all e ks) l). cbv zeta.
  assert (Hn : nth i l' [] = adel_all (nth i l []) ks).
  { unfold l'. destruct (Nat.lt_ge_cases i (length l)) as [H|H].
    - apply nth_map_lt. exact H.
    - rewrite !nth_overflow; [|exact H|rewrite map_length; exact H].
      unfold adel_all. clear. induction ks; simpl; [reflexivity|assumption]. }
  destruct (negb (Metadata.is_nil l') && forallb Metadata.is_nil l') eqn:C.
  - simpl. apply andb_true_iff in C. destruct C as [_ C]. rewrite forallb_forall in C. rewrite <- Hn.
    destruct (Nat.lt_ge_cases i (length l')) as [H|H].
    + specialize (C (nth i l' []) (nth_In _ _ H)). destruct (nth i l' []); [reflexivity|discriminate].
    + rewrite nth_overflow by exact H. reflexivity.
  - simpl. exact Hn.
Qed.

Definition deleted (keys : option (list text)) (k : text) (old : option Tree) : option Tree :=
  match keys with None => None | Some ks => if tmem k ks then None else old end.

Lemma del_axis_lookup keys md i k :
  aget (entry_of (del_axis keys md) i) k = deleted keys k (aget (entry_of md i) k).
Proof.
  destruct keys as [ks|]; [|reflexivity]. destruct md as [l|].
  - rewrite del_axis_entry. apply aget_adel_all.
  - simpl. destruct (tmem k ks); reflexivity.
Qed.

(* ---- del_metadata: exactly the named keys go, on exactly the chosen axes ---- *)
Theorem del_md_local_proof t keys s :
  let t' := del_metadata t keys s in
  m_oids t' = m_oids t /\ m_sids t' = m_sids t /\ m_mat t' = m_mat t
  /\ (forall a, selected s a = false -> m_mds a t' = m_mds a t)
  /\ (forall a id k, selected s a = true -> md_lookup t' a id k = deleted keys k (md_lookup t a id k))
  /\ (forall a, selected s a = true -> keys = None -> m_mds a t' = None).
Proof.
  simpl. repeat split; try reflexivity.
  - intros a H. destruct a; simpl in *; rewrite H; reflexivity.
  - intros a id k H. unfold md_lookup. destruct a; simpl in *; rewrite H;
      (destruct (tpos id _); [apply del_axis_lookup|destruct keys as [ks|]; simpl; [destruct (tmem k ks); reflexivity|reflexivity]]).
  - intros a H E. subst keys. destruct a; simpl in *; rewrite H; reflexivity.
Qed.

(* all-empty metadata collapses to None, and only then *)
Lemma del_axis_none ks l :
  del_axis (Some ks) (Some l) = None <-> l <> [] /\ Forall (fun e => adel_all e ks = []) l.
Proof.
  unfold del_axis. set (l' := map (fun e => adel_all e ks) l). cbv zeta.
  destruct (negb (Metadata.is_nil l') && forallb Metadata.is_nil l') eqn:C.
  - split; [|reflexivity]. intros _. apply andb_true_iff in C. destruct C as [C1 C2]. split.
    + intros E. subst l. discriminate.
    + apply Forall_forall. intros e He. rewrite forallb_forall in C2.
      assert (Hx : Metadata.is_nil (adel_all e ks) = true) by (apply C2; unfold l'; apply in_map_iff; exists e; split; [reflexivity|exact He]).
      destruct (adel_all e ks); [reflexivity|discriminate].
  - split; [discriminate|]. intros [H1 H2]. exfalso. apply andb_false_iff in C. destruct C as [C|C].
    + destruct l; [congruence|discriminate].
    + assert (forallb Metadata.is_nil l' = true).
      { apply forallb_forall. intros x Hx. unfold l' in Hx. apply in_map_iff in Hx. destruct Hx as [e [E He]]. subst.
        rewrite Forall_forall in H2. rewrite (H2 e He). reflexivity. }
      congruence.
Qed.

Lemma del_axis_idem keys md : del_axis keys (del_axis keys md) = del_axis keys md.
Proof.
  destruct keys as [ks|]; [|reflexivity]. destruct md as [l|]; [|reflexivity].
  unfold del_axis. set (l' := map (fun e => adel_all e ks) l). cbv zeta.
  destruct (negb (Metadata.is_nil l') && forallb Metadata.is_nil l') eqn:C; [reflexivity|].
  assert (E : map (fun e => adel_all e ks) l' = l').
  { unfold l'. rewrite map_map. apply map_ext. intros e. apply adel_all_idem. }
  rewrite E, C. reflexivity.
Qed.

Theorem del_md_idempotent_proof t keys s :
  del_metadata (del_metadata t keys s) keys s = del_metadata t keys s.
Proof.
  unfold del_metadata. simpl. destruct (selected s Obs), (selected s Samp); rewrite ?del_axis_idem; reflexivity.
Qed.
