(* Proofs about metadata updates and mapping files (property C18). *)
From Coq Require Import List Arith ZArith Lia Bool.
From BiomV Require Import Base.Tree Base.ListUtil Base.Matrix Model.Table Model.Tsv Model.Metadata Proofs.TsvProofs.
Import ListNotations.
Open Scope Z_scope.

(* ------------------------------------------------------------------ text equality *)
Lemma text_eqb_refl t : text_eqb t t = true.
Proof. apply text_eqb_eq. reflexivity. Qed.

Lemma text_eqb_neq a b : text_eqb a b = false <-> a <> b.
Proof.
  split.
  - intros H E. apply text_eqb_eq in E. congruence.
  - intros H. destruct (text_eqb a b) eqn:E; [apply text_eqb_eq in E; contradiction|reflexivity].
Qed.

Lemma text_eqb_sym a b : text_eqb a b = text_eqb b a.
Proof.
  destruct (text_eqb a b) eqn:E.
  - apply text_eqb_eq in E. subst. symmetry. apply text_eqb_refl.
  - apply text_eqb_neq in E. symmetry. apply text_eqb_neq. congruence.
Qed.

Lemma nth_map_lt {A B} (f : A -> B) l i dB dA : (i < length l)%nat -> nth i (map f l) dB = f (nth i l dA).
Proof.
  revert i. induction l as [|x l IH]; intros i H; simpl in *; [lia|]. destruct i; [reflexivity|]. apply IH. lia.
Qed.

(* ------------------------------------------------------------------ positions *)
Lemma tpos_Some x l i : tpos x l = Some i -> nth i l [] = x /\ (i < length l)%nat.
Proof.
  unfold tpos. revert i. induction l as [|y t IH]; simpl; intros i H; [discriminate|].
  destruct (text_eqb x y) eqn:E.
  - inversion H; subst. apply text_eqb_eq in E. subst. simpl. split; [reflexivity|lia].
  - destruct (index_of text_eqb x t) as [k|] eqn:K; simpl in H; [|discriminate].
    inversion H; subst. destruct (IH k eq_refl) as [A B]. simpl. split; [exact A|lia].
Qed.

Lemma tpos_None x l : tpos x l = None <-> ~ In x l.
Proof.
  unfold tpos. induction l as [|y t IH]; simpl.
  - split; [intros _ []|reflexivity].
  - destruct (text_eqb x y) eqn:E.
    + apply text_eqb_eq in E. subst. split; [discriminate|]. intros H. exfalso. apply H. left; reflexivity.
    + apply text_eqb_neq in E. destruct (index_of text_eqb x t) as [k|] eqn:K; simpl.
      * split; [discriminate|]. intros H. exfalso. apply H. right.
        destruct (in_dec (list_eq_dec Z.eq_dec) x t) as [Hi|Hn]; [exact Hi|]. apply IH in Hn. discriminate.
      * split; [|reflexivity]. intros _ [H|H]; [congruence|]. destruct IH as [IH1 _]. exact (IH1 eq_refl H).
Qed.

Lemma tpos_In x l : In x l -> exists i, tpos x l = Some i.
Proof.
  intros H. destruct (tpos x l) as [i|] eqn:E; [eauto|]. apply tpos_None in E. contradiction.
Qed.

Lemma NoDup_nth_inj (l : list text) i j : NoDup l -> (i < length l)%nat -> (j < length l)%nat ->
  nth i l [] = nth j l [] -> i = j.
Proof. intros H Hi Hj E. apply (proj1 (NoDup_nth l []) H i j Hi Hj E). Qed.

(* ------------------------------------------------------------------ association lists *)
Lemma aget_aset_same a k v : aget (aset a k v) k = Some v.
Proof.
  induction a as [|[k' v'] r IH]; simpl.
  - rewrite text_eqb_refl. reflexivity.
  - destruct (text_eqb k k') eqn:E; simpl; [rewrite text_eqb_refl; reflexivity|rewrite E; exact IH].
Qed.

Lemma aget_aset_other a k k2 v : k2 <> k -> aget (aset a k v) k2 = aget a k2.
Proof.
  intros Hne. apply text_eqb_neq in Hne. induction a as [|[k' v'] r IH]; simpl.
  - rewrite Hne. reflexivity.
  - destruct (text_eqb k k') eqn:E; simpl.
    + apply text_eqb_eq in E. subst k'. rewrite Hne. reflexivity.
    + destruct (text_eqb k2 k'); [reflexivity|exact IH].
Qed.

Lemma aget_notin e k : ~ In k (map fst e) -> aget e k = None.
Proof.
  induction e as [|[k' v'] r IH]; simpl; intros H; [reflexivity|].
  destruct (text_eqb k k') eqn:E; [apply text_eqb_eq in E; subst; exfalso; apply H; left; reflexivity|].
  apply IH. intros Hin. apply H. right. exact Hin.
Qed.

(* d.update(e) for a dict e: the keys of e get e's values, the others keep theirs *)
Lemma aget_aupdate e : NoDup (map fst e) -> forall a k,
  aget (aupdate a e) k = match aget e k with Some v => Some v | None => aget a k end.
Proof.
  unfold aupdate. induction e as [|[k1 v1] e IH]; intros Hnd a k; simpl; [reflexivity|].
  inversion Hnd as [|? ? Hnot Hnd']; subst. rewrite (IH Hnd').
  destruct (text_eqb k k1) eqn:E.
  - apply text_eqb_eq in E. subst k1. rewrite (aget_notin e k Hnot). apply aget_aset_same.
  - apply text_eqb_neq in E. destruct (aget e k); [reflexivity|]. apply aget_aset_other. exact E.
Qed.

Lemma adel_all_filter ks : forall a,
  adel_all a ks = filter (fun kv => negb (tmem (fst kv) ks)) a.
Proof.
  unfold adel_all. induction ks as [|k ks IH]; intros a.
  - simpl. induction a as [|x a IHa]; simpl; [reflexivity|]. f_equal. exact IHa.
  - cbn [fold_left]. rewrite IH. unfold adel. clear IH.
    induction a as [|[k' v'] a IHa]; [reflexivity|].
    cbn [filter fst tmem existsb]. fold (tmem k' ks).
    destruct (text_eqb k' k) eqn:E; cbn [negb orb].
    + exact IHa.
    + cbn [filter fst]. fold (tmem k' ks). destruct (tmem k' ks); cbn [negb]; [exact IHa|f_equal; exact IHa].
Qed.

Lemma aget_filter (f : text -> bool) a k :
  aget (filter (fun kv => f (fst kv)) a) k = if f k then aget a k else None.
Proof.
  induction a as [|[k' v'] a IH]; simpl; [destruct (f k); reflexivity|].
  destruct (f k') eqn:Ef; simpl.
  - destruct (text_eqb k k') eqn:E; [apply text_eqb_eq in E; subst; rewrite Ef; reflexivity|exact IH].
  - destruct (text_eqb k k') eqn:E; [apply text_eqb_eq in E; subst; rewrite Ef in *; exact IH|exact IH].
Qed.

(* deleting keys: exactly those keys disappear *)
Lemma aget_adel_all a ks k : aget (adel_all a ks) k = if tmem k ks then None else aget a k.
Proof.
  rewrite adel_all_filter. rewrite (aget_filter (fun x => negb (tmem x ks))). destruct (tmem k ks); reflexivity.
Qed.

Lemma filter_idem {A} (f : A -> bool) l : filter f (filter f l) = filter f l.
Proof.
  induction l as [|x l IH]; simpl; [reflexivity|]. destruct (f x) eqn:E; simpl; [rewrite E, IH; reflexivity|exact IH].
Qed.

Lemma adel_all_idem a ks : adel_all (adel_all a ks) ks = adel_all a ks.
Proof. rewrite !adel_all_filter. apply filter_idem. Qed.

(* ------------------------------------------------------------------ what a table and a mapping are *)
Definition md_norm (md : option (list assoc)) (n : nat) : Prop :=
  match md with Some l => length l = n /\ forallb Metadata.is_nil l = false | None => True end.
(* what the constructor and _cast_metadata establish: distinct ids; metadata is None or one dict
   per id, not all of them empty *)
Definition mwf (t : mtab) : Prop :=
  NoDup (m_oids t) /\ NoDup (m_sids t)
  /\ md_norm (m_omd t) (length (m_oids t)) /\ md_norm (m_smd t) (length (m_sids t)).
(* a Python dict of dicts: distinct ids, distinct keys *)
Definition mapping_wf (m : mapping) : Prop :=
  NoDup (map fst m) /\ Forall (fun p => NoDup (map fst (snd p))) m.

Definition entry_of (md : option (list assoc)) (i : nat) : assoc :=
  match md with Some l => nth i l [] | None => [] end.
(* value of a key for an id on an axis (None: the id or the key is absent) *)
Definition md_lookup (t : mtab) (a : axis) (id k : text) : option Tree :=
  match tpos id (m_ids a t) with
  | Some i => aget (entry_of (m_mds a t) i) k
  | None => None
  end.

Lemma md_norm_cast md n : md_norm md n -> cast_md md = md.
Proof. destruct md as [l|]; simpl; [intros [_ H]; rewrite H; reflexivity|reflexivity]. Qed.

Lemma aset_ne a k v : aset a k v <> [].
Proof. destruct a as [|[k' v'] r]; simpl; [discriminate|]. destruct (text_eqb k k'); discriminate. Qed.

Lemma aupdate_ne a e : a <> [] -> aupdate a e <> [].
Proof.
  unfold aupdate. revert a. induction e as [|[k v] e IH]; intros a H; simpl; [exact H|].
  apply IH. apply aset_ne.
Qed.

Lemma some_nonempty (l : list assoc) :
  forallb Metadata.is_nil l = false <-> exists j, (j < length l)%nat /\ nth j l [] <> [].
Proof.
  induction l as [|e l IH]; simpl.
  - split; [discriminate|]. intros [j [H _]]. lia.
  - destruct e as [|p e]; simpl.
    + rewrite IH. split.
      * intros [j [A B]]. exists (S j). split; [lia|exact B].
      * intros [[|j] [A B]]; [congruence|]. exists j. split; [lia|exact B].
    + split; [|reflexivity]. intros _. exists 0%nat. split; [lia|discriminate].
Qed.

Lemma mlookup_notin id m : ~ In id (map fst m) -> mlookup id m = None.
Proof.
  induction m as [|[i e] r IH]; simpl; intros H; [reflexivity|].
  destruct (text_eqb id i) eqn:E; [apply text_eqb_eq in E; subst; exfalso; apply H; left; reflexivity|].
  apply IH. intros Hin. apply H. right. exact Hin.
Qed.

Lemma mlookup_In id m e : mlookup id m = Some e -> In (id, e) m.
Proof.
  induction m as [|[i e'] r IH]; simpl; [discriminate|].
  destruct (text_eqb id i) eqn:E.
  - apply text_eqb_eq in E. subst. intros H. inversion H. left. reflexivity.
  - intros H. right. apply IH. exact H.
Qed.

(* ------------------------------------------------------------------ add_metadata on an axis that has metadata *)
Lemma fold_add_length ids m : forall l, length (fold_left (add_step ids) m l) = length l.
Proof.
  induction m as [|p m IH]; intros l; simpl; [reflexivity|]. rewrite IH. unfold add_step.
  destruct (tpos (fst p) ids); [apply upd_length|reflexivity].
Qed.

Lemma fold_add_nonempty ids m : forall l,
  forallb Metadata.is_nil l = false -> forallb Metadata.is_nil (fold_left (add_step ids) m l) = false.
Proof.
  induction m as [|p m IH]; intros l H; simpl; [exact H|]. apply IH. unfold add_step.
  destruct (tpos (fst p) ids) as [i|]; [|exact H].
  apply some_nonempty in H. destruct H as [j [A B]]. apply some_nonempty.
  exists j. rewrite upd_length. split; [exact A|].
  destruct (Nat.eq_dec i j) as [E|E].
  - subst. rewrite nth_upd_eq by exact A. apply aupdate_ne. exact B.
  - rewrite nth_upd_neq by exact E. exact B.
Qed.

Lemma fold_add_nth ids m i : NoDup ids -> (i < length ids)%nat -> forall l, length l = length ids ->
  nth i (fold_left (add_step ids) m l) []
  = fold_left (fun a p => if text_eqb (fst p) (nth i ids []) then aupdate a (snd p) else a) m (nth i l []).
Proof.
  intros Hnd Hi. induction m as [|p m IH]; intros l Hl; simpl; [reflexivity|].
  rewrite IH.
  - f_equal. unfold add_step. destruct (tpos (fst p) ids) as [j|] eqn:Ej.
    + destruct (tpos_Some _ _ _ Ej) as [Hj1 Hj2]. destruct (Nat.eq_dec j i) as [E|E].
      * subst j. rewrite nth_upd_eq by lia. rewrite <- Hj1, text_eqb_refl. reflexivity.
      * rewrite nth_upd_neq by exact E.
        destruct (text_eqb (fst p) (nth i ids [])) eqn:Eq; [|reflexivity].
        apply text_eqb_eq in Eq. exfalso. apply E. apply (NoDup_nth_inj ids); try assumption. congruence.
    + apply tpos_None in Ej. destruct (text_eqb (fst p) (nth i ids [])) eqn:Eq; [|reflexivity].
      apply text_eqb_eq in Eq. exfalso. apply Ej. rewrite Eq. apply nth_In. exact Hi.
  - unfold add_step. destruct (tpos (fst p) ids); [rewrite upd_length; exact Hl|exact Hl].
Qed.

Lemma fold_cond_absent id m : ~ In id (map fst m) -> forall a,
  fold_left (fun a p => if text_eqb (fst p) id then aupdate a (snd p) else a) m a = a.
Proof.
  induction m as [|p m IH]; intros H a; simpl; [reflexivity|].
  destruct (text_eqb (fst p) id) eqn:E.
  - apply text_eqb_eq in E. exfalso. apply H. left. exact E.
  - apply IH. intros Hin. apply H. right. exact Hin.
Qed.

Lemma fold_cond_unique id m : NoDup (map fst m) -> forall a,
  fold_left (fun a p => if text_eqb (fst p) id then aupdate a (snd p) else a) m a
  = match mlookup id m with Some e => aupdate a e | None => a end.
Proof.
  induction m as [|[i e] m IH]; intros Hnd a; simpl; [reflexivity|].
  inversion Hnd as [|? ? Hnot Hnd']; subst. rewrite (text_eqb_sym id i).
  destruct (text_eqb i id) eqn:E.
  - apply text_eqb_eq in E. subst i. apply fold_cond_absent. exact Hnot.
  - apply IH. exact Hnd'.
Qed.

Definition added (m : mapping) (id k : text) (old : option Tree) : option Tree :=
  match mlookup id m with
  | Some e => match aget e k with Some v => Some v | None => old end
  | None => old
  end.

Lemma add_axis_lookup ids md m : NoDup ids -> md_norm md (length ids) -> mapping_wf m ->
  forall i k, (i < length ids)%nat ->
  aget (entry_of (add_axis ids md m) i) k = added m (nth i ids []) k (aget (entry_of md i) k).
Proof.
  intros Hnd Hn [Hm1 Hm2] i k Hi. unfold added. destruct md as [l|]; unfold add_axis.
  - destruct Hn as [Hl Hne].
    assert (Hc : cast_md (Some (fold_left (add_step ids) m l)) = Some (fold_left (add_step ids) m l)).
    { apply (md_norm_cast _ (length ids)). split; [rewrite fold_add_length; exact Hl|apply fold_add_nonempty; exact Hne]. }
    rewrite Hc. simpl entry_of. rewrite (fold_add_nth ids m i Hnd Hi l Hl).
    rewrite (fold_cond_unique _ m Hm1).
    destruct (mlookup (nth i ids []) m) as [e|] eqn:E; [|reflexivity].
    apply aget_aupdate. rewrite Forall_forall in Hm2. apply (Hm2 _ (mlookup_In _ _ _ E)).
  - unfold cast_opt. destruct (forallb opt_empty (map (fun id => mlookup id m) ids)) eqn:F.
    + simpl. rewrite forallb_forall in F.
      assert (H : opt_empty (mlookup (nth i ids []) m) = true).
      { apply F. apply in_map_iff. exists (nth i ids []). split; [reflexivity|apply nth_In; exact Hi]. }
      destruct (mlookup (nth i ids []) m) as [[|p e]|]; [reflexivity|discriminate|reflexivity].
    + simpl entry_of.
      rewrite (@nth_map_lt (option assoc) assoc _ _ i [] None) by (rewrite map_length; exact Hi).
      rewrite (@nth_map_lt text (option assoc) _ _ i None []) by exact Hi.
      destruct (mlookup (nth i ids []) m) as [e|]; [destruct (aget e k); reflexivity|reflexivity].
Qed.

Lemma add_axis_none ids md m : md_norm md (length ids) ->
  (add_axis ids md m = None <-> md = None /\ forall id, In id ids -> opt_empty (mlookup id m) = true).
Proof.
  intros Hn. destruct md as [l|]; unfold add_axis.
  - destruct Hn as [Hl Hne]. split; [|intros [H _]; discriminate]. intros H. exfalso.
    unfold cast_md in H. rewrite (fold_add_nonempty ids m l Hne) in H. discriminate.
  - unfold cast_opt. destruct (forallb opt_empty (map (fun id => mlookup id m) ids)) eqn:F.
    + split; [|reflexivity]. intros _. split; [reflexivity|]. intros id Hin. rewrite forallb_forall in F.
      apply F. apply in_map_iff. exists id. split; [reflexivity|exact Hin].
    + split; [discriminate|]. intros [_ H]. exfalso.
      assert (forallb opt_empty (map (fun id => mlookup id m) ids) = true).
      { apply forallb_forall. intros o Ho. apply in_map_iff in Ho. destruct Ho as [id [E Hin]]. subst. apply H. exact Hin. }
      congruence.
Qed.

(* ---- add_metadata: exactly the named ids and keys change, with the given values ---- *)
Theorem add_md_local_proof t m a : mwf t -> mapping_wf m ->
  let t' := add_metadata t m a in
  m_oids t' = m_oids t /\ m_sids t' = m_sids t /\ m_mat t' = m_mat t
  /\ m_mds (other a) t' = m_mds (other a) t
  /\ (forall id k, In id (m_ids a t) -> md_lookup t' a id k = added m id k (md_lookup t a id k))
  /\ (m_mds a t' = None <-> m_mds a t = None /\ forall id, In id (m_ids a t) -> opt_empty (mlookup id m) = true).
Proof.
  intros (W1 & W2 & W3 & W4) Hm. destruct a; simpl.
  - split; [reflexivity|]. split; [reflexivity|]. split; [reflexivity|].
    split; [apply (md_norm_cast _ _ W4)|]. split.
    + intros id k Hin. unfold md_lookup. simpl. destruct (tpos_In id _ Hin) as [i Hi]. rewrite Hi.
      destruct (tpos_Some _ _ _ Hi) as [A B]. rewrite (add_axis_lookup _ _ _ W1 W3 Hm i k B). rewrite A. reflexivity.
    + apply (add_axis_none _ _ _ W3).
  - split; [reflexivity|]. split; [reflexivity|]. split; [reflexivity|].
    split; [apply (md_norm_cast _ _ W3)|]. split.
    + intros id k Hin. unfold md_lookup. simpl. destruct (tpos_In id _ Hin) as [i Hi]. rewrite Hi.
      destruct (tpos_Some _ _ _ Hi) as [A B]. rewrite (add_axis_lookup _ _ _ W2 W4 Hm i k B). rewrite A. reflexivity.
    + apply (add_axis_none _ _ _ W4).
Qed.

Lemma add_then_lookup_proof t m a id e k v : mwf t -> mapping_wf m ->
  In id (m_ids a t) -> mlookup id m = Some e -> aget e k = Some v ->
  md_lookup (add_metadata t m a) a id k = Some v.
Proof.
  intros W Hm Hin He Hk. destruct (add_md_local_proof t m a W Hm) as (_ & _ & _ & _ & H & _).
  rewrite (H id k Hin). unfold added. rewrite He, Hk. reflexivity.
Qed.

(* add_metadata keeps a table a table *)
Lemma add_metadata_wf t m a : mwf t -> mwf (add_metadata t m a).
Proof.
  intros (W1 & W2 & W3 & W4).
  assert (K : forall ids md, md_norm md (length ids) -> md_norm (add_axis ids md m) (length ids)).
  { intros ids md Hn. destruct md as [l|]; unfold add_axis.
    - destruct Hn as [Hl Hne].
      assert (Hf : md_norm (Some (fold_left (add_step ids) m l)) (length ids)).
      { split; [rewrite fold_add_length; exact Hl|apply fold_add_nonempty; exact Hne]. }
      rewrite (md_norm_cast _ _ Hf). exact Hf.
    - unfold cast_opt. destruct (forallb opt_empty (map (fun id => mlookup id m) ids)) eqn:F; simpl; [trivial|].
      split; [rewrite !map_length; reflexivity|]. rewrite <- F.
      generalize (map (fun id => mlookup id m) ids). intros lo. clear.
      induction lo as [|o lo IH]; simpl; [reflexivity|]. rewrite IH. destruct o as [[|p e]|]; reflexivity. }
  destruct a; simpl; unfold mwf; simpl; repeat split; try assumption.
  - apply K; exact W3.
  - rewrite (md_norm_cast _ _ W4). exact W4.
  - rewrite (md_norm_cast _ _ W3). exact W3.
  - apply K; exact W4.
Qed.

(* ------------------------------------------------------------------ del_metadata *)
Lemma del_axis_entry ks l i :
  entry_of (del_axis (Some ks) (Some l)) i = adel_all (nth i l []) ks.
Proof.
  unfold del_axis. set (l' := map (fun e => adel_all e ks) l). cbv zeta.
  assert (Hn : nth i l' [] = adel_all (nth i l []) ks).
  { unfold l'. destruct (Nat.lt_ge_cases i (length l)) as [H|H].
    - apply nth_map_lt. exact H.
    - rewrite !nth_overflow; [|exact H|rewrite map_length; exact H].
      unfold adel_all. clear. induction ks; simpl; [reflexivity|assumption]. }
  destruct (negb (Metadata.is_nil l') && forallb Metadata.is_nil l') eqn:C.
  - simpl. apply andb_true_iff in C. destruct C as [_ C]. rewrite forallb_forall in C. rewrite <- Hn.
    destruct (Nat.lt_ge_cases i (length l')) as [H|H].
    + specialize (C (nth i l' []) (nth_In _ _ H)). destruct (nth i l' []); [reflexivity|discriminate].
    + rewrite nth_overflow by exact H. reflexivity.
  - simpl. exact Hn.
Qed.

Definition deleted (keys : option (list text)) (k : text) (old : option Tree) : option Tree :=
  match keys with None => None | Some ks => if tmem k ks then None else old end.

Lemma del_axis_lookup keys md i k :
  aget (entry_of (del_axis keys md) i) k = deleted keys k (aget (entry_of md i) k).
Proof.
  destruct keys as [ks|]; [|reflexivity]. destruct md as [l|].
  - rewrite del_axis_entry. apply aget_adel_all.
  - simpl. destruct (tmem k ks); reflexivity.
Qed.

(* ---- del_metadata: exactly the named keys go, on exactly the chosen axes ---- *)
Theorem del_md_local_proof t keys s :
  let t' := del_metadata t keys s in
  m_oids t' = m_oids t /\ m_sids t' = m_sids t /\ m_mat t' = m_mat t
  /\ (forall a, selected s a = false -> m_mds a t' = m_mds a t)
  /\ (forall a id k, selected s a = true -> md_lookup t' a id k = deleted keys k (md_lookup t a id k))
  /\ (forall a, selected s a = true -> keys = None -> m_mds a t' = None).
Proof.
  simpl. repeat split; try reflexivity.
  - intros a H. destruct a; simpl in *; rewrite H; reflexivity.
  - intros a id k H. unfold md_lookup. destruct a; simpl in *; rewrite H;
      (destruct (tpos id _); [apply del_axis_lookup|destruct keys as [ks|]; simpl; [destruct (tmem k ks); reflexivity|reflexivity]]).
  - intros a H E. subst keys. destruct a; simpl in *; rewrite H; reflexivity.
Qed.

(* all-empty metadata collapses to None, and only then *)
Lemma del_axis_none ks l :
  del_axis (Some ks) (Some l) = None <-> l <> [] /\ Forall (fun e => adel_all e ks = []) l.
Proof.
  unfold del_axis. set (l' := map (fun e => adel_all e ks) l). cbv zeta.
  destruct (negb (Metadata.is_nil l') && forallb Metadata.is_nil l') eqn:C.
  - split; [|reflexivity]. intros _. apply andb_true_iff in C. destruct C as [C1 C2]. split.
    + intros E. subst l. discriminate.
    + apply Forall_forall. intros e He. rewrite forallb_forall in C2.
      assert (Hx : Metadata.is_nil (adel_all e ks) = true) by (apply C2; unfold l'; apply in_map_iff; exists e; split; [reflexivity|exact He]).
      destruct (adel_all e ks); [reflexivity|discriminate].
  - split; [discriminate|]. intros [H1 H2]. exfalso. apply andb_false_iff in C. destruct C as [C|C].
    + destruct l; [congruence|discriminate].
    + assert (forallb Metadata.is_nil l' = true).
      { apply forallb_forall. intros x Hx. unfold l' in Hx. apply in_map_iff in Hx. destruct Hx as [e [E He]]. subst.
        rewrite Forall_forall in H2. rewrite (H2 e He). reflexivity. }
      congruence.
Qed.

Lemma del_axis_idem keys md : del_axis keys (del_axis keys md) = del_axis keys md.
Proof.
  destruct keys as [ks|]; [|reflexivity]. destruct md as [l|]; [|reflexivity].
  unfold del_axis. set (l' := map (fun e => adel_all e ks) l). cbv zeta.
  destruct (negb (Metadata.is_nil l') && forallb Metadata.is_nil l') eqn:C; [reflexivity|].
  assert (E : map (fun e => adel_all e ks) l' = l').
  { unfold l'. rewrite map_map. apply map_ext. intros e. apply adel_all_idem. }
  rewrite E, C. reflexivity.
Qed.

Theorem del_md_idempotent_proof t keys s :
  del_metadata (del_metadata t keys s) keys s = del_metadata t keys s.
Proof.
  unfold del_metadata. simpl. destruct (selected s Obs), (selected s Samp); rewrite ?del_axis_idem; reflexivity.
Qed.

(* ================================================================== mapping files *)
Definition uq (sq : bool) (x : text) : text := if sq then unquote x else x.
Definition ws_only (t : text) : Prop := Forall (fun c => is_space c = true) t.

Lemma strip_f_uq sq ss x : strip_f sq ss x = if ss then uq sq x else strip (uq sq x).
Proof. unfold strip_f, uq. destruct sq; reflexivity. Qed.

Lemma unquote_id t : ~ In QUOTE t -> unquote t = t.
Proof.
  unfold unquote. induction t as [|c t IH]; simpl; intros H; [reflexivity|].
  destruct (c =? QUOTE) eqn:E; [apply Z.eqb_eq in E; subst; exfalso; apply H; left; reflexivity|].
  simpl. f_equal. apply IH. intros Hin. apply H. right. exact Hin.
Qed.

Lemma unquote_idem t : unquote (unquote t) = unquote t.
Proof. unfold unquote. apply filter_idem. Qed.

Lemma uq_idem sq t : uq sq (uq sq t) = uq sq t.
Proof. destruct sq; [apply unquote_idem|reflexivity]. Qed.

Lemma unquote_app a b : unquote (a ++ b) = unquote a ++ unquote b.
Proof. unfold unquote. apply filter_app. Qed.

Lemma unquote_join ps : unquote (join TAB ps) = join TAB (map unquote ps).
Proof.
  destruct ps as [|p r]; [reflexivity|]. simpl. rewrite unquote_app. f_equal.
  induction r as [|q r IH]; simpl; [reflexivity|].
  change (TAB :: q ++ flat_map (fun q0 => TAB :: q0) r) with ([TAB] ++ (q ++ flat_map (fun q0 => TAB :: q0) r)).
  rewrite !unquote_app, IH. reflexivity.
Qed.

Lemma uq_join sq ps : uq sq (join TAB ps) = join TAB (map (uq sq) ps).
Proof. destruct sq; simpl; [apply unquote_join|rewrite map_id; reflexivity]. Qed.

Lemma unquote_notab t : ~ In TAB t -> ~ In TAB (unquote t).
Proof. unfold unquote. intros H Hin. apply filter_In in Hin. apply H. apply Hin. Qed.

Lemma uq_notab sq t : ~ In TAB t -> ~ In TAB (uq sq t).
Proof. destruct sq; [apply unquote_notab|trivial]. Qed.

Lemma strip_ws t : ws_only t -> strip t = [].
Proof.
  intros H. unfold strip. assert (E : lstrip t = []).
  { induction H as [|c t Hc Ht IH]; simpl; [reflexivity|]. rewrite Hc. exact IH. }
  rewrite E. reflexivity.
Qed.

Lemma ws_unquote t : ws_only t -> unquote t = t.
Proof.
  intros H. apply unquote_id. intros Hin. unfold ws_only in H. rewrite Forall_forall in H.
  specialize (H _ Hin). discriminate.
Qed.

Definition skipb (sq ss : bool) (line0 : text) : bool :=
  Metadata.is_nil (strip_f sq ss line0) || (ss && Metadata.is_nil (strip (strip_f sq ss line0))).

Lemma map_step_skip sq ss st l : skipb sq ss l = true -> map_step sq ss st l = st.
Proof. intros H. unfold map_step. destruct st as [h rows]. unfold skipb in H. cbv zeta. rewrite H. reflexivity. Qed.

Lemma skip_ws sq ss t : ws_only t -> skipb sq ss t = true.
Proof.
  intros H. unfold skipb. rewrite strip_f_uq.
  assert (E : uq sq t = t) by (destruct sq; [apply ws_unquote; exact H|reflexivity]).
  rewrite E. destruct ss.
  - rewrite (strip_ws t H). simpl. apply orb_true_r.
  - rewrite (strip_ws t H). reflexivity.
Qed.

Lemma lstrip_snoc_keep x c : is_space c = false -> exists y, lstrip (x ++ [c]) = y ++ [c].
Proof.
  intros H. induction x as [|a x IH]; simpl.
  - rewrite H. exists []. reflexivity.
  - destruct (is_space a); [exact IH|]. exists (a :: x). reflexivity.
Qed.

Lemma strip_cons_keep c t : is_space c = false -> exists t', strip (c :: t) = c :: t'.
Proof.
  intros H. unfold strip. rewrite lstrip_cons_nospace by exact H. unfold rstrip. simpl.
  destruct (lstrip_snoc_keep (rev t) c H) as [y E]. rewrite E. rewrite rev_app_distr. simpl. eauto.
Qed.

Lemma hd_join d p r : p <> [] -> hd 0 (join d (p :: r)) = hd 0 p.
Proof. destruct p; [congruence|reflexivity]. Qed.

(* a line that starts and ends with a non-blank character is what strip_f makes of it, up to
   the removal of quotes *)
Lemma strip_f_line sq ss ps :
  ps <> [] ->
  (exists c r, uq sq (hd [] ps) = c :: r /\ is_space c = false) ->
  (uq sq (last ps []) <> [] /\ is_space (last (uq sq (last ps [])) 0) = false) ->
  strip_f sq ss (join TAB ps) = join TAB (map (uq sq) ps).
Proof.
  intros Hne [c [r [Hc1 Hc2]]] [Hl1 Hl2]. rewrite strip_f_uq, uq_join. destruct ss; [reflexivity|].
  apply strip_edges.
  - destruct ps as [|p ps]; [congruence|]. simpl in *. rewrite Hc1. discriminate.
  - split.
    + destruct ps as [|p ps]; [congruence|]. cbn [map]. rewrite hd_join by (simpl in Hc1; rewrite Hc1; discriminate).
      simpl in Hc1. rewrite Hc1. exact Hc2.
    + destruct (snoc_exists ps Hne) as [ps' [x E]]. subst ps. rewrite last_snoc in Hl1, Hl2.
      rewrite map_app. cbn [map]. rewrite last_join_snoc by exact Hl1. exact Hl2.
Qed.

Definition row_wf (sq : bool) (cells : list text) : Prop :=
  cells <> [] /\ Forall (fun x => ~ In TAB x) cells
  /\ (exists c r, uq sq (hd [] cells) = c :: r /\ is_space c = false /\ c <> HASH)
  /\ (uq sq (last cells []) <> [] /\ is_space (last (uq sq (last cells [])) 0) = false).
Definition item_wf (sq : bool) (it : mitem) : Prop :=
  match it with MComment _ => True | MBlank b => ws_only b | MRow cells => row_wf sq cells end.
Definition name_wf (n : text) : Prop := n <> [] /\ ~ In TAB n /\ ~ In QUOTE n /\ edges_ok n.
(* the side conditions of the row grammar *)
Definition mfile_wf (sq ss : bool) (override : list text) (g : mfile) : Prop :=
  Forall ws_only (f_pre g)
  /\ f_names g <> [] /\ Forall name_wf (f_names g)
  /\ Forall (item_wf sq) (f_items g)
  /\ rows_of (f_items g) <> []
  /\ NoDup (map (fun cells => strip_f sq ss (hd [] cells)) (rows_of (f_items g)))
  /\ NoDup (tl (if Metadata.is_nil override then f_names g else override)).

Lemma map_step_row sq ss H rows cells : H <> [] -> row_wf sq cells ->
  map_step sq ss (H, rows) (join TAB cells) = (H, rows ++ [pad (length H) (map (strip_f sq ss) cells)]).
Proof.
  intros HH (Hne & Hnt & (c & r & Hc1 & Hc2 & Hc3) & Hl).
  unfold map_step. cbv zeta.
  rewrite (strip_f_line sq ss cells Hne (ex_intro _ c (ex_intro _ r (conj Hc1 Hc2))) Hl).
  assert (E : exists t, join TAB (map (uq sq) cells) = c :: t).
  { destruct cells as [|p ps]; [congruence|]. simpl in Hc1. cbn [map]. simpl. rewrite Hc1. simpl. eauto. }
  destruct E as [t Et]. rewrite Et.
  assert (Hs : strip (c :: t) <> []) by (apply strip_cons_nospace_ne; exact Hc2).
  replace (Metadata.is_nil (c :: t)) with false by reflexivity.
  replace (ss && Metadata.is_nil (strip (c :: t))) with false
    by (destruct (strip (c :: t)); [congruence|destruct ss; reflexivity]).
  cbn [orb starts_hash]. replace (c =? HASH) with false by (symmetry; apply Z.eqb_neq; exact Hc3).
  rewrite <- Et. f_equal. f_equal. f_equal. f_equal.
  rewrite split_on_join.
  - rewrite map_map. apply map_ext. intros x. rewrite !strip_f_uq, uq_idem. reflexivity.
  - apply Forall_forall. intros x Hx. apply in_map_iff in Hx. destruct Hx as [y [E Hy]]. subst.
    rewrite Forall_forall in Hnt. apply uq_notab. apply Hnt. exact Hy.
  - destruct cells; [congruence|discriminate].
Qed.

Lemma map_step_comment sq ss H rows t : H <> [] ->
  map_step sq ss (H, rows) (HASH :: t) = (H, rows).
Proof.
  intros HH. unfold map_step. cbv zeta.
  assert (E : exists t', strip_f sq ss (HASH :: t) = HASH :: t').
  { rewrite strip_f_uq.
    assert (Eu : uq sq (HASH :: t) = HASH :: uq sq t) by (destruct sq; reflexivity).
    rewrite Eu. destruct ss; [eauto|]. apply strip_cons_keep. reflexivity. }
  destruct E as [t' Et]. rewrite Et.
  assert (Hs : strip (HASH :: t') <> []) by (apply strip_cons_nospace_ne; reflexivity).
  replace (Metadata.is_nil (HASH :: t')) with false by reflexivity.
  replace (ss && Metadata.is_nil (strip (HASH :: t'))) with false
    by (destruct (strip (HASH :: t')); [congruence|destruct ss; reflexivity]).
  cbn [orb starts_hash]. rewrite Z.eqb_refl. destruct H; [congruence|reflexivity].
Qed.

Lemma fold_items sq ss H items : H <> [] -> Forall (item_wf sq) items -> forall rows,
  fold_left (map_step sq ss) (map render_item items) (H, rows)
  = (H, rows ++ map (fun cells => pad (length H) (map (strip_f sq ss) cells)) (rows_of items)).
Proof.
  intros HH F. induction F as [|it items Hit Hitems IH]; intros rows; [simpl; rewrite app_nil_r; reflexivity|].
  cbn [map fold_left]. destruct it as [t|b|cells]; cbn [render_item rows_of item_wf] in *.
  - rewrite map_step_comment by exact HH. apply IH.
  - rewrite map_step_skip by (apply skip_ws; exact Hit). apply IH.
  - rewrite map_step_row by assumption. rewrite IH. cbn [map]. rewrite <- app_assoc. reflexivity.
Qed.

Lemma fold_pre sq ss pre st : Forall ws_only pre -> fold_left (map_step sq ss) pre st = st.
Proof.
  induction 1 as [|l pre Hl Hp IH]; simpl; [reflexivity|]. rewrite map_step_skip by (apply skip_ws; exact Hl). exact IH.
Qed.

Lemma names_join_clean names : names <> [] -> Forall name_wf names ->
  ~ In QUOTE (join TAB names) /\ strip (join TAB names) = join TAB names
  /\ split_on TAB (join TAB names) = names
  /\ is_space (last (join TAB names) 0) = false.
Proof.
  intros Hne F.
  assert (Hq : ~ In QUOTE (join TAB names)).
  { destruct names as [|n r]; [congruence|]. simpl. intros Hin. apply in_app_or in Hin.
    inversion F as [|? ? Hn Hr]; subst. destruct Hin as [Hin|Hin]; [apply Hn; exact Hin|].
    clear Hn F Hne. induction Hr as [|q r Hq Hr IH]; simpl in Hin; [contradiction|].
    destruct Hin as [Hin|Hin]; [discriminate|]. apply in_app_or in Hin. destruct Hin as [Hin|Hin]; [apply Hq; exact Hin|auto]. }
  assert (Hlast : is_space (last (join TAB names) 0) = false).
  { destruct (snoc_exists names Hne) as [ps [x E]]. subst names.
    assert (Hx : name_wf x) by (rewrite Forall_forall in F; apply F; apply in_or_app; right; left; reflexivity).
    destruct Hx as (A & _ & _ & _ & B). rewrite last_join_snoc by exact A. exact B. }
  split; [exact Hq|]. split; [|split; [|exact Hlast]].
  - apply strip_edges.
    + destruct names as [|n r]; [congruence|]. inversion F as [|? ? Hn _]; subst. destruct Hn as (A & _). destruct n; [congruence|discriminate].
    + split; [|exact Hlast]. destruct names as [|n r]; [congruence|]. inversion F as [|? ? Hn _]; subst.
      destruct Hn as (A & _ & _ & B & _). rewrite hd_join by exact A. exact B.
  - apply split_on_join; [|exact Hne]. eapply Forall_impl; [|exact F]. intros n Hn. apply Hn.
Qed.

Lemma map_step_header sq ss override rows names : names <> [] -> Forall name_wf names ->
  map_step sq ss (override, rows) (HASH :: join TAB names)
  = (if Metadata.is_nil override then names else override, rows).
Proof.
  intros Hne F. destruct (names_join_clean names Hne F) as (Hq & Hs & Hsp & Hl).
  unfold map_step. cbv zeta.
  assert (E : strip_f sq ss (HASH :: join TAB names) = HASH :: join TAB names).
  { rewrite strip_f_uq.
    assert (Eu : uq sq (HASH :: join TAB names) = HASH :: join TAB names).
    { destruct sq; [|reflexivity]. unfold uq. apply unquote_id. intros [H|H]; [discriminate|contradiction]. }
    rewrite Eu. destruct ss; [reflexivity|]. apply strip_edges; [discriminate|]. split; [reflexivity|].
    rewrite last_cons_ne; [exact Hl|]. destruct names as [|n r]; [congruence|].
    inversion F as [|? ? Hn _]; subst. destruct Hn as (A & _). destruct n; [congruence|discriminate]. }
  rewrite E.
  assert (Hs2 : strip (HASH :: join TAB names) <> []) by (apply strip_cons_nospace_ne; reflexivity).
  replace (Metadata.is_nil (HASH :: join TAB names)) with false by reflexivity.
  replace (ss && Metadata.is_nil (strip (HASH :: join TAB names))) with false
    by (destruct (strip (HASH :: join TAB names)); [congruence|destruct ss; reflexivity]).
  cbn [orb starts_hash tl]. rewrite Z.eqb_refl. rewrite Hs, Hsp. destruct override; reflexivity.
Qed.

Lemma aset_notin acc k v : ~ In k (map fst acc) -> aset acc k v = acc ++ [(k, v)].
Proof.
  induction acc as [|[k' v'] r IH]; simpl; intros H; [reflexivity|].
  destruct (text_eqb k k') eqn:E; [apply text_eqb_eq in E; subst; exfalso; apply H; left; reflexivity|].
  f_equal. apply IH. intros Hin. apply H. right. exact Hin.
Qed.

Section RowDict.
  Variable conv : Z -> text -> option Tree.
  Lemma row_dict_combine o cols : NoDup cols -> forall vals acc,
    (forall k, In k cols -> ~ In k (map fst acc)) ->
    row_dict conv o cols vals acc
    = acc ++ map (fun kv => (fst kv, process_col conv o (fst kv) (snd kv))) (combine cols vals).
  Proof.
    induction 1 as [|k cols Hk Hnd IH]; intros vals acc Hacc; simpl; [rewrite app_nil_r; reflexivity|].
    destruct vals as [|v vals]; [rewrite app_nil_r; reflexivity|].
    rewrite IH.
    - rewrite aset_notin by (apply Hacc; left; reflexivity). rewrite <- app_assoc. reflexivity.
    - intros k2 Hk2. rewrite aset_notin by (apply Hacc; left; reflexivity). rewrite map_app. simpl.
      intros Hin. apply in_app_or in Hin. destruct Hin as [Hin|[Hin|[]]].
      + apply (Hacc k2 (or_intror Hk2)). exact Hin.
      + subst. contradiction.
  Qed.

  (* ---- a file printed from the row grammar parses to the relation its rows describe ---- *)
  Theorem mapping_parse_proof sq ss override o g : mfile_wf sq ss override g ->
    parse_mapping conv sq ss override o (render g) = ROk (relation conv sq ss override o g).
  Proof.
    intros (Hpre & Hnn & Hnames & Hitems & Hrows & Hids & Hcols).
    unfold parse_mapping, render. rewrite fold_left_app. rewrite (fold_pre sq ss _ _ Hpre).
    cbn [fold_left]. rewrite (map_step_header sq ss override [] _ Hnn Hnames).
    unfold relation.
    remember (if Metadata.is_nil override then f_names g else override) as H eqn:EH0.
    assert (HH : H <> []).
    { rewrite EH0. destruct override; [exact Hnn|discriminate]. }
    rewrite (fold_items sq ss H _ HH Hitems). cbn [app].
    destruct H as [|h0 Htl]; [congruence|]. cbn [Metadata.is_nil].
    set (rows := map (fun cells => pad (length (h0 :: Htl)) (map (strip_f sq ss) cells)) (rows_of (f_items g))).
    assert (Hr : Metadata.is_nil rows = false).
    { unfold rows. destruct (rows_of (f_items g)); [congruence|reflexivity]. }
    rewrite Hr.
    assert (Hrw : Forall (fun cells => cells <> []) (rows_of (f_items g))).
    { clear - Hitems. induction Hitems as [|it items Hit _ IH]; simpl; [constructor|].
      destruct it; simpl in *; try exact IH. constructor; [apply Hit|exact IH]. }
    assert (Hhd : map (fun r => hd [] r) rows = map (fun cells => strip_f sq ss (hd [] cells)) (rows_of (f_items g))).
    { unfold rows. rewrite map_map. apply map_ext_in. intros cells Hin. rewrite Forall_forall in Hrw.
      specialize (Hrw cells Hin). destruct cells; [exfalso; apply Hrw; reflexivity|reflexivity]. }
    rewrite Hhd. apply tdup_false_NoDup in Hids. rewrite Hids.
    unfold rows. rewrite map_map. f_equal. apply map_ext_in.
    intros cells Hin. rewrite Forall_forall in Hrw. specialize (Hrw cells Hin).
    f_equal.
    - destruct cells; [exfalso; apply Hrw; reflexivity|reflexivity].
    - cbn [tl]. rewrite row_dict_combine; [reflexivity|exact Hcols|intros k _ []].
  Qed.
End RowDict.

(* a quoted, space-padded cell is read as its text by the default strip_f *)
Lemma lstrip_ws_app p x : ws_only p -> lstrip (p ++ x) = lstrip x.
Proof. induction 1 as [|c p Hc Hp IH]; simpl; [reflexivity|]. rewrite Hc. exact IH. Qed.

Lemma rstrip_ws_app x p : ws_only p -> rstrip (x ++ p) = rstrip x.
Proof.
  intros H. unfold rstrip. rewrite rev_app_distr. rewrite lstrip_ws_app; [reflexivity|].
  unfold ws_only in *. apply Forall_rev. exact H.
Qed.

Lemma quoted_cell_value_proof pl pr t :
  ws_only pl -> ws_only pr -> ~ In QUOTE t -> (t = [] \/ edges_ok t) ->
  strip_f true false (pl ++ [QUOTE] ++ t ++ [QUOTE] ++ pr) = t.
Proof.
  intros Hl Hr Hq Ht. unfold strip_f. rewrite !unquote_app.
  rewrite (ws_unquote pl Hl), (ws_unquote pr Hr), (unquote_id t Hq).
  change (unquote [QUOTE]) with (@nil Z). cbn [app].
  unfold strip. rewrite lstrip_ws_app by exact Hl.
  destruct Ht as [Ht|Ht].
  - subst t. cbn [app]. change (rstrip (lstrip pr) = []). fold (strip pr). apply strip_ws. exact Hr.
  - destruct t as [|c t']; [cbn [app]; change (rstrip (lstrip pr) = []); fold (strip pr); apply strip_ws; exact Hr|].
    destruct Ht as [H1 H2]. simpl in H1. cbn [app lstrip]. rewrite H1.
    change (c :: t' ++ pr) with ((c :: t') ++ pr). rewrite rstrip_ws_app by exact Hr.
    destruct (snoc_exists (c :: t')) as [y [x E]]; [discriminate|]. rewrite E in *. rewrite last_snoc in H2.
    apply rstrip_snoc_nospace. exact H2.
Qed.

(* the add-metadata command with one well-formed sample mapping file *)
Lemma cli_add_sample_proof conv t o hs g :
  mfile_wf true false hs g ->
  cli_add conv t (Some (render g)) None o hs []
  = ROk (add_metadata t (relation conv true false hs o g) Samp).
Proof.
  intros W. unfold cli_add. rewrite (mapping_parse_proof conv true false hs o g W).
  destruct W as (_ & _ & _ & _ & Hrows & _).
  unfold relation. destruct (rows_of (f_items g)); [congruence|reflexivity].
Qed.

(* ------------------------------------------------------------------ decidable forms of the hypotheses *)
Definition ws_onlyb (t : text) : bool := forallb is_space t.
Definition name_wfb (n : text) : bool :=
  negb (Metadata.is_nil n) && notinb TAB n && notinb QUOTE n && edges_okb n.
Definition row_wfb (sq : bool) (cells : list text) : bool :=
  negb (Metadata.is_nil cells) && forallb (notinb TAB) cells
  && match uq sq (hd [] cells) with c :: _ => negb (is_space c) && negb (c =? HASH) | [] => false end
  && negb (Metadata.is_nil (uq sq (last cells []))) && negb (is_space (last (uq sq (last cells [])) 0)).
Definition item_wfb (sq : bool) (it : mitem) : bool :=
  match it with MComment _ => true | MBlank b => ws_onlyb b | MRow cells => row_wfb sq cells end.
Definition mfile_wfb (sq ss : bool) (override : list text) (g : mfile) : bool :=
  forallb ws_onlyb (f_pre g) && negb (Metadata.is_nil (f_names g)) && forallb name_wfb (f_names g)
  && forallb (item_wfb sq) (f_items g) && negb (Metadata.is_nil (rows_of (f_items g)))
  && negb (tdup (map (fun cells => strip_f sq ss (hd [] cells)) (rows_of (f_items g))))
  && negb (tdup (tl (if Metadata.is_nil override then f_names g else override))).

Lemma ws_onlyb_ok t : ws_onlyb t = true -> ws_only t.
Proof. unfold ws_onlyb, ws_only. apply forallb_Forall. trivial. Qed.

Lemma name_wfb_ok n : name_wfb n = true -> name_wf n.
Proof.
  unfold name_wfb, name_wf. rewrite !andb_true_iff, negb_true_iff. intros [[[A B] C] D].
  split; [destruct n; [discriminate|discriminate]|]. split; [apply notinb_ok; exact B|].
  split; [apply notinb_ok; exact C|apply edges_okb_ok; exact D].
Qed.

Lemma row_wfb_ok sq cells : row_wfb sq cells = true -> row_wf sq cells.
Proof.
  unfold row_wfb, row_wf. rewrite !andb_true_iff, !negb_true_iff. intros [[[[A B] C] D] E].
  split; [destruct cells; [discriminate|discriminate]|].
  split; [eapply forallb_Forall; [|exact B]; apply notinb_ok|].
  split.
  - destruct (uq sq (hd [] cells)) as [|c r]; [discriminate|]. apply andb_true_iff in C. destruct C as [C1 C2].
    exists c, r. apply negb_true_iff in C1. apply negb_true_iff in C2. split; [reflexivity|]. split; [exact C1|apply Z.eqb_neq; exact C2].
  - split; [destruct (uq sq (last cells [])); [discriminate|discriminate]|exact E].
Qed.

Lemma mfile_wfb_ok sq ss override g : mfile_wfb sq ss override g = true -> mfile_wf sq ss override g.
Proof.
  unfold mfile_wfb, mfile_wf. rewrite !andb_true_iff, !negb_true_iff. intros [[[[[[A B] C] D] E] F] G].
  split; [eapply forallb_Forall; [|exact A]; apply ws_onlyb_ok|].
  split; [destruct (f_names g); [discriminate|discriminate]|].
  split; [eapply forallb_Forall; [|exact C]; apply name_wfb_ok|].
  split.
  - eapply forallb_Forall; [|exact D]. intros it H. destruct it; simpl in *; [trivial|apply ws_onlyb_ok; exact H|apply row_wfb_ok; exact H].
  - split; [destruct (rows_of (f_items g)); [discriminate|discriminate]|].
    split; apply tdup_false_NoDup; assumption.
Qed.

Definition md_normb (md : option (list assoc)) (n : nat) : bool :=
  match md with Some l => Nat.eqb (length l) n && negb (forallb Metadata.is_nil l) | None => true end.
Definition mwfb (t : mtab) : bool :=
  negb (tdup (m_oids t)) && negb (tdup (m_sids t))
  && md_normb (m_omd t) (length (m_oids t)) && md_normb (m_smd t) (length (m_sids t)).
Definition mapping_wfb (m : mapping) : bool :=
  negb (tdup (map fst m)) && forallb (fun p => negb (tdup (map fst (snd p)))) m.

Lemma md_normb_ok md n : md_normb md n = true -> md_norm md n.
Proof.
  destruct md as [l|]; simpl; [|trivial]. rewrite andb_true_iff, negb_true_iff, Nat.eqb_eq.
  intros [A B]. split; [exact A|exact B].
Qed.
Lemma mwfb_ok t : mwfb t = true -> mwf t.
Proof.
  unfold mwfb, mwf. rewrite !andb_true_iff, !negb_true_iff. intros [[[A B] C] D].
  split; [apply tdup_false_NoDup; exact A|]. split; [apply tdup_false_NoDup; exact B|].
  split; apply md_normb_ok; assumption.
Qed.
Lemma mapping_wfb_ok m : mapping_wfb m = true -> mapping_wf m.
Proof.
  unfold mapping_wfb, mapping_wf. rewrite andb_true_iff, negb_true_iff. intros [A B].
  split; [apply tdup_false_NoDup; exact A|]. eapply forallb_Forall; [|exact B].
  intros p H. apply negb_true_iff in H. apply tdup_false_NoDup. exact H.
Qed.

(* ------------------------------------------------------------------ concrete witnesses *)
Module MdExamples.
  Definition s (l : list Z) : text := l.
  Definition o1 := s [111;49]. Definition o2 := s [111;50]. Definition o3 := s [111;51].
  Definition s1 := s [115;49]. Definition s2 := s [115;50].
  Definition zz := s [122;122].
  Definition kA := s [107;65]. Definition kB := s [107;66]. Definition kN := s [110;101;119].
  Definition v (n : Z) : Tree := L [I 2; I n].
  (* 3 x 2 with observation metadata (one entry empty), no sample metadata *)
  Definition t32 : mtab :=
    mkM [o1; o2; o3] [s1; s2] [[1; 0]; [0; 0]; [2; 3]]
        (Some [[(kA, v 1); (kB, v 2)]; []; [(kA, v 3)]]) None.
  (* o1: overwrite kA, add new; o3: add kB; zz: unknown id *)
  Definition m1 : mapping := [(o3, [(kB, v 30)]); (zz, [(kA, v 99)]); (o1, [(kA, v 10); (kN, v 11)])].
  Lemma t32_wf : mwfb t32 = true. Proof. vm_compute. reflexivity. Qed.
  Lemma m1_wf : mapping_wfb m1 = true. Proof. vm_compute. reflexivity. Qed.
  Lemma add_obs_runs :
    add_metadata t32 m1 Obs
    = mkM [o1; o2; o3] [s1; s2] [[1; 0]; [0; 0]; [2; 3]]
          (Some [[(kA, v 10); (kB, v 2); (kN, v 11)]; []; [(kA, v 3); (kB, v 30)]]) None.
  Proof. vm_compute. reflexivity. Qed.
  (* an axis without metadata: ids outside the mapping get empty entries *)
  Definition m2 : mapping := [(s2, [(kA, v 5)]); (zz, [(kA, v 6)])].
  Lemma add_samp_runs : m_smd (add_metadata t32 m2 Samp) = Some [[]; [(kA, v 5)]].
  Proof. vm_compute. reflexivity. Qed.
  Lemma add_samp_unknown_only : m_smd (add_metadata t32 [(zz, [(kA, v 6)])] Samp) = None.
  Proof. vm_compute. reflexivity. Qed.
  Lemma del_runs :
    m_omd (del_metadata t32 (Some [kA]) SelWhole) = Some [[(kB, v 2)]; []; []]
    /\ m_omd (del_metadata t32 (Some [kA; kB]) SelObs) = None
    /\ m_omd (del_metadata t32 (Some [kA; kB]) SelSamp) = m_omd t32.
  Proof. vm_compute. repeat split. Qed.

  (* a mapping file of the grammar: a white-space line, the header, a comment, a full row, a
     blank item, a short row with a quoted id and a padded cell, a row that is too long *)
  Definition tx (l : list Z) : text := l.
  Definition n_id := tx [83;97;109;112;108;101;73;68].            (* SampleID *)
  Definition n_ph := tx [112;72]. Definition n_tax := tx [116;97;120]. Definition n_days := tx [68;97;121;115].
  Definition gex : mfile :=
    mkF [[32]] [n_id; n_ph; n_tax; n_days]
        [MComment [32;99];
         MRow [[83;49]; [54;46;53]; [107;95;95;65;59;32;112;95;95;66]; [51]];            (* S1 6.5 "k__A; p__B" 3 *)
         MBlank [];
         MRow [[34;83;32;50;34]; [32;55;46;50;53]];                                     (* "S 2" " 7.25" *)
         MRow [[83;51]; [97;98;99]; [120;59;121]; [48;48;55]; [101;120;116;114;97]]].   (* S3 abc x;y 007 extra *)
  Definition oex : colopts := mkC [n_tax] [] [n_days] [n_ph].
  Definition conv0 : Z -> text -> option Tree := fun _ _ => None.
  Lemma gex_wf : mfile_wfb true false [] gex = true. Proof. vm_compute. reflexivity. Qed.
  Lemma gex_override_wf : mfile_wfb true false [n_id; n_ph] gex = true. Proof. vm_compute. reflexivity. Qed.
  Lemma gex_parses :
    parse_mapping conv0 true false [] oex (render gex)
    = ROk [([83;49], [(n_ph, tStr [54;46;53]); (n_tax, tList [tStr [107;95;95;65]; tStr [112;95;95;66]]); (n_days, tStr [51])]);
           ([83;32;50], [(n_ph, tStr [55;46;50;53]); (n_tax, tList [tStr []]); (n_days, tStr [])]);
           ([83;51], [(n_ph, tStr [97;98;99]); (n_tax, tList [tStr [120]; tStr [121]]); (n_days, tStr [48;48;55])])].
  Proof. vm_compute. reflexivity. Qed.
End MdExamples.

(* ------------------------------------------------------------------ histories over several tables *)
Definition target (i : minstr) : nat := match i with IAdd ti _ _ => ti | IDel ti _ _ => ti | IRead ti _ _ _ => ti end.

Lemma mstep_length ts i : length (mstep ts i) = length ts.
Proof. destruct i; simpl; apply upd_length. Qed.

(* a step changes no table but its receiver: the donor of a referenced metadata object, a
   sibling, any other table keeps ids, matrix and metadata *)
Lemma mstep_frame_proof ts i j : j <> target i -> nth j (mstep ts i) mt_empty = nth j ts mt_empty.
Proof. intros H. destruct i; simpl in *; apply nth_upd_neq; congruence. Qed.

(* ... and on the receiver it is add_metadata with the referenced entries taken by value, so
   add_md_local applies to it: two ids that received the same object stay independent *)
Lemma mstep_add_target_proof ts ti a m : (ti < length ts)%nat ->
  nth ti (mstep ts (IAdd ti a m)) mt_empty
  = add_metadata (nth ti ts mt_empty) (map (fun p => (fst p, resolve ts (snd p))) m) a.
Proof. intros H. simpl. apply nth_upd_eq. exact H. Qed.

Lemma mstep_del_target_proof ts ti keys s : (ti < length ts)%nat ->
  nth ti (mstep ts (IDel ti keys s)) mt_empty = del_metadata (nth ti ts mt_empty) keys s.
Proof. intros H. simpl. apply nth_upd_eq. exact H. Qed.

(* a key that was materialised by a read (value None) is deleted like any other key *)
Lemma del_after_read_proof ids md id k ks i : tmem k ks = true ->
  aget (entry_of (del_axis (Some ks) (read_axis ids md id k)) i) k = None.
Proof.
  intros H. rewrite del_axis_lookup. simpl. rewrite H. reflexivity.
Qed.
