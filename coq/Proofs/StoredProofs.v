(* lemmas about stored layouts, gather / scatter, the vectors of a table along an axis and how
   Table.filter acts on them; shared by SubsampleProofs (C12) and TransformProofs (C13) *)
From Coq Require Import List Arith ZArith Lia Bool.
From BiomV Require Import Base.Tree Base.ListUtil Base.Matrix Model.Table Model.Filter Model.Stored
  Proofs.FilterProofs.
Import ListNotations.

(* ------------------------------------------------------------------ generic lists *)
Lemma map_nth_seq {A} (l : list A) d : map (fun i => nth i l d) (seq 0 (length l)) = l.
Proof.
  induction l as [|x l IH]; simpl; [reflexivity|]. f_equal.
  rewrite <- seq_shift, map_map. exact IH.
Qed.

Lemma nth_map_seq {A} (f : nat -> A) n i d : i < n -> nth i (map f (seq 0 n)) d = f i.
Proof.
  intros Hi. rewrite (nth_indep _ d (f 0)) by (rewrite map_length, seq_length; exact Hi).
  rewrite (map_nth f). rewrite seq_nth by exact Hi. reflexivity.
Qed.

Lemma nth_map_in {A B} (f : A -> B) l i da db : i < length l -> nth i (map f l) db = f (nth i l da).
Proof.
  intros Hi. rewrite (nth_indep _ db (f da)) by (rewrite map_length; exact Hi). apply map_nth.
Qed.

Lemma list_ext {A} (d : A) (a b : list A) :
  length a = length b -> (forall i, i < length a -> nth i a d = nth i b d) -> a = b.
Proof.
  revert b. induction a as [|x a IH]; intros [|y b] Hl H; simpl in *; try discriminate; [reflexivity|].
  f_equal; [apply (H 0); lia|]. apply IH; [lia|]. intros i Hi. apply (H (S i)). lia.
Qed.

Lemma zsum_repeat0 k : zsum (repeat 0%Z k) = 0%Z.
Proof. induction k; simpl; lia. Qed.

Lemma zsum_nonneg l : Forall (fun x => (0 <= x)%Z) l -> (0 <= zsum l)%Z.
Proof. induction 1; simpl; lia. Qed.

Lemma zsum_zero_all l x : Forall (fun x => (0 <= x)%Z) l -> (zsum l <= 0)%Z -> In x l -> x = 0%Z.
Proof.
  induction 1 as [|y l Hy Hl IH]; simpl; intros Hs Hin; [contradiction|].
  pose proof (zsum_nonneg l Hl). destruct Hin as [->|Hin]; [lia|]. apply IH; [lia|exact Hin].
Qed.

Lemma zsum_upd l j x : j < length l -> zsum (upd l j x) = (zsum l - nth j l 0 + x)%Z.
Proof.
  revert j. induction l as [|y l IH]; intros j Hj; simpl in *; [lia|].
  destruct j as [|j]; unfold upd; simpl; [lia|].
  fold (upd l j x). rewrite IH by lia. lia.
Qed.

Lemma xorb_false_map m : map (fun b : bool => xorb b false) m = m.
Proof. induction m as [|b m IH]; simpl; [reflexivity|]. rewrite xorb_false_r, IH. reflexivity. Qed.

(* ------------------------------------------------------------------ select *)
Lemma select_map {A B} (f : A -> B) m l : select m (map f l) = map f (select m l).
Proof.
  revert l. induction m as [|b m IH]; intros [|x l]; simpl; try reflexivity.
  destruct b; simpl; rewrite IH; reflexivity.
Qed.

Lemma Forall_select {A} (P : A -> Prop) m l : Forall P l -> Forall P (select m l).
Proof.
  intros H. apply Forall_forall. intros x Hx. rewrite Forall_forall in H. apply H. eapply select_In. exact Hx.
Qed.

Lemma Forall_select_map {A} (f : A -> bool) l : Forall (fun x => f x = true) (select (map f l) l).
Proof.
  rewrite select_map_filter. apply Forall_forall. intros x Hx. apply filter_In in Hx. tauto.
Qed.

(* dropping positions that hold zero does not change the sum *)
Lemma zsum_select_zero m v :
  length m = length v -> (forall j, j < length v -> nth j m false = false -> nth j v 0%Z = 0%Z) ->
  zsum (select m v) = zsum v.
Proof.
  revert v. induction m as [|b m IH]; intros [|x v] Hl H; simpl in *; try discriminate; [reflexivity|].
  assert (E : zsum (select m v) = zsum v).
  { apply IH; [lia|]. intros j Hj Hm. apply (H (S j)); [lia|exact Hm]. }
  destruct b; simpl; rewrite E; [reflexivity|].
  rewrite (H 0); [reflexivity|lia|reflexivity].
Qed.

Lemma select_Forall2 {A B} (R : A -> B -> Prop) m a b : Forall2 R a b -> Forall2 R (select m a) (select m b).
Proof.
  intros H. revert m. induction H as [|x y a b Hxy Hab IH]; intros [|c m]; simpl; try constructor.
  destruct c; [constructor; [exact Hxy|apply IH]|apply IH].
Qed.

(* ------------------------------------------------------------------ transposition and select *)
Lemma mcol_select m M j : mcol (select m M) j = select m (mcol M j).
Proof. unfold mcol. symmetry. apply select_map. Qed.

Lemma transpose_select_rows c m M : transpose c (select m M) = map (select m) (transpose c M).
Proof. unfold transpose. rewrite map_map. apply map_ext. intros j. apply mcol_select. Qed.

Lemma transpose_select_cols c r m (M : matrix) (idl : list Z) :
  rect c M -> length M = r -> length idl = c ->
  transpose (length (select m idl)) (map (select m) M) = select m (transpose c M).
Proof.
  intros R Hr Hc.
  rewrite <- (transpose_involutive c M R) at 1. rewrite Hr.
  rewrite <- transpose_select_rows.
  assert (El : length (select m idl) = length (select m (transpose c M))).
  { apply select_length_same. rewrite transpose_length. exact Hc. }
  rewrite El. apply transpose_involutive.
  apply sel_rows_rect. rewrite <- Hr. apply transpose_rect.
Qed.

(* ------------------------------------------------------------------ nfind *)
Lemma nfind_Some j ord k : nfind j ord = Some k -> nth k ord 0 = j /\ k < length ord.
Proof.
  unfold nfind. revert k. induction ord as [|y t IH]; simpl; intros k H; [discriminate|].
  destruct (Nat.eqb j y) eqn:E.
  - inversion H; subst. apply Nat.eqb_eq in E. subst. split; [reflexivity|lia].
  - destruct (index_of Nat.eqb j t) as [q|] eqn:K; simpl in H; [|discriminate].
    inversion H; subst. destruct (IH q eq_refl). split; [assumption|lia].
Qed.

Lemma nfind_None j ord : nfind j ord = None <-> ~ In j ord.
Proof.
  unfold nfind. induction ord as [|y t IH]; simpl.
  - split; [intros _ []|reflexivity].
  - destruct (Nat.eqb j y) eqn:E.
    + apply Nat.eqb_eq in E. subst. split; [discriminate|]. intros H. exfalso. apply H. left; reflexivity.
    + apply Nat.eqb_neq in E. destruct (index_of Nat.eqb j t) as [q|]; simpl.
      * split; [discriminate|]. intros H. exfalso. apply H. right. apply Decidable.not_not; [|intro Hn].
        { destruct (In_dec Nat.eq_dec j t); [left|right]; assumption. }
        apply IH in Hn. discriminate.
      * split; [|reflexivity]. intros _ [H|H]; [congruence|]. destruct IH as [IH1 _]. exact (IH1 eq_refl H).
Qed.

Lemma nfind_nth ord k : NoDup ord -> k < length ord -> nfind (nth k ord 0) ord = Some k.
Proof.
  unfold nfind. revert k. induction ord as [|y t IH]; intros k Hn Hk; simpl in *; [lia|].
  inversion Hn as [|? ? Hy Hn']; subst. destruct k as [|k].
  - rewrite Nat.eqb_refl. reflexivity.
  - destruct (Nat.eqb (nth k t 0) y) eqn:E.
    + apply Nat.eqb_eq in E. exfalso. apply Hy. rewrite <- E. apply nth_In. lia.
    + rewrite IH by (assumption || lia). reflexivity.
Qed.

Lemma nmemb_In j l : nmemb j l = true <-> In j l.
Proof.
  unfold nmemb. rewrite existsb_exists. split.
  - intros [y [Hy He]]. apply Nat.eqb_eq in He. subst. exact Hy.
  - intros H. exists j. split; [exact H|apply Nat.eqb_refl].
Qed.

Lemma nodupb_NoDup l : nodupb l = true <-> NoDup l.
Proof.
  induction l as [|x l IH]; simpl.
  - split; [constructor|reflexivity].
  - rewrite andb_true_iff, negb_true_iff, IH. split.
    + intros [A B]. constructor; [|exact B]. intros H. apply nmemb_In in H. congruence.
    + intros H. inversion H as [|? ? Hx Hl]; subst. split; [|exact Hl].
      destruct (nmemb x l) eqn:E; [|reflexivity]. apply nmemb_In in E. contradiction.
Qed.

Lemma ord_wfb_wf v ord : ord_wfb v ord = true -> ord_wf v ord.
Proof.
  unfold ord_wfb, ord_wf. rewrite !andb_true_iff, nodupb_NoDup, !forallb_forall.
  intros [[A B] C]. split; [exact A|]. split.
  - intros j Hj. apply Nat.ltb_lt. apply B. exact Hj.
  - intros j Hj Hnz. specialize (C j). rewrite in_seq in C. specialize (C ltac:(lia)).
    apply orb_true_iff in C. destruct C as [C|C]; [apply Z.eqb_eq in C; contradiction|].
    apply nmemb_In. exact C.
Qed.

Lemma ord_okb_ok v ord : ord_okb v ord = true -> ord_ok v ord.
Proof.
  unfold ord_okb, ord_ok. rewrite andb_true_iff, forallb_forall. intros [A B]. split; [apply ord_wfb_wf; exact A|].
  intros j Hj. specialize (B j Hj). apply negb_true_iff in B. apply Z.eqb_neq in B. exact B.
Qed.

Lemma lay_wfb_wf vs lay : lay_wfb vs lay = true -> lay_wf vs lay.
Proof.
  revert lay. induction vs as [|v vs IH]; intros [|o lay] H; simpl in H; try discriminate; [constructor|].
  apply andb_true_iff in H. destruct H as [A B]. constructor; [apply ord_wfb_wf; exact A|apply IH; exact B].
Qed.

Lemma lay_okb_ok vs lay : lay_okb vs lay = true -> lay_ok vs lay.
Proof.
  revert lay. induction vs as [|v vs IH]; intros [|o lay] H; simpl in H; try discriminate; [constructor|].
  apply andb_true_iff in H. destruct H as [A B]. constructor; [apply ord_okb_ok; exact A|apply IH; exact B].
Qed.

Lemma lay_ok_wf vs lay : lay_ok vs lay -> lay_wf vs lay.
Proof. induction 1 as [|v o vs lay [H _] _ IH]; constructor; assumption. Qed.

(* ------------------------------------------------------------------ gather / scatter *)
Section PolyProofs.
  Context {V : Type} (zero : V).

  Lemma gather_length ord (v : list V) : length (gather zero ord v) = length ord.
  Proof. apply map_length. Qed.

  Lemma scatter_length len ord (vals : list V) : length (scatter zero len ord vals) = len.
  Proof. unfold scatter. rewrite map_length, seq_length. reflexivity. Qed.

  Lemma nth_scatter len ord (vals : list V) j : j < len ->
    nth j (scatter zero len ord vals) zero = match nfind j ord with Some k => nth k vals zero | None => zero end.
  Proof. intros Hj. unfold scatter. rewrite nth_map_seq by exact Hj. reflexivity. Qed.

  Lemma nth_scatter_stored len ord (vals : list V) k :
    NoDup ord -> k < length ord -> nth k ord 0 < len ->
    nth (nth k ord 0) (scatter zero len ord vals) zero = nth k vals zero.
  Proof. intros Hn Hk Hl. rewrite nth_scatter by exact Hl. rewrite nfind_nth by assumption. reflexivity. Qed.

  Lemma nth_scatter_absent len ord (vals : list V) j : ~ In j ord -> nth j (scatter zero len ord vals) zero = zero.
  Proof.
    intros Hn. destruct (Nat.lt_ge_cases j len) as [Hj|Hj].
    - rewrite nth_scatter by exact Hj. apply nfind_None in Hn. rewrite Hn. reflexivity.
    - apply nth_overflow. rewrite scatter_length. exact Hj.
  Qed.

  Lemma gather_scatter len ord (vals : list V) :
    NoDup ord -> (forall j, In j ord -> j < len) -> length vals = length ord ->
    gather zero ord (scatter zero len ord vals) = vals.
  Proof.
    intros Hn Hb Hl. apply (list_ext zero).
    - rewrite gather_length. symmetry. exact Hl.
    - intros k Hk. rewrite gather_length in Hk. unfold gather.
      rewrite (nth_map_in _ ord k 0 zero Hk).
      apply nth_scatter_stored; try assumption. apply Hb. apply nth_In. exact Hk.
  Qed.
End PolyProofs.

Lemma scatter_gather v ord : ord_wf v ord -> scatter 0%Z (length v) ord (gather 0%Z ord v) = v.
Proof.
  intros (Hn & Hb & Hs). apply (list_ext 0%Z).
  - apply scatter_length.
  - intros j Hj. rewrite scatter_length in Hj. rewrite nth_scatter by exact Hj.
    destruct (nfind j ord) as [k|] eqn:E.
    + apply nfind_Some in E. destruct E as [E Hk]. unfold gather.
      rewrite (nth_map_in _ ord k 0 0%Z Hk). rewrite E. reflexivity.
    + apply nfind_None in E. destruct (Z.eq_dec (nth j v 0%Z) 0) as [Z0|NZ]; [symmetry; exact Z0|].
      exfalso. apply E. apply Hs; assumption.
Qed.

(* scattering one more entry is an update of the scatter of the rest *)
Lemma scatter_cons len j ord x vals :
  ~ In j ord -> j < len ->
  scatter 0%Z len (j :: ord) (x :: vals) = upd (scatter 0%Z len ord vals) j x.
Proof.
  intros Hn Hj. apply (list_ext 0%Z).
  - rewrite upd_length, !scatter_length. reflexivity.
  - intros i Hi. rewrite scatter_length in Hi. rewrite nth_scatter by exact Hi.
    destruct (Nat.eq_dec i j) as [->|Hij].
    + rewrite nth_upd_eq by (rewrite scatter_length; exact Hj).
      unfold nfind. simpl. rewrite Nat.eqb_refl. reflexivity.
    + rewrite nth_upd_neq by lia. rewrite nth_scatter by exact Hi.
      unfold nfind. simpl. destruct (Nat.eqb_spec i j) as [E|_]; [contradiction|].
      fold (nfind i ord). destruct (nfind i ord); reflexivity.
Qed.

Lemma zsum_scatter len ord vals :
  NoDup ord -> (forall j, In j ord -> j < len) -> length vals = length ord ->
  zsum (scatter 0%Z len ord vals) = zsum vals.
Proof.
  revert vals. induction ord as [|j ord IH]; intros vals Hn Hb Hl.
  - destruct vals; [|discriminate]. simpl. unfold scatter. simpl.
    replace (map _ (seq 0 len)) with (repeat 0%Z len); [apply zsum_repeat0|].
    apply (list_ext 0%Z); [rewrite repeat_length, map_length, seq_length; reflexivity|].
    intros i Hi. rewrite repeat_length in Hi. rewrite (nth_map_seq _ len i 0%Z Hi).
    apply nth_repeat.
  - destruct vals as [|x vals]; [discriminate|]. inversion Hn as [|? ? Hj Hn']; subst.
    rewrite scatter_cons; [|exact Hj|apply Hb; left; reflexivity].
    rewrite zsum_upd by (rewrite scatter_length; apply Hb; left; reflexivity).
    rewrite nth_scatter_absent by exact Hj.
    rewrite IH; [simpl; lia|exact Hn'|intros i Hi; apply Hb; right; exact Hi|simpl in Hl; lia].
Qed.

Lemma zsum_gather v ord : ord_wf v ord -> zsum (gather 0%Z ord v) = zsum v.
Proof.
  intros W. pose proof W as (Hn & Hb & _).
  rewrite <- (scatter_gather v ord W) at 2. symmetry. apply zsum_scatter; try assumption.
  apply gather_length.
Qed.

(* ------------------------------------------------------------------ vectors of a table along an axis *)
Lemma axis_vecs_length a t : wf t -> length (axis_vecs a t) = length (ids a t).
Proof.
  intros (H1 & _). destruct a; simpl; [exact H1|]. apply transpose_length.
Qed.

Lemma axis_vecs_rect a t : wf t -> rect (n_other a t) (axis_vecs a t).
Proof.
  intros (H1 & H2 & _). destruct a; unfold n_other; simpl; [exact H2|].
  unfold nobs in H1. rewrite <- H1. apply transpose_rect.
Qed.

Lemma axis_vecs_vec a t : wf t -> axis_vecs a t = map (vec a t) (seq 0 (length (ids a t))).
Proof.
  intros (H1 & _). destruct a; simpl.
  - unfold nobs in H1. rewrite <- H1. symmetry. apply (map_nth_seq (mat t) []).
  - reflexivity.
Qed.

Lemma axis_vecs_other a t : wf t -> axis_vecs (other a) t = transpose (n_other a t) (axis_vecs a t).
Proof.
  intros (H1 & H2 & _). destruct a; unfold n_other; simpl; [reflexivity|].
  unfold nobs in *. rewrite <- H1. symmetry. apply transpose_involutive. exact H2.
Qed.

Lemma ptranspose_Z c m : ptranspose 0%Z c m = transpose c m.
Proof. reflexivity. Qed.

Lemma wf_with_axis_vecs a t vs :
  wf t -> length vs = length (ids a t) -> rect (n_other a t) vs -> wf (with_axis_vecs a t vs).
Proof.
  intros (H1 & H2 & H3 & H4 & H5 & H6) Hl Hr. unfold wf, with_axis_vecs, nobs, nsamp, n_other in *.
  destruct a; simpl in *; repeat split; try assumption.
  - rewrite ptranspose_Z. apply transpose_length.
  - rewrite ptranspose_Z. rewrite <- Hl. apply transpose_rect.
Qed.

Lemma axis_vecs_with a t vs :
  length vs = length (ids a t) -> rect (n_other a t) vs -> axis_vecs a (with_axis_vecs a t vs) = vs.
Proof.
  intros Hl Hr. destruct a; [reflexivity|].
  unfold axis_vecs, with_axis_vecs, mat_of_vecs, n_other, nsamp in *. cbn [mat sids oids other ids] in *.
  change (ptranspose 0%Z (length (oids t)) vs) with (transpose (length (oids t)) vs).
  rewrite <- Hl. apply transpose_involutive. exact Hr.
Qed.

(* the cell (observation position i, sample position j) read from the axis vectors *)
Definition aget (a : axis) (vs : list (list Z)) (i j : nat) : Z :=
  match a with Obs => get vs i j | Samp => get vs j i end.

Lemma get_axis_vecs a t i j : j < nsamp t -> get (mat t) i j = aget a (axis_vecs a t) i j.
Proof. intros Hj. destruct a; simpl; [reflexivity|]. symmetry. apply get_transpose. exact Hj. Qed.

Lemma get_with_axis_vecs a t vs i j : i < nobs t -> get (mat (with_axis_vecs a t vs)) i j = aget a vs i j.
Proof.
  intros Hi. destruct a; unfold with_axis_vecs, n_other; simpl; [reflexivity|].
  rewrite ptranspose_Z. apply get_transpose. exact Hi.
Qed.

(* cells of the table rebuilt from new axis vectors *)
Lemma cell_with_axis_vecs a t vs o s :
  cell (with_axis_vecs a t vs) o s =
  match pos o (oids t), pos s (sids t) with Some i, Some j => Some (aget a vs i j) | _, _ => None end.
Proof.
  unfold cell. simpl. destruct (pos o (oids t)) as [i|] eqn:Ei; [|reflexivity].
  destruct (pos s (sids t)) as [j|]; [|reflexivity]. f_equal.
  apply get_with_axis_vecs. apply pos_Some in Ei. unfold nobs. tauto.
Qed.

Lemma cell_axis_vecs a t o s : wf t ->
  cell t o s = match pos o (oids t), pos s (sids t) with Some i, Some j => Some (aget a (axis_vecs a t) i j) | _, _ => None end.
Proof.
  intros W. unfold cell. destruct (pos o (oids t)) as [i|]; [|reflexivity].
  destruct (pos s (sids t)) as [j|] eqn:Ej; [|reflexivity]. f_equal.
  apply get_axis_vecs. apply pos_Some in Ej. unfold nsamp. tauto.
Qed.

(* ------------------------------------------------------------------ Table.filter on the axis vectors *)
Lemma axis_vecs_filter_same m a t : wf t -> axis_vecs a (filter_mask m a t) = select m (axis_vecs a t).
Proof.
  intros (H1 & H2 & _). destruct a; simpl; [reflexivity|]. unfold nsamp, sel_cols; simpl.
  apply (transpose_select_cols (length (sids t)) (length (mat t))); [exact H2|reflexivity|reflexivity].
Qed.

Lemma axis_vecs_filter_other m a t : axis_vecs a (filter_mask m (other a) t) = map (select m) (axis_vecs a t).
Proof.
  destruct a; simpl; [reflexivity|]. unfold nsamp, sel_rows; simpl. apply transpose_select_rows.
Qed.

Lemma ids_filter_same m a t : ids a (filter_mask m a t) = select m (ids a t).
Proof. destruct a; reflexivity. Qed.

Lemma sum_pos_mask a t : wf t ->
  map (fun c : list Z * Z * option Tree => (0 <? zsum (fst (fst c)))%Z) (pred_calls a t)
  = map (fun v => (0 <? zsum v)%Z) (axis_vecs a t).
Proof.
  intros W. rewrite (axis_vecs_vec a t W). unfold pred_calls. rewrite !map_map. reflexivity.
Qed.

Lemma pred_calls_ids a t : map (fun c : list Z * Z * option Tree => snd (fst c)) (pred_calls a t) = ids a t.
Proof.
  unfold pred_calls. rewrite map_map. simpl. apply map_nth_seq.
Qed.
