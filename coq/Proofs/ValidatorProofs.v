(* Proofs about the validator model: what a "valid" verdict guarantees (soundness), that the
   JSON writer's output is accepted, that an accepted numeric document loads. *)
From Coq Require Import String.
From Coq Require Import List Arith ZArith Lia Bool.
From BiomV Require Import Base.Tree Base.ListUtil Base.Matrix Base.TreeStr Model.Table Model.Json Model.Validator.
From BiomV Require Import Proofs.JsonProofs.
Import ListNotations.
Open Scope Z_scope.

(* ------------------------------------------------------------------ monad inversion *)
Lemma bind_ok {A B} (e : result A) (f : A -> result B) v :
  bind e f = ROk v -> exists a, e = ROk a /\ f a = ROk v.
Proof. destruct e as [a|c]; simpl; [intros H; exists a; auto|discriminate]. Qed.

Tactic Notation "inv_bind" hyp(H) "as" ident(a) ident(Ha) :=
  apply bind_ok in H; destruct H as [a [Ha H]].

Lemma py_getitem_ok j k v : py_getitem j k = ROk v -> exists kv, j = JObj kv /\ jget kv k = Some v.
Proof.
  destruct j; simpl; try discriminate. destruct (jget kv k) eqn:E; [|discriminate].
  intros H; inversion H; subst. exists kv. auto.
Qed.

Lemma py_len_iter j n : py_len j = ROk n -> exists l, py_iter j = ROk l /\ length l = n.
Proof.
  destruct j; simpl; try discriminate; intros H; inversion H; subst; eexists; split; try reflexivity.
  - apply map_length.
  - apply map_length.
Qed.

Lemma py_iter_len j l : py_iter j = ROk l -> py_len j = ROk (length l).
Proof.
  destruct j; simpl; try discriminate; intros H; inversion H; subst; try reflexivity.
  - rewrite map_length. reflexivity.
  - rewrite map_length. reflexivity.
Qed.

(* iterating anything but a list never yields an int *)
Lemma py_iter_ints j a rest : py_iter j = ROk (JInt a :: rest) -> exists l, j = JArr l.
Proof.
  destruct j; simpl; try discriminate.
  - destruct s; simpl; discriminate.
  - intros _. eexists; reflexivity.
  - destruct kv; simpl; discriminate.
Qed.

Lemma py_ne_nat_false n j : py_ne_nat n j = false -> numval j = Some (SCALE * Z.of_nat n).
Proof.
  unfold py_ne_nat. destruct (numval j) as [v|]; [|discriminate].
  intros H. apply negb_false_iff in H. apply Z.eqb_eq in H. congruence.
Qed.

Lemma py_eq_sym a b : py_eq a b = py_eq b a.
Proof.
  unfold py_eq. destruct (numval a), (numval b); try reflexivity; [apply Z.eqb_sym|].
  destruct a, b; try reflexivity.
  unfold str_eqb. destruct (list_eqb Z.eqb s s0) eqn:E.
  - apply list_eqb_Z_eq in E. subst. symmetry. apply list_eqb_Z_eq. reflexivity.
  - destruct (list_eqb Z.eqb s0 s) eqn:E2; [|reflexivity].
    apply list_eqb_Z_eq in E2. subst. rewrite (proj2 (list_eqb_Z_eq s s) eq_refl) in E. discriminate.
Qed.

(* ------------------------------------------------------------------ records of an axis *)
Definition good_rec (r : json) : Prop :=
  exists kv idv md, r = JObj kv /\ jget kv (K "id") = Some idv /\ py_truthy idv = true
    /\ py_hashable idv = true /\ jget kv (K "metadata") = Some md /\ (md = JNull \/ is_obj md = true).

Definition rec_id (r : json) : json :=
  match r with JObj kv => match jget kv (K "id") with Some v => v | None => JNull end | _ => JNull end.

(* no two IDs are equal in Python's sense (1 == 1.0 == True) *)
Inductive py_distinct : list json -> Prop :=
| pd_nil : py_distinct []
| pd_cons x l : Forall (fun y => py_eq x y = false) l -> py_distinct l -> py_distinct (x :: l).

Lemma axis_loop_sound ax recs : forall idx seen,
  axis_loop ax idx recs seen = ROk None ->
  Forall good_rec recs /\ py_distinct (map rec_id recs)
  /\ Forall (fun r => Forall (fun s => py_eq (rec_id r) s = false) seen) recs.
Proof.
  induction recs as [|r t IH]; intros idx seen H.
  - repeat split; constructor.
  - cbn [axis_loop] in H.
    inv_bind H as b1 Hb1. destruct b1; cbn [negb] in H; [|discriminate].
    inv_bind H as idv Hid. destruct (py_truthy idv) eqn:Tr; cbn [negb] in H; [|discriminate].
    inv_bind H as b2 Hb2. destruct b2; cbn [negb] in H; [|discriminate].
    inv_bind H as md Hmd. destruct (is_null md || is_obj md) eqn:Md; cbn [negb] in H; [|discriminate].
    destruct (py_hashable idv) eqn:Hh; cbn [negb] in H; [|discriminate].
    destruct (existsb (py_eq idv) seen) eqn:Ex; [discriminate|].
    apply py_getitem_ok in Hid. destruct Hid as [kv [-> Gid]].
    apply py_getitem_ok in Hmd. destruct Hmd as [kv' [E Gmd]]. inversion E; subst kv'.
    destruct (IH _ _ H) as (G & D & S).
    assert (Rid : rec_id (JObj kv) = idv) by (unfold rec_id; rewrite Gid; reflexivity).
    split; [|split].
    + constructor; [|exact G]. exists kv, idv, md. repeat split; try assumption.
      apply orb_true_iff in Md. destruct Md as [Md|Md]; [left; destruct md; try discriminate; reflexivity|right; exact Md].
    + cbn [map]. constructor; [|exact D]. rewrite Rid.
      apply Forall_forall. intros y Hy. apply in_map_iff in Hy. destruct Hy as [r' [<- Hr']].
      rewrite Forall_forall in S. specialize (S r' Hr'). inversion S as [|? ? Hs _]; subst.
      rewrite py_eq_sym. exact Hs.
    + constructor.
      * rewrite Rid. apply Forall_forall. intros s Hs.
        destruct (py_eq idv s) eqn:E'; [|reflexivity].
        assert (existsb (py_eq idv) seen = true) by (apply existsb_exists; exists s; auto). congruence.
      * eapply Forall_impl; [|exact S]. intros r' Hr'. inversion Hr'; assumption.
Qed.

Lemma valid_axis_sound ax key kv :
  valid_axis ax key (JObj kv) = ROk None ->
  exists recs, jget kv key = Some (JArr recs) /\ Forall good_rec recs /\ py_distinct (map rec_id recs).
Proof.
  unfold valid_axis. intros H.
  inv_bind H as ty Hty. inv_bind H as lo Hlo. inv_bind H as rs Hrs.
  apply py_getitem_ok in Hrs. destruct Hrs as [kv' [E G]]. inversion E; subst kv'.
  destruct rs; try discriminate.
  destruct (axis_loop_sound _ _ _ _ H) as (A & B & _).
  exists l. auto.
Qed.

(* ------------------------------------------------------------------ shape *)
Lemma valid_shape_sound kv :
  valid_shape (JObj kv) = ROk None -> exists a b, jget kv (K "shape") = Some (JArr [JInt a; JInt b]).
Proof.
  unfold valid_shape. intros H. inv_bind H as sh Hsh. inv_bind H as ab Hab.
  destruct ab as [x y]. cbn [fst snd] in H.
  destruct x; cbn [py_is_int andb] in H; try discriminate.
  destruct y; cbn [py_is_int andb] in H; try discriminate.
  unfold py_unpack2 in Hab. inv_bind Hab as l Hl.
  destruct l as [|p [|q [|? ?]]]; try discriminate. inversion Hab; subst.
  destruct (py_iter_ints _ _ _ Hl) as [l ->]. simpl in Hl. inversion Hl; subst.
  unfold py_get in Hsh. destruct (jget kv (K "shape")) eqn:E; inversion Hsh; subst.
  exists z, z0. reflexivity.
Qed.

Lemma count_check_sound kv key pos m a b recs :
  jget kv (K "shape") = Some (JArr [JInt a; JInt b]) -> jget kv key = Some (JArr recs) ->
  (pos = 0 \/ pos = 1)%nat ->
  count_check (JObj kv) key pos m = ROk [] ->
  Z.of_nat (length recs) = (if (pos =? 0)%nat then a else b).
Proof.
  intros Hs Hr Hp H. unfold count_check in H. cbn [py_in py_getitem] in H. rewrite Hr, Hs in H.
  cbn [bind py_len] in H.
  destruct Hp as [-> | ->]; cbn [py_index nth_error bind] in H; cbn [Nat.eqb].
  - destruct (py_ne_nat (length recs) (JInt a)) eqn:E; [discriminate|].
    apply py_ne_nat_false in E. cbn [numval] in E.
    assert (E1 : SCALE * a = SCALE * Z.of_nat (length recs)) by congruence. unfold SCALE in E1. lia.
  - destruct (py_ne_nat (length recs) (JInt b)) eqn:E; [discriminate|].
    apply py_ne_nat_false in E. cbn [numval] in E.
    assert (E1 : SCALE * b = SCALE * Z.of_nat (length recs)) by congruence. unfold SCALE in E1. lia.
Qed.

(* ------------------------------------------------------------------ data *)
Definition entry_ok (dt : etype) (a b : Z) (e : json) : Prop :=
  exists x y v, e = JArr [JInt x; JInt y; v] /\ 0 <= x < a /\ 0 <= y < b /\ py_isinstance v dt = true.
Definition row_ok (dt : etype) (b : Z) (r : json) : Prop :=
  exists items, py_iter r = ROk items /\ items <> [] /\ Z.of_nat (length items) = b
                /\ Forall (fun v => py_isinstance v dt = true) items.

Lemma unpack3_ints e x y v : unpack3 e = Some (JInt x, y, v) -> e = JArr [JInt x; y; v].
Proof.
  unfold unpack3. destruct (py_iter e) as [l|] eqn:E; [|discriminate].
  destruct l as [|p [|q [|r [|? ?]]]]; try discriminate. intros H. inversion H; subst.
  destruct (py_iter_ints _ _ _ E) as [l ->]. simpl in E. congruence.
Qed.

Lemma sparse_loop_sound dt a b data : forall idx,
  sparse_loop dt (SCALE * a - SCALE) (SCALE * b - SCALE) idx data = None -> Forall (entry_ok dt a b) data.
Proof.
  induction data as [|e t IH]; intros idx H; [constructor|].
  cbn [sparse_loop] in H. destruct (unpack3 e) as [[[x y] v]|] eqn:U; [|discriminate].
  destruct x; try discriminate. destruct y; try discriminate.
  destruct (py_isinstance v dt) eqn:Iv; cbn [negb] in H; [|discriminate].
  destruct ((z <? 0) || (SCALE * a - SCALE <? SCALE * z)) eqn:Ex; [discriminate|].
  destruct ((z0 <? 0) || (SCALE * b - SCALE <? SCALE * z0)) eqn:Ey; [discriminate|].
  apply orb_false_iff in Ex. destruct Ex as [X1 X2]. apply orb_false_iff in Ey. destruct Ey as [Y1 Y2].
  apply Z.ltb_ge in X1, X2, Y1, Y2. unfold SCALE in *.
  constructor; [|exact (IH _ H)].
  exists z, z0, v. split; [apply unpack3_ints; exact U|]. repeat split; try lia. exact Iv.
Qed.

Lemma element_dtype_sound kv dt :
  element_dtype (JObj kv) = ROk dt ->
  exists met, jget kv (K "matrix_element_type") = Some (JStr met) /\ In (met, dt) ELEMENT_TYPES.
Proof.
  unfold element_dtype. intros H. inv_bind H as m Hm.
  apply py_getitem_ok in Hm. destruct Hm as [kv' [E G]]. inversion E; subst kv'.
  destruct (py_hashable m); cbn [negb] in H; [|discriminate].
  destruct (find (fun p => py_eq m (JStr (fst p))) ELEMENT_TYPES) as [[k t]|] eqn:F; [|discriminate].
  inversion H; subst. apply find_some in F. destruct F as [Hin He]. cbn [fst] in He.
  assert (m = JStr k).
  { unfold py_eq in He. destruct m; simpl in He; try discriminate.
    apply list_eqb_Z_eq in He. congruence. }
  subst. exists k. auto.
Qed.

Lemma dense_loop_sound dt nc rows :
  dense_loop dt nc rows = ROk None ->
  Forall (fun r => exists items, py_iter r = ROk items /\ items <> [] /\ py_ne_nat (length items) nc = false
                                 /\ Forall (fun v => py_isinstance v dt = true) items) rows.
Proof.
  induction rows as [|r t IH]; intros H; [constructor|].
  cbn [dense_loop] in H. inv_bind H as n Hn.
  destruct (py_ne_nat n nc) eqn:Ne; [discriminate|].
  inv_bind H as items Hi. destruct items as [|i0 it]; [discriminate|].
  destruct (forallb (fun v => py_isinstance v dt) (i0 :: it)) eqn:Fa; [|discriminate].
  constructor; [|exact (IH H)].
  exists (i0 :: it). split; [exact Hi|]. split; [discriminate|]. split.
  - apply py_iter_len in Hi. rewrite Hi in Hn. inversion Hn; subst. exact Ne.
  - apply Forall_forall. rewrite forallb_forall in Fa. exact Fa.
Qed.

Lemma py_lower_JStr v l : py_lower v = ROk l -> exists s, v = JStr s /\ l = map lower_char s.
Proof. destruct v; simpl; try discriminate. intros H; inversion H. eauto. Qed.

Lemma valid_data_sound kv a b :
  jget kv (K "shape") = Some (JArr [JInt a; JInt b]) ->
  valid_data (JObj kv) = ROk None ->
  exists entries mt met dt,
    jget kv (K "data") = Some (JArr entries) /\ jget kv (K "matrix_type") = Some (JStr mt)
    /\ jget kv (K "matrix_element_type") = Some (JStr met) /\ In (met, dt) ELEMENT_TYPES
    /\ ((map lower_char mt = K "sparse" /\ Forall (entry_ok dt a b) entries)
        \/ (map lower_char mt = K "dense" /\ Z.of_nat (length entries) = a /\ Forall (row_ok dt b) entries)).
Proof.
  intros Hs H. unfold valid_data in H.
  inv_bind H as d Hd. apply py_getitem_ok in Hd. destruct Hd as [kv' [E Gd]]. inversion E; subst kv'.
  destruct d; cbn [negb] in H; try discriminate.
  inv_bind H as mt Hmt. apply py_getitem_ok in Hmt. destruct Hmt as [kv' [E' Gmt]]. inversion E'; subst kv'.
  inv_bind H as lo Hlo. apply py_lower_JStr in Hlo. destruct Hlo as [s [-> ->]].
  destruct (str_eqb (map lower_char s) (K "sparse")) eqn:Sp.
  - apply list_eqb_Z_eq in Sp. unfold valid_sparse_data in H.
    inv_bind H as dt Hdt. destruct (element_dtype_sound _ _ Hdt) as [met [Gm Hin]].
    cbn [py_getitem] in H. rewrite Hs, Gd in H. cbn [bind py_unpack2 py_iter fst snd py_sub1 numval] in H.
    inversion H as [H1].
    exists l, s, met, dt. repeat split; try assumption. left. split; [exact Sp|].
    replace (SCALE * a - SCALE) with (SCALE * a - SCALE) in H1 by reflexivity.
    eapply sparse_loop_sound. exact H1.
  - destruct (str_eqb (map lower_char s) (K "dense")) eqn:De; [|discriminate].
    apply list_eqb_Z_eq in De. unfold valid_dense_data in H.
    inv_bind H as dt Hdt. destruct (element_dtype_sound _ _ Hdt) as [met [Gm Hin]].
    cbn [py_getitem] in H. rewrite Hs, Gd in H. cbn [bind py_unpack2 py_iter fst snd] in H.
    inv_bind H as st Hst. destruct st as [m|]; [discriminate|].
    cbn [py_len bind] in H. destruct (py_ne_nat (length l) (JInt a)) eqn:Ne; [discriminate|].
    exists l, s, met, dt. repeat split; try assumption. right. split; [exact De|]. split.
    + apply py_ne_nat_false in Ne. cbn [numval] in Ne.
      assert (E1 : SCALE * a = SCALE * Z.of_nat (length l)) by congruence. unfold SCALE in E1. lia.
    + apply dense_loop_sound in Hst. eapply Forall_impl; [|exact Hst].
      intros r (items & I & Ne0 & N & F). exists items. split; [exact I|]. split; [exact Ne0|]. split; [|exact F].
      apply py_ne_nat_false in N. cbn [numval] in N.
      assert (E1 : SCALE * b = SCALE * Z.of_nat (length items)) by congruence. unfold SCALE in E1. lia.
Qed.

Lemma valid_matrix_type_sound kv :
  valid_matrix_type (JObj kv) = ROk None ->
  jget kv (K "matrix_type") = Some (JStr (K "sparse")) \/ jget kv (K "matrix_type") = Some (JStr (K "dense")).
Proof.
  unfold valid_matrix_type. intros H. inv_bind H as mt Hmt.
  apply py_getitem_ok in Hmt. destruct Hmt as [kv' [E G]]. inversion E; subst kv'.
  destruct (py_hashable mt); cbn [negb] in H; [|discriminate].
  destruct (existsb (fun t => py_eq mt (JStr t)) MATRIX_TYPES) eqn:Ex; [|discriminate].
  apply existsb_exists in Ex. destruct Ex as [t [Hin He]].
  assert (mt = JStr t).
  { unfold py_eq in He. destruct mt; simpl in He; try discriminate. apply list_eqb_Z_eq in He. congruence. }
  subst. destruct Hin as [<-|[<-|[]]]; auto.
Qed.

(* ------------------------------------------------------------------ the loop over required keys *)
Lemma run_required_sound j l : forall idx,
  run_required j l idx = ROk [] -> Forall (fun km => py_in (fst km) j = ROk true /\ snd km j = ROk None) l.
Proof.
  induction l as [|[k m] t IH]; intros idx H; [constructor|].
  cbn [run_required] in H. inv_bind H as b Hb. destruct b; cbn [negb] in H.
  - inv_bind H as s Hs. inv_bind H as rest Hrest. destruct s as [x|]; [discriminate|].
    inversion H; subst. constructor; [split; assumption|]. exact (IH _ Hrest).
  - inv_bind H as rest Hrest. discriminate.
Qed.

(* what a "valid" verdict on a JSON document guarantees *)
Definition valid_doc (j : json) : Prop :=
  exists kv a b rrecs crecs entries mt met dt,
    j = JObj kv
    /\ Forall (fun k => jget kv k <> None) (map fst REQUIRED)
    /\ jget kv (K "shape") = Some (JArr [JInt a; JInt b])
    /\ jget kv (K "rows") = Some (JArr rrecs) /\ Z.of_nat (length rrecs) = a
    /\ jget kv (K "columns") = Some (JArr crecs) /\ Z.of_nat (length crecs) = b
    /\ Forall good_rec rrecs /\ Forall good_rec crecs
    /\ py_distinct (map rec_id rrecs) /\ py_distinct (map rec_id crecs)
    /\ jget kv (K "data") = Some (JArr entries)
    /\ jget kv (K "matrix_type") = Some (JStr mt)
    /\ jget kv (K "matrix_element_type") = Some (JStr met) /\ In (met, dt) ELEMENT_TYPES
    /\ ((mt = K "sparse" /\ Forall (entry_ok dt a b) entries)
        \/ (mt = K "dense" /\ Z.of_nat (length entries) = a /\ Forall (row_ok dt b) entries)).

Theorem valid_sound_json j : validate_json j = true -> valid_doc j.
Proof.
  unfold validate_json. destruct (validate_json_report j) as [[|m ms]|] eqn:R; try discriminate. intros _.
  unfold validate_json_report in R. inv_bind R as ra Hra. inv_bind R as rb Hrb.
  destruct ra; [|discriminate]. destruct rb; [|discriminate].
  apply run_required_sound in Hra.
  assert (G : forall k m, In (k, m) REQUIRED -> py_in k j = ROk true /\ m j = ROk None).
  { intros k m Hin. rewrite Forall_forall in Hra. exact (Hra (k, m) Hin). }
  destruct (G (K "format") valid_format) as [_ Vf]; [cbn; tauto|].
  unfold valid_format in Vf. inv_bind Vf as v0 Hv0. apply py_getitem_ok in Hv0. destruct Hv0 as [kv [-> _]].
  destruct (G (K "shape") valid_shape) as [_ Vs]; [cbn; tauto|].
  destruct (valid_shape_sound _ Vs) as [a [b Hs]].
  destruct (G (K "rows") valid_rows) as [_ Vr]; [cbn; tauto|].
  destruct (valid_axis_sound _ _ _ Vr) as (rrecs & Gr & Fr & Dr).
  destruct (G (K "columns") valid_columns) as [_ Vc]; [cbn; tauto|].
  destruct (valid_axis_sound _ _ _ Vc) as (crecs & Gc & Fc & Dc).
  destruct (G (K "data") valid_data) as [_ Vd]; [cbn; tauto|].
  destruct (valid_data_sound _ _ _ Hs Vd) as (entries & mt & met & dt & Gd & Gmt & Gme & Hin & Hdata).
  destruct (G (K "matrix_type") valid_matrix_type) as [_ Vm]; [cbn; tauto|].
  unfold shape_checks in Hrb. cbn [py_in] in Hrb. rewrite Hs in Hrb. cbn [bind] in Hrb.
  inv_bind Hrb as c1 Hc1. inv_bind Hrb as c2 Hc2.
  destruct c1; [|discriminate]. destruct c2; [|discriminate].
  pose proof (count_check_sound _ _ _ _ _ _ _ Hs Gr (or_introl eq_refl) Hc1) as Lr.
  pose proof (count_check_sound _ _ _ _ _ _ _ Hs Gc (or_intror eq_refl) Hc2) as Lc.
  cbn [Nat.eqb] in Lr, Lc.
  assert (Mt : mt = K "sparse" \/ mt = K "dense").
  { destruct (valid_matrix_type_sound _ Vm) as [E|E]; rewrite Gmt in E; inversion E; auto. }
  exists kv, a, b, rrecs, crecs, entries, mt, met, dt.
  split; [reflexivity|]. split.
  { apply Forall_forall. intros k Hk. apply in_map_iff in Hk. destruct Hk as [[k' m] [<- Hin']].
    destruct (G _ _ Hin') as [Pi _]. cbn [py_in fst] in Pi.
    cbn [fst]. intros En. rewrite En in Pi. discriminate. }
  repeat (split; [assumption|]).
  destruct Hdata as [[Lo Fa]|[Lo [Le Fa]]]; destruct Mt as [->| ->].
  - left. auto.
  - exfalso. revert Lo. vm_compute. discriminate.
  - exfalso. revert Lo. vm_compute. discriminate.
  - right. auto.
Qed.

(* ------------------------------------------------------------------ the writer's output is accepted *)
Definition writable (c : jtable) : Prop :=
  wfj c /\ vocabulary (j_type c)
  /\ Forall (fun s => s <> []) (j_oids c) /\ Forall (fun s => s <> []) (j_sids c)
  /\ (exists g, j_genby c = JStr g /\ g <> []) /\ (exists d, j_date c = JStr d /\ date_ok d = true).

Lemma existsb_pyeq_strs id prev :
  ~ In id prev -> existsb (py_eq (JStr id)) (map JStr prev) = false.
Proof.
  intros H. induction prev as [|p t IH]; [reflexivity|].
  cbn [map existsb]. rewrite IH by (intros X; apply H; right; exact X).
  assert (E : py_eq (JStr id) (JStr p) = false).
  { unfold py_eq. cbn [numval]. apply str_eqb_neq. intros ->. apply H. left; reflexivity. }
  rewrite E. reflexivity.
Qed.

Lemma axis_loop_written ax ids : forall mdl idx prev,
  length mdl = length ids -> Forall (fun s => s <> []) ids -> NoDup ids ->
  (forall x, In x ids -> ~ In x prev) ->
  Forall (fun m => m = JNull \/ is_obj m = true) mdl ->
  axis_loop ax idx (map (fun p => jrecord (fst p) (snd p)) (combine ids mdl)) (map JStr prev) = ROk None.
Proof.
  induction ids as [|id t IH]; intros [|m mdl] idx prev L Ne Nd Dis Fm; simpl in L; try discriminate;
    [reflexivity|].
  inversion Ne as [|? ? Hid Ne']; subst. inversion Nd as [|? ? Hni Nd']; subst.
  inversion Fm as [|? ? Hm Fm']; subst.
  cbn [combine map fst snd axis_loop].
  change (py_in (K "id") (jrecord id m)) with (ROk (A := bool) true).
  change (py_getitem (jrecord id m) (K "id")) with (ROk (A := json) (JStr id)).
  change (py_in (K "metadata") (jrecord id m)) with (ROk (A := bool) true).
  change (py_getitem (jrecord id m) (K "metadata")) with (ROk (A := json) m).
  cbn [bind negb py_hashable].
  assert (T : py_truthy (JStr id) = true) by (destruct id; [contradiction|reflexivity]).
  rewrite T. cbn [negb].
  assert (M : is_null m || is_obj m = true) by (destruct Hm as [->|Hm]; [reflexivity|rewrite Hm; apply orb_true_r]).
  rewrite M. cbn [negb].
  rewrite existsb_pyeq_strs by (apply Dis; left; reflexivity).
  change (JStr id :: map JStr prev) with (map JStr (id :: prev)).
  apply IH; try assumption; [lia|].
  intros x Hx [<-|Hp]; [contradiction|]. exact (Dis x (or_intror Hx) Hp).
Qed.

Lemma md_list_entries n md : md_objs md -> Forall (fun m => m = JNull \/ is_obj m = true) (md_list n md).
Proof.
  destruct md as [l|]; simpl; intros H.
  - eapply Forall_impl; [|exact H]. intros m Hm. right. exact Hm.
  - apply Forall_forall. intros m Hm. apply repeat_spec in Hm. left. exact Hm.
Qed.

Lemma valid_axis_written ax key c tid ids md :
  vocabulary (j_type c) -> jget (to_json_fields c tid) key = Some (JArr (jrecords ids md)) ->
  md_len md (length ids) -> md_objs md -> Forall (fun s => s <> []) ids -> NoDup ids ->
  valid_axis ax key (to_json_tree c tid) = ROk None.
Proof.
  intros (s & Ty & Sne & _) G L O Ne Nd. unfold valid_axis, to_json_tree.
  change (py_get (JObj (to_json_fields c tid)) (K "type")) with (ROk (A := json) (j_type c)).
  rewrite Ty. cbn [bind is_null py_lower py_getitem]. rewrite G. cbn [bind].
  unfold jrecords.
  apply (axis_loop_written ax ids (md_list (length ids) md) 0 []); try assumption.
  - apply md_list_length. exact L.
  - intros x _ [].
  - apply md_list_entries. exact O.
Qed.

Lemma sparse_loop_written dt nr nc ts : forall idx,
  Forall (in_range nr nc) ts -> dt = TFloat ->
  sparse_loop dt (SCALE * Z.of_nat nr - SCALE) (SCALE * Z.of_nat nc - SCALE) idx (map jtriple ts) = None.
Proof.
  induction ts as [|[[a b] v] t IH]; intros idx F ->; [reflexivity|].
  inversion F as [|? ? Hab F']; subst. unfold in_range in Hab. destruct Hab as [Ha Hb].
  cbn [map jtriple sparse_loop unpack3 py_iter py_isinstance negb].
  assert (X : (Z.of_nat a <? 0) || (SCALE * Z.of_nat nr - SCALE <? SCALE * Z.of_nat a) = false).
  { apply orb_false_iff. split; [apply Z.ltb_ge; lia|apply Z.ltb_ge; unfold SCALE; lia]. }
  assert (Y : (Z.of_nat b <? 0) || (SCALE * Z.of_nat nc - SCALE <? SCALE * Z.of_nat b) = false).
  { apply orb_false_iff. split; [apply Z.ltb_ge; lia|apply Z.ltb_ge; unfold SCALE; lia]. }
  rewrite X, Y. apply IH; [exact F'|reflexivity].
Qed.

Lemma triples_from_rect0 m : forall i, rect 0%nat m -> triples_from i m = [].
Proof.
  induction m as [|r t IH]; intros i R; [reflexivity|].
  inversion R as [|? ? Hr R']; subst. destruct r; [|discriminate Hr].
  cbn [triples_from row_triples app]. apply IH. exact R'.
Qed.
Lemma triples_rect0 m : rect 0%nat m -> triples m = [].
Proof. apply triples_from_rect0. Qed.

Lemma triples_empty_dims c : wfj c -> (jnobs c = 0 \/ jnsamp c = 0)%nat -> triples (j_mat c) = [].
Proof.
  intros (W1 & W2 & _) [H|H].
  - rewrite H in W1. destruct (j_mat c); [reflexivity|discriminate].
  - rewrite H in W2. apply triples_rect0. exact W2.
Qed.

(* C15: every document the JSON writer produces for a table with a vocabulary type (non-empty
   IDs and generated_by, a naive creation date) is reported valid *)
Theorem writer_valid_json c tid : writable c -> validate_json (to_json_tree c tid) = true.
Proof.
  intros (W & Voc & Ne1 & Ne2 & (g & Hg & Gne) & (d & Hd & Dok)).
  pose proof W as (W1 & W2 & W3 & W4 & W5 & W6 & W7 & W8).
  assert (Vr : valid_rows (to_json_tree c tid) = ROk None).
  { apply (valid_axis_written 0 (K "rows") c tid (j_oids c) (j_omd c)); try assumption. reflexivity. }
  assert (Vc : valid_columns (to_json_tree c tid) = ROk None).
  { apply (valid_axis_written 1 (K "columns") c tid (j_sids c) (j_smd c)); try assumption.
    reflexivity. }
  assert (Vt : valid_type (to_json_tree c tid) = ROk None).
  { destruct Voc as (s & Ty & Sne & Mem). unfold valid_type, to_json_tree.
    change (py_get (JObj (to_json_fields c tid)) (K "type")) with (ROk (A := json) (j_type c)).
    rewrite Ty. cbn [bind is_null orb py_lower].
    assert (E : py_eq (JStr s) (JStr []) = false) by (destruct s; [contradiction|reflexivity]).
    rewrite E, Mem. reflexivity. }
  assert (Vd : valid_data (to_json_tree c tid) = ROk None).
  { unfold valid_data, to_json_tree.
    change (py_getitem (JObj (to_json_fields c tid)) (K "data"))
      with (ROk (A := json) (JArr (map jtriple (triples (j_mat c))))).
    cbn [bind negb].
    change (py_getitem (JObj (to_json_fields c tid)) (K "matrix_type")) with (ROk (A := json) (JStr (K "sparse"))).
    cbn [bind py_lower].
    change (str_eqb (map lower_char (K "sparse")) (K "sparse")) with true. cbn iota.
    unfold valid_sparse_data.
    change (py_getitem (JObj (to_json_fields c tid)) (K "shape"))
      with (ROk (A := json) (JArr [JInt (Z.of_nat (jnobs c)); JInt (Z.of_nat (jnsamp c))])).
    change (py_getitem (JObj (to_json_fields c tid)) (K "data"))
      with (ROk (A := json) (JArr (map jtriple (triples (j_mat c))))).
    unfold element_dtype.
    change (py_getitem (JObj (to_json_fields c tid)) (K "matrix_element_type"))
      with (ROk (A := json) (JStr (element_type c))).
    cbn [bind py_hashable negb].
    unfold element_type.
    destruct ((0 <? jnobs c)%nat && (0 <? jnsamp c)%nat) eqn:Dim.
    - change (find (fun p => py_eq (JStr (K "float")) (JStr (fst p))) ELEMENT_TYPES) with (Some (K "float", TFloat)).
      cbn [bind snd py_unpack2 py_iter fst py_sub1 numval]. f_equal.
      apply sparse_loop_written; [|reflexivity]. rewrite <- W1. apply triples_range. exact W2.
    - change (find (fun p => py_eq (JStr (K "int")) (JStr (fst p))) ELEMENT_TYPES) with (Some (K "int", TInt)).
      cbn [bind snd py_unpack2 py_iter fst py_sub1 numval].
      assert (Z0 : (jnobs c = 0 \/ jnsamp c = 0)%nat).
      { apply andb_false_iff in Dim. destruct Dim as [D|D]; apply Nat.ltb_ge in D; lia. }
      rewrite (triples_empty_dims c W Z0). reflexivity. }
  assert (Vg : valid_generated_by (to_json_tree c tid) = ROk None).
  { unfold valid_generated_by, to_json_tree.
    change (py_get (JObj (to_json_fields c tid)) (K "generated_by")) with (ROk (A := json) (j_genby c)).
    rewrite Hg. cbn [bind]. destruct g; [contradiction|reflexivity]. }
  assert (Vdt : valid_datetime (to_json_tree c tid) = ROk None).
  { unfold valid_datetime, to_json_tree.
    change (py_getitem (JObj (to_json_fields c tid)) (K "date")) with (ROk (A := json) (j_date c)).
    rewrite Hd. cbn [bind]. rewrite Dok. reflexivity. }
  assert (Vme : valid_matrix_element_type (to_json_tree c tid) = ROk None).
  { unfold valid_matrix_element_type, to_json_tree.
    change (py_getitem (JObj (to_json_fields c tid)) (K "matrix_element_type"))
      with (ROk (A := json) (JStr (element_type c))).
    unfold element_type. destruct ((0 <? jnobs c)%nat && (0 <? jnsamp c)%nat); reflexivity. }
  assert (Rq : run_required (to_json_tree c tid) REQUIRED 0 = ROk []).
  { unfold REQUIRED. cbn [run_required].
    change (py_in (K "format") (to_json_tree c tid)) with (ROk (A := bool) true).
    change (py_in (K "format_url") (to_json_tree c tid)) with (ROk (A := bool) true).
    change (py_in (K "type") (to_json_tree c tid)) with (ROk (A := bool) true).
    change (py_in (K "rows") (to_json_tree c tid)) with (ROk (A := bool) true).
    change (py_in (K "columns") (to_json_tree c tid)) with (ROk (A := bool) true).
    change (py_in (K "shape") (to_json_tree c tid)) with (ROk (A := bool) true).
    change (py_in (K "data") (to_json_tree c tid)) with (ROk (A := bool) true).
    change (py_in (K "matrix_type") (to_json_tree c tid)) with (ROk (A := bool) true).
    change (py_in (K "matrix_element_type") (to_json_tree c tid)) with (ROk (A := bool) true).
    change (py_in (K "generated_by") (to_json_tree c tid)) with (ROk (A := bool) true).
    change (py_in (K "id") (to_json_tree c tid)) with (ROk (A := bool) true).
    change (py_in (K "date") (to_json_tree c tid)) with (ROk (A := bool) true).
    cbn [bind negb].
    change (valid_format (to_json_tree c tid)) with (ROk (A := status) None).
    change (valid_format_url (to_json_tree c tid)) with (ROk (A := status) None).
    change (valid_shape (to_json_tree c tid)) with (ROk (A := status) None).
    change (valid_matrix_type (to_json_tree c tid)) with (ROk (A := status) None).
    rewrite Vt, Vr, Vc, Vd, Vme, Vg, Vdt. reflexivity. }
  unfold validate_json, validate_json_report. rewrite Rq. cbn [bind].
  unfold shape_checks, count_check.
  change (py_in (K "shape") (to_json_tree c tid)) with (ROk (A := bool) true).
  change (py_in (K "rows") (to_json_tree c tid)) with (ROk (A := bool) true).
  change (py_in (K "columns") (to_json_tree c tid)) with (ROk (A := bool) true).
  change (py_getitem (to_json_tree c tid) (K "rows")) with (ROk (A := json) (w_rows c)).
  change (py_getitem (to_json_tree c tid) (K "columns")) with (ROk (A := json) (w_columns c)).
  change (py_getitem (to_json_tree c tid) (K "shape"))
    with (ROk (A := json) (JArr [JInt (Z.of_nat (jnobs c)); JInt (Z.of_nat (jnsamp c))])).
  unfold w_columns, w_rows, jrecords.
  cbn [bind py_len py_index nth_error].
  rewrite !map_length, !combine_length, !md_list_length by assumption. rewrite !Nat.min_id.
  unfold py_ne_nat. cbn [numval]. fold (jnobs c). fold (jnsamp c). rewrite !Z.eqb_refl. reflexivity.
Qed.

(* ------------------------------------------------------------------ an accepted numeric document loads *)
Definition rec_md (r : json) : json :=
  match r with JObj kv => match jget kv (K "metadata") with Some v => v | None => JNull end | _ => JNull end.
Definition str_of (j : json) : str := match j with JStr s => s | _ => [] end.
Definition ids_text (recs : list json) : Prop := Forall (fun r => is_str (rec_id r) = true) recs.
Definition id_strs (recs : list json) : list str := map (fun r => str_of (rec_id r)) recs.
Definition numeric (dt : etype) : Prop := dt = TInt \/ dt = TFloat.
Definition val_of (v : json) : Z := match numval v with Some k => k | None => 0 end.
(* the (row, column, value) triples a sparse "data" list declares *)
Definition declared_entry (e : json) : nat * nat * Z :=
  match e with
  | JArr [JInt x; JInt y; v] => (Z.to_nat x, Z.to_nat y, val_of v)
  | _ => (0%nat, 0%nat, 0)
  end.
Definition declared_row (r : json) : list Z := match r with JArr l => map val_of l | _ => [] end.

Lemma ids_of_good recs :
  Forall good_rec recs -> mapM (fun r => py_getitem r (K "id")) recs = ROk (map rec_id recs).
Proof.
  intros F. apply mapM_ok. intros r Hr. rewrite Forall_forall in F.
  destruct (F r Hr) as (kv & idv & md & -> & Gi & _). unfold rec_id. cbn [py_getitem]. rewrite Gi. reflexivity.
Qed.
Lemma mds_of_good recs :
  Forall good_rec recs -> mapM (fun r => py_getitem r (K "metadata")) recs = ROk (map rec_md recs).
Proof.
  intros F. apply mapM_ok. intros r Hr. rewrite Forall_forall in F.
  destruct (F r Hr) as (kv & idv & md & -> & _ & _ & _ & Gm & _). unfold rec_md. cbn [py_getitem]. rewrite Gm. reflexivity.
Qed.
Lemma as_str_text recs : ids_text recs -> mapM as_str (map rec_id recs) = ROk (id_strs recs).
Proof.
  intros F. unfold id_strs. rewrite <- (map_map rec_id str_of). apply mapM_ok.
  intros x Hx. apply in_map_iff in Hx. destruct Hx as [r [<- Hr]].
  unfold ids_text in F. rewrite Forall_forall in F. specialize (F r Hr).
  destruct (rec_id r); try discriminate. reflexivity.
Qed.
Lemma distinct_text_nodup recs :
  ids_text recs -> py_distinct (map rec_id recs) -> NoDup (id_strs recs).
Proof.
  induction recs as [|r t IH]; intros T D; [constructor|].
  inversion T as [|? ? Tr Tt]; subst. cbn [map] in D. inversion D as [|? ? Fx Dt]; subst.
  unfold id_strs. cbn [map]. constructor; [|apply IH; assumption].
  intros Hin. apply in_map_iff in Hin. destruct Hin as [r' [E Hr']].
  rewrite Forall_forall in Fx. specialize (Fx (rec_id r') (in_map rec_id _ _ Hr')).
  unfold ids_text in Tt. rewrite Forall_forall in Tt. specialize (Tt r' Hr').
  destruct (rec_id r); try discriminate. destruct (rec_id r'); try discriminate.
  cbn [str_of] in E. subst. unfold py_eq in Fx. cbn [numval] in Fx. rewrite str_eqb_refl in Fx. discriminate.
Qed.
Lemma cast_md_good recs : Forall good_rec recs -> exists m, cast_md (map rec_md recs) = ROk m.
Proof.
  intros F. unfold cast_md. destruct (forallb holds_nothing (map rec_md recs)); [eexists; reflexivity|].
  assert (E : exists l, mapM (fun x => match x with JObj _ => ROk x | JNull => ROk (JObj []) | _ => RErr E_TABLE end)
                          (map rec_md recs) = ROk l).
  { induction recs as [|r t IH]; [eexists; reflexivity|].
    inversion F as [|? ? Gr Ft]; subst. destruct (IH Ft) as [l Hl].
    destruct Gr as (kv & idv & md & -> & _ & _ & _ & Gm & Hm).
    cbn [map mapM]. unfold rec_md at 1. rewrite Gm.
    destruct Hm as [->|Hm]; [|destruct md; try discriminate]; cbn [bind]; rewrite Hl; eexists; reflexivity. }
  destruct E as [l ->]. eexists; reflexivity.
Qed.

Lemma numeric_val v dt : numeric dt -> py_isinstance v dt = true -> val_code v = ROk (val_of v).
Proof.
  intros [-> | ->] H; destruct v; try discriminate; reflexivity.
Qed.

Lemma mapM_ok_map {A B C} (f : B -> result C) (g : A -> B) (h : A -> C) l :
  (forall x, In x l -> f (g x) = ROk (h x)) -> mapM f (map g l) = ROk (map h l).
Proof.
  induction l as [|x t IH]; intros H; [reflexivity|]. cbn [map mapM].
  rewrite (H x (or_introl eq_refl)). cbn [bind]. rewrite IH by (intros y Hy; apply H; right; exact Hy).
  reflexivity.
Qed.

Lemma sparse_entries_declared dt a b entries :
  numeric dt -> entries <> [] -> Forall (entry_ok dt (Z.of_nat a) (Z.of_nat b)) entries ->
  sparse_entries a b entries = ROk (map declared_entry entries).
Proof.
  intros Nu Ne F. unfold sparse_entries.
  rewrite (mapM_ok py_iter (fun j => match j with JArr l => l | _ => [] end)).
  2:{ intros e He. rewrite Forall_forall in F. destruct (F e He) as (x & y & v & -> & _). reflexivity. }
  cbn [bind].
  assert (A : forallb (fun l => (3 <=? length l)%nat)
                (map (fun j => match j with JArr l => l | _ => [] end) entries) = true).
  { apply forallb_forall. intros l Hl. apply in_map_iff in Hl. destruct Hl as [e [<- He]].
    rewrite Forall_forall in F. destruct (F e He) as (x & y & v & -> & _). reflexivity. }
  assert (B : existsb (fun l => (length l =? 3)%nat)
                (map (fun j => match j with JArr l => l | _ => [] end) entries) = true).
  { destruct entries as [|e t]; [contradiction|]. inversion F as [|? ? (x & y & v & -> & _) _]; subst. reflexivity. }
  rewrite A, B. cbn [andb].
  apply mapM_ok_map. intros e He. rewrite Forall_forall in F.
  destruct (F e He) as (x & y & v & -> & Hx & Hy & Iv). cbn [nth declared_entry]. unfold coord.
  assert (C1 : (x <? 0) = false) by (apply Z.ltb_ge; lia).
  assert (C2 : (Z.of_nat a <=? x) = false) by (apply Z.leb_gt; lia).
  assert (C3 : (y <? 0) = false) by (apply Z.ltb_ge; lia).
  assert (C4 : (Z.of_nat b <=? y) = false) by (apply Z.leb_gt; lia).
  rewrite C1, C2, C3, C4. cbn [orb]. rewrite (numeric_val v dt Nu Iv). reflexivity.
Qed.

Lemma py_iter_numeric j x rest dt :
  numeric dt -> py_isinstance x dt = true -> py_iter j = ROk (x :: rest) -> j = JArr (x :: rest).
Proof.
  intros Nu I H. destruct j; simpl in H; try discriminate.
  - destruct s; simpl in H; [discriminate|]. inversion H; subst. destruct Nu as [-> | ->]; discriminate.
  - inversion H; reflexivity.
  - destruct kv; simpl in H; [discriminate|]. inversion H; subst. destruct Nu as [-> | ->]; discriminate.
Qed.

Lemma dense_entries_declared dt a b entries :
  numeric dt -> entries <> [] -> length entries = a -> Forall (row_ok dt (Z.of_nat b)) entries ->
  dense_entries a b entries = ROk (triples (map declared_row entries))
  /\ rect b (map declared_row entries).
Proof.
  intros Nu Ne La F.
  assert (Rows : forall r, In r entries -> exists l, r = JArr l /\ length l = b /\ l <> []
                                         /\ mapM val_code l = ROk (map val_of l)).
  { intros r Hr. rewrite Forall_forall in F. destruct (F r Hr) as (items & I & Ni & L & Fi).
    destruct items as [|i0 it]; [contradiction|].
    inversion Fi as [|? ? I0 _]; subst.
    pose proof (py_iter_numeric _ _ _ _ Nu I0 I) as ->.
    exists (i0 :: it). split; [reflexivity|]. split; [lia|]. split; [discriminate|].
    apply mapM_ok. intros v Hv. rewrite Forall_forall in Fi. apply (numeric_val v dt Nu). apply Fi. exact Hv. }
  assert (Rect : rect b (map declared_row entries)).
  { apply Forall_forall. intros r Hr. apply in_map_iff in Hr. destruct Hr as [e [<- He]].
    destruct (Rows e He) as (l & -> & L & _). cbn [declared_row]. rewrite map_length. exact L. }
  split; [|exact Rect].
  unfold dense_entries.
  rewrite (mapM_ok _ declared_row).
  2:{ intros r Hr. destruct (Rows r Hr) as (l & -> & _ & _ & M). exact M. }
  cbn [bind].
  destruct entries as [|e0 et]; [contradiction|]. cbn [map].
  assert (Fa : forallb (fun r => (length r =? length (declared_row e0))%nat)
                 (declared_row e0 :: map declared_row et) = true).
  { apply forallb_forall. intros r Hr.
    change (declared_row e0 :: map declared_row et) with (map declared_row (e0 :: et)) in Hr.
    unfold rect in Rect. rewrite Forall_forall in Rect. rewrite (Rect r Hr).
    rewrite (Rect (declared_row e0) (or_introl eq_refl)). apply Nat.eqb_refl. }
  rewrite Fa.
  change (declared_row e0 :: map declared_row et) with (map declared_row (e0 :: et)).
  assert (Rg : forallb (fun t => let '(i, j, _) := t in (i <? a)%nat && (j <? b)%nat)
                 (triples (map declared_row (e0 :: et))) = true).
  { apply forallb_forall. intros [[i j] v] Ht.
    pose proof (triples_range b _ Rect) as TR. rewrite Forall_forall in TR. specialize (TR _ Ht).
    unfold in_range in TR. rewrite map_length, La in TR. destruct TR as [T1 T2].
    apply andb_true_iff. split; apply Nat.ltb_lt; assumption. }
  rewrite Rg. reflexivity.
Qed.

(* C15: a document the validator accepts, whose element type is numeric and whose IDs are
   text, loads, with the declared shape, the declared IDs in order and the declared values *)
Theorem valid_loads j kv rrecs crecs entries mt met dt :
  validate_json j = true -> j = JObj kv ->
  jget kv (K "rows") = Some (JArr rrecs) -> jget kv (K "columns") = Some (JArr crecs) ->
  jget kv (K "data") = Some (JArr entries) -> jget kv (K "matrix_type") = Some (JStr mt) ->
  jget kv (K "matrix_element_type") = Some (JStr met) -> In (met, dt) ELEMENT_TYPES -> numeric dt ->
  ids_text rrecs -> ids_text crecs ->
  exists c, from_json j = ROk c
    /\ j_oids c = id_strs rrecs /\ j_sids c = id_strs crecs
    /\ jget kv (K "shape") = Some (JArr [JInt (Z.of_nat (length (j_oids c))); JInt (Z.of_nat (length (j_sids c)))])
    /\ (mt = K "sparse" -> j_mat c = dense_of_triples (length rrecs) (length crecs) (map declared_entry entries))
    /\ (mt = K "dense" -> j_mat c = map declared_row entries).
Proof.
  intros V -> Gr Gc Gd Gmt Gme Hin Nu Tr Tc.
  destruct (valid_sound_json _ V) as (kv' & a & b & rrecs' & crecs' & entries' & mt' & met' & dt' & E & Keys & Hs
    & Gr' & La & Gc' & Lb & Fr & Fc & Dr & Dc & Gd' & Gmt' & Gme' & Hin' & Hdata).
  inversion E; subst kv'. clear E.
  rewrite Gr in Gr'. inversion Gr'; subst rrecs'. rewrite Gc in Gc'. inversion Gc'; subst crecs'.
  rewrite Gd in Gd'. inversion Gd'; subst entries'. rewrite Gmt in Gmt'. inversion Gmt'; subst mt'.
  rewrite Gme in Gme'. inversion Gme'; subst met'.
  assert (dt' = dt).
  { clear - Hin Hin'. unfold ELEMENT_TYPES in *. cbn [In] in *.
    destruct Hin as [H|[H|[H|[H|[]]]]]; destruct Hin' as [H'|[H'|[H'|[H'|[]]]]];
      inversion H; subst; first [congruence | (vm_compute in H'; discriminate H')]. }
  subst dt'.
  assert (Kd : forall k, In k (map fst REQUIRED) -> exists v, jget kv k = Some v).
  { intros k Hk. rewrite Forall_forall in Keys. specialize (Keys k Hk). destruct (jget kv k); [eauto|contradiction]. }
  destruct (Kd (K "type")) as [ty Gty]; [cbn; tauto|].
  destruct (Kd (K "date")) as [dte Gdate]; [cbn; tauto|].
  destruct (Kd (K "generated_by")) as [gb Ggb]; [cbn; tauto|].
  destruct (cast_md_good _ Fc) as [smd' Hsmd]. destruct (cast_md_good _ Fr) as [omd' Homd].
  assert (Met : existsb (fun t => py_eq (JStr met) (JStr t)) ELEMENT_TYPES_TABLE = true).
  { destruct Nu as [-> | ->]; unfold ELEMENT_TYPES in Hin; cbn [In] in Hin;
      repeat match goal with H : _ \/ _ |- _ => destruct H as [H|H] end; try contradiction;
      inversion Hin; subst; reflexivity. }
  assert (MS : exists m, to_sparse (JArr entries) (py_eq (JStr mt) (JStr (K "dense"))) (length rrecs) (length crecs) = ROk m
                         /\ (mt = K "sparse" -> m = dense_of_triples (length rrecs) (length crecs) (map declared_entry entries))
                         /\ (mt = K "dense" -> m = map declared_row entries)).
  { destruct Hdata as [[-> Fa]|[-> [Le Fa]]].
    - change (py_eq (JStr (K "sparse")) (JStr (K "dense"))) with false.
      destruct entries as [|e0 et].
      + eexists. split; [reflexivity|]. split; [intros _; reflexivity|intros X; vm_compute in X; discriminate X].
      + rewrite <- La, <- Lb in Fa.
        pose proof (sparse_entries_declared dt _ _ (e0 :: et) Nu ltac:(discriminate) Fa) as SE.
        inversion Fa as [|? ? (x & y & v & -> & _) _]; subst.
        eexists. split.
        * change (to_sparse (JArr (JArr [JInt x; JInt y; v] :: et)) false (length rrecs) (length crecs))
            with (bind (sparse_entries (length rrecs) (length crecs) (JArr [JInt x; JInt y; v] :: et))
                       (fun ts => ROk (dense_of_triples (length rrecs) (length crecs) ts))).
          rewrite SE. reflexivity.
        * split; [intros _; reflexivity|intros X; vm_compute in X; discriminate X].
    - change (py_eq (JStr (K "dense")) (JStr (K "dense"))) with true.
      destruct entries as [|e0 et].
      + eexists. split; [reflexivity|]. split; [intros X; vm_compute in X; discriminate X|].
        intros _. cbn [length] in Le. assert (length rrecs = 0%nat) by lia.
        destruct rrecs; [reflexivity|discriminate].
      + rewrite <- Lb in Fa. assert (Le' : length (e0 :: et) = length rrecs) by lia.
        destruct (dense_entries_declared dt _ _ (e0 :: et) Nu ltac:(discriminate) Le' Fa) as [DE Rect].
        inversion Fa as [|? ? (items & I & Ni & L & Fi) _]; subst.
        destruct items as [|i0 it]; [contradiction|]. inversion Fi as [|? ? I0 _]; subst.
        pose proof (py_iter_numeric _ _ _ _ Nu I0 I) as ->.
        eexists. split.
        * change (to_sparse (JArr (JArr (i0 :: it) :: et)) true (length rrecs) (length crecs))
            with (bind (dense_entries (length rrecs) (length crecs) (JArr (i0 :: it) :: et))
                       (fun ts => ROk (dense_of_triples (length rrecs) (length crecs) ts))).
          rewrite DE. reflexivity.
        * split; [intros X; vm_compute in X; discriminate X|]. intros _.
          rewrite <- Le'. rewrite <- (map_length declared_row (JArr (i0 :: it) :: et)).
          apply triples_roundtrip. exact Rect. }
  destruct MS as (m & TS & Msp & Mde).
  exists (mkJT (id_strs rrecs) (id_strs crecs) m omd' smd' ty gb dte).
  split; [|cbn [j_oids j_sids j_mat]; unfold id_strs; rewrite !map_length; rewrite La, Lb; auto].
  unfold from_json. cbn [py_getitem py_in]. rewrite Gc. cbn [bind py_iter].
  rewrite (ids_of_good _ Fc). cbn [bind]. rewrite (mds_of_good _ Fc). cbn [bind].
  rewrite Gr. cbn [bind py_iter].
  rewrite (ids_of_good _ Fr). cbn [bind]. rewrite (mds_of_good _ Fr). cbn [bind].
  rewrite Gme. cbn [bind py_hashable]. rewrite Met. cbn [bind].
  rewrite Gmt. cbn [bind]. rewrite Gty. cbn [bind]. rewrite Gd. cbn [bind]. rewrite Gdate. cbn [bind].
  rewrite Hs. cbn [bind]. rewrite Ggb. cbn [bind].
  rewrite !map_length. rewrite TS. cbn [bind].
  rewrite (as_str_text _ Tr). cbn [bind]. rewrite (as_str_text _ Tc). cbn [bind].
  assert (D1 : str_dup (id_strs rrecs) = false) by (apply str_dup_false_NoDup; apply distinct_text_nodup; assumption).
  assert (D2 : str_dup (id_strs crecs) = false) by (apply str_dup_false_NoDup; apply distinct_text_nodup; assumption).
  rewrite D1, D2. cbn [orb bind]. rewrite Hsmd. cbn [bind]. rewrite Homd. reflexivity.
Qed.

(* ================================================================== HDF5 *)
Lemma run_attrs_sound f l : forall idx,
  run_attrs f l idx = ROk [] ->
  Forall (fun kv => exists a, aget (h_attrs f) (fst kv) = Some a /\ snd kv a = ROk None) l.
Proof.
  induction l as [|[k v] t IH]; intros idx H; [constructor|].
  cbn [run_attrs] in H. destruct (aget (h_attrs f) k) as [a|] eqn:E.
  - inv_bind H as s Hs. inv_bind H as rest Hrest. destruct s; [discriminate|]. inversion H; subst.
    constructor; [exists a; auto|exact (IH _ Hrest)].
  - inv_bind H as rest Hrest. discriminate.
Qed.

Lemma missing_paths_sound f code l : forall idx,
  missing_paths f code l idx = [] -> Forall (fun p => hfind (h_root f) p <> None) l.
Proof.
  induction l as [|p t IH]; intros idx H; [constructor|].
  cbn [missing_paths] in H. destruct (hfind (h_root f) p) eqn:E; [|discriminate].
  constructor; [congruence|exact (IH _ H)].
Qed.

Definition ids_ok (n : h5node) : Prop :=
  match n with
  | HStrs l => Forall (fun s => s <> []) l /\ NoDup l
  | HInts [] | HFlts [] | HEmpty | HOther O => True
  | _ => False
  end.

Lemma ids_loop_sound ax l : forall seen,
  ids_loop ax l seen = [] -> Forall (fun s => s <> []) l /\ NoDup l /\ (forall x, In x l -> ~ In x seen).
Proof.
  induction l as [|s t IH]; intros seen H; [repeat split; try constructor; intros x []|].
  cbn [ids_loop] in H. destruct s as [|c s']; [discriminate|].
  destruct (str_mem (c :: s') seen) eqn:M; [discriminate|].
  destruct (IH _ H) as (A & B & C).
  split; [constructor; [discriminate|exact A]|]. split.
  - constructor; [|exact B]. intros Hin. apply (C _ Hin). left; reflexivity.
  - intros x [<-|Hx] Hs.
    + assert (str_mem (c :: s') seen = true) by (apply str_mem_In; exact Hs). congruence.
    + apply (C x Hx). right; exact Hs.
Qed.

Lemma hv_ids_sound f ax n :
  hv_ids f ax = ROk [] -> hfind (h_root f) (P2 (axis_name ax) "ids") = Some n -> ids_ok n.
Proof.
  unfold hv_ids. intros H E. rewrite E in H. destruct n as [ch|l|l|l| |k]; try discriminate; cbn [ids_ok].
  - inversion H as [H1]. destruct (ids_loop_sound _ _ _ H1) as (A & B & _). auto.
  - destruct l; [exact Logic.I|discriminate].
  - destruct l; [exact Logic.I|discriminate].
  - exact Logic.I.
  - destruct k; [exact Logic.I|discriminate].
Qed.

Fixpoint nondecreasing (l : list Z) : Prop :=
  match l with
  | a :: ((b :: _) as t) => a <= b /\ nondecreasing t
  | _ => True
  end.
Lemma decreasing_false l : decreasing l = false -> nondecreasing l.
Proof.
  induction l as [|a [|b t] IH]; intros H; cbn [nondecreasing]; auto.
  cbn [decreasing] in H. apply orb_false_iff in H. destruct H as [H1 H2].
  apply Z.ltb_ge in H1. split; [lia|exact (IH H2)].
Qed.

(* the compressed-sparse matrix of one axis fits n_vec vectors of n_pos positions *)
Definition matrix_ok (f : h5file) (ax : Z) (n_vec n_pos : Z) : Prop :=
  exists d indices indptr,
    hfind (h_root f) (P3 (axis_name ax) "matrix" "data") = Some d
    /\ (forall ch, d <> HGroup ch) /\ (forall l, d <> HStrs l) /\ (forall k, d <> HOther k)
    /\ hfind (h_root f) (P3 (axis_name ax) "matrix" "indices") = Some (HInts indices)
    /\ hfind (h_root f) (P3 (axis_name ax) "matrix" "indptr") = Some (HInts indptr)
    /\ length indices = node_len d /\ Z.of_nat (length indptr) = n_vec + 1
    /\ hd 0 indptr = 0 /\ last indptr 0 = Z.of_nat (node_len d) /\ nondecreasing indptr
    /\ Forall (fun i => 0 <= i < n_pos) indices.

Lemma hv_matrix_sound f ax nv np d ni npt :
  hfind (h_root f) (P3 (axis_name ax) "matrix" "data") = Some d ->
  hfind (h_root f) (P3 (axis_name ax) "matrix" "indices") = Some ni ->
  hfind (h_root f) (P3 (axis_name ax) "matrix" "indptr") = Some npt ->
  hv_matrix f ax (SCALE * nv) (SCALE * np) = ROk [] -> matrix_ok f ax nv np.
Proof.
  intros Ed Ei Ep H. unfold hv_matrix in H. rewrite Ed, Ei, Ep in H.
  destruct d as [ch|sl|dl|dl| |ok]; try discriminate.
  all: inv_bind H as ki Hki; destruct ki; cbn [negb] in H; [|discriminate];
       inv_bind H as kp Hkp; destruct kp; cbn [negb] in H; [|discriminate];
       destruct ni as [?|?|indices|?| |?]; try discriminate;
       destruct npt as [?|?|indptr|?| |?]; try discriminate;
       match type of H with
       | context [node_len ?dd] =>
           destruct (Z.of_nat (length indices) =? Z.of_nat (node_len dd)) eqn:L1; cbn [negb] in H; [|discriminate];
           destruct (SCALE * Z.of_nat (length indptr) =? SCALE * nv + SCALE) eqn:L2; cbn [negb] in H; [|discriminate];
           destruct indptr as [|p0 pt]; [discriminate|];
           destruct (negb (p0 =? 0) || negb (last (p0 :: pt) 0 =? Z.of_nat (node_len dd))) eqn:L3; [discriminate|];
           destruct (decreasing (p0 :: pt)) eqn:L4; [discriminate|];
           destruct ((0 <? Z.of_nat (node_len dd)) && existsb (fun i => (i <? 0) || (SCALE * np <=? SCALE * i)) indices) eqn:L5;
             [discriminate|];
           apply Z.eqb_eq in L1; apply Z.eqb_eq in L2;
           apply orb_false_iff in L3; destruct L3 as [L3a L3b];
           apply negb_false_iff in L3a; apply negb_false_iff in L3b; apply Z.eqb_eq in L3a; apply Z.eqb_eq in L3b;
           exists dd, indices, (p0 :: pt);
           repeat split; try assumption; try discriminate;
           [lia | unfold SCALE in L2; lia | apply decreasing_false; exact L4 |
            apply Forall_forall; intros i Hi;
            apply andb_false_iff in L5; destruct L5 as [L5|L5];
            [apply Z.ltb_ge in L5; assert (length indices = 0)%nat by lia;
             destruct indices; [contradiction|discriminate]
            |assert (X : (i <? 0) || (SCALE * np <=? SCALE * i) = false);
             [destruct ((i <? 0) || (SCALE * np <=? SCALE * i)) eqn:Y; [|reflexivity];
              assert (existsb (fun i => (i <? 0) || (SCALE * np <=? SCALE * i)) indices = true)
                by (apply existsb_exists; exists i; auto); congruence|];
             apply orb_false_iff in X; destruct X as [X1 X2]; apply Z.ltb_ge in X1; apply Z.leb_gt in X2;
             unfold SCALE in X2; lia]]
       end.
Qed.

Definition METADATA_GROUPS : list (list str) :=
  [P2 "observation" "metadata"; P2 "observation" "group-metadata"; P2 "sample" "metadata";
   P2 "sample" "group-metadata"].

(* what a "valid" verdict on an HDF5 file guarantees *)
Definition valid_h5 (f : h5file) : Prop :=
  Forall (fun k => aget (h_attrs f) k <> None) (map fst H_REQUIRED_ATTRS)
  /\ Forall (fun p => hfind (h_root f) p <> None) (H_REQUIRED_GROUPS ++ METADATA_GROUPS ++ H_REQUIRED_DATASETS)
  /\ exists no ns oi si,
       aget (h_attrs f) (K "shape") = Some (AInts [no; ns])
       /\ hfind (h_root f) (P2 "observation" "ids") = Some oi /\ hfind (h_root f) (P2 "sample" "ids") = Some si
       /\ no = Z.of_nat (node_len oi) /\ ns = Z.of_nat (node_len si)
       /\ ids_ok oi /\ ids_ok si
       /\ matrix_ok f 0 no ns /\ matrix_ok f 1 ns no.

Lemma ROk_inj {A} (a b : A) : ROk a = ROk b -> a = b.
Proof. intros H; inversion H; reflexivity. Qed.

Lemma app_nil_inv {A} (a b : list A) : a ++ b = [] -> a = [] /\ b = [].
Proof. destruct a; simpl; [auto|discriminate]. Qed.

Lemma hv_metadata_sound f : hv_metadata_v210 f = ROk [] ->
  Forall (fun p => hfind (h_root f) p <> None) METADATA_GROUPS.
Proof.
  unfold hv_metadata_v210. intros H.
  destruct (hfind (h_root f) (P2 "observation" "metadata")) eqn:E1; cbn [negb] in H; [|discriminate].
  destruct (hfind (h_root f) (P2 "observation" "group-metadata")) eqn:E2; cbn [negb] in H; [|discriminate].
  destruct (hfind (h_root f) (P2 "sample" "metadata")) eqn:E3; cbn [negb] in H; [|discriminate].
  destruct (hfind (h_root f) (P2 "sample" "group-metadata")) eqn:E4; cbn [negb] in H; [|discriminate].
  unfold METADATA_GROUPS. repeat constructor; congruence.
Qed.

(* the part of the guarantee that does not depend on the requested version *)
Definition valid_h5_core (f : h5file) : Prop :=
  Forall (fun k => aget (h_attrs f) k <> None) (map fst H_REQUIRED_ATTRS)
  /\ Forall (fun p => hfind (h_root f) p <> None) (H_REQUIRED_GROUPS ++ H_REQUIRED_DATASETS)
  /\ exists no ns oi si,
       aget (h_attrs f) (K "shape") = Some (AInts [no; ns])
       /\ hfind (h_root f) (P2 "observation" "ids") = Some oi /\ hfind (h_root f) (P2 "sample" "ids") = Some si
       /\ no = Z.of_nat (node_len oi) /\ ns = Z.of_nat (node_len si)
       /\ ids_ok oi /\ ids_ok si
       /\ matrix_ok f 0 no ns /\ matrix_ok f 1 ns no.

(* what the version test adds: the file says the version that was asked for; for 2.1 the four
   metadata groups are there *)
Definition version_ok (ver : hver) (f : h5file) : Prop :=
  match ver with
  | HV21 => aget (h_attrs f) (K "format-version") = Some (AInts [2; 1])
            /\ Forall (fun p => hfind (h_root f) p <> None) METADATA_GROUPS
  | HV20 => aget (h_attrs f) (K "format-version") = Some (AInts [2; 0])
  end.

Lemma list_eqb_Z_true a b : list_eqb Z.eqb a b = true -> a = b.
Proof. apply list_eqb_Z_eq. Qed.

Theorem valid_sound_hdf5_as ver f : validate_hdf5_as ver f = true -> valid_h5_core f /\ version_ok ver f.
Proof.
  unfold validate_hdf5_as. destruct (validate_hdf5_report_as ver f) as [[[|] lines]|] eqn:R; try discriminate. intros _.
  unfold validate_hdf5_report_as in R.
  inv_bind R as a Ha. inv_bind R as i0 Hi0. inv_bind R as i1 Hi1. inv_bind R as s Hs. inv_bind R as v Hv.
  apply ROk_inj in R. assert (Hl := f_equal fst R). cbn [fst] in Hl. clear R.
  destruct (a ++ missing_paths f HMSG_GROUP H_REQUIRED_GROUPS 0 ++ missing_paths f HMSG_DATASET H_REQUIRED_DATASETS 0
              ++ i0 ++ i1 ++ s ++ snd v) eqn:L; [|discriminate]. clear Hl.
  apply app_nil_inv in L. destruct L as [-> L]. apply app_nil_inv in L. destruct L as [Lg L].
  apply app_nil_inv in L. destruct L as [Ld L]. apply app_nil_inv in L. destruct L as [-> L].
  apply app_nil_inv in L. destruct L as [-> L]. apply app_nil_inv in L. destruct L as [-> Lv].
  apply run_attrs_sound in Ha. apply missing_paths_sound in Lg. apply missing_paths_sound in Ld.
  assert (A : forall k v, In (k, v) H_REQUIRED_ATTRS -> exists a, aget (h_attrs f) k = Some a /\ v a = ROk None).
  { intros k v' Hin. rewrite Forall_forall in Ha. exact (Ha (k, v') Hin). }
  destruct (A (K "shape") hv_shape) as [sh [Gsh Vsh]]; [cbn; tauto|].
  destruct sh as [?|?|?|[|x [|y [|? ?]]]|[|x [|y [|? ?]]]]; try discriminate.
  rewrite Gsh in Hs.
  destruct (A (K "format-version") hv_format_version) as [fv [Gfv Vfv]]; [cbn; tauto|].
  assert (Vo : version_ok ver f).
  { unfold version_part in Hv. rewrite Gfv in Hv. destruct fv as [?|?|?|l|?]; try discriminate.
    destruct ver; cbn [version_ok].
    - destruct (list_eqb Z.eqb l [2; 0]) eqn:E.
      + apply list_eqb_Z_true in E. subst. exact Gfv.
      + apply ROk_inj in Hv. subst v. discriminate Lv.
    - destruct (list_eqb Z.eqb l [2; 1]) eqn:E.
      + apply list_eqb_Z_true in E. subst. split; [exact Gfv|].
        inv_bind Hv as e He. apply ROk_inj in Hv. subst v. cbn [snd] in Lv. subst e.
        exact (hv_metadata_sound f He).
      + apply ROk_inj in Hv. subst v. discriminate Lv. }
  split; [|exact Vo].
  unfold shape_part in Hs.
  destruct (hfind (h_root f) (P2 "observation" "ids")) as [oi|] eqn:Eo; [|discriminate].
  destruct (hfind (h_root f) (P2 "sample" "ids")) as [si|] eqn:Es; [|discriminate].
  inv_bind Hs as x0 Hx0. inv_bind Hs as x1 Hx1. apply ROk_inj in Hs. rename Hs into Hl.
  apply app_nil_inv in Hl. destruct Hl as [M3 Hl]. apply app_nil_inv in Hl. destruct Hl as [M4 Hl].
  apply app_nil_inv in Hl. destruct Hl as [-> ->].
  destruct (negb (SCALE * x =? SCALE * Z.of_nat (node_len oi))) eqn:N3; [discriminate|].
  destruct (negb (SCALE * y =? SCALE * Z.of_nat (node_len si))) eqn:N4; [discriminate|].
  apply negb_false_iff in N3, N4. apply Z.eqb_eq in N3, N4. unfold SCALE in N3, N4.
  assert (Dp : forall p, In p H_REQUIRED_DATASETS -> exists n, hfind (h_root f) p = Some n).
  { intros p Hp. rewrite Forall_forall in Ld. specialize (Ld p Hp). destruct (hfind (h_root f) p); [eauto|contradiction]. }
  destruct (Dp (P3 "observation" "matrix" "data")) as [d0 Ed0]; [cbn; tauto|].
  destruct (Dp (P3 "observation" "matrix" "indices")) as [n0 En0]; [cbn; tauto|].
  destruct (Dp (P3 "observation" "matrix" "indptr")) as [p0 Ep0]; [cbn; tauto|].
  destruct (Dp (P3 "sample" "matrix" "data")) as [d1 Ed1]; [cbn; tauto|].
  destruct (Dp (P3 "sample" "matrix" "indices")) as [n1 En1]; [cbn; tauto|].
  destruct (Dp (P3 "sample" "matrix" "indptr")) as [p1 Ep1]; [cbn; tauto|].
  split.
  { apply Forall_forall. intros k Hk. apply in_map_iff in Hk. destruct Hk as [[k' v'] [<- Hin]].
    destruct (A _ _ Hin) as [a [Ga _]]. cbn [fst]. congruence. }
  split.
  { apply Forall_app. split; [exact Lg|exact Ld]. }
  exists x, y, oi, si. split; [exact Gsh|]. split; [exact Eo|]. split; [exact Es|].
  split; [lia|]. split; [lia|].
  split; [exact (hv_ids_sound f 0 oi Hi0 Eo)|]. split; [exact (hv_ids_sound f 1 si Hi1 Es)|].
  split.
  - exact (hv_matrix_sound f 0 x y d0 n0 p0 Ed0 En0 Ep0 Hx0).
  - exact (hv_matrix_sound f 1 y x d1 n1 p1 Ed1 En1 Ep1 Hx1).
Qed.

(* the default of validate-table (and the spellings 2.1 / 2.1.0) *)
Theorem valid_sound_hdf5 f : validate_hdf5 f = true -> valid_h5 f.
Proof.
  intros H. destruct (valid_sound_hdf5_as HV21 f H) as ((A & G & E) & (_ & Md)).
  split; [exact A|]. split; [|exact E].
  apply Forall_app in G. destruct G as [Gg Gd].
  apply Forall_app. split; [exact Gg|]. apply Forall_app. split; [exact Md|exact Gd].
Qed.

(* run(): which requested versions lead where.  The four spellings of "2.1" validate against
   2.1, the two spellings of "2.0" against 2.0, everything else is refused with ValueError;
   for JSON only None / 'None' / '1.0.0' are taken *)
Lemma run_version_spellings :
  run_version_hdf5 None = ROk HV21 /\ run_version_hdf5 (Some (K "None")) = ROk HV21
  /\ run_version_hdf5 (Some (K "2.1")) = ROk HV21 /\ run_version_hdf5 (Some (K "2.1.0")) = ROk HV21
  /\ run_version_hdf5 (Some (K "2.0")) = ROk HV20 /\ run_version_hdf5 (Some (K "2.0.0")) = ROk HV20
  /\ run_version_hdf5 (Some (K "1.0.0")) = RErr E_VALUE /\ run_version_hdf5 (Some (K "3.0")) = RErr E_VALUE
  /\ run_version_hdf5 (Some (K "2")) = RErr E_VALUE /\ run_version_hdf5 (Some (K "x.y")) = RErr E_VALUE
  /\ run_version_json None = ROk tt /\ run_version_json (Some (K "None")) = ROk tt
  /\ run_version_json (Some (K "1.0.0")) = ROk tt /\ run_version_json (Some (K "1.0")) = RErr E_VALUE
  /\ run_version_json (Some (K "2.1")) = RErr E_VALUE.
Proof. repeat split; vm_compute; reflexivity. Qed.

(* so a file accepted under any accepted spelling of 2.1 has the full 2.1 structure *)
Theorem run_hdf5_sound fv f lines :
  run_hdf5 fv f = ROk (true, lines) ->
  exists ver, run_version_hdf5 fv = ROk ver /\ valid_h5_core f /\ version_ok ver f.
Proof.
  unfold run_hdf5. intros H. inv_bind H as ver Hver. exists ver. split; [exact Hver|].
  apply valid_sound_hdf5_as. unfold validate_hdf5_as. rewrite H. reflexivity.
Qed.


(* ------------------------------------------------------------------ rejections, read off soundness *)
Lemma not_valid_false j : ~ valid_doc j -> validate_json j = false.
Proof.
  intros H. destruct (validate_json j) eqn:E; [|reflexivity]. exfalso. apply H. apply valid_sound_json. exact E.
Qed.

Ltac open_valid H :=
  destruct H as (kv0 & va & vb & vrrecs & vcrecs & ventries & vmt & vmet & vdt & vE & vKeys & vHs
    & vGr & vLa & vGc & vLb & vFr & vFc & vDr & vDc & vGd & vGmt & vGme & vHin & vHdata);
  inversion vE; subst kv0; clear vE.

Corollary missing_key_rejected kv k :
  In k (map fst REQUIRED) -> jget kv k = None -> validate_json (JObj kv) = false.
Proof.
  intros Hk Hn. apply not_valid_false. intros V. open_valid V.
  rewrite Forall_forall in vKeys. exact (vKeys k Hk Hn).
Qed.

Corollary shape_mismatch_rejected kv a b recs :
  jget kv (K "shape") = Some (JArr [JInt a; JInt b]) ->
  (jget kv (K "rows") = Some (JArr recs) /\ Z.of_nat (length recs) <> a
   \/ jget kv (K "columns") = Some (JArr recs) /\ Z.of_nat (length recs) <> b) ->
  validate_json (JObj kv) = false.
Proof.
  intros Hs' H. apply not_valid_false. intros V. open_valid V.
  rewrite vHs in Hs'. inversion Hs'; subst.
  destruct H as [[G N]|[G N]]; [rewrite vGr in G|rewrite vGc in G]; inversion G; subst; contradiction.
Qed.

Corollary bad_coordinate_rejected kv a b entries e :
  jget kv (K "shape") = Some (JArr [JInt a; JInt b]) ->
  jget kv (K "matrix_type") = Some (JStr (K "sparse")) -> jget kv (K "data") = Some (JArr entries) ->
  In e entries ->
  (forall x y v, e = JArr [JInt x; JInt y; v] -> ~ (0 <= x < a /\ 0 <= y < b)) ->
  validate_json (JObj kv) = false.
Proof.
  intros Hs' Hm Hd He Bad. apply not_valid_false. intros V. open_valid V.
  rewrite vHs in Hs'. inversion Hs'; subst. rewrite vGd in Hd. inversion Hd; subst.
  rewrite vGmt in Hm. inversion Hm; subst.
  destruct vHdata as [[_ Fa]|[X _]]; [|vm_compute in X; discriminate X].
  rewrite Forall_forall in Fa. destruct (Fa e He) as (x & y & v & -> & Hx & Hy & _).
  exact (Bad x y v eq_refl (conj Hx Hy)).
Qed.

Corollary bad_element_rejected kv entries x y v met dt :
  jget kv (K "matrix_type") = Some (JStr (K "sparse")) -> jget kv (K "data") = Some (JArr entries) ->
  jget kv (K "matrix_element_type") = Some (JStr met) -> In (met, dt) ELEMENT_TYPES ->
  In (JArr [x; y; v]) entries -> py_isinstance v dt = false ->
  validate_json (JObj kv) = false.
Proof.
  intros Hm Hd Hme Hin' He Bad. apply not_valid_false. intros V. open_valid V.
  rewrite vGd in Hd. inversion Hd; subst. rewrite vGmt in Hm. inversion Hm; subst.
  rewrite vGme in Hme. inversion Hme; subst.
  assert (vdt = dt).
  { clear - vHin Hin'. unfold ELEMENT_TYPES in *. cbn [In] in *.
    destruct vHin as [H|[H|[H|[H|[]]]]]; destruct Hin' as [H'|[H'|[H'|[H'|[]]]]];
      inversion H; subst; first [congruence | (vm_compute in H'; discriminate H')]. }
  subst.
  destruct vHdata as [[_ Fa]|[X _]]; [|vm_compute in X; discriminate X].
  rewrite Forall_forall in Fa. destruct (Fa _ He) as (x' & y' & v' & E & _ & _ & Iv). inversion E; subst. congruence.
Qed.

Corollary bad_record_rejected kv key recs r :
  (key = K "rows" \/ key = K "columns") -> jget kv key = Some (JArr recs) -> In r recs ->
  ~ good_rec r -> validate_json (JObj kv) = false.
Proof.
  intros Hk G Hr Bad. apply not_valid_false. intros V. open_valid V.
  destruct Hk as [-> | ->]; [rewrite vGr in G|rewrite vGc in G]; inversion G; subst;
    [rewrite Forall_forall in vFr; exact (Bad (vFr r Hr))|rewrite Forall_forall in vFc; exact (Bad (vFc r Hr))].
Qed.

(* an empty ID, a duplicated text ID, metadata that is neither an object nor null *)
Lemma blank_id_not_good kv : jget kv (K "id") = Some (JStr []) -> ~ good_rec (JObj kv).
Proof.
  intros G (kv' & idv & md & E & Gi & T & _). inversion E; subst. rewrite G in Gi. inversion Gi; subst. discriminate.
Qed.
Lemma bad_md_not_good kv md :
  jget kv (K "metadata") = Some md -> md <> JNull -> is_obj md = false -> ~ good_rec (JObj kv).
Proof.
  intros G N O (kv' & idv & md' & E & _ & _ & _ & Gm & Hm). inversion E; subst. rewrite G in Gm. inversion Gm; subst.
  destruct Hm as [->|Hm]; [contradiction|congruence].
Qed.

Corollary duplicate_id_rejected kv key recs i j s :
  (key = K "rows" \/ key = K "columns") -> jget kv key = Some (JArr recs) ->
  (i < j)%nat -> nth_error (map rec_id recs) i = Some (JStr s) -> nth_error (map rec_id recs) j = Some (JStr s) ->
  validate_json (JObj kv) = false.
Proof.
  intros Hk G Hij Hi Hj. apply not_valid_false. intros V. open_valid V.
  assert (D : py_distinct (map rec_id recs)).
  { destruct Hk as [-> | ->]; [rewrite vGr in G|rewrite vGc in G]; inversion G; subst; assumption. }
  clear - D Hij Hi Hj. revert i j Hij Hi Hj. induction D as [|x l Fx D IH]; intros i j Hij Hi Hj.
  - destruct i; discriminate.
  - destruct j as [|j]; [lia|]. destruct i as [|i].
    + cbn [nth_error] in Hi, Hj. inversion Hi; subst. apply nth_error_In in Hj.
      rewrite Forall_forall in Fx. specialize (Fx _ Hj). unfold py_eq in Fx. cbn [numval] in Fx.
      rewrite str_eqb_refl in Fx. discriminate.
    + cbn [nth_error] in Hi, Hj. apply (IH i j); [lia|assumption|assumption].
Qed.

(* ------------------------------------------------------------------ witnesses (non-vacuity, limits) *)
Lemma witness_writable : writable witness_table.
Proof.
  destruct witness_table_ok as (W & _).
  split; [exact W|].
  split; [exists (K "OTU table"); split; [reflexivity|]; split; [discriminate|vm_compute; reflexivity]|].
  split; [repeat constructor; discriminate|]. split; [repeat constructor; discriminate|].
  split; [eexists; split; [reflexivity|discriminate]|].
  eexists; split; [reflexivity|vm_compute; reflexivity].
Qed.

Lemma witness_valid : validate_json (to_json_tree witness_table (K "None")) = true.
Proof. apply writer_valid_json. exact witness_writable. Qed.

(* IDs need not be text: a number is accepted as an ID (np.asarray turns it into text on load) *)
Definition doc_with (tweak : list (str * json) -> list (str * json)) : json :=
  JObj (tweak (to_json_fields witness_table (K "None"))).
Fixpoint jset (kv : list (str * json)) (k : str) (v : json) : list (str * json) :=
  match kv with
  | [] => [(k, v)]
  | (k', v') :: t => if str_eqb k k' then (k, v) :: t else (k', v') :: jset t k v
  end.

Lemma nontext_id_accepted :
  exists j kv recs r, validate_json j = true /\ j = JObj kv /\ jget kv (K "rows") = Some (JArr recs)
                      /\ In r recs /\ is_str (rec_id r) = false.
Proof.
  eexists (doc_with (fun kv => jset kv (K "rows")
            (JArr [jrecord (K "a") JNull; JObj [(K "id", JInt 5); (K "metadata", JNull)]]))).
  eexists. eexists. exists (JObj [(K "id", JInt 5); (K "metadata", JNull)]).
  split; [vm_compute; reflexivity|]. split; [reflexivity|]. split; [vm_compute; reflexivity|].
  split; [right; left; reflexivity|reflexivity].
Qed.

(* the same coordinate may be declared twice; the loader adds the two values up *)
Lemma duplicate_coordinates_summed :
  exists j c, validate_json j = true /\ from_json j = ROk c /\ get (j_mat c) 0 1 = 5 + 64.
Proof.
  eexists (doc_with (fun kv => jset kv (K "data")
            (JArr [JArr [JInt 0; JInt 1; JFlt 5]; JArr [JInt 0; JInt 1; JFlt 64]]))).
  eexists. split; [vm_compute; reflexivity|]. split; [vm_compute; reflexivity|]. vm_compute. reflexivity.
Qed.

(* the element types "str" / "unicode" are accepted by the validator; "str" is unknown to the loader *)
Lemma str_element_type_does_not_load :
  exists j, validate_json j = true /\ from_json j = RErr E_KEY.
Proof.
  exists (doc_with (fun kv => jset (jset kv (K "matrix_element_type") (JStr (K "str"))) (K "data") (JArr []))).
  split; vm_compute; reflexivity.
Qed.

(* a small HDF5 file the validator accepts: 1 x 2 table with one non-zero value *)
Definition witness_h5 : h5file :=
  mkH5 [(K "id", AStr (K "No Table ID")); (K "type", AStr (K "OTU table"));
        (K "format-url", AStr FORMAT_URL); (K "format-version", AInts [2; 1]);
        (K "generated-by", AStr (K "g")); (K "creation-date", AStr (K "2020-01-02T03:04:05.000006"));
        (K "shape", AInts [1; 2]); (K "nnz", AInt 1)]
       [(K "observation", HGroup [(K "ids", HStrs [K "o1"]);
                                  (K "matrix", HGroup [(K "data", HFlts [96]); (K "indices", HInts [1]);
                                                       (K "indptr", HInts [0; 1])]);
                                  (K "metadata", HGroup []); (K "group-metadata", HGroup [])]);
        (K "sample", HGroup [(K "ids", HStrs [K "s1"; K "s2"]);
                             (K "matrix", HGroup [(K "data", HFlts [96]); (K "indices", HInts [0]);
                                                  (K "indptr", HInts [0; 0; 1])]);
                             (K "metadata", HGroup []); (K "group-metadata", HGroup [])])].
Lemma witness_h5_valid : validate_hdf5 witness_h5 = true.
Proof. vm_compute. reflexivity. Qed.

(* ------------------------------------------------------------------ both writer forms *)
(* the validator only looks a key up: two objects with the same value under every key get
   the same report *)
Lemma validate_json_ext kv1 kv2 :
  (forall k, jget kv1 k = jget kv2 k) -> validate_json_report (JObj kv1) = validate_json_report (JObj kv2).
Proof.
  intros H.
  unfold validate_json_report, shape_checks, count_check, REQUIRED. cbn [run_required].
  unfold valid_format, valid_format_url, valid_type, valid_rows, valid_columns, valid_axis, valid_shape,
    valid_data, valid_sparse_data, valid_dense_data, element_dtype, valid_matrix_type,
    valid_matrix_element_type, valid_generated_by, valid_nullable_id, valid_datetime,
    py_in, py_getitem, py_get.
  rewrite !H. reflexivity.
Qed.

(* C15: the streamed (direct_io) form of the writer is accepted as well *)
Theorem writer_valid_json_direct c tid : writable c -> validate_json (to_json_tree_direct c tid) = true.
Proof.
  intros W. pose proof (writer_valid_json c tid W) as V.
  unfold validate_json in *. unfold to_json_tree_direct, to_json_tree in *.
  rewrite (validate_json_ext (to_json_fields_direct c tid) (to_json_fields c tid)); [exact V|].
  destruct (direct_io_same_doc c tid) as (_ & _ & _ & G & _). exact G.
Qed.

(* the creation dates isoformat() gives for tz-aware datetimes are accepted; corrupt offsets are not *)
Lemma date_offsets :
  forallb date_ok [K "2024-02-29T13:14:15+00:00"; K "2024-02-29T13:14:15.000007+05:30"; K "2024-02-29T13:14:15-05:30";
                   K "2024-02-29T13:14:15Z"; K "2024-02-29T13:14:15+0530"; K "2024-02-29T13:14:15+05:30:15.5"] = true
  /\ existsb date_ok [K "2024-02-29T13:14:15+0"; K "2024-02-29T13:14:15+25:00"; K "2024-02-29T13:14:15+05:30x";
                       K "2024-02-29T13:14:15z"; K "2024-02-29T13:14+00:00"; K "2024-02-29+00:00";
                       K "2024-02-29T13:14:15+0530:15"; K "2024-02-29T13:14:15+05:3015"; K "2024-02-29T13:14:15+00:60"] = false.
Proof. split; vm_compute; reflexivity. Qed.
