(* Proofs about the validator model: what a "valid" verdict guarantees (soundness), that the
   JSON writer's output is accepted, that an accepted numeric document loads. *)
From Coq Require Import String.
From Coq Require Import List Arith ZArith Lia Bool.
From BiomV Require Import Base.Tree Base.ListUtil Base.Matrix Base.TreeStr Model.Table Model.Json Model.Validator.
From BiomV Require Import Proofs.JsonProofs.
Import ListNotations.
Open Scope Z_scope.

(* ------------------------------------------------------------------ monad inversion *)
Lemma bind_ok {A B} (e : result A) (f : A -> result B) v :
  bind e f = ROk v -> exists a, e = ROk a /\ f a = ROk v.
Proof. destruct e as [a|c]; simpl; [intros H; exists a; auto|discriminate]. Qed.

Tactic Notation "inv_bind" hyp(H) "as" ident(a) ident(Ha) :=
  apply bind_ok in H; destruct H as [a [Ha H]].

Lemma py_getitem_ok j k v : py_getitem j k = ROk v -> exists kv, j = JObj kv /\ jget kv k = Some v.
Proof.
  destruct j; simpl; try discriminate. destruct (jget kv k) eqn:E; [|discriminate].
  intros H; inversion H; subst. exists kv. auto.
Qed.

Lemma py_len_iter j n : py_len j = ROk n -> exists l, py_iter j = ROk l /\ length l = n.
Proof.
  destruct j; simpl; try discriminate; intros H; inversion H; subst; eexists; split; try reflexivity.
  - apply map_length.
  - apply map_length.
Qed.

Lemma py_iter_len j l : py_iter j = ROk l -> py_len j = ROk (length l).
Proof.
  destruct j; simpl; try discriminate; intros H; inversion H; subst; try reflexivity.
  - rewrite map_length. reflexivity.
  - rewrite map_length. reflexivity.
Qed.

(* iterating anything but a list never yields an int *)
Lemma py_iter_ints j a rest : py_iter j = ROk (JInt a :: rest) -> exists l, j = JArr l.
Proof.
  destruct j; simpl; try discriminate.
  - destruct s; simpl; discriminate.
  - intros _. eexists; reflexivity.
  - destruct kv; simpl; discriminate.
Qed.

Lemma py_ne_nat_false n j : py_ne_nat n j = false -> numval j = Some (SCALE * Z.of_nat n).
Proof.
  unfold py_ne_nat. destruct (numval j) as [v|]; [|discriminate].
  intros H. apply negb_false_iff in H. apply Z.eqb_eq in H. congruence.
Qed.

Lemma py_eq_sym a b : py_eq a b = py_eq b a.
Proof.
  unfold py_eq. destruct (numval a), (numval b); try reflexivity; [apply Z.eqb_sym|].
  destruct a, b; try reflexivity.
  unfold str_eqb. destruct (list_eqb Z.eqb s s0) eqn:E.
  - apply list_eqb_Z_eq in E. subst. symmetry. apply list_eqb_Z_eq. reflexivity.
  - destruct (list_eqb Z.eqb s0 s) eqn:E2; [|reflexivity].
    apply list_eqb_Z_eq in E2. subst. rewrite (proj2 (list_eqb_Z_eq s s) eq_refl) in E. discriminate.
Qed.

(* ------------------------------------------------------------------ records of an axis *)
Definition good_rec (r : json) : Prop :=
  exists kv idv md, r = JObj kv /\ jget kv (K "id") = Some idv /\ py_truthy idv = true
    /\ py_hashable idv = true /\ jget kv (K "metadata") = Some md /\ (md = JNull \/ is_obj md = true).

Definition rec_id (r : json) : json :=
  match r with JObj kv => match jget kv (K "id") with Some v => v | None => JNull end | _ => JNull end.

(* no two IDs are equal in Python's sense (1 == 1.0 == True) *)
Inductive py_distinct : list json -> Prop :=
| pd_nil : py_distinct []
| pd_cons x l : Forall (fun y => py_eq x y = false) l -> py_distinct l -> py_distinct (x :: l).

Lemma axis_loop_sound ax recs : forall idx seen,
  axis_loop ax idx recs seen = ROk None ->
  Forall good_rec recs /\ py_distinct (map rec_id recs)
  /\ Forall (fun r => Forall (fun s => py_eq (rec_id r) s = false) seen) recs.
Proof.
  induction recs as [|r t IH]; intros idx seen H.
  - repeat split; constructor.
  - cbn [axis_loop] in H.
    inv_bind H as b1 Hb1. destruct b1; cbn [negb] in H; [|discriminate].
    inv_bind H as idv Hid. destruct (py_truthy idv) eqn:Tr; cbn [negb] in H; [|discriminate].
    inv_bind H as b2 Hb2. destruct b2; cbn [negb] in H; [|discriminate].
    inv_bind H as md Hmd. destruct (is_null md || is_obj md) eqn:Md; cbn [negb] in H; [|discriminate].
    destruct (py_hashable idv) eqn:Hh; cbn [negb] in H; [|discriminate].
    destruct (existsb (py_eq idv) seen) eqn:Ex; [discriminate|].
    apply py_getitem_ok in Hid. destruct Hid as [kv [-> Gid]].
    apply py_getitem_ok in Hmd. destruct Hmd as [kv' [E Gmd]]. inversion E; subst kv'.
    destruct (IH _ _ H) as (G & D & S).
    assert (Rid : rec_id (JObj kv) = idv) by (unfold rec_id; rewrite Gid; reflexivity).
    split; [|split].
    + constructor; [|exact G]. exists kv, idv, md. repeat split; try assumption.
      apply orb_true_iff in Md. destruct Md as [Md|Md]; [left; destruct md; try discriminate; reflexivity|right; exact Md].
    + cbn [map]. constructor; [|exact D]. rewrite Rid.
      apply Forall_forall. intros y Hy. apply in_map_iff in Hy. destruct Hy as [r' [<- Hr']].
      rewrite Forall_forall in S. specialize (S r' Hr'). inversion S as [|? ? Hs _]; subst.
      rewrite py_eq_sym. exact Hs.
    + constructor.
      * rewrite Rid. apply Forall_forall. intros s Hs.
        destruct (py_eq idv s) eqn:E'; [|reflexivity].
        assert (existsb (py_eq idv) seen = true) by (apply existsb_exists; exists s; auto). congruence.
      * eapply Forall_impl; [|exact S]. intros r' Hr'. inversion Hr'; assumption.
Qed.

Lemma valid_axis_sound ax key kv :
  valid_axis ax key (JObj kv) = ROk None ->
  exists rs recs, jget kv key = Some rs /\ py_iter rs = ROk recs /\ Forall good_rec recs
                  /\ py_distinct (map rec_id recs).
Proof.
  unfold valid_axis. intros H.
  inv_bind H as ty Hty. inv_bind H as lo Hlo. inv_bind H as rs Hrs. inv_bind H as recs Hrecs.
  apply py_getitem_ok in Hrs. destruct Hrs as [kv' [E G]]. inversion E; subst kv'.
  destruct (axis_loop_sound _ _ _ _ H) as (A & B & _).
  exists rs, recs. auto.
Qed.

(* ------------------------------------------------------------------ shape *)
Lemma valid_shape_sound kv :
  valid_shape (JObj kv) = ROk None -> exists a b, jget kv (K "shape") = Some (JArr [JInt a; JInt b]).
Proof.
  unfold valid_shape. intros H. inv_bind H as sh Hsh. inv_bind H as ab Hab.
  destruct ab as [x y]. cbn [fst snd] in H.
  destruct x; cbn [py_is_int andb] in H; try discriminate.
  destruct y; cbn [py_is_int andb] in H; try discriminate.
  unfold py_unpack2 in Hab. inv_bind Hab as l Hl.
  destruct l as [|p [|q [|? ?]]]; try discriminate. inversion Hab; subst.
  destruct (py_iter_ints _ _ _ Hl) as [l ->]. simpl in Hl. inversion Hl; subst.
  unfold py_get in Hsh. destruct (jget kv (K "shape")) eqn:E; inversion Hsh; subst.
  exists z, z0. reflexivity.
Qed.

Lemma count_check_sound kv key pos m a b rs :
  jget kv (K "shape") = Some (JArr [JInt a; JInt b]) -> jget kv key = Some rs ->
  (pos = 0 \/ pos = 1)%nat ->
  count_check (JObj kv) key pos m = ROk [] ->
  exists recs, py_iter rs = ROk recs /\ Z.of_nat (length recs) = (if (pos =? 0)%nat then a else b).
Proof.
  intros Hs Hr Hp H. unfold count_check in H. cbn [py_in py_getitem] in H. rewrite Hr, Hs in H.
  cbn [bind] in H. inv_bind H as n Hn.
  destruct (py_len_iter _ _ Hn) as [recs [I L]]. exists recs. split; [exact I|].
  destruct Hp as [-> | ->]; cbn [py_index nth_error bind Nat.eqb] in H.
  - destruct (py_ne_nat n (JInt a)) eqn:E; [discriminate|].
    apply py_ne_nat_false in E. simpl in E. inversion E. unfold SCALE in *. lia.
  - destruct (py_ne_nat n (JInt b)) eqn:E; [discriminate|].
    apply py_ne_nat_false in E. simpl in E. inversion E. unfold SCALE in *. lia.
Qed.
