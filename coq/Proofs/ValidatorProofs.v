(* Proofs about the validator model: what a "valid" verdict guarantees (soundness), that the
   JSON writer's output is accepted, that an accepted numeric document loads. *)
From Coq Require Import String.
From Coq Require Import List Arith ZArith Lia Bool.
From BiomV Require Import Base.Tree Base.ListUtil Base.Matrix Base.TreeStr Model.Table Model.Json Model.Validator.
From BiomV Require Import Proofs.JsonProofs.
Import ListNotations.
Open Scope Z_scope.

(* ------------------------------------------------------------------ monad inversion *)
Lemma bind_ok {A B} (e : result A) (f : A -> result B) v :
  bind e f = ROk v -> exists a, e = ROk a /\ f a = ROk v.
Proof. destruct e as [a|c]; simpl; [intros H; exists a; auto|discriminate]. Qed.

Tactic Notation "inv_bind" hyp(H) "as" ident(a) ident(Ha) :=
  apply bind_ok in H; destruct H as [a [Ha H]].

Lemma py_getitem_ok j k v : py_getitem j k = ROk v -> exists kv, j = JObj kv /\ jget kv k = Some v.
Proof.
  destruct j; simpl; try discriminate. destruct (jget kv k) eqn:E; [|discriminate].
  intros H; inversion H; subst. exists kv. auto.
Qed.

Lemma py_len_iter j n : py_len j = ROk n -> exists l, py_iter j = ROk l /\ length l = n.
Proof.
  destruct j; simpl; try discriminate; intros H; inversion H; subst; eexists; split; try reflexivity.
  - apply map_length.
  - apply map_length.
Qed.

Lemma py_iter_len j l : py_iter j = ROk l -> py_len j = ROk (length l).
Proof.
  destruct j; simpl; try discriminate; intros H; inversion H; subst; try reflexivity.
  - rewrite map_length. reflexivity.
  - rewrite map_length. reflexivity.
Qed.

(* iterating anything but a list never yields an int *)
Lemma py_iter_ints j a rest : py_iter j = ROk (JInt a :: rest) -> exists l, j = JArr l.
Proof.
  destruct j; simpl; try discriminate.
  - destruct s; simpl; discriminate.
  - intros _. eexists; reflexivity.
  - destruct kv; simpl; discriminate.
Qed.

Lemma py_ne_nat_false n j : py_ne_nat n j = false -> numval j = Some (SCALE * Z.of_nat n).
Proof.
  unfold py_ne_nat. destruct (numval j) as [v|]; [|discriminate].
  intros H. apply negb_false_iff in H. apply Z.eqb_eq in H. congruence.
Qed.

Lemma py_eq_sym a b : py_eq a b = py_eq b a.
Proof.
  unfold py_eq. destruct (numval a), (numval b); try reflexivity; [apply Z.eqb_sym|].
  destruct a, b; try reflexivity.
  unfold str_eqb. destruct (list_eqb Z.eqb s s0) eqn:E.
  - apply list_eqb_Z_eq in E. subst. symmetry. apply list_eqb_Z_eq. reflexivity.
  - destruct (list_eqb Z.eqb s0 s) eqn:E2; [|reflexivity].
    apply list_eqb_Z_eq in E2. subst. rewrite (proj2 (list_eqb_Z_eq s s) eq_refl) in E. discriminate.
Qed.

(* ------------------------------------------------------------------ records of an axis *)
Definition good_rec (r : json) : Prop :=
  exists kv idv md, r = JObj kv /\ jget kv (K "id") = Some idv /\ py_truthy idv = true
    /\ py_hashable idv = true /\ jget kv (K "metadata") = Some md /\ (md = JNull \/ is_obj md = true).

Definition rec_id (r : json) : json :=
  match r with JObj kv => match jget kv (K "id") with Some v => v | None => JNull end | _ => JNull end.

(* no two IDs are equal in Python's sense (1 == 1.0 == True) *)
Inductive py_distinct : list json -> Prop :=
| pd_nil : py_distinct []
| pd_cons x l : Forall (fun y => py_eq x y = false) l -> py_distinct l -> py_distinct (x :: l).

Lemma axis_loop_sound ax recs : forall idx seen,
  axis_loop ax idx recs seen = ROk None ->
  Forall good_rec recs /\ py_distinct (map rec_id recs)
  /\ Forall (fun r => Forall (fun s => py_eq (rec_id r) s = false) seen) recs.
Proof.
  induction recs as [|r t IH]; intros idx seen H.
  - repeat split; constructor.
  - cbn [axis_loop] in H.
    inv_bind H as b1 Hb1. destruct b1; cbn [negb] in H; [|discriminate].
    inv_bind H as idv Hid. destruct (py_truthy idv) eqn:Tr; cbn [negb] in H; [|discriminate].
    inv_bind H as b2 Hb2. destruct b2; cbn [negb] in H; [|discriminate].
    inv_bind H as md Hmd. destruct (is_null md || is_obj md) eqn:Md; cbn [negb] in H; [|discriminate].
    destruct (py_hashable idv) eqn:Hh; cbn [negb] in H; [|discriminate].
    destruct (existsb (py_eq idv) seen) eqn:Ex; [discriminate|].
    apply py_getitem_ok in Hid. destruct Hid as [kv [-> Gid]].
    apply py_getitem_ok in Hmd. destruct Hmd as [kv' [E Gmd]]. inversion E; subst kv'.
    destruct (IH _ _ H) as (G & D & S).
    assert (Rid : rec_id (JObj kv) = idv) by (unfold rec_id; rewrite Gid; reflexivity).
    split; [|split].
    + constructor; [|exact G]. exists kv, idv, md. repeat split; try assumption.
      apply orb_true_iff in Md. destruct Md as [Md|Md]; [left; destruct md; try discriminate; reflexivity|right; exact Md].
    + cbn [map]. constructor; [|exact D]. rewrite Rid.
      apply Forall_forall. intros y Hy. apply in_map_iff in Hy. destruct Hy as [r' [<- Hr']].
      rewrite Forall_forall in S. specialize (S r' Hr'). inversion S as [|? ? Hs _]; subst.
      rewrite py_eq_sym. exact Hs.
    + constructor.
      * rewrite Rid. apply Forall_forall. intros s Hs.
        destruct (py_eq idv s) eqn:E'; [|reflexivity].
        assert (existsb (py_eq idv) seen = true) by (apply existsb_exists; exists s; auto). congruence.
      * eapply Forall_impl; [|exact S]. intros r' Hr'. inversion Hr'; assumption.
Qed.

Lemma valid_axis_sound ax key kv :
  valid_axis ax key (JObj kv) = ROk None ->
  exists recs, jget kv key = Some (JArr recs) /\ Forall good_rec recs /\ py_distinct (map rec_id recs).
Proof.
  unfold valid_axis. intros H.
  inv_bind H as ty Hty. inv_bind H as lo Hlo. inv_bind H as rs Hrs.
  apply py_getitem_ok in Hrs. destruct Hrs as [kv' [E G]]. inversion E; subst kv'.
  destruct rs; try discriminate.
  destruct (axis_loop_sound _ _ _ _ H) as (A & B & _).
  exists l. auto.
Qed.

(* ------------------------------------------------------------------ shape *)
Lemma valid_shape_sound kv :
  valid_shape (JObj kv) = ROk None -> exists a b, jget kv (K "shape") = Some (JArr [JInt a; JInt b]).
Proof.
  unfold valid_shape. intros H. inv_bind H as sh Hsh. inv_bind H as ab Hab.
  destruct ab as [x y]. cbn [fst snd] in H.
  destruct x; cbn [py_is_int andb] in H; try discriminate.
  destruct y; cbn [py_is_int andb] in H; try discriminate.
  unfold py_unpack2 in Hab. inv_bind Hab as l Hl.
  destruct l as [|p [|q [|? ?]]]; try discriminate. inversion Hab; subst.
  destruct (py_iter_ints _ _ _ Hl) as [l ->]. simpl in Hl. inversion Hl; subst.
  unfold py_get in Hsh. destruct (jget kv (K "shape")) eqn:E; inversion Hsh; subst.
  exists z, z0. reflexivity.
Qed.

Lemma count_check_sound kv key pos m a b recs :
  jget kv (K "shape") = Some (JArr [JInt a; JInt b]) -> jget kv key = Some (JArr recs) ->
  (pos = 0 \/ pos = 1)%nat ->
  count_check (JObj kv) key pos m = ROk [] ->
  Z.of_nat (length recs) = (if (pos =? 0)%nat then a else b).
Proof.
  intros Hs Hr Hp H. unfold count_check in H. cbn [py_in py_getitem] in H. rewrite Hr, Hs in H.
  cbn [bind py_len] in H.
  destruct Hp as [-> | ->]; cbn [py_index nth_error bind] in H; cbn [Nat.eqb].
  - destruct (py_ne_nat (length recs) (JInt a)) eqn:E; [discriminate|].
    apply py_ne_nat_false in E. cbn [numval] in E.
    assert (E1 : SCALE * a = SCALE * Z.of_nat (length recs)) by congruence. unfold SCALE in E1. lia.
  - destruct (py_ne_nat (length recs) (JInt b)) eqn:E; [discriminate|].
    apply py_ne_nat_false in E. cbn [numval] in E.
    assert (E1 : SCALE * b = SCALE * Z.of_nat (length recs)) by congruence. unfold SCALE in E1. lia.
Qed.

(* ------------------------------------------------------------------ data *)
Definition entry_ok (dt : etype) (a b : Z) (e : json) : Prop :=
  exists x y v, e = JArr [JInt x; JInt y; v] /\ 0 <= x < a /\ 0 <= y < b /\ py_isinstance v dt = true.
Definition row_ok (dt : etype) (b : Z) (r : json) : Prop :=
  exists items, py_iter r = ROk items /\ Z.of_nat (length items) = b
                /\ Forall (fun v => py_isinstance v dt = true) items.

Lemma unpack3_ints e x y v : unpack3 e = Some (JInt x, y, v) -> e = JArr [JInt x; y; v].
Proof.
  unfold unpack3. destruct (py_iter e) as [l|] eqn:E; [|discriminate].
  destruct l as [|p [|q [|r [|? ?]]]]; try discriminate. intros H. inversion H; subst.
  destruct (py_iter_ints _ _ _ E) as [l ->]. simpl in E. congruence.
Qed.

Lemma sparse_loop_sound dt a b data : forall idx,
  sparse_loop dt (SCALE * a - SCALE) (SCALE * b - SCALE) idx data = None -> Forall (entry_ok dt a b) data.
Proof.
  induction data as [|e t IH]; intros idx H; [constructor|].
  cbn [sparse_loop] in H. destruct (unpack3 e) as [[[x y] v]|] eqn:U; [|discriminate].
  destruct x; try discriminate. destruct y; try discriminate.
  destruct (py_isinstance v dt) eqn:Iv; cbn [negb] in H; [|discriminate].
  destruct ((z <? 0) || (SCALE * a - SCALE <? SCALE * z)) eqn:Ex; [discriminate|].
  destruct ((z0 <? 0) || (SCALE * b - SCALE <? SCALE * z0)) eqn:Ey; [discriminate|].
  apply orb_false_iff in Ex. destruct Ex as [X1 X2]. apply orb_false_iff in Ey. destruct Ey as [Y1 Y2].
  apply Z.ltb_ge in X1, X2, Y1, Y2. unfold SCALE in *.
  constructor; [|exact (IH _ H)].
  exists z, z0, v. split; [apply unpack3_ints; exact U|]. repeat split; try lia. exact Iv.
Qed.

Lemma element_dtype_sound kv dt :
  element_dtype (JObj kv) = ROk dt ->
  exists met, jget kv (K "matrix_element_type") = Some (JStr met) /\ In (met, dt) ELEMENT_TYPES.
Proof.
  unfold element_dtype. intros H. inv_bind H as m Hm.
  apply py_getitem_ok in Hm. destruct Hm as [kv' [E G]]. inversion E; subst kv'.
  destruct (py_hashable m); cbn [negb] in H; [|discriminate].
  destruct (find (fun p => py_eq m (JStr (fst p))) ELEMENT_TYPES) as [[k t]|] eqn:F; [|discriminate].
  inversion H; subst. apply find_some in F. destruct F as [Hin He]. cbn [fst] in He.
  assert (m = JStr k).
  { unfold py_eq in He. destruct m; simpl in He; try discriminate.
    apply list_eqb_Z_eq in He. congruence. }
  subst. exists k. auto.
Qed.

Lemma dense_loop_sound dt nc rows :
  dense_loop dt nc rows = ROk None ->
  Forall (fun r => exists items, py_iter r = ROk items /\ py_ne_nat (length items) nc = false
                                 /\ Forall (fun v => py_isinstance v dt = true) items) rows.
Proof.
  induction rows as [|r t IH]; intros H; [constructor|].
  cbn [dense_loop] in H. inv_bind H as n Hn.
  destruct (py_ne_nat n nc) eqn:Ne; [discriminate|].
  inv_bind H as items Hi. destruct items as [|i0 it]; [discriminate|].
  destruct (forallb (fun v => py_isinstance v dt) (i0 :: it)) eqn:Fa; [|discriminate].
  constructor; [|exact (IH H)].
  exists (i0 :: it). split; [exact Hi|]. split.
  - apply py_iter_len in Hi. rewrite Hi in Hn. inversion Hn; subst. exact Ne.
  - apply Forall_forall. rewrite forallb_forall in Fa. exact Fa.
Qed.

Lemma py_lower_JStr v l : py_lower v = ROk l -> exists s, v = JStr s /\ l = map lower_char s.
Proof. destruct v; simpl; try discriminate. intros H; inversion H. eauto. Qed.

Lemma valid_data_sound kv a b :
  jget kv (K "shape") = Some (JArr [JInt a; JInt b]) ->
  valid_data (JObj kv) = ROk None ->
  exists entries mt met dt,
    jget kv (K "data") = Some (JArr entries) /\ jget kv (K "matrix_type") = Some (JStr mt)
    /\ jget kv (K "matrix_element_type") = Some (JStr met) /\ In (met, dt) ELEMENT_TYPES
    /\ ((map lower_char mt = K "sparse" /\ Forall (entry_ok dt a b) entries)
        \/ (map lower_char mt = K "dense" /\ Z.of_nat (length entries) = a /\ Forall (row_ok dt b) entries)).
Proof.
  intros Hs H. unfold valid_data in H.
  inv_bind H as d Hd. apply py_getitem_ok in Hd. destruct Hd as [kv' [E Gd]]. inversion E; subst kv'.
  destruct d; cbn [negb] in H; try discriminate.
  inv_bind H as mt Hmt. apply py_getitem_ok in Hmt. destruct Hmt as [kv' [E' Gmt]]. inversion E'; subst kv'.
  inv_bind H as lo Hlo. apply py_lower_JStr in Hlo. destruct Hlo as [s [-> ->]].
  destruct (str_eqb (map lower_char s) (K "sparse")) eqn:Sp.
  - apply list_eqb_Z_eq in Sp. unfold valid_sparse_data in H.
    inv_bind H as dt Hdt. destruct (element_dtype_sound _ _ Hdt) as [met [Gm Hin]].
    cbn [py_getitem] in H. rewrite Hs, Gd in H. cbn [bind py_unpack2 py_iter fst snd py_sub1 numval] in H.
    inversion H as [H1].
    exists l, s, met, dt. repeat split; try assumption. left. split; [exact Sp|].
    replace (SCALE * a - SCALE) with (SCALE * a - SCALE) in H1 by reflexivity.
    eapply sparse_loop_sound. exact H1.
  - destruct (str_eqb (map lower_char s) (K "dense")) eqn:De; [|discriminate].
    apply list_eqb_Z_eq in De. unfold valid_dense_data in H.
    inv_bind H as dt Hdt. destruct (element_dtype_sound _ _ Hdt) as [met [Gm Hin]].
    cbn [py_getitem] in H. rewrite Hs, Gd in H. cbn [bind py_unpack2 py_iter fst snd] in H.
    inv_bind H as st Hst. destruct st as [m|]; [discriminate|].
    cbn [py_len bind] in H. destruct (py_ne_nat (length l) (JInt a)) eqn:Ne; [discriminate|].
    exists l, s, met, dt. repeat split; try assumption. right. split; [exact De|]. split.
    + apply py_ne_nat_false in Ne. cbn [numval] in Ne.
      assert (E1 : SCALE * a = SCALE * Z.of_nat (length l)) by congruence. unfold SCALE in E1. lia.
    + apply dense_loop_sound in Hst. eapply Forall_impl; [|exact Hst].
      intros r (items & I & N & F). exists items. split; [exact I|]. split; [|exact F].
      apply py_ne_nat_false in N. cbn [numval] in N.
      assert (E1 : SCALE * b = SCALE * Z.of_nat (length items)) by congruence. unfold SCALE in E1. lia.
Qed.

Lemma valid_matrix_type_sound kv :
  valid_matrix_type (JObj kv) = ROk None ->
  jget kv (K "matrix_type") = Some (JStr (K "sparse")) \/ jget kv (K "matrix_type") = Some (JStr (K "dense")).
Proof.
  unfold valid_matrix_type. intros H. inv_bind H as mt Hmt.
  apply py_getitem_ok in Hmt. destruct Hmt as [kv' [E G]]. inversion E; subst kv'.
  destruct (py_hashable mt); cbn [negb] in H; [|discriminate].
  destruct (existsb (fun t => py_eq mt (JStr t)) MATRIX_TYPES) eqn:Ex; [|discriminate].
  apply existsb_exists in Ex. destruct Ex as [t [Hin He]].
  assert (mt = JStr t).
  { unfold py_eq in He. destruct mt; simpl in He; try discriminate. apply list_eqb_Z_eq in He. congruence. }
  subst. destruct Hin as [<-|[<-|[]]]; auto.
Qed.

(* ------------------------------------------------------------------ the loop over required keys *)
Lemma run_required_sound j l : forall idx,
  run_required j l idx = ROk [] -> Forall (fun km => py_in (fst km) j = ROk true /\ snd km j = ROk None) l.
Proof.
  induction l as [|[k m] t IH]; intros idx H; [constructor|].
  cbn [run_required] in H. inv_bind H as b Hb. destruct b; cbn [negb] in H.
  - inv_bind H as s Hs. inv_bind H as rest Hrest. destruct s as [x|]; [discriminate|].
    inversion H; subst. constructor; [split; assumption|]. exact (IH _ Hrest).
  - inv_bind H as rest Hrest. discriminate.
Qed.

(* what a "valid" verdict on a JSON document guarantees *)
Definition valid_doc (j : json) : Prop :=
  exists kv a b rrecs crecs entries mt met dt,
    j = JObj kv
    /\ Forall (fun k => jget kv k <> None) (map fst REQUIRED)
    /\ jget kv (K "shape") = Some (JArr [JInt a; JInt b])
    /\ jget kv (K "rows") = Some (JArr rrecs) /\ Z.of_nat (length rrecs) = a
    /\ jget kv (K "columns") = Some (JArr crecs) /\ Z.of_nat (length crecs) = b
    /\ Forall good_rec rrecs /\ Forall good_rec crecs
    /\ py_distinct (map rec_id rrecs) /\ py_distinct (map rec_id crecs)
    /\ jget kv (K "data") = Some (JArr entries)
    /\ jget kv (K "matrix_type") = Some (JStr mt)
    /\ jget kv (K "matrix_element_type") = Some (JStr met) /\ In (met, dt) ELEMENT_TYPES
    /\ ((mt = K "sparse" /\ Forall (entry_ok dt a b) entries)
        \/ (mt = K "dense" /\ Z.of_nat (length entries) = a /\ Forall (row_ok dt b) entries)).

Theorem valid_sound_json j : validate_json j = true -> valid_doc j.
Proof.
  unfold validate_json. destruct (validate_json_report j) as [[|m ms]|] eqn:R; try discriminate. intros _.
  unfold validate_json_report in R. inv_bind R as ra Hra. inv_bind R as rb Hrb.
  destruct ra; [|discriminate]. destruct rb; [|discriminate].
  apply run_required_sound in Hra.
  assert (G : forall k m, In (k, m) REQUIRED -> py_in k j = ROk true /\ m j = ROk None).
  { intros k m Hin. rewrite Forall_forall in Hra. exact (Hra (k, m) Hin). }
  destruct (G (K "format") valid_format) as [_ Vf]; [cbn; tauto|].
  unfold valid_format in Vf. inv_bind Vf as v0 Hv0. apply py_getitem_ok in Hv0. destruct Hv0 as [kv [-> _]].
  destruct (G (K "shape") valid_shape) as [_ Vs]; [cbn; tauto|].
  destruct (valid_shape_sound _ Vs) as [a [b Hs]].
  destruct (G (K "rows") valid_rows) as [_ Vr]; [cbn; tauto|].
  destruct (valid_axis_sound _ _ _ Vr) as (rrecs & Gr & Fr & Dr).
  destruct (G (K "columns") valid_columns) as [_ Vc]; [cbn; tauto|].
  destruct (valid_axis_sound _ _ _ Vc) as (crecs & Gc & Fc & Dc).
  destruct (G (K "data") valid_data) as [_ Vd]; [cbn; tauto|].
  destruct (valid_data_sound _ _ _ Hs Vd) as (entries & mt & met & dt & Gd & Gmt & Gme & Hin & Hdata).
  destruct (G (K "matrix_type") valid_matrix_type) as [_ Vm]; [cbn; tauto|].
  unfold shape_checks in Hrb. cbn [py_in] in Hrb. rewrite Hs in Hrb. cbn [bind] in Hrb.
  inv_bind Hrb as c1 Hc1. inv_bind Hrb as c2 Hc2.
  destruct c1; [|discriminate]. destruct c2; [|discriminate].
  pose proof (count_check_sound _ _ _ _ _ _ _ Hs Gr (or_introl eq_refl) Hc1) as Lr.
  pose proof (count_check_sound _ _ _ _ _ _ _ Hs Gc (or_intror eq_refl) Hc2) as Lc.
  cbn [Nat.eqb] in Lr, Lc.
  assert (Mt : mt = K "sparse" \/ mt = K "dense").
  { destruct (valid_matrix_type_sound _ Vm) as [E|E]; rewrite Gmt in E; inversion E; auto. }
  exists kv, a, b, rrecs, crecs, entries, mt, met, dt.
  split; [reflexivity|]. split.
  { apply Forall_forall. intros k Hk. apply in_map_iff in Hk. destruct Hk as [[k' m] [<- Hin']].
    destruct (G _ _ Hin') as [Pi _]. cbn [py_in fst] in Pi.
    cbn [fst]. intros En. rewrite En in Pi. discriminate. }
  repeat (split; [assumption|]).
  destruct Hdata as [[Lo Fa]|[Lo [Le Fa]]]; destruct Mt as [->| ->].
  - left. auto.
  - exfalso. revert Lo. vm_compute. discriminate.
  - exfalso. revert Lo. vm_compute. discriminate.
  - right. auto.
Qed.
