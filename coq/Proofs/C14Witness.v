(* C14: concrete documents and files (regression examples of the repaired defects F33 / F34, the
   witness of the refuted statement F35, non-vacuity examples).  The texts are what the library
   (to_json, json.dumps) and the implementation under test produced; '@' stands for a newline.
   Generated once by a script; every statement is closed by vm_compute. *)
From Coq Require Import String.
From Coq Require Import List ZArith Bool.
From BiomV Require Import Base.Tree Base.TreeStr Base.ListUtil Base.Matrix Model.Table Model.Subset Model.Slicer.
Import ListNotations.
Open Scope Z_scope.

Definition txt (s : string) : text := map (fun c => if c =? 64 then 10 else c) (codes_of_string s).

Definition doc_ok : text := Eval vm_compute in txt "{""id"": ""None"",""format"": ""Biological Observation Matrix 1.0.0"",""format_url"": ""http://biom-format.org"",""matrix_type"": ""sparse"",""generated_by"": ""g"",""date"": ""2026-10-01T00:00:00"",""type"": ""OTU table"",""matrix_element_type"": ""float"",""shape"": [3, 3],""data"": [[0,1,1.0],[0,2,2.0],[2,0,3.0],[2,2,4.5]],""rows"": [{""id"": ""o1"", ""metadata"": null},{""id"": ""o2"", ""metadata"": null},{""id"": ""o3"", ""metadata"": null}],""columns"": [{""id"": ""s1"", ""metadata"": null},{""id"": ""s2"", ""metadata"": null},{""id"": ""s3"", ""metadata"": null}]}".
Definition doc_indent : text := Eval vm_compute in txt "{@  ""id"": ""None"",@  ""format"": ""Biological Observation Matrix 1.0.0"",@  ""format_url"": ""http://biom-format.org"",@  ""matrix_type"": ""sparse"",@  ""generated_by"": ""g"",@  ""date"": ""2026-10-01T00:00:00"",@  ""type"": ""OTU table"",@  ""matrix_element_type"": ""float"",@  ""shape"": [@    3,@    3@  ],@  ""data"": [@    [@      0,@      1,@      1.0@    ],@    [@      0,@      2,@      2.0@    ],@    [@      2,@      0,@      3.0@    ],@    [@      2,@      2,@      4.5@    ]@  ],@  ""rows"": [@    {@      ""id"": ""o1"",@      ""metadata"": null@    },@    {@      ""id"": ""o2"",@      ""metadata"": null@    },@    {@      ""id"": ""o3"",@      ""metadata"": null@    }@  ],@  ""columns"": [@    {@      ""id"": ""s1"",@      ""metadata"": null@    },@    {@      ""id"": ""s2"",@      ""metadata"": null@    },@    {@      ""id"": ""s3"",@      ""metadata"": null@    }@  ]@}".
Definition doc_zero : text := Eval vm_compute in txt "{""id"": ""None"",""format"": ""Biological Observation Matrix 1.0.0"",""format_url"": ""http://biom-format.org"",""matrix_type"": ""sparse"",""generated_by"": ""g"",""date"": ""2026-10-01T00:00:00"",""type"": null,""matrix_element_type"": ""float"",""shape"": [2, 3],""data"": [],""rows"": [{""id"": ""o1"", ""metadata"": null},{""id"": ""o2"", ""metadata"": null}],""columns"": [{""id"": ""s1"", ""metadata"": null},{""id"": ""s2"", ""metadata"": null},{""id"": ""s3"", ""metadata"": null}]}".
Definition doc_bracket : text := Eval vm_compute in txt "{""id"": ""None"",""format"": ""Biological Observation Matrix 1.0.0"",""format_url"": ""http://biom-format.org"",""matrix_type"": ""sparse"",""generated_by"": ""g"",""date"": ""2026-10-01T00:00:00"",""type"": null,""matrix_element_type"": ""float"",""shape"": [3, 3],""data"": [[0,1,1.0],[0,2,2.0],[2,0,3.0],[2,2,4.5]],""rows"": [{""id"": ""o]1"", ""metadata"": null},{""id"": ""o2"", ""metadata"": null},{""id"": ""o3"", ""metadata"": null}],""columns"": [{""id"": ""s1"", ""metadata"": null},{""id"": ""s2"", ""metadata"": null},{""id"": ""s3"", ""metadata"": null}]}".
Definition doc_quote : text := Eval vm_compute in txt "{""id"": ""None"",""format"": ""Biological Observation Matrix 1.0.0"",""format_url"": ""http://biom-format.org"",""matrix_type"": ""sparse"",""generated_by"": ""g"",""date"": ""2026-10-01T00:00:00"",""type"": null,""matrix_element_type"": ""float"",""shape"": [3, 3],""data"": [[0,1,1.0],[0,2,2.0],[2,0,3.0],[2,2,4.5]],""rows"": [{""id"": ""o\""1"", ""metadata"": null},{""id"": ""o2"", ""metadata"": null},{""id"": ""o3"", ""metadata"": null}],""columns"": [{""id"": ""s1"", ""metadata"": null},{""id"": ""s2"", ""metadata"": null},{""id"": ""s3"", ""metadata"": null}]}".
Definition doc_wild : text := Eval vm_compute in txt "{""id"": ""None"",""format"": ""Biological Observation Matrix 1.0.0"",""format_url"": ""http://biom-format.org"",""matrix_type"": ""sparse"",""generated_by"": ""g"",""date"": ""2026-10-01T00:00:00"",""type"": null,""matrix_element_type"": ""float"",""shape"": [3, 3],""data"": [[0,1,1.0],[0,2,2.0],[2,0,3.0],[2,2,4.5]],""rows"": [{""id"": ""o[1}"", ""metadata"": {""a"": ""x]\""{""}},{""id"": ""o2"", ""metadata"": {""a"": ""],[""}},{""id"": ""o\""3\\"", ""metadata"": {""a"": ""\\\""""}}],""columns"": [{""id"": ""s1"", ""metadata"": null},{""id"": ""s{2"", ""metadata"": null},{""id"": ""s3"", ""metadata"": null}]}".
Definition doc_wild_indent : text := Eval vm_compute in txt "{@  ""id"": ""None"",@  ""format"": ""Biological Observation Matrix 1.0.0"",@  ""format_url"": ""http://biom-format.org"",@  ""matrix_type"": ""sparse"",@  ""generated_by"": ""g"",@  ""date"": ""2026-10-01T00:00:00"",@  ""type"": null,@  ""matrix_element_type"": ""float"",@  ""shape"": [@    3,@    3@  ],@  ""data"": [@    [@      0,@      1,@      1.0@    ],@    [@      0,@      2,@      2.0@    ],@    [@      2,@      0,@      3.0@    ],@    [@      2,@      2,@      4.5@    ]@  ],@  ""rows"": [@    {@      ""id"": ""o[1}"",@      ""metadata"": {@        ""a"": ""x]\""{""@      }@    },@    {@      ""id"": ""o2"",@      ""metadata"": {@        ""a"": ""],[""@      }@    },@    {@      ""id"": ""o\""3\\"",@      ""metadata"": {@        ""a"": ""\\\""""@      }@    }@  ],@  ""columns"": [@    {@      ""id"": ""s1"",@      ""metadata"": null@    },@    {@      ""id"": ""s{2"",@      ""metadata"": null@    },@    {@      ""id"": ""s3"",@      ""metadata"": null@    }@  ]@}".
Definition doc_mdkey : text := Eval vm_compute in txt "{""id"": ""None"",""format"": ""Biological Observation Matrix 1.0.0"",""format_url"": ""http://biom-format.org"",""matrix_type"": ""sparse"",""generated_by"": ""g"",""date"": ""2026-10-01T00:00:00"",""type"": null,""matrix_element_type"": ""float"",""shape"": [3, 3],""data"": [[0,1,1.0],[0,2,2.0],[2,0,3.0],[2,2,4.5]],""rows"": [{""id"": ""o1"", ""metadata"": {""columns"": 1}},{""id"": ""o2"", ""metadata"": {""columns"": 2}},{""id"": ""o3"", ""metadata"": {""columns"": 3}}],""columns"": [{""id"": ""s1"", ""metadata"": null},{""id"": ""s2"", ""metadata"": null},{""id"": ""s3"", ""metadata"": null}]}".
Definition out_obs : text := Eval vm_compute in txt "{@""id"": ""None""@,@""format"": ""Biological Observation Matrix 1.0.0""@,@""format_url"": ""http://biom-format.org""@,@""type"": ""OTU table""@,@""generated_by"": ""g""@,@""date"": ""2026-10-01T00:00:00""@,@""matrix_type"": ""sparse""@,@""matrix_element_type"": ""float""@,@""data"": [[0,1,1.0],[0,2,2.0],[1,0,3.0],[1,2,4.5]], ""shape"": [2, 3]@,@""rows"": [{""id"": ""o1"", ""metadata"": null}, {""id"": ""o3"", ""metadata"": null}]@,@""columns"": [{""id"": ""s1"", ""metadata"": null},{""id"": ""s2"", ""metadata"": null},{""id"": ""s3"", ""metadata"": null}]@}".
Definition out_samp_indent : text := Eval vm_compute in txt "{@""id"": ""None""@,@""format"": ""Biological Observation Matrix 1.0.0""@,@""format_url"": ""http://biom-format.org""@,@""type"": ""OTU table""@,@""generated_by"": ""g""@,@""date"": ""2026-10-01T00:00:00""@,@""matrix_type"": ""sparse""@,@""matrix_element_type"": ""float""@,@""data"": [[0,0,2.0],[2,0,4.5]], ""shape"": [3, 1]@,@""columns"": [{""id"": ""s3"", ""metadata"": null}]@,@""rows"": [@    {@      ""id"": ""o1"",@      ""metadata"": null@    },@    {@      ""id"": ""o2"",@      ""metadata"": null@    },@    {@      ""id"": ""o3"",@      ""metadata"": null@    }@  ]@}".
Definition out_gap : text := Eval vm_compute in txt "{@""id"": ""None""@,@""format"": ""Biological Observation Matrix 1.0.0""@,@""format_url"": ""http://biom-format.org""@,@""type"": ""OTU table""@,@""generated_by"": ""g""@,@""date"": ""2026-10-01T00:00:00""@,@""matrix_type"": ""sparse""@,@""matrix_element_type"": ""float""@,@""data"": [], ""shape"": [1, 3]@,@""rows"": [{""id"": ""o2"", ""metadata"": null}]@,@""columns"": [{""id"": ""s1"", ""metadata"": null},{""id"": ""s2"", ""metadata"": null},{""id"": ""s3"", ""metadata"": null}]@}".
Definition out_zero : text := Eval vm_compute in txt "{@""id"": ""None""@,@""format"": ""Biological Observation Matrix 1.0.0""@,@""format_url"": ""http://biom-format.org""@,@""type"": null@,@""generated_by"": ""g""@,@""date"": ""2026-10-01T00:00:00""@,@""matrix_type"": ""sparse""@,@""matrix_element_type"": ""float""@,@""data"": [], ""shape"": [2, 2]@,@""columns"": [{""id"": ""s1"", ""metadata"": null}, {""id"": ""s2"", ""metadata"": null}]@,@""rows"": [{""id"": ""o1"", ""metadata"": null},{""id"": ""o2"", ""metadata"": null}]@}".
Definition out_bracket_obs : text := Eval vm_compute in txt "{@""id"": ""None""@,@""format"": ""Biological Observation Matrix 1.0.0""@,@""format_url"": ""http://biom-format.org""@,@""type"": null@,@""generated_by"": ""g""@,@""date"": ""2026-10-01T00:00:00""@,@""matrix_type"": ""sparse""@,@""matrix_element_type"": ""float""@,@""data"": [[0,1,1.0],[0,2,2.0]], ""shape"": [2, 3]@,@""rows"": [{""id"": ""o]1"", ""metadata"": null}, {""id"": ""o2"", ""metadata"": null}]@,@""columns"": [{""id"": ""s1"", ""metadata"": null},{""id"": ""s2"", ""metadata"": null},{""id"": ""s3"", ""metadata"": null}]@}".
Definition out_bracket_samp : text := Eval vm_compute in txt "{@""id"": ""None""@,@""format"": ""Biological Observation Matrix 1.0.0""@,@""format_url"": ""http://biom-format.org""@,@""type"": null@,@""generated_by"": ""g""@,@""date"": ""2026-10-01T00:00:00""@,@""matrix_type"": ""sparse""@,@""matrix_element_type"": ""float""@,@""data"": [[0,0,1.0]], ""shape"": [3, 1]@,@""columns"": [{""id"": ""s2"", ""metadata"": null}]@,@""rows"": [{""id"": ""o]1"", ""metadata"": null},{""id"": ""o2"", ""metadata"": null},{""id"": ""o3"", ""metadata"": null}]@}".
Definition out_quote_obs : text := Eval vm_compute in txt "{@""id"": ""None""@,@""format"": ""Biological Observation Matrix 1.0.0""@,@""format_url"": ""http://biom-format.org""@,@""type"": null@,@""generated_by"": ""g""@,@""date"": ""2026-10-01T00:00:00""@,@""matrix_type"": ""sparse""@,@""matrix_element_type"": ""float""@,@""data"": [[0,1,1.0],[0,2,2.0]], ""shape"": [1, 3]@,@""rows"": [{""id"": ""o\""1"", ""metadata"": null}]@,@""columns"": [{""id"": ""s1"", ""metadata"": null},{""id"": ""s2"", ""metadata"": null},{""id"": ""s3"", ""metadata"": null}]@}".
Definition out_wild_obs : text := Eval vm_compute in txt "{@""id"": ""None""@,@""format"": ""Biological Observation Matrix 1.0.0""@,@""format_url"": ""http://biom-format.org""@,@""type"": null@,@""generated_by"": ""g""@,@""date"": ""2026-10-01T00:00:00""@,@""matrix_type"": ""sparse""@,@""matrix_element_type"": ""float""@,@""data"": [[0,1,1.0],[0,2,2.0],[1,0,3.0],[1,2,4.5]], ""shape"": [2, 3]@,@""rows"": [{""id"": ""o[1}"", ""metadata"": {""a"": ""x]\""{""}}, {""id"": ""o\""3\\"", ""metadata"": {""a"": ""\\\""""}}]@,@""columns"": [{""id"": ""s1"", ""metadata"": null},{""id"": ""s{2"", ""metadata"": null},{""id"": ""s3"", ""metadata"": null}]@}".
Definition out_wild_samp_indent : text := Eval vm_compute in txt "{@""id"": ""None""@,@""format"": ""Biological Observation Matrix 1.0.0""@,@""format_url"": ""http://biom-format.org""@,@""type"": null@,@""generated_by"": ""g""@,@""date"": ""2026-10-01T00:00:00""@,@""matrix_type"": ""sparse""@,@""matrix_element_type"": ""float""@,@""data"": [[0,0,1.0]], ""shape"": [3, 1]@,@""columns"": [{""id"": ""s{2"", ""metadata"": null}]@,@""rows"": [@    {@      ""id"": ""o[1}"",@      ""metadata"": {@        ""a"": ""x]\""{""@      }@    },@    {@      ""id"": ""o2"",@      ""metadata"": {@        ""a"": ""],[""@      }@    },@    {@      ""id"": ""o\""3\\"",@      ""metadata"": {@        ""a"": ""\\\""""@      }@    }@  ]@}".
Definition mdkey_columns : text := Eval vm_compute in txt """columns"": 1".

Definition id_o1 : text := Eval vm_compute in txt "o1".
Definition id_o2 : text := Eval vm_compute in txt "o2".
Definition id_o3 : text := Eval vm_compute in txt "o3".
Definition id_s1 : text := Eval vm_compute in txt "s1".
Definition id_s2 : text := Eval vm_compute in txt "s2".
Definition id_s3 : text := Eval vm_compute in txt "s3".
Definition id_ob : text := Eval vm_compute in txt "o]1".
Definition id_oq : text := Eval vm_compute in txt "o""1".
Definition id_w1 : text := Eval vm_compute in txt "o[1}".
Definition id_w3 : text := Eval vm_compute in txt "o""3\".
Definition id_ws2 : text := Eval vm_compute in txt "s{2".

(* ---- the slicer end to end: the model returns the very text the implementation wrote *)
Lemma wit_subset_obs : subset_json doc_ok Obs [id_o3; id_o1] = ROk out_obs.
Proof. vm_compute. reflexivity. Qed.
Lemma wit_subset_samp_indent : subset_json doc_indent Samp [id_s3] = ROk out_samp_indent.
Proof. vm_compute. reflexivity. Qed.
(* repaired (F33): no stored entry survives / the table has no entry at all *)
Lemma wit_no_entry_kept : subset_json doc_ok Obs [id_o2] = ROk out_gap.
Proof. vm_compute. reflexivity. Qed.
Lemma wit_zero_table : subset_json doc_zero Samp [id_s2; id_s1] = ROk out_zero.
Proof. vm_compute. reflexivity. Qed.
Lemma wit_unknown_id : subset_json doc_ok Obs [id_o1; id_s1] = RErr E_KEY.
Proof. vm_compute. reflexivity. Qed.

(* repaired (F34): brackets, braces, quotes and backslashes inside ids and metadata strings *)
Lemma wit_docs_valid : json_loads doc_bracket <> None /\ json_loads doc_quote <> None /\ json_loads doc_wild <> None
  /\ json_loads doc_mdkey <> None.
Proof. vm_compute. repeat split; discriminate. Qed.
Lemma wit_bracket_obs : subset_json doc_bracket Obs [id_o2; id_ob] = ROk out_bracket_obs /\ json_loads out_bracket_obs <> None.
Proof. vm_compute. split; [reflexivity|discriminate]. Qed.
Lemma wit_bracket_samp : subset_json doc_bracket Samp [id_s2] = ROk out_bracket_samp /\ json_loads out_bracket_samp <> None.
Proof. vm_compute. split; [reflexivity|discriminate]. Qed.
Lemma wit_quote_obs : subset_json doc_quote Obs [id_oq] = ROk out_quote_obs /\ json_loads out_quote_obs <> None.
Proof. vm_compute. split; [reflexivity|discriminate]. Qed.
Lemma wit_wild_obs : subset_json doc_wild Obs [id_w3; id_w1] = ROk out_wild_obs /\ json_loads out_wild_obs <> None.
Proof. vm_compute. split; [reflexivity|discriminate]. Qed.
Lemma wit_wild_samp_indent : subset_json doc_wild_indent Samp [id_ws2] = ROk out_wild_samp_indent /\ json_loads out_wild_samp_indent <> None.
Proof. vm_compute. split; [reflexivity|discriminate]. Qed.

(* ---- F35: observation metadata with a key named "columns" *)
Definition columns_is_1 : text := Eval vm_compute in txt """columns"": 1".       (* the text "columns": 1 *)
Lemma wit_mdkey : direct_parse_key doc_mdkey K_COLUMNS = ROk columns_is_1.
Proof. vm_compute. reflexivity. Qed.

(* ---- a stored file: 3 observations x 4 samples, an all-zero row holding a stored zero,
   unsorted indices in both orientations, an all-zero column, observation metadata only *)
Definition f0 : h5file :=
  mkH5 (mkAx [10; 20; 30] [0; 2; 3; 5]%nat [2; 1; 3; 0; 2]%nat [2; 1; 0; 3; 4] (Some [I 1; I 2; I 3]))
       (mkAx [40; 50; 60; 70] [0; 1; 2; 4; 4]%nat [2; 0; 2; 0]%nat [3; 1; 4; 2] None) 1.

Lemma wit_f0_wf : wf_fileb f0 = true.
Proof. vm_compute. reflexivity. Qed.
Lemma wit_f0_all : from_hdf5_all f0 = mkT [10; 20; 30] [40; 50; 60; 70] [[0; 1; 2; 0]; [0; 0; 0; 0]; [3; 0; 4; 0]] (Some [I 1; I 2; I 3]) None 1.
Proof. vm_compute. reflexivity. Qed.
(* ids handed over in another order; the all-zero sample 70 is dropped *)
Lemma wit_f0_obs : from_hdf5_subset [30; 10] Obs f0 = ROk (mkT [10; 30] [40; 50; 60] [[0; 1; 2]; [3; 0; 4]] (Some [I 1; I 3]) None 1).
Proof. vm_compute. reflexivity. Qed.
(* the subset empties observations 10 and 20 *)
Lemma wit_f0_samp : from_hdf5_subset [40] Samp f0 = ROk (mkT [30] [40] [[3]] (Some [I 3]) None 1).
Proof. vm_compute. reflexivity. Qed.
Lemma wit_f0_samp_nomd : from_hdf5_subset_nomd [40] Samp f0 = ROk (mkT [10; 20; 30] [40] [[0]; [0]; [3]] None None 0).
Proof. vm_compute. reflexivity. Qed.
Lemma wit_f0_unknown : from_hdf5_subset [10; 99] Obs f0 = RErr E_VALUE /\ from_hdf5_subset_nomd [10; 99] Obs f0 = RErr E_VALUE.
Proof. vm_compute. split; reflexivity. Qed.
Lemma wit_f0_repeated : from_hdf5_subset [10; 10] Obs f0 = RErr E_VALUE /\ exists t, from_hdf5_subset_nomd [10; 10] Obs f0 = ROk t.
Proof. vm_compute. split; [reflexivity|eexists; reflexivity]. Qed.
