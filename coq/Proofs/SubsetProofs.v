(* Proofs for the array-level part of C14 (Model/Subset.v). *)
From Coq Require Import List Arith ZArith Lia Bool Permutation.
From BiomV Require Import Base.Tree Base.ListUtil Base.Matrix Model.Table Model.Subset.
Import ListNotations.

(* ------------------------------------------------------------------ lists *)
Lemma select_map {A B} (f : A -> B) mask l : select mask (map f l) = map f (select mask l).
Proof.
  revert l; induction mask as [|b m IH]; intros [|x t]; simpl; try reflexivity.
  destruct b; simpl; rewrite IH; reflexivity.
Qed.

Lemma select_seq mask k : select mask (seq k (length mask)) = positions_from k mask.
Proof.
  revert k; induction mask as [|b m IH]; intros k; simpl; [reflexivity|].
  destruct b; rewrite IH; reflexivity.
Qed.

Lemma map_nth_seq {A B} (g : A -> B) (l : list A) d :
  map (fun k => g (nth k l d)) (seq 0 (length l)) = map g l.
Proof.
  induction l as [|x t IH]; simpl; [reflexivity|].
  f_equal. rewrite <- seq_shift, map_map. exact IH.
Qed.

Lemma select_positions {A} mask (l : list A) d :
  length mask = length l -> map (fun i => nth i l d) (positions mask) = select mask l.
Proof.
  intros H. unfold positions. rewrite <- select_seq, <- select_map, H.
  rewrite (map_nth_seq (fun x => x)), map_id. reflexivity.
Qed.

Lemma select_via_positions {A B} (F : nat -> B) mask (l : list A) :
  length mask = length l -> select mask (map F (seq 0 (length l))) = map F (positions mask).
Proof.
  intros H. rewrite select_map, <- H, select_seq. reflexivity.
Qed.

Lemma positions_from_length {A} mask (l : list A) k :
  length mask = length l -> length (positions_from k mask) = length (select mask l).
Proof.
  revert l k; induction mask as [|b m IH]; intros [|x t] k H; simpl in *; try discriminate; [reflexivity|].
  destruct b; simpl; rewrite (IH t) by lia; reflexivity.
Qed.

Lemma select_filter (p : Z -> bool) l : select (map p l) l = filter p l.
Proof. induction l as [|x t IH]; simpl; [reflexivity|]. destruct (p x); rewrite IH; reflexivity. Qed.

Lemma select_all {A} (l : list A) (m : list bool) :
  length m = length l -> Forall (fun b => b = true) m -> select m l = l.
Proof.
  revert l; induction m as [|b m IH]; intros [|x t] H F; simpl in *; try discriminate; [reflexivity|].
  inversion F; subst. f_equal. apply IH; [lia|assumption].
Qed.

Lemma select_nil_all_false {A} (m : list bool) (l : list A) :
  length m = length l -> select m l = [] -> Forall (fun b => b = false) m.
Proof.
  revert l; induction m as [|b m IH]; intros [|x t] H E; simpl in *; try discriminate; [constructor|].
  destruct b; [discriminate|]. constructor; [reflexivity|]. apply (IH t); [lia|exact E].
Qed.

(* ------------------------------------------------------------------ slices of a concatenation *)
Lemma slice_length {A} s e (l : list A) : s <= e -> e <= length l -> length (slice s e l) = e - s.
Proof. intros H1 H2. unfold slice. rewrite firstn_length, skipn_length. lia. Qed.

Definition offs_from {A} (a : nat) (segs : list (list A)) : list nat := a :: cumsum_from a (map (@length A) segs).

Lemma reslice_from {A} (segs : list (list A)) : forall k a pre,
  length pre = a -> k < length segs ->
  slice (nth k (offs_from a segs) 0) (nth (S k) (offs_from a segs) 0) (pre ++ concat segs) = nth k segs [].
Proof.
  induction segs as [|x r IH]; intros k a pre Hp Hk; simpl in Hk; [lia|].
  destruct k as [|k].
  - unfold offs_from; simpl. unfold slice.
    replace (a + length x - a) with (length x) by lia.
    rewrite <- Hp, skipn_app, skipn_all, Nat.sub_diag. simpl.
    rewrite firstn_app, firstn_all, Nat.sub_diag. simpl. apply app_nil_r.
  - unfold offs_from in *. simpl map. simpl cumsum_from.
    change (nth (S k) (a :: (a + length x) :: cumsum_from (a + length x) (map (@length A) r)) 0)
      with (nth k ((a + length x) :: cumsum_from (a + length x) (map (@length A) r)) 0).
    change (nth (S (S k)) (a :: (a + length x) :: cumsum_from (a + length x) (map (@length A) r)) 0)
      with (nth (S k) ((a + length x) :: cumsum_from (a + length x) (map (@length A) r)) 0).
    simpl concat. rewrite app_assoc.
    rewrite (IH k (a + length x) (pre ++ x)); [reflexivity|rewrite app_length; lia|lia].
Qed.

Definition range_ok (n : nat) (se : nat * nat) : Prop := fst se <= snd se /\ snd se <= n.

Lemma new_indptr_offs {A} (l : list A) ranges :
  Forall (range_ok (length l)) ranges ->
  new_indptr ranges = offs_from 0 (map (fun se => slice (fst se) (snd se) l) ranges).
Proof.
  intros F. unfold new_indptr, offs_from. f_equal. rewrite map_map. f_equal.
  apply map_ext_in. intros se Hin. rewrite Forall_forall in F. destruct (F se Hin) as [H1 H2].
  symmetry. apply slice_length; assumption.
Qed.

Lemma gather_concat {A} ranges (l : list A) :
  gather ranges l = concat (map (fun se => slice (fst se) (snd se) l) ranges).
Proof. unfold gather. apply flat_map_concat_map. Qed.

(* re-slicing the gathered array with the rebuilt indptr gives back the original slice *)
Lemma reslice {A} (l : list A) ranges k :
  Forall (range_ok (length l)) ranges -> k < length ranges ->
  slice (nth k (new_indptr ranges) 0) (nth (S k) (new_indptr ranges) 0) (gather ranges l)
  = slice (fst (nth k ranges (0, 0))) (snd (nth k ranges (0, 0))) l.
Proof.
  intros F Hk. rewrite (new_indptr_offs l ranges F), gather_concat.
  pose proof (reslice_from (map (fun se => slice (fst se) (snd se) l) ranges) k 0 [] eq_refl) as R.
  simpl app in R. rewrite R by (rewrite map_length; exact Hk). clear R.
  rewrite (nth_indep _ [] ((fun se => slice (fst se) (snd se) l) (0, 0))) by (rewrite map_length; exact Hk).
  rewrite (map_nth (fun se => slice (fst se) (snd se) l)). reflexivity.
Qed.

(* ------------------------------------------------------------------ sorted() is the identity here *)
Fixpoint lsorted (l : list (nat * nat)) : Prop :=
  match l with
  | a :: t => match t with [] => True | b :: _ => pair_le a b = true /\ lsorted t end
  | [] => True
  end.

Lemma sort_pairs_sorted l : lsorted l -> sort_pairs l = l.
Proof.
  induction l as [|a t IH]; intros H; [reflexivity|].
  simpl. destruct t as [|b t'].
  - reflexivity.
  - destruct H as [H1 H2]. rewrite (IH H2). simpl. rewrite H1. reflexivity.
Qed.

Fixpoint incr (l : list nat) : Prop :=
  match l with
  | a :: t => match t with [] => True | b :: _ => a < b /\ incr t end
  | [] => True
  end.

Lemma positions_from_bounds mask k i : In i (positions_from k mask) -> k <= i < k + length mask.
Proof.
  revert k; induction mask as [|b m IH]; intros k H; simpl in *; [contradiction|].
  destruct b; [destruct H as [H|H]; [subst; lia|]|]; apply IH in H; lia.
Qed.

Lemma positions_from_incr mask k : incr (positions_from k mask).
Proof.
  revert k; induction mask as [|b m IH]; intros k; simpl; [exact Logic.I|].
  destruct b; [|apply IH].
  simpl. destruct (positions_from (S k) m) as [|j r] eqn:E; [exact Logic.I|].
  split; [|rewrite <- E; apply IH].
  assert (In j (positions_from (S k) m)) as Hj by (rewrite E; left; reflexivity).
  apply positions_from_bounds in Hj. lia.
Qed.

Lemma monotone_nth l : monotone l -> forall i j, i <= j -> j < length l -> nth i l 0 <= nth j l 0.
Proof.
  induction l as [|a t IH]; intros M i j Hij Hj; simpl in Hj; [lia|].
  destruct t as [|b t'].
  - destruct i, j; simpl in *; try lia.
  - destruct M as [Hab M']. destruct j as [|j]; [assert (i = 0) by lia; subst; lia|].
    destruct i as [|i].
    + specialize (IH M' 0 j). simpl in IH. simpl in Hj.
      transitivity b; [exact Hab|]. apply IH; lia.
    + specialize (IH M' i j). simpl in *. apply IH; lia.
Qed.

Lemma ranges_sorted indptr keep :
  monotone indptr -> incr keep -> (forall i, In i keep -> S i < length indptr) ->
  lsorted (ranges_of indptr keep).
Proof.
  intros M. induction keep as [|i t IH]; intros Hin Hb; [exact Logic.I|].
  simpl. destruct t as [|j t'].
  - exact Logic.I.
  - destruct Hin as [Hij Hin']. split.
    + unfold pair_le; simpl.
      assert (Hj : S j < length indptr) by (apply Hb; right; left; reflexivity).
      pose proof (monotone_nth indptr M i j ltac:(lia) ltac:(lia)) as H1.
      pose proof (monotone_nth indptr M (S i) (S j) ltac:(lia) ltac:(lia)) as H2.
      destruct (Nat.ltb (nth i indptr 0) (nth j indptr 0)) eqn:E; [reflexivity|].
      apply Nat.ltb_ge in E. simpl.
      assert (nth i indptr 0 = nth j indptr 0) as Eq by lia.
      rewrite Eq, Nat.eqb_refl. simpl. apply Nat.leb_le. exact H2.
    + apply IH; [exact Hin'|]. intros k Hk. apply Hb. right. exact Hk.
Qed.

Lemma ranges_valid indptr keep n :
  monotone indptr -> Forall (fun p => p <= n) indptr -> (forall i, In i keep -> S i < length indptr) ->
  Forall (range_ok n) (ranges_of indptr keep).
Proof.
  intros M B Hb. unfold ranges_of. apply Forall_forall. intros se Hse.
  apply in_map_iff in Hse. destruct Hse as [i [E Hi]]. subst se. unfold range_ok; simpl.
  specialize (Hb i Hi). split.
  - apply monotone_nth; [exact M|lia|exact Hb].
  - rewrite Forall_forall in B. apply B. apply nth_In. exact Hb.
Qed.

(* ------------------------------------------------------------------ the rebuilt arrays denote the selected vectors *)
Lemma dense_sub minor indptr indices (data : list Z) keep :
  monotone indptr -> Forall (fun p => p <= length data) indptr -> length indices = length data ->
  (forall i, In i keep -> S i < length indptr) ->
  let ranges := ranges_of indptr keep in
  dense_of_cs (length keep) minor (new_indptr ranges) (gather ranges indices) (gather ranges data)
  = map (seg_row minor indptr indices data) keep.
Proof.
  intros M B L Hb ranges.
  assert (Fd : Forall (range_ok (length data)) ranges) by (apply ranges_valid; assumption).
  assert (Fi : Forall (range_ok (length indices)) ranges) by (rewrite L; exact Fd).
  assert (Lr : length ranges = length keep) by (unfold ranges, ranges_of; apply map_length).
  unfold dense_of_cs.
  rewrite <- (map_nth_seq (seg_row minor indptr indices data) keep 0).
  apply map_ext_in. intros k Hk. apply in_seq in Hk.
  unfold seg_row.
  rewrite (reslice indices ranges k Fi) by lia.
  rewrite (reslice data ranges k Fd) by lia.
  unfold ranges, ranges_of.
  rewrite (nth_indep _ (0, 0) ((fun i => (nth i indptr 0, nth (S i) indptr 0)) 0)) by (rewrite map_length; lia).
  rewrite (map_nth (fun i => (nth i indptr 0, nth (S i) indptr 0))). reflexivity.
Qed.

Lemma dense_select minor indptr indices (data : list Z) (mask : list bool) n :
  length mask = n ->
  select mask (dense_of_cs n minor indptr indices data)
  = map (seg_row minor indptr indices data) (positions mask).
Proof.
  intros H. unfold dense_of_cs, positions. rewrite select_map, <- H, select_seq. reflexivity.
Qed.

(* ------------------------------------------------------------------ orientation *)
Lemma transpose_select c mask (D : matrix) : transpose c (select mask D) = sel_cols mask (transpose c D).
Proof.
  unfold transpose, sel_cols. rewrite map_map. apply map_ext. intros j.
  unfold mcol. rewrite select_map. reflexivity.
Qed.

(* ------------------------------------------------------------------ requests *)
Lemma id_mask_length ids_ l : length (id_mask ids_ l) = length l.
Proof. apply map_length. Qed.

Lemma kept_is_filter ids_ l : select (id_mask ids_ l) l = filter (fun i => zmem i ids_) l.
Proof. apply select_filter. Qed.

Lemma kept_length_known ids_ l :
  NoDup l -> NoDup ids_ -> (forall i, In i ids_ -> In i l) ->
  length (select (id_mask ids_ l) l) = length ids_.
Proof.
  intros Nl Ni Hsub. rewrite kept_is_filter. apply Nat.le_antisymm.
  - apply NoDup_incl_length; [apply NoDup_filter; exact Nl|].
    intros x Hx. apply filter_In in Hx. apply zmem_In. tauto.
  - apply NoDup_incl_length; [exact Ni|].
    intros x Hx. apply filter_In. split; [apply Hsub; exact Hx|apply zmem_In; exact Hx].
Qed.

Lemma kept_length_unknown ids_ l x :
  NoDup l -> In x ids_ -> ~ In x l -> length (select (id_mask ids_ l) l) < length ids_.
Proof.
  intros Nl Hx Hn. rewrite kept_is_filter.
  assert (NoDup (x :: filter (fun i => zmem i ids_) l)) as N.
  { constructor; [|apply NoDup_filter; exact Nl]. intros H. apply filter_In in H. tauto. }
  pose proof (NoDup_incl_length N (l' := ids_)) as H. simpl in H.
  assert (incl (x :: filter (fun i => zmem i ids_) l) ids_) as Hi.
  { intros y [Hy|Hy]; [subst; exact Hx|]. apply filter_In in Hy. apply zmem_In. tauto. }
  specialize (H Hi). lia.
Qed.

Lemma id_mask_perm ids1 ids2 l : (forall i, In i ids1 <-> In i ids2) -> id_mask ids1 l = id_mask ids2 l.
Proof.
  intros H. unfold id_mask. apply map_ext. intros x.
  destruct (zmem x ids1) eqn:E1, (zmem x ids2) eqn:E2; try reflexivity.
  - apply zmem_In in E1. apply H in E1. apply zmem_In in E1. congruence.
  - apply zmem_In in E2. apply H in E2. apply zmem_In in E2. congruence.
Qed.

(* ------------------------------------------------------------------ metadata *)
Lemma subset_md_select md mask n :
  md_ok md n -> md <> Some [] -> length mask = n -> select mask (seq 0 n) <> [] ->
  subset_md md mask = option_map (select mask) md.
Proof.
  intros Hok Hne Hl Hsel. destruct md as [l|]; [|reflexivity]. simpl in *.
  destruct l as [|x t]; [congruence|]. cbn [subset_md].
  destruct (select mask (x :: t)) as [|y r] eqn:E; [|reflexivity].
  exfalso. apply Hsel.
  assert (Forall (fun b => b = false) mask) as F by (apply (select_nil_all_false mask (x :: t)); [lia|exact E]).
  clear - F Hl. revert n Hl. generalize 0. induction mask as [|b m IH]; intros k n Hl; [reflexivity|].
  inversion F; subst. simpl. apply (IH H2 (S k) (length m) eq_refl).
Qed.

Lemma subset_md_ones md (l : list Z) :
  md_ok md (length l) -> md <> Some [] -> subset_md md (map (fun _ => true) l) = md.
Proof.
  intros Hok Hne. destruct md as [m|]; [|reflexivity]. simpl in Hok.
  destruct m as [|x t]; [congruence|]. cbn [subset_md].
  rewrite select_all; [reflexivity|rewrite map_length; lia|].
  apply Forall_forall. intros b Hb. apply in_map_iff in Hb. destruct Hb as [? [E _]]. congruence.
Qed.

(* ------------------------------------------------------------------ the subset readers *)
Lemma match_nonnil {A B} (l : list A) (x y : B) : l <> [] -> match l with [] => x | _ :: _ => y end = y.
Proof. destruct l; [congruence|reflexivity]. Qed.

Lemma wf_stored a f : wf_file f -> wf_axis (stored a f) /\ wf_axis (stored (other a) f).
Proof. intros (Wo & Ws & _). destruct a; simpl; tauto. Qed.

Lemma positions_nonempty (mask : list bool) (l : list Z) n :
  length mask = length l -> length (select mask l) = n -> n <> 0 -> positions mask <> [].
Proof.
  intros Hl Hs Hn E. unfold positions in E.
  pose proof (positions_from_length mask l 0 Hl) as H. rewrite E in H. simpl in H. lia.
Qed.

Lemma keep_in_range (mask : list bool) (A : h5axis) :
  length mask = length (ax_ids A) -> length (ax_indptr A) = S (length (ax_ids A)) ->
  forall i, In i (positions mask) -> S i < length (ax_indptr A).
Proof. intros Hl Hp i Hi. apply positions_from_bounds in Hi. lia. Qed.

(* the matrix both subset readers rebuild = the selected vectors of the stored orientation *)
Lemma sub_dense a f mask :
  wf_axis (stored a f) -> length mask = length (file_ids a f) ->
  let A := stored a f in
  let ranges := ranges_of (ax_indptr A) (positions mask) in
  dense_of_cs (length (positions mask)) (length (file_ids (other a) f))
              (new_indptr ranges) (gather ranges (ax_indices A)) (gather ranges (ax_data A))
  = select mask (axis_dense a f).
Proof.
  intros (_ & Hp & Hm & Hb & Hi & _) Hl A ranges. unfold axis_dense. fold A.
  rewrite (dense_select _ _ _ _ mask (length (ax_ids A))) by exact Hl.
  apply dense_sub; try assumption. apply keep_in_range; assumption.
Qed.

Lemma ids_nonempty_length (l : list Z) : l <> [] -> length l <> 0.
Proof. destruct l; [congruence|simpl; lia]. Qed.

Lemma select_seq_nonempty mask n : length mask = n -> positions mask <> [] -> select mask (seq 0 n) <> [].
Proof. intros H P. rewrite <- H, select_seq. exact P. Qed.

(* ---- metadata normalisation *)
Lemma forallb_select {A} (p : A -> bool) mask l : forallb p l = true -> forallb p (select mask l) = true.
Proof.
  revert l; induction mask as [|b m IH]; intros [|x t] H; simpl in *; try reflexivity.
  apply andb_true_iff in H. destruct H as [H1 H2]. destruct b; simpl; [rewrite H1|]; apply IH; exact H2.
Qed.

Lemma cast_md_idem md : cast_md (cast_md md) = cast_md md.
Proof. destruct md as [l|]; [|reflexivity]. simpl. destruct (forallb md_empty l) eqn:E; [reflexivity|]. simpl. rewrite E. reflexivity. Qed.

Lemma cast_md_select mask md :
  cast_md (option_map (select mask) (cast_md md)) = cast_md (option_map (select mask) md).
Proof.
  destruct md as [l|]; [|reflexivity]. simpl. destruct (forallb md_empty l) eqn:E; [|reflexivity].
  simpl. rewrite (forallb_select md_empty mask l E). reflexivity.
Qed.

Lemma cast_sel a mask t : cast_t (sel a mask (cast_t t)) = cast_t (sel a mask t).
Proof.
  destruct a; unfold cast_t; cbn [sel oids sids mat omd smd ttype]; f_equal;
    first [apply cast_md_select | apply cast_md_idem].
Qed.

Lemma ids_cast a t : ids a (cast_t t) = ids a t.
Proof. destruct a; reflexivity. Qed.

Theorem hdf5_subset_eq_proof ids_ a f :
  wf_file f -> NoDup ids_ -> ids_ <> [] -> (forall i, In i ids_ -> In i (file_ids a f)) ->
  from_hdf5_subset ids_ a f = ROk (drop_empty_other a (filter_ids ids_ a (from_hdf5_all f))).
Proof.
  intros W Nd Hne Hsub. destruct (wf_stored a f W) as [WA WO]. destruct W as (_ & _ & V).
  pose proof WA as (NA & HpA & HmA & HbA & HiA & HmdA & HneA).
  pose proof WO as (NO & _ & _ & _ & _ & HmdO & HneO).
  unfold from_hdf5_subset. cbv zeta.
  set (mask := id_mask ids_ (ax_ids (stored a f))).
  assert (Hml : length mask = length (ax_ids (stored a f))) by apply id_mask_length.
  assert (Hlen : length (select mask (ax_ids (stored a f))) = length ids_)
    by (apply kept_length_known; assumption).
  rewrite Hlen, Nat.eqb_refl. cbn [negb].
  assert (Hkeep : positions mask <> [])
    by (apply (positions_nonempty mask (ax_ids (stored a f)) (length ids_) Hml Hlen), ids_nonempty_length, Hne).
  rewrite sort_pairs_sorted
    by (apply ranges_sorted; [exact HmA|apply positions_from_incr|apply keep_in_range; assumption]).
  rewrite match_nonnil
    by (unfold ranges_of; intros E; apply map_eq_nil in E; contradiction).
  f_equal. unfold drop_empty_other. f_equal.
  pose proof (sub_dense a f mask WA Hml) as D. cbv zeta in D. unfold file_ids in D at 1. rewrite D. clear D.
  rewrite (subset_md_select _ mask (length (ax_ids (stored a f))) HmdA HneA Hml
             (select_seq_nonempty mask _ Hml Hkeep)).
  rewrite (subset_md_ones _ (ax_ids (stored (other a) f)) HmdO HneO).
  unfold filter_ids, flt, from_hdf5_all. rewrite ids_cast, cast_sel. f_equal.
  unfold views_agree, file_ids in *.
  destruct a; cbn [put_axis sel ids oids sids mat omd smd ttype orient stored other] in *; fold mask.
  - f_equal. unfold sel_rows. rewrite V. reflexivity.
  - f_equal. apply transpose_select.
Qed.

Theorem hdf5_subset_refuses_proof ids_ a f :
  wf_file f -> (exists i, In i ids_ /\ ~ In i (file_ids a f)) -> from_hdf5_subset ids_ a f = RErr E_VALUE.
Proof.
  intros W [x [Hx Hn]]. destruct (wf_stored a f W) as [(NA & _) _].
  unfold from_hdf5_subset. cbv zeta.
  pose proof (kept_length_unknown ids_ (ax_ids (stored a f)) x NA Hx Hn) as H.
  destruct (Nat.eqb _ _) eqn:E; [apply Nat.eqb_eq in E; lia|reflexivity].
Qed.

(* a repeated id in the request is refused as well (the shapes differ) *)
Theorem hdf5_subset_dup_refused_proof ids_ a f :
  wf_file f -> ~ NoDup ids_ -> from_hdf5_subset ids_ a f = RErr E_VALUE.
Proof.
  intros W Hd. destruct (wf_stored a f W) as [(NA & _) _].
  unfold from_hdf5_subset. cbv zeta. rewrite kept_is_filter.
  destruct (Nat.eqb _ _) eqn:E; [|reflexivity]. exfalso. apply Nat.eqb_eq in E.
  apply Hd. apply (NoDup_incl_NoDup (l := filter (fun i => zmem i ids_) (ax_ids (stored a f)))).
  - apply NoDup_filter. exact NA.
  - lia.
  - intros x Hx. apply filter_In in Hx. apply zmem_In. tauto.
Qed.

Theorem hdf5_subset_order_proof ids1 ids2 a f :
  Permutation ids1 ids2 -> from_hdf5_subset ids1 a f = from_hdf5_subset ids2 a f.
Proof.
  intros P. unfold from_hdf5_subset. cbv zeta.
  rewrite (id_mask_perm ids1 ids2) by (intros i; split; apply Permutation_in; [exact P|symmetry; exact P]).
  rewrite (Permutation_length P). reflexivity.
Qed.

(* ---- metadata-free variant *)
Lemma forallb_known ids_ l : (forall i, In i ids_ -> In i l) -> forallb (fun i => zmem i l) ids_ = true.
Proof. intros H. apply forallb_forall. intros x Hx. apply zmem_In. apply H. exact Hx. Qed.

Lemma existsb_mask_nonempty ids_ l :
  ids_ <> [] -> (forall i, In i ids_ -> In i l) -> positions (id_mask ids_ l) <> [].
Proof.
  intros Hne Hsub. destruct ids_ as [|x t]; [congruence|].
  assert (In x l) as Hx by (apply Hsub; left; reflexivity).
  intros E. unfold positions in E.
  pose proof (positions_from_length (id_mask (x :: t) l) l 0 (id_mask_length _ _)) as H.
  rewrite E, kept_is_filter in H. simpl in H.
  assert (In x (filter (fun i => zmem i (x :: t)) l)) as Hf
    by (apply filter_In; split; [exact Hx|apply zmem_In; left; reflexivity]).
  destruct (filter _ l); [contradiction|discriminate].
Qed.

Theorem hdf5_subset_nomd_eq_proof ids_ a f :
  wf_file f -> ids_ <> [] -> (forall i, In i ids_ -> In i (file_ids a f)) ->
  from_hdf5_subset_nomd ids_ a f = ROk (strip_md (filter_ids ids_ a (from_hdf5_all f))).
Proof.
  intros W Hne Hsub. destruct (wf_stored a f W) as [WA WO]. destruct W as (_ & _ & V).
  pose proof WA as (NA & HpA & HmA & HbA & HiA & HmdA & HneA).
  unfold from_hdf5_subset_nomd. cbv zeta. unfold file_ids in Hsub.
  rewrite (forallb_known ids_ _ Hsub). cbn [negb].
  set (mask := id_mask ids_ (ax_ids (stored a f))).
  assert (Hml : length mask = length (ax_ids (stored a f))) by apply id_mask_length.
  assert (Hkeep : positions mask <> []) by (apply existsb_mask_nonempty; assumption).
  rewrite match_nonnil
    by (unfold ranges_of; intros E; apply map_eq_nil in E; contradiction).
  f_equal.
  pose proof (sub_dense a f mask WA Hml) as D. cbv zeta in D. unfold file_ids in D at 1. rewrite D. clear D.
  rewrite (select_positions mask (ax_ids (stored a f)) 0%Z Hml).
  unfold strip_md, filter_ids, flt, from_hdf5_all. rewrite ids_cast.
  unfold views_agree, file_ids in *.
  destruct a; cbn [cast_t put_axis sel ids oids sids mat omd smd ttype orient stored other] in *; fold mask.
  - f_equal. unfold sel_rows. rewrite V. reflexivity.
  - f_equal. apply transpose_select.
Qed.

Theorem hdf5_subset_nomd_refuses_proof ids_ a f :
  (exists i, In i ids_ /\ ~ In i (file_ids a f)) -> from_hdf5_subset_nomd ids_ a f = RErr E_VALUE.
Proof.
  intros [x [Hx Hn]]. unfold from_hdf5_subset_nomd. cbv zeta.
  destruct (forallb _ ids_) eqn:E; [|reflexivity].
  exfalso. apply Hn. rewrite forallb_forall in E. apply zmem_In. apply E. exact Hx.
Qed.

Theorem hdf5_subset_nomd_order_proof ids1 ids2 a f :
  (forall i, In i ids1 <-> In i ids2) -> from_hdf5_subset_nomd ids1 a f = from_hdf5_subset_nomd ids2 a f.
Proof.
  intros P. unfold from_hdf5_subset_nomd. cbv zeta.
  rewrite (id_mask_perm ids1 ids2 _ P).
  replace (forallb (fun i => zmem i (ax_ids (stored a f))) ids1) with (forallb (fun i => zmem i (ax_ids (stored a f))) ids2);
    [reflexivity|].
  destruct (forallb _ ids2) eqn:E2, (forallb _ ids1) eqn:E1; try reflexivity.
  - rewrite forallb_forall in E2. assert (forallb (fun i => zmem i (ax_ids (stored a f))) ids1 = true); [|congruence].
    apply forallb_forall. intros x Hx. apply E2. apply P. exact Hx.
  - rewrite forallb_forall in E1. assert (forallb (fun i => zmem i (ax_ids (stored a f))) ids2 = true); [|congruence].
    apply forallb_forall. intros x Hx. apply E1. apply P. exact Hx.
Qed.

(* ---- parse_table(json, ids=, axis=) *)
Theorem parse_table_subset_eq_proof ids_ a t :
  parse_table_subset ids_ a t = drop_empty_other a (filter_ids ids_ a t).
Proof.
  unfold parse_table_subset, drop_empty_other, drop_empty, filter_by, filter_ids, nonzero_mask, gt_zero_p, subset_ids_p, id_mask.
  rewrite (map_nth_seq (fun i => zmem i ids_) (ids a t) 0%Z). reflexivity.
Qed.

Theorem filter_ids_set_proof ids1 ids2 a t :
  (forall i, In i ids1 <-> In i ids2) -> filter_ids ids1 a t = filter_ids ids2 a t.
Proof. intros H. unfold filter_ids. rewrite (id_mask_perm ids1 ids2 _ H). reflexivity. Qed.

(* unknown ids are ignored by the JSON reader *)
Theorem parse_table_unknown_ignored_proof ids_ a t :
  parse_table_subset ids_ a t = parse_table_subset (filter (fun i => zmem i (ids a t)) ids_) a t.
Proof.
  rewrite !parse_table_subset_eq_proof. f_equal. unfold filter_ids. f_equal.
  unfold id_mask. apply map_ext_in. intros x Hx.
  destruct (zmem x ids_) eqn:E1.
  - symmetry. apply zmem_In. apply filter_In. split; [apply zmem_In; exact E1|apply zmem_In; exact Hx].
  - destruct (zmem x (filter _ ids_)) eqn:E2; [|reflexivity].
    apply zmem_In in E2. apply filter_In in E2. destruct E2 as [E2 _]. apply zmem_In in E2. congruence.
Qed.

(* ------------------------------------------------------------------ the boolean check decides wf_file *)
Lemma monotoneb_ok l : monotoneb l = true -> monotone l.
Proof.
  induction l as [|a t IH]; intros H; [exact Logic.I|]. simpl in *. destruct t as [|b t']; [exact Logic.I|].
  apply andb_true_iff in H. destruct H as [H1 H2]. apply Nat.leb_le in H1. split; [exact H1|apply IH; exact H2].
Qed.

Lemma wf_axisb_ok A : wf_axisb A = true -> wf_axis A.
Proof.
  unfold wf_axisb, wf_axis. rewrite !andb_true_iff. intros ((((((H1 & H2) & H3) & H4) & H5) & H6) & H7).
  apply negb_true_iff, zdup_false_NoDup in H1. apply Nat.eqb_eq in H2. apply monotoneb_ok in H3.
  apply Nat.eqb_eq in H5. apply md_okb_ok in H6.
  repeat split; try assumption.
  - apply Forall_forall. intros p Hp. rewrite forallb_forall in H4. apply Nat.leb_le. apply H4. exact Hp.
  - intros E. rewrite E in H7. discriminate.
Qed.

Lemma wf_fileb_ok f : wf_fileb f = true -> wf_file f.
Proof.
  unfold wf_fileb, wf_file. rewrite !andb_true_iff. intros ((H1 & H2) & H3).
  repeat split; try (apply wf_axisb_ok; assumption). unfold views_agree. apply mat_eqb_eq. exact H3.
Qed.

(* what the reference on the right-hand side of the theorems means, spelled out *)
Theorem filter_ids_spec_proof ids_ a t :
  ids a (filter_ids ids_ a t) = filter (fun i => zmem i ids_) (ids a t) /\
  ids (other a) (filter_ids ids_ a t) = ids (other a) t /\
  mds (other a) (filter_ids ids_ a t) = cast_md (mds (other a) t) /\
  mds a (filter_ids ids_ a t) = cast_md (option_map (select (id_mask ids_ (ids a t))) (mds a t)) /\
  ttype (filter_ids ids_ a t) = ttype t /\
  mat (filter_ids ids_ a t) = match a with Obs => sel_rows (id_mask ids_ (oids t)) (mat t)
                                          | Samp => sel_cols (id_mask ids_ (sids t)) (mat t) end.
Proof.
  unfold filter_ids, flt. destruct a; cbn [cast_t sel ids mds other oids sids omd smd ttype mat];
    repeat split; apply kept_is_filter.
Qed.

(* ---- parse_table on an open HDF5 handle *)
Theorem parse_table_h5_eq_proof ids_ a f :
  wf_file f -> NoDup ids_ -> ids_ <> [] -> (forall i, In i ids_ -> In i (file_ids a f)) ->
  parse_table_h5 ids_ a f = ROk (drop_empty_other a (filter_ids ids_ a (from_hdf5_all f))).
Proof.
  intros W N H S. unfold parse_table_h5. rewrite (hdf5_subset_eq_proof ids_ a f W N H S). reflexivity.
Qed.

Theorem parse_table_h5_refuses_proof ids_ a f :
  wf_file f -> (exists i, In i ids_ /\ ~ In i (file_ids a f)) -> parse_table_h5 ids_ a f = RErr E_TYPE.
Proof.
  intros W U. unfold parse_table_h5. rewrite (hdf5_subset_refuses_proof ids_ a f W U). reflexivity.
Qed.
