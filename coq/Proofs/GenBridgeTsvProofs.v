(* Bridge: the writer regenerated from biom/table.py (Gen/TsvGen.v, tools/py2v_tsv) is the
   hand-written writer of Model/Tsv.v, for every table, every option triple and every pair of
   oracles (number text, metadata formatter). *)
From Coq Require Import List Arith ZArith Lia Bool.
From BiomV Require Import Base.Tree Base.ListUtil Base.Matrix Model.Table Model.Tsv
  Proofs.TsvProofs Gen.TsvPrelude Gen.TsvGen.
Import ListNotations.
Open Scope Z_scope.

Lemma str_join1 d l : str_join [d] l = join d l.
Proof. destruct l; reflexivity. Qed.

Lemma to_utf8_id i : to_utf8 i = i.
Proof. reflexivity. Qed.

Lemma map_to_utf8 l : map (fun i => to_utf8 i) l = l.
Proof. induction l as [|x t IH]; [reflexivity|]. cbn [map]. rewrite IH. reflexivity. Qed.

Lemma table_is_empty_x c : table_is_empty c = x_empty c.
Proof. unfold table_is_empty, x_empty. destruct (x_sids c), (x_oids c); reflexivity. Qed.

Lemma index_from_app id pre r : forall n,
  ~ In id pre -> index_from n id (pre ++ id :: r) = ROk (n + length pre)%nat.
Proof.
  induction pre as [|x pre IH]; intros n Hn.
  - cbn [app index_from]. replace (text_eqb id id) with true by (symmetry; apply text_eqb_eq; reflexivity).
    cbn [length]. f_equal. lia.
  - cbn [app index_from]. destruct (text_eqb id x) eqn:E.
    + apply text_eqb_eq in E. subst. exfalso. apply Hn. left. reflexivity.
    + rewrite IH by (intro H; apply Hn; right; exact H). cbn [length]. f_equal. lia.
Qed.

Section Bridge.
  Variable fmt : Z -> text.
  Variable format : Tree -> text.

  Lemma row_plain c id v :
    to_utf8 id ++ [TAB] ++ str_join [TAB] (map fmt (to_dense c v)) ++ [] = row_line fmt id v None.
  Proof. unfold row_line, to_dense. rewrite to_utf8_id, str_join1, app_nil_r. reflexivity. Qed.

  Lemma row_md c id v m :
    to_utf8 id ++ [TAB] ++ str_join [TAB] (map fmt (to_dense c v)) ++ [9] ++ m ++ []
    = row_line fmt id v (Some m).
  Proof. unfold row_line, to_dense. rewrite to_utf8_id, str_join1, app_nil_r. reflexivity. Qed.

  (* the row loop when no metadata cell is written *)
  Lemma loop_plain c hk hv ocn samp omd iterable :
    opt_true hk && negb (opt_is_none omd) = false ->
    forall ids m out,
      delimited_self_loop fmt format c [TAB] hk hv ocn samp omd iterable [] (combine ids m) out
      = ROk (out ++ row_lines fmt ids m (map (fun _ => None) ids)).
  Proof.
    intros Hc. induction ids as [|id ids IH]; intros m out.
    - cbn [combine delimited_self_loop row_lines map]. rewrite app_nil_r. reflexivity.
    - destruct m as [|v m].
      + cbn [combine delimited_self_loop row_lines map]. rewrite app_nil_r. reflexivity.
      + cbn [combine delimited_self_loop map row_lines]. rewrite Hc.
        rewrite (row_plain c id v). cbn [rbind].
        rewrite IH. rewrite <- app_assoc. reflexivity.
  Qed.

  (* the row loop when every row gets its metadata cell *)
  Lemma loop_md c key hv ocn samp iterable l :
    opt_true (Some key) = true -> x_omd c = Some l -> NoDup (x_oids c) ->
    forall ids m lrest out pre lpre,
      x_oids c = pre ++ ids -> l = lpre ++ lrest -> length lpre = length pre ->
      length lrest = length ids ->
      delimited_self_loop fmt format c [TAB] (Some key) hv ocn samp (Some l) iterable [] (combine ids m) out
      = ROk (out ++ row_lines fmt ids m (map (fun e => Some (format (md_get key e))) lrest)).
  Proof.
    intros Hk Hmd Hnd. induction ids as [|id ids IH]; intros m lrest out pre lpre Ho Hl Hlen Hlen2.
    - cbn [combine delimited_self_loop row_lines]. rewrite app_nil_r. reflexivity.
    - destruct lrest as [|e lrest]; [discriminate Hlen2|].
      destruct m as [|v m].
      + cbn [combine delimited_self_loop row_lines map]. rewrite app_nil_r. reflexivity.
      + cbn [combine delimited_self_loop map row_lines]. rewrite Hk.
        cbn [opt_is_none negb andb]. rewrite to_utf8_id.
        unfold obs_index. rewrite Ho.
        rewrite index_from_app.
        2:{ rewrite Ho in Hnd. apply NoDup_remove_2 in Hnd. intro H. apply Hnd. apply in_or_app. left. exact H. }
        cbn [rbind plus]. unfold omd_at. rewrite Hl, <- Hlen.
        rewrite nth_error_app2 by lia. rewrite Nat.sub_diag. cbn [nth_error rbind].
        rewrite <- Hl.
        rewrite (IH m lrest _ (pre ++ [id]) (lpre ++ [e])).
        * unfold md_lookup. rewrite <- (to_utf8_id id) at 1. rewrite (row_md c id v).
          rewrite <- app_assoc. reflexivity.
        * rewrite <- app_assoc. exact Ho.
        * rewrite <- app_assoc. exact Hl.
        * rewrite !app_length. cbn [length]. lia.
        * cbn [length] in Hlen2. lia.
  Qed.

  Lemma cells_none c o :
    opt_true (header_key o) && negb (opt_is_none (x_omd c)) = false ->
    md_cells format c o = map (fun _ => None) (x_oids c).
  Proof.
    unfold md_cells. destruct (header_key o) as [[|k0 k]|]; destruct (x_omd c); cbn; intros H;
      try reflexivity; discriminate H.
  Qed.

  Theorem delimited_self_gen_is_source_partial : forall c hk hv ocn,
    xwf c ->
    delimited_self fmt format c [TAB] hk hv ocn = to_tsv_text fmt format c (mkO3 hk hv ocn).
  Proof.
    intros c hk hv ocn [W1 [W2 [W3 [W4 W5]]]].
    unfold delimited_self, to_tsv_text, to_tsv. rewrite table_is_empty_x.
    destruct (x_empty c); [reflexivity|]. cbn [rbind Tsv.header_key Tsv.header_value].
    destruct hk as [hk|], hv as [hv|]; cbn [opt_is_none negb rbind is_some andb]; try reflexivity.
    - (* both given *)
      unfold header_line. cbn [Tsv.header_value Tsv.ocn]. unfold metadata_obs, ids_obs, iter_obs, ids_samp.
      rewrite map_to_utf8, str_join1.
      destruct (opt_true (Some hk) && negb (opt_is_none (x_omd c))) eqn:Hc.
      + apply andb_prop in Hc. destruct Hc as [Hk Hm].
        destruct (x_omd c) as [l|] eqn:Hmd; [|discriminate Hm].
        assert (Hcells : md_cells format c (mkO3 (Some hk) (Some hv) ocn)
                         = map (fun e => Some (format (md_get hk e))) l).
        { unfold md_cells. cbn [Tsv.header_key]. rewrite Hmd. destruct hk; [discriminate Hk|reflexivity]. }
        rewrite Hcells.
        destruct hv as [|h0 hv]; cbn [opt_true rbind str_of_opt].
        * rewrite (loop_md c hk (Some []) ocn _ _ l Hk Hmd W3 (x_oids c) (x_mat c) l _ [] [] eq_refl eq_refl eq_refl W5).
          cbn [rbind]. rewrite str_join1. reflexivity.
        * rewrite (loop_md c hk (Some (h0 :: hv)) ocn _ _ l Hk Hmd W3 (x_oids c) (x_mat c) l _ [] [] eq_refl eq_refl eq_refl W5).
          cbn [rbind]. rewrite str_join1. reflexivity.
      + rewrite (cells_none c (mkO3 (Some hk) (Some hv) ocn) Hc).
        destruct hv as [|h0 hv]; cbn [opt_true rbind str_of_opt];
          rewrite (loop_plain c (Some hk) _ ocn _ _ _ Hc); cbn [rbind]; rewrite str_join1; reflexivity.
    - (* neither given *)
      unfold header_line. cbn [Tsv.header_value Tsv.ocn opt_true rbind].
      unfold metadata_obs, ids_obs, iter_obs, ids_samp. rewrite map_to_utf8, str_join1.
      rewrite (loop_plain c None None ocn _ _ _ eq_refl). cbn [rbind].
      rewrite (cells_none c (mkO3 None None ocn) eq_refl). rewrite str_join1. reflexivity.
  Qed.

  (* the default call (no metadata column) needs no invariant of the table *)
  Theorem delimited_self_gen_default_is_source : forall c ocn,
    delimited_self fmt format c [TAB] None None ocn = to_tsv_text fmt format c (mkO3 None None ocn).
  Proof.
    intros c ocn.
    unfold delimited_self, to_tsv_text, to_tsv. rewrite table_is_empty_x.
    destruct (x_empty c); [reflexivity|]. cbn [rbind Tsv.header_key Tsv.header_value opt_is_none negb is_some andb].
    unfold header_line. cbn [Tsv.header_value Tsv.ocn opt_true rbind].
    unfold metadata_obs, ids_obs, iter_obs, ids_samp. rewrite map_to_utf8, str_join1.
    rewrite (loop_plain c None None ocn _ _ _ eq_refl). cbn [rbind].
    rewrite (cells_none c (mkO3 None None ocn) eq_refl). rewrite str_join1. reflexivity.
  Qed.
End Bridge.
