(* Proofs about the HDF5 model (Model/Hdf5.v): what Table.to_hdf5 writes conforms to BIOM 2.1 and
   decodes (by the specification decoder and by Table.from_hdf5) to the table that was written,
   for every well-formed representation of the matrix. *)
From Coq Require Import List Arith ZArith Lia Bool.
From BiomV Require Import Base.ListUtil Base.Matrix Model.Table Model.Sparse Model.Hdf5
                          Proofs.SparseProofs Proofs.Utf8Proofs.
Import ListNotations.

(* ------------------------------------------------------------------ the three matrices of the writer *)
Definition w_r0 (st : state) : cs := eliminate_zeros (st_cs st).
Definition w_nnz (st : state) : nat := length (data (w_r0 st)).
Definition w_obs (st : state) : cs := asformat (st_fmt st) CSR (w_r0 st).
Definition w_samp (st : state) : cs := asformat CSR CSC (w_obs st).

Lemma of_segs_count mn ss : nsum (map (@length entry) (segs (of_segs mn ss))) = length (data (of_segs mn ss)).
Proof. rewrite segs_of_segs, data_of_segs_length. reflexivity. Qed.

Lemma st_mat_shape st : wf_cs (st_cs st) ->
  length (st_mat st) = st_nobs st /\ rect (st_nsamp st) (st_mat st).
Proof.
  intros W. unfold st_mat, st_nobs, st_nsamp, matrix_of. destruct (st_fmt st).
  - split; [apply dense_of_length|apply dense_of_rect].
  - split; [apply transpose_length|]. rewrite <- (dense_of_length (st_cs st)). apply transpose_rect.
Qed.

Theorem writer_matrices st : wf_cs (st_cs st) ->
  (wf_cs (w_obs st) /\ major (w_obs st) = st_nobs st /\ minor (w_obs st) = st_nsamp st
   /\ dense_of (w_obs st) = st_mat st /\ no_stored_zero (w_obs st) /\ length (data (w_obs st)) = w_nnz st)
  /\ (wf_cs (w_samp st) /\ major (w_samp st) = st_nsamp st /\ minor (w_samp st) = st_nobs st
      /\ dense_of (w_samp st) = transpose (st_nsamp st) (st_mat st) /\ no_stored_zero (w_samp st)
      /\ length (data (w_samp st)) = w_nnz st /\ sorted_cs (w_samp st))
  /\ w_nnz st = count_nonzero (st_mat st).
Proof.
  intros W. destruct (eliminate_zeros_ok _ W) as (E1 & E2 & E3 & E4 & E5 & E6).
  unfold w_samp, w_obs, w_nnz, w_r0, st_mat, st_nobs, st_nsamp, matrix_of in *.
  destruct (st_fmt st); cbn [asformat]; unfold tocsc, tocsr.
  - (* held as CSR *)
    destruct (swap_major_ok _ E1) as (S1 & S2 & S3 & S4 & S5 & S6 & S7).
    split; [|split].
    + repeat (split; [assumption|]). reflexivity.
    + split; [exact S1|]. split; [congruence|]. split; [congruence|]. split; [congruence|].
      split; [apply S6; exact E5|]. split; [|exact S2].
      rewrite S7. unfold eliminate_zeros. apply of_segs_count.
    + exact E6.
  - (* held as CSC: the observation copy is converted, the sample copy converted back *)
    destruct (swap_major_ok _ E1) as (S1 & S2 & S3 & S4 & S5 & S6 & S7).
    destruct (swap_major_ok _ S1) as (T1 & T2 & T3 & T4 & T5 & T6 & T7).
    assert (L1 : length (data (swap_major (eliminate_zeros (st_cs st)))) = length (data (eliminate_zeros (st_cs st)))).
    { rewrite S7. unfold eliminate_zeros. apply of_segs_count. }
    split; [|split].
    + split; [exact S1|]. split; [congruence|]. split; [congruence|]. split; [congruence|].
      split; [apply S6; exact E5|exact L1].
    + split; [exact T1|]. split; [congruence|]. split; [congruence|]. split; [|split; [apply T6; apply S6; exact E5|split; [|exact T2]]].
      * rewrite T5, S5, S4, E4, E3, E2. reflexivity.
      * rewrite T7. unfold swap_major at 1. rewrite of_segs_count. exact L1.
    + rewrite E6. symmetry. apply count_nonzero_transpose. apply dense_of_rect.
Qed.

(* ------------------------------------------------------------------ lookups in a written file *)
Lemma get_dset_app l1 l2 p :
  get_dset (l1 ++ l2) p = match get_dset l1 p with Some d => Some d | None => get_dset l2 p end.
Proof.
  induction l1 as [|[q d] t IH]; simpl; [reflexivity|]. destruct (path_eqb p q); [reflexivity|exact IH].
Qed.

Lemma firstn_app_len {A} (a b : list A) : firstn (length a) (a ++ b) = a.
Proof. induction a as [|x a IH]; simpl; [reflexivity|f_equal; exact IH]. Qed.

Lemma get_dset_under_skip g l rest p :
  path_eqb (firstn (length g) p) g = false -> get_dset (under g l ++ rest) p = get_dset rest p.
Proof.
  intros H. induction l as [|[name d] t IH]; simpl; [reflexivity|].
  destruct (path_eqb p (g ++ [name])) eqn:E; [|exact IH].
  apply path_eqb_eq in E. subst p. rewrite firstn_app_len, path_eqb_refl in H. discriminate.
Qed.

Lemma get_dset_cons_ne q d rest p : path_eqb p q = false -> get_dset ((q, d) :: rest) p = get_dset rest p.
Proof. intros H. simpl. rewrite H. reflexivity. Qed.
Lemma get_dset_cons_eq q d rest p : path_eqb p q = true -> get_dset ((q, d) :: rest) p = Some d.
Proof. intros H. simpl. rewrite H. reflexivity. Qed.

Ltac getd :=
  cbn [dsets assemble matrix_dsets ids_dset app];
  repeat first [ rewrite get_dset_under_skip by reflexivity
               | rewrite get_dset_cons_ne by reflexivity
               | rewrite get_dset_cons_eq by reflexivity ].

Section Written.
  Variables (st : state) (genby date : str) (omd ogmd smd sgmd : list (bytes * dset)).
  Let f := assemble st genby date omd ogmd smd sgmd.

  Lemma w_get_obs_data : get_dset (dsets f) [b_observation; b_matrix; b_data]
                         = Some (mkD KF64 [w_nnz st] (data (w_obs st)) [] []).
  Proof. unfold f. getd. reflexivity. Qed.
  Lemma w_get_obs_indices : get_dset (dsets f) [b_observation; b_matrix; b_indices]
                            = Some (mkD KI32 [w_nnz st] (zs (indices (w_obs st))) [] []).
  Proof. unfold f. getd. reflexivity. Qed.
  Lemma w_get_obs_indptr : get_dset (dsets f) [b_observation; b_matrix; b_indptr]
                           = Some (mkD KI32 [length (indptr (w_obs st))] (zs (indptr (w_obs st))) [] []).
  Proof. unfold f. getd. reflexivity. Qed.
  Lemma w_get_samp_data : get_dset (dsets f) [b_sample; b_matrix; b_data]
                          = Some (mkD KF64 [w_nnz st] (data (w_samp st)) [] []).
  Proof. unfold f. getd. reflexivity. Qed.
  Lemma w_get_samp_indices : get_dset (dsets f) [b_sample; b_matrix; b_indices]
                             = Some (mkD KI32 [w_nnz st] (zs (indices (w_samp st))) [] []).
  Proof. unfold f. getd. reflexivity. Qed.
  Lemma w_get_samp_indptr : get_dset (dsets f) [b_sample; b_matrix; b_indptr]
                            = Some (mkD KI32 [length (indptr (w_samp st))] (zs (indptr (w_samp st))) [] []).
  Proof. unfold f. getd. reflexivity. Qed.
  Lemma w_get_obs_ids : get_dset (dsets f) [b_observation; b_ids]
                        = Some (match st_oids st with [] => dnum KF64 [] | _ => dstr1 (map utf8_encode (st_oids st)) end).
  Proof. unfold f. getd. reflexivity. Qed.
  Lemma w_get_samp_ids : get_dset (dsets f) [b_sample; b_ids]
                         = Some (match st_sids st with [] => dnum KF64 [] | _ => dstr1 (map utf8_encode (st_sids st)) end).
  Proof. unfold f. getd. reflexivity. Qed.

  Lemma w_attr k v : get_attr (attrs f) k = v ->
    get_attr [ (b_id, AStr (utf8_encode (opt_text (st_id st) s_no_table_id)));
               (b_type, AStr (utf8_encode (opt_text (st_type st) [])));
               (b_format_url, AStr (utf8_encode s_url));
               (b_format_version, AInts [2%Z; 1%Z]);
               (b_generated_by, AStr (utf8_encode genby));
               (b_creation_date, AStr (utf8_encode date));
               (b_shape, AInts [Z.of_nat (st_nobs st); Z.of_nat (st_nsamp st)]);
               (b_nnz, AInt (Z.of_nat (w_nnz st))) ] k = v.
  Proof. intros H. exact H. Qed.

  Lemma w_attr_id : get_attr (attrs f) b_id = Some (AStr (utf8_encode (opt_text (st_id st) s_no_table_id))).
  Proof. reflexivity. Qed.
  Lemma w_attr_type : get_attr (attrs f) b_type = Some (AStr (utf8_encode (opt_text (st_type st) []))).
  Proof. reflexivity. Qed.
  Lemma w_attr_url : get_attr (attrs f) b_format_url = Some (AStr (utf8_encode s_url)).
  Proof. reflexivity. Qed.
  Lemma w_attr_version : get_attr (attrs f) b_format_version = Some (AInts [2%Z; 1%Z]).
  Proof. reflexivity. Qed.
  Lemma w_attr_genby : get_attr (attrs f) b_generated_by = Some (AStr (utf8_encode genby)).
  Proof. reflexivity. Qed.
  Lemma w_attr_date : get_attr (attrs f) b_creation_date = Some (AStr (utf8_encode date)).
  Proof. reflexivity. Qed.
  Lemma w_attr_shape : get_attr (attrs f) b_shape = Some (AInts [Z.of_nat (st_nobs st); Z.of_nat (st_nsamp st)]).
  Proof. reflexivity. Qed.
  Lemma w_attr_nnz : get_attr (attrs f) b_nnz = Some (AInt (Z.of_nat (w_nnz st))).
  Proof. reflexivity. Qed.
  Lemma w_groups : Forall (fun p => has_group f p = true) required_groups.
  Proof. repeat constructor. Qed.
End Written.

(* ------------------------------------------------------------------ the specification decoder *)
Lemma ns_zs l : ns (zs l) = l.
Proof. unfold ns, zs. rewrite map_map. rewrite <- (map_id l) at 2. apply map_ext. intros. apply Nat2Z.id. Qed.
Lemma zs_nonneg l : forallb (Z.leb 0) (zs l) = true.
Proof. apply forallb_forall. intros z Hz. apply in_map_iff in Hz. destruct Hz as [n [<- _]]. apply Z.leb_le. lia. Qed.
Lemma cs_eta r : mkCS (major r) (minor r) (indptr r) (indices r) (data r) = r.
Proof. destruct r; reflexivity. Qed.

Lemma spec_shape_written st genby date omd ogmd smd sgmd :
  spec_shape (assemble st genby date omd ogmd smd sgmd) = Some (st_nobs st, st_nsamp st).
Proof.
  unfold spec_shape. rewrite w_attr_shape.
  replace (Z.leb 0 (Z.of_nat (st_nobs st))) with true by (symmetry; apply Z.leb_le; lia).
  replace (Z.leb 0 (Z.of_nat (st_nsamp st))) with true by (symmetry; apply Z.leb_le; lia).
  cbn [andb]. rewrite !Nat2Z.id. reflexivity.
Qed.

Lemma spec_check r nnz : wf_cs r -> no_stored_zero r -> length (data r) = nnz ->
  forallb (Z.leb 0) (zs (indptr r)) && forallb (Z.leb 0) (zs (indices r))
  && wf_csb r && no_stored_zerob r && Z.eqb (Z.of_nat (length (data r))) (Z.of_nat nnz) = true.
Proof.
  intros W Z L. rewrite !zs_nonneg, (wf_cs_wf_csb r W), (no_stored_zerob_ok r Z), L, Z.eqb_refl. reflexivity.
Qed.

Theorem spec_decode_written st genby date omd ogmd smd sgmd : wf_cs (st_cs st) ->
  spec_decode_csr (assemble st genby date omd ogmd smd sgmd) = Some (st_mat st)
  /\ spec_decode_csc (assemble st genby date omd ogmd smd sgmd) = Some (st_mat st).
Proof.
  intros W. destruct (writer_matrices st W) as ((O1 & O2 & O3 & O4 & O5 & O6) & (S1 & S2 & S3 & S4 & S5 & S6 & _) & _).
  destruct (st_mat_shape st W) as [ML MR].
  unfold spec_decode_csr, spec_decode_csc. rewrite spec_shape_written. split.
  - unfold spec_arrays. rewrite w_get_obs_data, w_get_obs_indices, w_get_obs_indptr, w_attr_nnz.
    cbn [d_num]. cbv zeta. rewrite !ns_zs.
    replace (mkCS (st_nobs st) (st_nsamp st) (indptr (w_obs st)) (indices (w_obs st)) (data (w_obs st)))
      with (w_obs st) by (rewrite <- O2, <- O3; symmetry; apply cs_eta).
    rewrite (spec_check (w_obs st) (w_nnz st) O1 O5 O6). cbn [option_map]. rewrite O4. reflexivity.
  - unfold spec_arrays. rewrite w_get_samp_data, w_get_samp_indices, w_get_samp_indptr, w_attr_nnz.
    cbn [d_num]. cbv zeta. rewrite !ns_zs.
    replace (mkCS (st_nsamp st) (st_nobs st) (indptr (w_samp st)) (indices (w_samp st)) (data (w_samp st)))
      with (w_samp st) by (rewrite <- S2, <- S3; symmetry; apply cs_eta).
    rewrite (spec_check (w_samp st) (w_nnz st) S1 S5 S6). cbn [option_map]. rewrite S4. f_equal.
    rewrite <- ML. apply transpose_involutive. exact MR.
Qed.

(* ------------------------------------------------------------------ one metadata category: format, then parse *)
Definition catname (k : str) : str := if reserved k then k else sanitize k.

Definition cat_dset (k : str) (col : list mdval) : dset :=
  if reserved k then
    dstr2 (nmax (map list_len col)) (map (list_row (nmax (map list_len col))) col)
  else if forallb is_str col then dstr1 (map str_payload col)
  else if forallb is_int col then dnum KI64 (map num_payload col)
  else if forallb is_float col then dnum KF64 (map num_payload col)
  else dnum KBool (map num_payload col).

Lemma list_ok_kinds col : Forall list_ok col ->
  existsb (fun v => is_int v || is_float v || is_bool v) col = false /\ existsb is_str col = false
  /\ forallb is_list col = true.
Proof.
  induction col as [|v t IH]; intros F; [repeat split|]. inversion F as [|? ? Hv Ft]; subst.
  destruct (IH Ft) as (A & B & C). destruct v; try contradiction. simpl. rewrite A, B, C. repeat split.
Qed.

Lemma nmax_ge x l : In x l -> x <= nmax l.
Proof.
  induction l as [|y l IH]; intros H; [contradiction|]. simpl. destruct H as [<-|H]; [lia|]. specialize (IH H). lia.
Qed.

Lemma str_ok_is_str col : Forall str_ok col -> forallb is_str col = true.
Proof.
  induction col as [|v t IH]; intros F; [reflexivity|]. inversion F as [|? ? Hv Ft]; subst.
  destruct v; try contradiction. simpl. apply IH. exact Ft.
Qed.

Theorem format_category_ok k col : col <> [] -> column_ok k col ->
  format_category k col = ROk (utf8_encode (catname k), cat_dset k col).
Proof.
  intros Hne Hc. unfold format_category, column_ok, catname, cat_dset in *. destruct (reserved k).
  - destruct (list_ok_kinds col Hc) as (A & B & C). unfold fmt_vlen_list. rewrite A, B.
    destruct col as [|v t]; [congruence|]. inversion Hc as [|? ? Hv Ft]; subst.
    destruct v; try contradiction. cbn [existsb is_list orb negb].
    destruct Hv as [Hl _]. destruct l as [|s l]; [congruence|].
    pose proof (nmax_ge (list_len (MList (s :: l))) (map list_len (MList (s :: l) :: t)) (or_introl eq_refl)) as Hw.
    cbn [list_len length] in Hw.
    destruct (Nat.eqb_spec (nmax (map list_len (MList (s :: l) :: t))) 0) as [E|E]; [lia|]. reflexivity.
  - unfold fmt_general. destruct Hc as [Hs|[Hi|[Hf|Hb]]].
    + rewrite (str_ok_is_str col Hs). reflexivity.
    + destruct col as [|v t]; [congruence|]. cbn [forallb] in Hi. apply andb_true_iff in Hi. destruct Hi as [Hv Ht].
      destruct v; try discriminate. cbn [forallb is_str is_list is_str_or_none is_int andb]. rewrite Ht. reflexivity.
    + destruct col as [|v t]; [congruence|]. cbn [forallb] in Hf. apply andb_true_iff in Hf. destruct Hf as [Hv Ht].
      destruct v; try discriminate. cbn [forallb is_str is_list is_str_or_none is_int is_float andb]. rewrite Ht. reflexivity.
    + destruct col as [|v t]; [congruence|]. cbn [forallb] in Hb. apply andb_true_iff in Hb. destruct Hb as [Hv Ht].
      destruct v; try discriminate. cbn [forallb is_str is_list is_str_or_none is_int is_float is_bool andb]. rewrite Ht. reflexivity.
Qed.

Lemma chunks_concat {A} w (rows : list (list A)) :
  Forall (fun r => length r = w) rows -> chunks w (length rows) (concat rows) = rows.
Proof.
  induction rows as [|r t IH]; intros F; [reflexivity|]. inversion F as [|? ? Hr Ft]; subst.
  cbn [length chunks concat]. rewrite firstn_app_exact, skipn_app_exact by reflexivity. rewrite IH by exact Ft. reflexivity.
Qed.

Lemma list_row_length w v : list_len v <= w -> length (list_row w v) = w.
Proof.
  intros H. destruct v; cbn [list_row list_len] in *; try apply repeat_length.
  rewrite app_length, map_length, repeat_length. lia.
Qed.

Lemma filter_repeat_empty n : filter (fun b => negb (lz_eqb b [])) (repeat ([] : bytes) n) = [].
Proof. induction n as [|n IH]; [reflexivity|exact IH]. Qed.

Lemma filter_encoded l : Forall (fun s => s <> [] /\ text s) l ->
  filter (fun b => negb (lz_eqb b [])) (map utf8_encode l) = map utf8_encode l.
Proof.
  induction l as [|s l IH]; intros F; [reflexivity|]. inversion F as [|? ? [Hs _] Fl]; subst.
  cbn [map filter]. rewrite lz_eqb_neq by (apply utf8_encode_nonempty; exact Hs). cbn [negb]. rewrite IH by exact Fl. reflexivity.
Qed.

Lemma parse_list_row_ok w v : list_ok v -> parse_list_row (list_row w v) = ROk v.
Proof.
  destruct v; try contradiction. intros [Hne F]. unfold parse_list_row. cbn [list_row].
  rewrite filter_app, filter_repeat_empty, app_nil_r, filter_encoded by exact F.
  rewrite mapM_dec_enc by (eapply Forall_impl; [|exact F]; intros s [_ H]; exact H).
  cbn [bind]. destruct l; [congruence|reflexivity].
Qed.

Lemma map_num_int col : forallb is_int col = true -> map MInt (map num_payload col) = col.
Proof.
  induction col as [|v t IH]; intros H; [reflexivity|]. cbn [forallb] in H. apply andb_true_iff in H. destruct H as [Hv Ht].
  destruct v; try discriminate. cbn [map num_payload]. rewrite IH by exact Ht. reflexivity.
Qed.
Lemma map_num_float col : forallb is_float col = true -> map MFloat (map num_payload col) = col.
Proof.
  induction col as [|v t IH]; intros H; [reflexivity|]. cbn [forallb] in H. apply andb_true_iff in H. destruct H as [Hv Ht].
  destruct v; try discriminate. cbn [map num_payload]. rewrite IH by exact Ht. reflexivity.
Qed.
Lemma map_num_bool col : forallb is_bool col = true ->
  map (fun z => MBool (negb (Z.eqb z 0))) (map num_payload col) = col.
Proof.
  induction col as [|v t IH]; intros H; [reflexivity|]. cbn [forallb] in H. apply andb_true_iff in H. destruct H as [Hv Ht].
  destruct v; try discriminate. cbn [map num_payload]. rewrite IH by exact Ht. destruct b; reflexivity.
Qed.
Lemma map_str_dec col : Forall str_ok col ->
  mapM (fun b => bind (dec b) (fun s => ROk (MStr s))) (map str_payload col) = ROk col.
Proof.
  induction col as [|v t IH]; intros F; [reflexivity|]. inversion F as [|? ? Hv Ft]; subst.
  destruct v; try contradiction. cbn [map mapM str_payload]. rewrite dec_enc by exact Hv. cbn [bind].
  rewrite IH by exact Ft. reflexivity.
Qed.

Theorem parse_column_ok k col : col <> [] -> column_ok k col -> parse_column k (cat_dset k col) = ROk col.
Proof.
  intros Hne Hc. unfold parse_column, cat_dset, column_ok in *. destruct (reserved k).
  - cbn [dstr2 d_kind d_shape d_str]. rewrite chunks_concat.
    + rewrite <- (map_id col) at 3. rewrite (mapM_ok _ (fun r => match parse_list_row r with ROk v => v | RErr _ => MNone end)).
      * f_equal. rewrite map_map. apply map_ext_in. intros v Hv. rewrite Forall_forall in Hc.
        rewrite parse_list_row_ok by (apply Hc; exact Hv). reflexivity.
      * apply Forall_forall. intros r Hr. apply in_map_iff in Hr. destruct Hr as [v [<- Hv]].
        rewrite Forall_forall in Hc. rewrite parse_list_row_ok by (apply Hc; exact Hv). reflexivity.
    + apply Forall_forall. intros r Hr. apply in_map_iff in Hr. destruct Hr as [v [<- Hv]].
      apply list_row_length. apply nmax_ge. apply in_map. exact Hv.
  - destruct Hc as [Hs|[Hi|[Hf|Hb]]].
    + rewrite (str_ok_is_str col Hs). cbn [dstr1 d_kind d_shape d_str]. apply map_str_dec. exact Hs.
    + destruct col as [|v t]; [congruence|]. pose proof Hi as Hi'. cbn [forallb] in Hi. apply andb_true_iff in Hi.
      destruct Hi as [Hv Ht]. destruct v; try discriminate.
      replace (forallb is_str (MInt z :: t)) with false by reflexivity. rewrite Hi'.
      cbn [dnum d_kind d_shape d_num]. rewrite map_num_int by exact Hi'. reflexivity.
    + destruct col as [|v t]; [congruence|]. pose proof Hf as Hf'. cbn [forallb] in Hf. apply andb_true_iff in Hf.
      destruct Hf as [Hv Ht]. destruct v; try discriminate.
      replace (forallb is_str (MFloat bits :: t)) with false by reflexivity.
      replace (forallb is_int (MFloat bits :: t)) with false by reflexivity. rewrite Hf'.
      cbn [dnum d_kind d_shape d_num]. rewrite map_num_float by exact Hf'. reflexivity.
    + destruct col as [|v t]; [congruence|]. pose proof Hb as Hb'. cbn [forallb] in Hb. apply andb_true_iff in Hb.
      destruct Hb as [Hv Ht]. destruct v; try discriminate.
      replace (forallb is_str (MBool b :: t)) with false by reflexivity.
      replace (forallb is_int (MBool b :: t)) with false by reflexivity.
      replace (forallb is_float (MBool b :: t)) with false by reflexivity.
      cbn [dnum d_kind d_shape d_num]. rewrite map_num_bool by exact Hb'. reflexivity.
Qed.

(* ------------------------------------------------------------------ category names *)
Lemma reserved_cases k : reserved k = true ->
  k = s_taxonomy \/ k = s_Taxonomy \/ k = s_KEGG \/ k = s_collapsed.
Proof.
  unfold reserved. rewrite !orb_true_iff, !lz_eqb_eq. tauto.
Qed.

Lemma catname_back k : cat_ok k -> unsanitize (catname k) = k.
Proof.
  intros [_ H]. unfold catname. destruct (reserved k) eqn:R; [|exact H].
  destruct (reserved_cases k R) as [-> | [-> | [-> | ->]]]; reflexivity.
Qed.

Lemma text_catname k : cat_ok k -> text (catname k).
Proof. intros [T _]. unfold catname. destruct (reserved k); [exact T|apply text_sanitize; exact T]. Qed.

Lemma catname_inj a b : cat_ok a -> cat_ok b -> utf8_encode (catname a) = utf8_encode (catname b) -> a = b.
Proof.
  intros Ha Hb E. apply utf8_encode_inj in E; [|apply text_catname; assumption|apply text_catname; assumption].
  rewrite <- (catname_back a Ha), <- (catname_back b Hb), E. reflexivity.
Qed.

Lemma NoDup_map_inj {A B} (g : A -> B) l :
  (forall x y, In x l -> In y l -> g x = g y -> x = y) -> NoDup l -> NoDup (map g l).
Proof.
  induction l as [|x l IH]; intros Hinj Hn; [constructor|]. inversion Hn as [|? ? Hx Hl]; subst. cbn [map]. constructor.
  - intros Hi. apply in_map_iff in Hi. destruct Hi as [y [E Hy]]. apply Hx.
    rewrite (Hinj x y (or_introl eq_refl) (or_intror Hy) (eq_sym E)). exact Hy.
  - apply IH; [|exact Hl]. intros a b Ha Hb. apply Hinj; right; assumption.
Qed.

Lemma bdup_NoDup l : NoDup l -> bdup l = false.
Proof.
  induction l as [|x t IH]; intros H; [reflexivity|]. inversion H as [|? ? Hx Ht]; subst. cbn [bdup].
  rewrite (IH Ht), orb_false_r. destruct (existsb (lz_eqb x) t) eqn:E; [|reflexivity].
  apply existsb_exists in E. destruct E as [y [Hy E]]. apply lz_eqb_eq in E. subst. contradiction.
Qed.
Lemma sdup_NoDup l : NoDup l -> sdup l = false.
Proof. exact (bdup_NoDup l). Qed.

(* ------------------------------------------------------------------ an axis' metadata: format *)
Definition md_dsets (rows : list mdrow) : list (bytes * dset) :=
  match rows with
  | [] => []
  | r0 :: _ => map (fun k => (utf8_encode (catname k), cat_dset k (column rows k))) (mdkeys r0)
  end.
Definition md_written (md : option (list mdrow)) : list (bytes * dset) :=
  match md with Some rows => md_dsets rows | None => [] end.

Theorem format_md_ok md n : md_homogeneous md n -> format_md md = ROk (md_written md).
Proof.
  destruct md as [[|r0 rest]|]; try reflexivity. intros (_ & _ & Hnd & Hcat & Hrest & Hcol).
  unfold format_md, md_written, md_dsets.
  replace (forallb (fun r => same_keys r r0) rest) with true.
  2:{ symmetry. apply forallb_forall. intros r Hr. rewrite Forall_forall in Hrest. apply (Hrest r Hr). }
  rewrite (mapM_ok _ (fun k => (utf8_encode (catname k), cat_dset k (column (r0 :: rest) k)))).
  - cbn [bind]. rewrite map_map. cbn [fst]. rewrite bdup_NoDup; [reflexivity|].
    apply NoDup_map_inj; [|exact Hnd]. intros a b Ha Hb. rewrite Forall_forall in Hcat.
    apply catname_inj; apply Hcat; assumption.
  - apply Forall_forall. intros k Hk. rewrite Forall_forall in Hcol.
    apply format_category_ok; [discriminate|apply Hcol; exact Hk].
Qed.

(* ------------------------------------------------------------------ group metadata: format *)
Definition gmd_written (g : list (str * (str * str))) : list (bytes * dset) :=
  map (fun e => (utf8_encode (fst e), mkD KVStr [1] [] [utf8_encode (snd (snd e))]
                                          [(b_data_type, utf8_encode (fst (snd e)))])) g.

Lemma format_gmd_ok g : gmd_ok g -> format_gmd g = ROk (gmd_written g).
Proof.
  intros [_ F]. unfold format_gmd.
  replace (existsb (fun e => has_slash (fst e)) g) with false; [reflexivity|].
  symmetry. destruct (existsb (fun e => has_slash (fst e)) g) eqn:E; [|reflexivity].
  apply existsb_exists in E. destruct E as [e [He Hs]]. rewrite Forall_forall in F.
  destruct (F e He) as (_ & H & _). congruence.
Qed.

(* ------------------------------------------------------------------ children of the groups of a written file *)
Lemma children_of_app l1 l2 g : children_of (l1 ++ l2) g = children_of l1 g ++ children_of l2 g.
Proof. apply flat_map_app. Qed.

Lemma children_of_under_same g l : children_of (under g l) g = l.
Proof.
  induction l as [|[name d] t IH]; [reflexivity|]. cbn [under map children_of flat_map fst snd].
  rewrite rev_app_distr. cbn [rev app]. rewrite rev_involutive, path_eqb_refl. cbn [app]. f_equal. exact IH.
Qed.

Lemma children_of_under_other g' l g : path_eqb g' g = false -> children_of (under g' l) g = [].
Proof.
  intros H. induction l as [|[name d] t IH]; [reflexivity|]. cbn [under map children_of flat_map fst snd].
  rewrite rev_app_distr. cbn [rev app]. rewrite rev_involutive, H. exact IH.
Qed.

Lemma children_matrix a r n g : path_eqb [a; b_matrix] g = false -> children_of (matrix_dsets a r n) g = [].
Proof. intros H. unfold matrix_dsets. cbn [children_of flat_map fst snd rev app]. rewrite H. reflexivity. Qed.

Lemma children_ids a ids g : path_eqb [a] g = false -> children_of (ids_dset a ids) g = [].
Proof. intros H. unfold ids_dset. cbn [children_of flat_map fst snd rev app]. rewrite H. reflexivity. Qed.

Ltac kids :=
  unfold children, assemble; cbn [dsets]; rewrite !children_of_app;
  repeat first [ rewrite children_of_under_same
               | rewrite children_of_under_other by reflexivity
               | rewrite children_matrix by reflexivity
               | rewrite children_ids by reflexivity ];
  rewrite ?app_nil_r; reflexivity.

Section WrittenChildren.
  Variables (st : state) (genby date : str) (omd ogmd smd sgmd : list (bytes * dset)).
  Let f := assemble st genby date omd ogmd smd sgmd.
  Lemma w_children_omd : children f [b_observation; b_metadata] = omd.
  Proof. unfold f. kids. Qed.
  Lemma w_children_ogmd : children f [b_observation; b_group_metadata] = ogmd.
  Proof. unfold f. kids. Qed.
  Lemma w_children_smd : children f [b_sample; b_metadata] = smd.
  Proof. unfold f. kids. Qed.
  Lemma w_children_sgmd : children f [b_sample; b_group_metadata] = sgmd.
  Proof. unfold f. kids. Qed.
End WrittenChildren.

(* ------------------------------------------------------------------ axis_load on a written file *)
Definition loaded_rows (rows : list mdrow) : list mdrow :=
  match rows with
  | [] => []
  | r0 :: _ => map (fun i => map (fun k => (k, nth i (column rows k) MNone)) (mdkeys r0)) (seq 0 (length rows))
  end.
Definition md_loaded (md : option (list mdrow)) : option (list mdrow) :=
  match md with Some (r0 :: rest) => Some (loaded_rows (r0 :: rest)) | _ => None end.

Lemma mapM_map {A B C} (F : B -> result C) (h : A -> B) l : mapM F (map h l) = mapM (fun x => F (h x)) l.
Proof. induction l as [|x l IH]; [reflexivity|]. cbn [map mapM]. rewrite IH. reflexivity. Qed.

Lemma load_ids_ok ids : Forall text ids ->
  load_ids (match ids with [] => dnum KF64 [] | _ => dstr1 (map utf8_encode ids) end) = ROk ids.
Proof.
  intros F. destruct ids as [|i t]; [reflexivity|]. unfold load_ids. cbn [dstr1 d_kind d_str].
  apply mapM_dec_enc. exact F.
Qed.

Lemma column_length rows k : length (column rows k) = length rows.
Proof. apply map_length. Qed.

Lemma rows_of_cols keys (g : str -> list mdval) i : (forall k, In k keys -> i < length (g k)) ->
  flat_map (fun cv : str * list mdval => match nth_error (snd cv) i with Some v => [(fst cv, v)] | None => [] end)
           (map (fun k => (k, g k)) keys)
  = map (fun k => (k, nth i (g k) MNone)) keys.
Proof.
  induction keys as [|k t IH]; intros H; [reflexivity|]. cbn [map flat_map fst snd].
  rewrite (nth_error_nth' (g k) MNone) by (apply H; left; reflexivity). cbn [app]. f_equal.
  apply IH. intros k' Hk'. apply H. right. exact Hk'.
Qed.

Lemma existsb_all_empty {A} (l : list A) :
  existsb (fun r : mdrow => match r with [] => false | _ => true end) (map (fun _ => []) l) = false.
Proof. induction l as [|x l IH]; [reflexivity|exact IH]. Qed.

Theorem parse_md_written r0 rest n : md_homogeneous (Some (r0 :: rest)) n ->
  mapM (fun nd => bind (dec (fst nd)) (fun name =>
                  bind (parse_column (unsanitize name) (snd nd)) (fun vals => ROk (unsanitize name, vals))))
       (md_dsets (r0 :: rest))
  = ROk (map (fun k => (k, column (r0 :: rest) k)) (mdkeys r0)).
Proof.
  intros (_ & _ & Hnd & Hcat & Hrest & Hcol). unfold md_dsets. rewrite mapM_map. apply mapM_ok.
  apply Forall_forall. intros k Hk. rewrite Forall_forall in Hcat, Hcol. cbn [fst snd].
  rewrite dec_enc by (apply text_catname; apply Hcat; exact Hk). cbn [bind].
  rewrite catname_back by (apply Hcat; exact Hk).
  rewrite parse_column_ok; [reflexivity|discriminate|apply Hcol; exact Hk].
Qed.

Theorem axis_load_ok f a ids md gmd :
  get_dset (dsets f) [a; b_ids] = Some (match ids with [] => dnum KF64 [] | _ => dstr1 (map utf8_encode ids) end) ->
  has_group f [a; b_metadata] = true -> has_group f [a; b_group_metadata] = true ->
  children f [a; b_metadata] = md_written md -> children f [a; b_group_metadata] = gmd_written gmd ->
  Forall text ids -> md_homogeneous md (length ids) -> gmd_ok gmd ->
  axis_load f a = ROk (ids, md_loaded md, map (fun e => (fst e, snd (snd e))) gmd).
Proof.
  intros Hids Hg1 Hg2 Hc1 Hc2 Tids Hmd Hgmd. unfold axis_load, need_dset.
  rewrite Hids. cbn [bind]. rewrite load_ids_ok by exact Tids. cbn [bind]. rewrite Hg1, Hg2. cbn [bind]. rewrite Hc1, Hc2.
  assert (G : mapM (fun nd => bind (dec (fst nd)) (fun name =>
                bind (match d_str (snd nd) with b :: _ => dec b | [] => RErr E_OTHER end) (fun v => ROk (name, v))))
                   (gmd_written gmd) = ROk (map (fun e => (fst e, snd (snd e))) gmd)).
  { unfold gmd_written. rewrite mapM_map. apply mapM_ok. apply Forall_forall. intros e He.
    destruct Hgmd as [_ F]. rewrite Forall_forall in F. destruct (F e He) as (T1 & _ & _ & T3).
    cbn [fst snd d_str]. rewrite !dec_enc by assumption. reflexivity. }
  destruct md as [[|r0 rest]|].
  - (* metadata present but the axis is empty *)
    destruct Hmd as [Hlen _]. cbn [length] in Hlen. rewrite <- Hlen.
    cbn [md_written md_dsets mapM bind seq map existsb]. rewrite G. reflexivity.
  - pose proof Hmd as (Hlen & Hne & _). cbn [md_written].
    rewrite (parse_md_written r0 rest _ Hmd). cbn [bind]. rewrite G. cbn [bind md_loaded]. do 2 f_equal.
    rewrite <- Hlen.
    assert (R : map (fun i => flat_map (fun cv : str * list mdval => match nth_error (snd cv) i with
                                            | Some v => [(fst cv, v)] | None => [] end)
                                      (map (fun k => (k, column (r0 :: rest) k)) (mdkeys r0)))
                    (seq 0 (length (r0 :: rest))) = loaded_rows (r0 :: rest)).
    { unfold loaded_rows. apply map_ext_in. intros i Hi. apply in_seq in Hi. apply rows_of_cols.
      intros k _. rewrite column_length. lia. }
    rewrite R. unfold loaded_rows. cbn [length seq map existsb].
    destruct r0 as [|kv r0']; [congruence|]. reflexivity.
  - cbn [md_written mapM bind]. cbn [flat_map]. rewrite existsb_all_empty. rewrite G. reflexivity.
Qed.

(* ------------------------------------------------------------------ loaded metadata agrees with the source *)
Lemma subsetb_In a b : subsetb a b = true -> forall k, In k a -> In k b.
Proof.
  unfold subsetb. intros H k Hk. rewrite forallb_forall in H. specialize (H k Hk).
  apply existsb_exists in H. destruct H as [y [Hy E]]. apply lz_eqb_eq in E. subst. exact Hy.
Qed.

Lemma same_keys_iff r r0 : same_keys r r0 = true -> forall k, In k (mdkeys r) <-> In k (mdkeys r0).
Proof.
  unfold same_keys. intros H k. apply andb_true_iff in H. destruct H as [A B].
  split; [apply subsetb_In; exact A|apply subsetb_In; exact B].
Qed.

Lemma mdget_In r k : In k (mdkeys r) -> exists v, mdget r k = Some v.
Proof.
  induction r as [|[k' v'] t IH]; intros H; [contradiction|]. cbn [mdget].
  destruct (lz_eqb k k') eqn:E; [exists v'; reflexivity|]. apply IH. destruct H as [H|H]; [|exact H].
  cbn [fst] in H. subst. rewrite lz_eqb_refl in E. discriminate.
Qed.

Lemma mdget_notIn r k : ~ In k (mdkeys r) -> mdget r k = None.
Proof.
  induction r as [|[k' v'] t IH]; intros H; [reflexivity|]. cbn [mdget].
  destruct (lz_eqb k k') eqn:E.
  - apply lz_eqb_eq in E. subst. exfalso. apply H. left. reflexivity.
  - apply IH. intros Hi. apply H. right. exact Hi.
Qed.

Lemma mdget_map keys (g : str -> mdval) k :
  mdget (map (fun k => (k, g k)) keys) k = if existsb (lz_eqb k) keys then Some (g k) else None.
Proof.
  induction keys as [|k' t IH]; [reflexivity|]. cbn [map mdget existsb].
  destruct (lz_eqb k k') eqn:E; [apply lz_eqb_eq in E; subst; reflexivity|exact IH].
Qed.

Lemma existsb_lz_In k l : existsb (lz_eqb k) l = true <-> In k l.
Proof.
  rewrite existsb_exists. split.
  - intros [y [Hy E]]. apply lz_eqb_eq in E. subst. exact Hy.
  - intros H. exists k. split; [exact H|apply lz_eqb_refl].
Qed.

Lemma Forall2_seq {A B} (R : A -> B -> Prop) (f : nat -> A) (l : list B) d :
  (forall i, i < length l -> R (f i) (nth i l d)) -> Forall2 R (map f (seq 0 (length l))) l.
Proof.
  revert f. induction l as [|x l IH]; intros f H; [constructor|]. cbn [length seq map]. constructor.
  - apply (H 0). cbn [length]. lia.
  - rewrite <- seq_shift, map_map. apply IH. intros i Hi. apply (H (S i)). cbn [length]. lia.
Qed.

Lemma nth_column rows k i :
  nth i (column rows k) MNone = match mdget (nth i rows []) k with Some v => v | None => MNone end.
Proof. unfold column. exact (map_nth (fun r => match mdget r k with Some v => v | None => MNone end) rows [] i). Qed.

Lemma nonempty_head (r0 : mdrow) rest : r0 <> [] ->
  existsb (fun r : mdrow => match r with [] => false | _ => true end) (r0 :: rest) = true.
Proof. destruct r0; [congruence|reflexivity]. Qed.

Theorem md_loaded_agree md n : md_homogeneous md n -> md_agree (md_loaded md) (md_norm md).
Proof.
  destruct md as [[|r0 rest]|]; try (intros; exact I).
  intros (_ & Hne & Hnd & _ & Hrest & _). unfold md_norm, md_loaded. rewrite nonempty_head by exact Hne.
  cbn [md_agree]. unfold loaded_rows. apply (Forall2_seq row_agree _ (r0 :: rest) []). intros i Hi.
  assert (Hkeys : forall k, In k (mdkeys (nth i (r0 :: rest) [])) <-> In k (mdkeys r0)).
  { destruct i as [|i]; [intros k; reflexivity|]. cbn [nth]. apply same_keys_iff.
    rewrite Forall_forall in Hrest. apply Hrest. apply nth_In. cbn [length] in Hi. apply Nat.succ_lt_mono. exact Hi. }
  split.
  - intros k. unfold mdkeys at 1. rewrite map_map. cbn [fst]. rewrite map_id. symmetry. apply Hkeys.
  - intros k. rewrite (mdget_map (mdkeys r0) (fun k => nth i (column (r0 :: rest) k) MNone) k).
    rewrite nth_column.
    destruct (existsb (lz_eqb k) (mdkeys r0)) eqn:E.
    + apply existsb_lz_In in E. apply Hkeys in E. destruct (mdget_In _ _ E) as [v Hv]. rewrite Hv. reflexivity.
    + symmetry. apply mdget_notIn. intros Hi'. apply Hkeys in Hi'. apply existsb_lz_In in Hi'. congruence.
Qed.

(* ------------------------------------------------------------------ C01: the round trip *)
Lemma text_opt_text o dflt : opt_ok o -> text dflt -> text (opt_text o dflt).
Proof. destruct o as [[|c s]|]; cbn [opt_ok opt_text]; intros H T; try exact T. destruct H as [_ H]. exact H. Qed.

Lemma text_id_text o dflt : id_ok o -> text dflt -> text (opt_text o dflt).
Proof. destruct o as [[|c s]|]; cbn [id_ok opt_text]; intros H T; try exact T. exact H. Qed.

Lemma opt_text_some o dflt : opt_ok o -> opt_text o dflt = match o with Some s => s | None => dflt end.
Proof. destruct o as [[|c s]|]; cbn [opt_ok opt_text]; intros H; try reflexivity. destruct H as [H _]. congruence. Qed.

Lemma text_placeholder : text s_no_table_id.
Proof. apply textb_text. reflexivity. Qed.
Lemma text_nil : text [].
Proof. constructor. Qed.

Lemma to_hdf5_ok st genby date : meta_ok st ->
  to_hdf5 st genby date = ROk (assemble st genby date (md_written (st_omd st)) (gmd_written (st_ogmd st))
                                        (md_written (st_smd st)) (gmd_written (st_sgmd st))).
Proof.
  intros (M1 & M2 & G1 & G2 & _). unfold to_hdf5.
  rewrite (format_md_ok _ _ M1), (format_gmd_ok _ G1), (format_md_ok _ _ M2), (format_gmd_ok _ G2). reflexivity.
Qed.

(* what the reader returns for a written file *)
Definition reloaded (st : state) (genby date : str) : loaded :=
  mkLd (st_oids st) (st_sids st) (st_mat st) (md_loaded (st_omd st)) (md_loaded (st_smd st))
       (st_type st) (opt_text (st_id st) s_no_table_id) genby date
       (map (fun e => (fst e, snd (snd e))) (st_ogmd st)) (map (fun e => (fst e, snd (snd e))) (st_sgmd st)).

Theorem from_hdf5_written st genby date ax : wf_state st -> meta_ok st -> text genby -> text date ->
  from_hdf5 (assemble st genby date (md_written (st_omd st)) (gmd_written (st_ogmd st))
                      (md_written (st_smd st)) (gmd_written (st_sgmd st))) ax
  = ROk (reloaded st genby date).
Proof.
  intros (W & Lo & Ls & No & Ns & To & Ts) (M1 & M2 & G1 & G2 & Oty & Oid) Tg Td.
  destruct (writer_matrices st W) as ((O1 & O2 & O3 & O4 & O5 & O6) & (S1 & S2 & S3 & S4 & S5 & S6 & _) & _).
  destruct (st_mat_shape st W) as [ML MR].
  unfold from_hdf5, attr_text, need_dset.
  rewrite w_attr_id, w_attr_date, w_attr_genby, w_attr_shape, w_attr_type.
  rewrite (dec_enc _ (text_id_text _ _ Oid text_placeholder)). cbn [bind].
  rewrite (dec_enc _ Td). cbn [bind]. rewrite (dec_enc _ Tg). cbn [bind].
  rewrite (dec_enc _ (text_opt_text _ _ Oty text_nil)). cbn [bind].
  rewrite (axis_load_ok _ b_observation (st_oids st) (st_omd st) (st_ogmd st)); try assumption;
    [|apply w_get_obs_ids|reflexivity|reflexivity|apply w_children_omd|apply w_children_ogmd].
  rewrite (axis_load_ok _ b_sample (st_sids st) (st_smd st) (st_sgmd st)); try assumption;
    [|apply w_get_samp_ids|reflexivity|reflexivity|apply w_children_smd|apply w_children_sgmd].
  cbn [bind]. rewrite !Nat2Z.id.
  assert (Fin : negb (Nat.eqb (length (st_oids st)) (st_nobs st)) || negb (Nat.eqb (length (st_sids st)) (st_nsamp st))
                || sdup (st_oids st) || sdup (st_sids st) = false).
  { rewrite Lo, Ls, !Nat.eqb_refl, (sdup_NoDup _ No), (sdup_NoDup _ Ns). reflexivity. }
  assert (Ty : match opt_text (st_type st) [] with [] => None | _ => Some (opt_text (st_type st) []) end = st_type st).
  { destruct (st_type st) as [[|c s]|]; cbn [opt_text opt_ok] in *; try reflexivity. destruct Oty as [H _]. congruence. }
  destruct ax; cbn [axis_name].
  - rewrite w_get_obs_data, w_get_obs_indices, w_get_obs_indptr. cbn [bind d_num]. rewrite Fin, Ty, !ns_zs.
    replace (mkCS (st_nobs st) (st_nsamp st) (indptr (w_obs st)) (indices (w_obs st)) (data (w_obs st)))
      with (w_obs st) by (rewrite <- O2, <- O3; symmetry; apply cs_eta).
    rewrite O4. reflexivity.
  - rewrite w_get_samp_data, w_get_samp_indices, w_get_samp_indptr. cbn [bind d_num]. rewrite Fin, Ty, !ns_zs.
    replace (mkCS (st_nsamp st) (st_nobs st) (indptr (w_samp st)) (indices (w_samp st)) (data (w_samp st)))
      with (w_samp st) by (rewrite <- S2, <- S3; symmetry; apply cs_eta).
    rewrite S4. rewrite <- ML at 1. rewrite (transpose_involutive _ _ MR). reflexivity.
Qed.

Theorem hdf5_roundtrip st genby date ax : wf_state st -> meta_ok st -> text genby -> text date ->
  exists f ld,
    to_hdf5 st genby date = ROk f /\ from_hdf5 f ax = ROk ld
    /\ l_oids ld = st_oids st /\ l_sids ld = st_sids st
    /\ l_mat ld = st_mat st
    /\ md_agree (l_omd ld) (md_norm (st_omd st)) /\ md_agree (l_smd ld) (md_norm (st_smd st))
    /\ l_type ld = st_type st
    /\ l_id ld = opt_text (st_id st) s_no_table_id
    /\ l_genby ld = genby /\ l_date ld = date
    /\ l_ogmd ld = map (fun e => (fst e, snd (snd e))) (st_ogmd st)
    /\ l_sgmd ld = map (fun e => (fst e, snd (snd e))) (st_sgmd st).
Proof.
  intros W M Tg Td. eexists. exists (reloaded st genby date).
  split; [apply to_hdf5_ok; exact M|]. split; [apply from_hdf5_written; assumption|].
  destruct M as (M1 & M2 & _). cbn [reloaded l_oids l_sids l_mat l_omd l_smd l_type l_id l_genby l_date l_ogmd l_sgmd].
  repeat split; try reflexivity; eapply md_loaded_agree; eassumption.
Qed.

(* ------------------------------------------------------------------ C04: conformance *)
Definition type_in_vocab (st : state) : Prop :=
  match st_type st with None => True | Some s => In s vocabulary end.

Lemma sanitize_no_slash k : ~ In 47%Z k -> sanitize k = k.
Proof.
  induction k as [|c t IH]; intros H; [reflexivity|]. rewrite sanitize_cons.
  destruct (Z.eqb_spec 47 c) as [E|E]; [exfalso; apply H; left; symmetry; exact E|].
  cbn [app]. f_equal. apply IH. intros Hi. apply H. right. exact Hi.
Qed.

Lemma sanitize_has_at k : In 47%Z k -> In 64%Z (sanitize k).
Proof.
  induction k as [|c t IH]; intros H; [contradiction|]. rewrite sanitize_cons. apply in_or_app.
  destruct (Z.eqb_spec 47 c) as [E|E]; [left; left; reflexivity|].
  right. apply IH. destruct H as [H|H]; [congruence|exact H].
Qed.

Lemma reserved_no_at k : reserved k = true -> ~ In 64%Z k.
Proof.
  intros R. destruct (reserved_cases k R) as [-> | [-> | [-> | ->]]]; vm_compute; intuition discriminate.
Qed.

Lemma reserved_catname k : reserved (catname k) = reserved k.
Proof.
  unfold catname. destruct (reserved k) eqn:R; [exact R|].
  destruct (reserved (sanitize k)) eqn:R2; [|reflexivity].
  destruct (In_dec Z.eq_dec 47%Z k) as [Hs|Hs].
  - exfalso. exact (reserved_no_at _ R2 (sanitize_has_at k Hs)).
  - rewrite (sanitize_no_slash k Hs) in R2. congruence.
Qed.

Lemma cat_dset_shape k col : exists rest, d_shape (cat_dset k col) = length col :: rest.
Proof.
  unfold cat_dset. destruct (reserved k); [eexists; cbn [dstr2 d_shape]; rewrite map_length; reflexivity|].
  destruct (forallb is_str col); [|destruct (forallb is_int col); [|destruct (forallb is_float col)]];
    eexists; cbn [dstr1 dnum d_shape]; rewrite map_length; reflexivity.
Qed.

Lemma md_written_ok md n : md_homogeneous md n ->
  Forall (fun nd => match d_shape (snd nd) with n' :: _ => n' = n | [] => False end
                    /\ (forall s, utf8_decode (fst nd) = Some s -> reserved s = true ->
                                  d_kind (snd nd) = KVStr /\ exists w, d_shape (snd nd) = [n; w]))
         (md_written md).
Proof.
  destruct md as [[|r0 rest]|]; try (intros; constructor).
  intros (Hlen & _ & _ & Hcat & _ & _). cbn [md_written md_dsets]. apply Forall_forall. intros nd Hnd.
  apply in_map_iff in Hnd. destruct Hnd as [k [<- Hk]]. cbn [fst snd]. split.
  - destruct (cat_dset_shape k (column (r0 :: rest) k)) as [tl E]. rewrite E, column_length. exact Hlen.
  - intros s Hs R. rewrite Forall_forall in Hcat. rewrite utf8_roundtrip in Hs by (apply text_catname; apply Hcat; exact Hk).
    inversion Hs; subst s. rewrite reserved_catname in R. unfold cat_dset. rewrite R.
    cbn [dstr2 d_kind d_shape]. split; [reflexivity|]. eexists. rewrite map_length, column_length, Hlen. reflexivity.
Qed.

Lemma gmd_written_ok g :
  Forall (fun nd => d_kind (snd nd) = KVStr /\ length (d_str (snd nd)) = 1
                    /\ exists t, In (b_data_type, t) (d_attrs (snd nd))) (gmd_written g).
Proof.
  apply Forall_forall. intros nd Hnd. apply in_map_iff in Hnd. destruct Hnd as [e [<- _]]. cbn [snd d_kind d_str d_attrs].
  repeat split. eexists. left. reflexivity.
Qed.

Lemma ids_written_ok (ids : list str) :
  exists d, Some (match ids with [] => dnum KF64 [] | _ => dstr1 (map utf8_encode ids) end) = Some d
            /\ d_shape d = [length ids]
            /\ (length ids > 0 -> d_kind d = KVStr /\ length (d_str d) = length ids)
            /\ (length ids > 0 -> d_str d = map utf8_encode ids).
Proof.
  destruct ids as [|i t]; eexists; (split; [reflexivity|]).
  - split; [reflexivity|]. split; intros H; cbn [length] in H; lia.
  - cbn [dstr1 d_shape d_kind d_str]. rewrite map_length. repeat split; reflexivity.
Qed.

Theorem conforms_written st genby date : wf_state st -> meta_ok st -> type_in_vocab st ->
  conforms (assemble st genby date (md_written (st_omd st)) (gmd_written (st_ogmd st))
                     (md_written (st_smd st)) (gmd_written (st_sgmd st))).
Proof.
  intros (W & Lo & Ls & _) (M1 & M2 & G1 & G2 & Oty & _) Tv.
  destruct (writer_matrices st W) as ((O1 & O2 & O3 & O4 & O5 & O6) & (S1 & S2 & S3 & S4 & S5 & S6 & _) & _).
  exists (st_nobs st), (st_nsamp st), (w_nnz st).
  split; [eexists; apply w_attr_id|]. split.
  { eexists. split; [apply w_attr_type|]. unfold type_in_vocab in Tv.
    destruct (st_type st) as [[|c s]|]; cbn [opt_text]; try (left; reflexivity).
    right. apply in_map. exact Tv. }
  split; [eexists; apply w_attr_url|]. split; [apply w_attr_version|].
  split; [eexists; apply w_attr_genby|]. split; [eexists; apply w_attr_date|].
  split; [apply w_attr_shape|]. split; [apply w_attr_nnz|]. split; [apply w_groups|].
  split.
  { unfold ids_ok. rewrite w_get_obs_ids. destruct (ids_written_ok (st_oids st)) as [d (E & A & B & _)].
    exists d. rewrite <- Lo. split; [exact E|split; [exact A|exact B]]. }
  split.
  { unfold ids_ok. rewrite w_get_samp_ids. destruct (ids_written_ok (st_sids st)) as [d (E & A & B & _)].
    exists d. rewrite <- Ls. split; [exact E|split; [exact A|exact B]]. }
  destruct O1 as (P1 & _ & _ & _ & P5 & _). destruct S1 as (Q1 & _ & _ & _ & Q5 & _).
  unfold dset_is.
  split; [rewrite w_get_obs_data; eexists; repeat split; cbn [dkind_eqb d_num]; exact O6|].
  split; [rewrite w_get_obs_indices; eexists; repeat split; cbn [dkind_eqb d_num]; unfold zs; rewrite map_length, P5; exact O6|].
  split; [rewrite w_get_obs_indptr; eexists; repeat split; cbn [dkind_eqb d_num d_shape]; unfold zs; rewrite ?map_length, P1, O2; reflexivity|].
  split; [rewrite w_get_samp_data; eexists; repeat split; cbn [dkind_eqb d_num]; exact S6|].
  split; [rewrite w_get_samp_indices; eexists; repeat split; cbn [dkind_eqb d_num]; unfold zs; rewrite map_length, Q5; exact S6|].
  split; [rewrite w_get_samp_indptr; eexists; repeat split; cbn [dkind_eqb d_num d_shape]; unfold zs; rewrite ?map_length, Q1, S2; reflexivity|].
  split; [unfold md_ok_h5; rewrite w_children_omd, <- Lo; apply md_written_ok; exact M1|].
  split; [unfold md_ok_h5; rewrite w_children_smd, <- Ls; apply md_written_ok; exact M2|].
  split; [unfold gmd_ok_h5; rewrite w_children_ogmd; apply gmd_written_ok|].
  unfold gmd_ok_h5. rewrite w_children_sgmd. apply gmd_written_ok.
Qed.

(* what the specification decoder's acceptance means *)
Theorem spec_decoder_checks f a mj mn r : spec_arrays f a mj mn = Some r ->
  wf_csb r = true /\ no_stored_zerob r = true /\ major r = mj /\ minor r = mn
  /\ get_attr (attrs f) b_nnz = Some (AInt (Z.of_nat (length (data r)))).
Proof.
  unfold spec_arrays. destruct (get_dset (dsets f) [a; b_matrix; b_data]) as [dd|]; [|discriminate].
  destruct (get_dset (dsets f) [a; b_matrix; b_indices]) as [di|]; [|discriminate].
  destruct (get_dset (dsets f) [a; b_matrix; b_indptr]) as [dp|]; [|discriminate].
  destruct (get_attr (attrs f) b_nnz) as [[b|z|l]|]; try discriminate.
  destruct (_ && _) eqn:E; [|discriminate]. intros H. inversion H; subst r. clear H.
  repeat (apply andb_true_iff in E; destruct E as [E ?]).
  cbn [major minor data]. repeat split; try assumption.
  match goal with H : Z.eqb _ _ = true |- _ => apply Z.eqb_eq in H; cbn [data] in H; rewrite H end. reflexivity.
Qed.

Theorem hdf5_conforms st genby date : wf_state st -> meta_ok st -> type_in_vocab st ->
  exists f,
    to_hdf5 st genby date = ROk f /\ conforms f
    /\ get_attr (attrs f) b_shape = Some (AInts [Z.of_nat (length (st_oids st)); Z.of_nat (length (st_sids st))])
    /\ length (st_mat st) = length (st_oids st) /\ rect (length (st_sids st)) (st_mat st)
    /\ get_attr (attrs f) b_nnz = Some (AInt (Z.of_nat (count_nonzero (st_mat st))))
    /\ spec_decode_csr f = Some (st_mat st) /\ spec_decode_csc f = Some (st_mat st)
    /\ (st_oids st <> [] -> exists d, get_dset (dsets f) [b_observation; b_ids] = Some d /\ d_str d = map utf8_encode (st_oids st))
    /\ (st_sids st <> [] -> exists d, get_dset (dsets f) [b_sample; b_ids] = Some d /\ d_str d = map utf8_encode (st_sids st)).
Proof.
  intros Wf M Tv. pose proof Wf as (W & Lo & Ls & _).
  destruct (writer_matrices st W) as (_ & _ & Nz). destruct (st_mat_shape st W) as [ML MR].
  destruct (spec_decode_written st genby date (md_written (st_omd st)) (gmd_written (st_ogmd st))
                                (md_written (st_smd st)) (gmd_written (st_sgmd st)) W) as [D1 D2].
  eexists. split; [apply to_hdf5_ok; exact M|]. split; [apply conforms_written; assumption|].
  split; [rewrite Lo, Ls; apply w_attr_shape|]. split; [congruence|]. split; [rewrite Ls; exact MR|].
  split; [rewrite <- Nz; apply w_attr_nnz|]. split; [exact D1|]. split; [exact D2|]. split.
  - intros Hne. rewrite w_get_obs_ids. destruct (st_oids st); [congruence|]. eexists. split; reflexivity.
  - intros Hne. rewrite w_get_samp_ids. destruct (st_sids st); [congruence|]. eexists. split; reflexivity.
Qed.

(* ------------------------------------------------------------------ non-vacuity: the standard witness *)
(* a 3 x 4 table held as CSR with an all-zero row (the second), unsorted column indices and one
   explicitly stored zero; non-ASCII id, an id with a slash; taxonomy lists of unequal length and a
   category whose name contains a slash; type from the vocabulary; one group-metadata entry *)
Definition demo_cs : cs := mkCS 3 4 [0; 2; 2; 5] [2; 0; 3; 1; 0] [1; 0; 3; 4; 5]%Z.
Definition demo_st : state :=
  mkSt [[111; 49]; [233; 50]; [99; 47; 100]]%Z [[115; 49]; [115; 50]; [115; 51]; [115; 52]]%Z
       CSR demo_cs
       (Some [ [(s_taxonomy, MList [[107]; [112]]); ([120; 47; 121], MStr [117])];
               [([120; 47; 121], MStr [118]); (s_taxonomy, MList [[107]])];
               [(s_taxonomy, MList [[97]; [98]; [99]]); ([120; 47; 121], MStr [119; 233])] ])%Z
       None
       (Some (nth 0 vocabulary [])) None
       [([116], ([110], [40; 97; 44; 98; 41; 59]))]%Z [].

Lemma sdup_sound l : sdup l = false -> NoDup l.
Proof.
  induction l as [|x t IH]; intros H; [constructor|]. cbn [sdup] in H. apply orb_false_iff in H. destruct H as [H1 H2].
  constructor; [|apply IH; exact H2]. intros Hi. apply existsb_lz_In in Hi. congruence.
Qed.

Lemma Forall_textb l : forallb textb l = true -> Forall text l.
Proof.
  intros H. apply Forall_forall. intros s Hs. rewrite forallb_forall in H. apply textb_text. apply H. exact Hs.
Qed.

Lemma demo_wf : wf_state demo_st.
Proof.
  unfold wf_state. split; [apply wf_csb_wf_cs; reflexivity|]. split; [reflexivity|]. split; [reflexivity|].
  split; [apply sdup_sound; reflexivity|]. split; [apply sdup_sound; reflexivity|].
  split; apply Forall_textb; reflexivity.
Qed.

Lemma demo_layout : sorted_csb demo_cs = false /\ no_stored_zerob demo_cs = false
                    /\ nth 1 (st_mat demo_st) [] = [0; 0; 0; 0]%Z.
Proof. repeat split. Qed.

Lemma demo_meta : meta_ok demo_st /\ type_in_vocab demo_st.
Proof.
  assert (T : forall s, textb s = true -> text s) by (intros s; apply textb_text).
  assert (TL : forall l, forallb (fun s => negb (lz_eqb s []) && textb s) l = true -> Forall (fun s => s <> [] /\ text s) l).
  { intros l H. apply Forall_forall. intros s Hs. rewrite forallb_forall in H. specialize (H s Hs).
    apply andb_true_iff in H. destruct H as [H1 H2]. split; [|apply T; exact H2].
    intros ->. discriminate. }
  split; [|left; reflexivity]. unfold meta_ok. split; [|split; [exact I|split; [|split; [|split; [|exact I]]]]].
  - cbn [demo_st st_omd st_oids md_homogeneous length]. split; [reflexivity|]. split; [discriminate|].
    split; [apply sdup_sound; reflexivity|]. split.
    { constructor; [split; [apply T; reflexivity|reflexivity]|]. constructor; [split; [apply T; reflexivity|reflexivity]|constructor]. }
    split.
    { constructor; [split; [apply sdup_sound; reflexivity|reflexivity]|].
      constructor; [split; [apply sdup_sound; reflexivity|reflexivity]|constructor]. }
    constructor; [|constructor; [|constructor]].
    + unfold column_ok. replace (reserved s_taxonomy) with true by reflexivity. cbn [column map mdget].
      constructor; [split; [discriminate|apply TL; reflexivity]|].
      constructor; [split; [discriminate|apply TL; reflexivity]|].
      constructor; [split; [discriminate|apply TL; reflexivity]|constructor].
    + unfold column_ok. replace (reserved [120; 47; 121]%Z) with false by reflexivity. left.
      constructor; [apply T; reflexivity|]. constructor; [apply T; reflexivity|]. constructor; [apply T; reflexivity|constructor].
  - split; [apply sdup_sound; reflexivity|]. constructor; [|constructor].
    split; [apply T; reflexivity|]. split; [reflexivity|]. split; apply T; reflexivity.
  - split; [constructor|constructor].
  - split; [discriminate|apply T; reflexivity].
Qed.

(* the decision procedure for wf_state is sound *)
Lemma wf_stateb_sound st : wf_stateb st = true -> wf_state st.
Proof.
  unfold wf_stateb, wf_state. intros H. do 6 (apply andb_true_iff in H; destruct H as [H ?]).
  repeat match goal with
         | X : Nat.eqb _ _ = true |- _ => apply Nat.eqb_eq in X
         | X : negb _ = true |- _ => apply negb_true_iff in X
         end.
  split; [apply wf_csb_wf_cs; assumption|]. split; [assumption|]. split; [assumption|].
  split; [apply sdup_sound; assumption|]. split; [apply sdup_sound; assumption|].
  split; apply Forall_textb; assumption.
Qed.

(* ------------------------------------------------------------------ F38: the escape is not injective, end to end *)
(* a 1 x 1 table whose only observation category is named  @@SLASH@/ : everything but cat_ok holds,
   the file is written and read without error, and the category comes back as  /@SLASH@@ *)
Definition f38_st : state :=
  mkSt [[111]]%Z [[115]]%Z CSR (mkCS 1 1 [0; 1] [0] [1%Z]) (Some [[(bad_name, MStr [118]%Z)]]) None None None [] [].

Theorem hdf5_roundtrip_escape_refuted :
  wf_state f38_st
  /\ match bind (to_hdf5 f38_st [] []) (fun f => from_hdf5 f Samp) with
     | ROk ld => l_omd ld = Some [[([47; 64; 83; 76; 65; 83; 72; 64; 64]%Z, MStr [118]%Z)]]
                 /\ ~ md_agree (l_omd ld) (md_norm (st_omd f38_st))
     | RErr _ => False
     end.
Proof.
  split; [apply wf_stateb_sound; reflexivity|]. vm_compute. split; [reflexivity|].
  intros H. inversion H as [|? ? ? ? [Hk _] _]; subst. specialize (Hk [47; 64; 83; 76; 65; 83; 72; 64; 64]%Z).
  destruct Hk as [Hk _]. specialize (Hk (or_introl eq_refl)). destruct Hk as [Hk|[]]. discriminate.
Qed.

(* ------------------------------------------------------------------ the boolean hypotheses are sound *)
Lemma is_nil_false {A} (l : list A) : negb (is_nil l) = true -> l <> [].
Proof. destruct l; [discriminate|intros _; discriminate]. Qed.

Lemma list_okb_sound v : list_okb v = true -> list_ok v.
Proof.
  destruct v; try discriminate. cbn [list_okb list_ok]. intros H. apply andb_true_iff in H. destruct H as [H1 H2].
  split; [apply is_nil_false; exact H1|]. apply Forall_forall. intros s Hs. rewrite forallb_forall in H2.
  specialize (H2 s Hs). apply andb_true_iff in H2. destruct H2 as [A B].
  split; [apply is_nil_false; exact A|apply textb_text; exact B].
Qed.

Lemma str_okb_sound v : str_okb v = true -> str_ok v.
Proof. destruct v; try discriminate. cbn [str_okb str_ok]. apply textb_text. Qed.

Lemma forallb_Forall {A} (p : A -> bool) (P : A -> Prop) l :
  (forall x, p x = true -> P x) -> forallb p l = true -> Forall P l.
Proof. intros H F. apply Forall_forall. intros x Hx. rewrite forallb_forall in F. apply H. apply F. exact Hx. Qed.

Lemma column_okb_sound k col : column_okb k col = true -> column_ok k col.
Proof.
  unfold column_okb, column_ok. destruct (reserved k).
  - apply forallb_Forall. exact list_okb_sound.
  - intros H. apply orb_true_iff in H. destruct H as [H|H]; [|right; right; right; exact H].
    apply orb_true_iff in H. destruct H as [H|H]; [|right; right; left; exact H].
    apply orb_true_iff in H. destruct H as [H|H]; [left|right; left; exact H].
    revert H. apply forallb_Forall. exact str_okb_sound.
Qed.

Lemma cat_okb_sound k : cat_okb k = true -> cat_ok k.
Proof.
  unfold cat_okb, cat_ok. intros H. apply andb_true_iff in H. destruct H as [A B].
  split; [apply textb_text; exact A|apply lz_eqb_eq; exact B].
Qed.

Lemma md_homogeneousb_sound md n : md_homogeneousb md n = true -> md_homogeneous md n.
Proof.
  destruct md as [rows|]; [|intros; exact I]. cbn [md_homogeneousb md_homogeneous]. intros H.
  apply andb_true_iff in H. destruct H as [HL H]. apply Nat.eqb_eq in HL. split; [exact HL|].
  destruct rows as [|r0 rest]; [exact I|].
  do 4 (apply andb_true_iff in H; destruct H as [H ?]).
  split; [apply is_nil_false; exact H|].
  split; [apply sdup_sound; apply negb_true_iff; assumption|].
  split; [eapply forallb_Forall; [exact cat_okb_sound|eassumption]|].
  split.
  - eapply forallb_Forall; [|eassumption]. intros r Hr. apply andb_true_iff in Hr. destruct Hr as [A B].
    split; [apply sdup_sound; apply negb_true_iff; exact A|exact B].
  - eapply forallb_Forall; [|eassumption]. intros k Hk. apply column_okb_sound. exact Hk.
Qed.

Lemma gmd_okb_sound g : gmd_okb g = true -> gmd_ok g.
Proof.
  unfold gmd_okb, gmd_ok. intros H. apply andb_true_iff in H. destruct H as [A B].
  split; [apply sdup_sound; apply negb_true_iff; exact A|].
  revert B. apply forallb_Forall. intros e He. do 3 (apply andb_true_iff in He; destruct He as [He ?]).
  split; [apply textb_text; exact He|]. split; [apply negb_true_iff; assumption|].
  split; apply textb_text; assumption.
Qed.

Lemma opt_okb_sound o : opt_okb o = true -> opt_ok o.
Proof.
  destruct o as [s|]; [|intros; exact I]. cbn [opt_okb opt_ok]. intros H. apply andb_true_iff in H. destruct H as [A B].
  split; [apply is_nil_false; exact A|apply textb_text; exact B].
Qed.

Lemma meta_okb_sound st : meta_okb st = true -> meta_ok st.
Proof.
  unfold meta_okb, meta_ok. intros H. do 5 (apply andb_true_iff in H; destruct H as [H ?]).
  split; [apply md_homogeneousb_sound; exact H|]. split; [apply md_homogeneousb_sound; assumption|].
  split; [apply gmd_okb_sound; assumption|]. split; [apply gmd_okb_sound; assumption|].
  split; [apply opt_okb_sound; assumption|].
  match goal with X : id_okb _ = true |- _ => revert X end. unfold id_okb, id_ok. destruct (st_id st); [apply textb_text|intros; exact I].
Qed.

Lemma type_in_vocabb_sound st : type_in_vocabb st = true -> type_in_vocab st.
Proof.
  unfold type_in_vocabb, type_in_vocab. destruct (st_type st); [|intros; exact I]. apply existsb_lz_In.
Qed.

Theorem in_domainb_sound st genby date : in_domainb st genby date = true ->
  wf_state st /\ meta_ok st /\ text genby /\ text date.
Proof.
  unfold in_domainb. intros H. do 3 (apply andb_true_iff in H; destruct H as [H ?]).
  split; [apply wf_stateb_sound; exact H|]. split; [apply meta_okb_sound; assumption|].
  split; apply textb_text; assumption.
Qed.

(* ------------------------------------------------------------------ histories: a loaded table is written again *)
(* the state of a table that was loaded (table.py:4376-4381: the constructor receives what axis_load
   returned) and is then held in ANY well-formed layout f0 / r that denotes the loaded matrix;
   its group metadata are bare payload texts, which to_hdf5 writes with the empty data type *)
Definition regmd (g : list (str * str)) : list (str * (str * str)) := map (fun kv => (fst kv, ([], snd kv))) g.
Definition restate (ld : loaded) (f0 : fmt) (r : cs) : state :=
  mkSt (l_oids ld) (l_sids ld) f0 r (l_omd ld) (l_smd ld) (l_type ld) (Some (l_id ld))
       (regmd (l_ogmd ld)) (regmd (l_sgmd ld)).

Lemma unpack_gmd_text g : unpack_gmd (map (fun kv => (fst kv, GText (snd kv))) g) = ROk (regmd g).
Proof.
  unfold unpack_gmd, regmd. rewrite mapM_map. apply mapM_ok. apply Forall_forall. intros kv _. reflexivity.
Qed.

Lemma subsetb_refl l : subsetb l l = true.
Proof.
  unfold subsetb. apply forallb_forall. intros x Hx. apply existsb_lz_In. exact Hx.
Qed.

Lemma mdkeys_mapped keys (g : str -> mdval) : mdkeys (map (fun k => (k, g k)) keys) = keys.
Proof. unfold mdkeys. rewrite map_map. cbn [fst]. apply map_id. Qed.

Lemma seq_nth_id (l : list mdval) : map (fun i => nth i l MNone) (seq 0 (length l)) = l.
Proof. rewrite (map_nth_seq (fun x => x) l MNone). apply map_id. Qed.

Lemma column_loaded_rows r0 rest k : In k (mdkeys r0) ->
  column (loaded_rows (r0 :: rest)) k = column (r0 :: rest) k.
Proof.
  intros Hk. unfold loaded_rows, column at 1. rewrite map_map.
  rewrite (map_ext _ (fun i => nth i (column (r0 :: rest) k) MNone)).
  - rewrite <- (column_length (r0 :: rest) k). apply seq_nth_id.
  - intros i. rewrite (mdget_map (mdkeys r0) (fun k0 => nth i (column (r0 :: rest) k0) MNone) k).
    replace (existsb (lz_eqb k) (mdkeys r0)) with true by (symmetry; apply existsb_lz_In; exact Hk). reflexivity.
Qed.

Theorem md_loaded_homogeneous md n : md_homogeneous md n -> md_homogeneous (md_loaded md) n.
Proof.
  destruct md as [[|r0 rest]|]; try (intros; exact I).
  intros (Hlen & Hne & Hnd & Hcat & Hrest & Hcol).
  pose proof (column_loaded_rows r0 rest) as CL.
  set (row := fun i => map (fun k => (k, nth i (column (r0 :: rest) k) MNone)) (mdkeys r0)).
  assert (E : loaded_rows (r0 :: rest) = row 0 :: map row (seq 1 (length rest))) by reflexivity.
  cbn [md_loaded md_homogeneous]. rewrite E.
  split; [cbn [length]; rewrite map_length, seq_length; exact Hlen|].
  split; [unfold row; destruct r0; [congruence|discriminate]|].
  split; [unfold row; rewrite mdkeys_mapped; exact Hnd|].
  split; [unfold row; rewrite mdkeys_mapped; exact Hcat|].
  split.
  - apply Forall_forall. intros r Hr. apply in_map_iff in Hr. destruct Hr as [i [<- _]].
    unfold row. cbn beta. rewrite !mdkeys_mapped. split; [exact Hnd|]. unfold same_keys. rewrite !mdkeys_mapped, subsetb_refl. reflexivity.
  - replace (mdkeys (row 0)) with (mdkeys r0) by (symmetry; apply mdkeys_mapped).
    apply Forall_forall. intros k Hk. rewrite Forall_forall in Hcol. cbn beta.
    rewrite <- E, (CL k Hk). apply Hcol. exact Hk.
Qed.

Lemma md_norm_loaded md n : md_homogeneous md n -> md_norm (md_loaded md) = md_loaded md.
Proof.
  destruct md as [[|r0 rest]|]; try reflexivity. intros (_ & Hne & _). cbn [md_loaded md_norm]. unfold loaded_rows.
  cbn [length seq map]. rewrite nonempty_head; [reflexivity|]. destruct r0; [congruence|discriminate].
Qed.

Lemma opt_text_nonempty o : opt_text o s_no_table_id <> [].
Proof. destruct o as [[|c s]|]; cbn [opt_text]; discriminate. Qed.

Lemma regmd_ok g : gmd_ok g -> gmd_ok (regmd (map (fun e => (fst e, snd (snd e))) g)).
Proof.
  intros [Hn F]. unfold regmd. rewrite map_map. cbn [fst snd]. split; [rewrite map_map; cbn [fst]; exact Hn|].
  apply Forall_forall. intros e He. apply in_map_iff in He. destruct He as [x [<- Hx]].
  rewrite Forall_forall in F. destruct (F x Hx) as (A & B & _ & D). cbn [fst snd].
  split; [exact A|]. split; [exact B|]. split; [constructor|exact D].
Qed.

(* [history] the table loaded from a written file, held in any well-formed layout that denotes the
   loaded matrix, satisfies the hypotheses of the round trip again; writing it again and loading
   yields generation 1 once more: ids, matrix, metadata (as dictionaries), type, id, generated-by,
   date, group-metadata payloads *)
Theorem second_generation st genby date f0 r ax :
  wf_state st -> meta_ok st -> text genby -> text date ->
  wf_cs r -> matrix_of f0 r = st_mat st ->
  length (st_oids st) = (match f0 with CSR => major r | CSC => minor r end) ->
  length (st_sids st) = (match f0 with CSR => minor r | CSC => major r end) ->
  let ld1 := reloaded st genby date in
  let st2 := restate ld1 f0 r in
  wf_state st2 /\ meta_ok st2
  /\ to_hdf5_raw st2 (map (fun kv => (fst kv, GText (snd kv))) (l_ogmd ld1))
                     (map (fun kv => (fst kv, GText (snd kv))) (l_sgmd ld1)) genby date
     = to_hdf5 st2 genby date
  /\ exists f ld2,
       to_hdf5 st2 genby date = ROk f /\ from_hdf5 f ax = ROk ld2
       /\ l_oids ld2 = l_oids ld1 /\ l_sids ld2 = l_sids ld1 /\ l_mat ld2 = l_mat ld1
       /\ md_agree (l_omd ld2) (l_omd ld1) /\ md_agree (l_smd ld2) (l_smd ld1)
       /\ l_type ld2 = l_type ld1 /\ l_id ld2 = l_id ld1
       /\ l_genby ld2 = l_genby ld1 /\ l_date ld2 = l_date ld1
       /\ l_ogmd ld2 = l_ogmd ld1 /\ l_sgmd ld2 = l_sgmd ld1.
Proof.
  intros Wf M Tg Td Wr Hm Ho Hs ld1 st2.
  pose proof Wf as (W & Lo & Ls & No & Ns & To & Ts). pose proof M as (M1 & M2 & G1 & G2 & Oty & Oid).
  assert (Wf2 : wf_state st2).
  { unfold wf_state, st2, restate, ld1, reloaded, st_nobs, st_nsamp. cbn [st_cs st_oids st_sids st_fmt l_oids l_sids].
    repeat (split; [assumption|]). assumption. }
  assert (M2' : meta_ok st2).
  { unfold meta_ok, st2, restate, ld1, reloaded.
    cbn [st_omd st_smd st_oids st_sids st_ogmd st_sgmd st_type st_id l_oids l_sids l_omd l_smd l_type l_id l_ogmd l_sgmd].
    split; [apply md_loaded_homogeneous; exact M1|]. split; [apply md_loaded_homogeneous; exact M2|].
    split; [apply regmd_ok; exact G1|]. split; [apply regmd_ok; exact G2|]. split; [exact Oty|].
    cbn [id_ok]. apply text_id_text; [exact Oid|exact text_placeholder]. }
  split; [exact Wf2|]. split; [exact M2'|]. split.
  { unfold to_hdf5_raw. rewrite !unpack_gmd_text. cbn [bind]. f_equal. }
  destruct (hdf5_roundtrip st2 genby date ax Wf2 M2' Tg Td)
    as (f & ld2 & E1 & E2 & A1 & A2 & A3 & A4 & A5 & A6 & A7 & A8 & A9 & A10 & A11).
  exists f, ld2. split; [exact E1|]. split; [exact E2|].
  unfold st2, restate, ld1, reloaded in *.
  cbn [st_oids st_sids st_omd st_smd st_type st_id st_ogmd st_sgmd l_oids l_sids l_mat l_omd l_smd l_type l_id l_genby l_date l_ogmd l_sgmd] in *.
  split; [exact A1|]. split; [exact A2|].
  split; [rewrite A3; unfold st_mat; cbn [st_fmt st_cs]; exact Hm|].
  split; [rewrite (md_norm_loaded _ _ M1) in A4; exact A4|]. split; [rewrite (md_norm_loaded _ _ M2) in A5; exact A5|].
  split; [exact A6|]. split.
  { rewrite A7. cbn [opt_text]. destruct (opt_text (st_id st) s_no_table_id) eqn:E; [|reflexivity].
    exfalso. exact (opt_text_nonempty _ E). }
  split; [exact A8|]. split; [exact A9|]. split.
  - rewrite A10. unfold regmd. rewrite map_map. cbn [fst snd]. rewrite map_map. cbn [fst snd]. apply map_ext. intros [k [dt v]]. reflexivity.
  - rewrite A11. unfold regmd. rewrite map_map. cbn [fst snd]. rewrite map_map. cbn [fst snd]. apply map_ext. intros [k [dt v]]. reflexivity.
Qed.

(* [history] ... and the file written from the loaded table conforms and decodes to the original matrix *)
Theorem second_generation_conforms st genby date f0 r :
  wf_state st -> meta_ok st -> type_in_vocab st -> text genby -> text date ->
  wf_cs r -> matrix_of f0 r = st_mat st ->
  length (st_oids st) = (match f0 with CSR => major r | CSC => minor r end) ->
  length (st_sids st) = (match f0 with CSR => minor r | CSC => major r end) ->
  exists f,
    to_hdf5 (restate (reloaded st genby date) f0 r) genby date = ROk f /\ conforms f
    /\ get_attr (attrs f) b_format_version = Some (AInts [2%Z; 1%Z])
    /\ get_attr (attrs f) b_nnz = Some (AInt (Z.of_nat (count_nonzero (st_mat st))))
    /\ spec_decode_csr f = Some (st_mat st) /\ spec_decode_csc f = Some (st_mat st).
Proof.
  intros Wf M Tv Tg Td Wr Hm Ho Hs.
  destruct (second_generation st genby date f0 r Samp Wf M Tg Td Wr Hm Ho Hs) as (Wf2 & M2 & _).
  set (st2 := restate (reloaded st genby date) f0 r) in *.
  assert (Tv2 : type_in_vocab st2) by exact Tv.
  assert (Hm2 : st_mat st2 = st_mat st) by exact Hm.
  destruct (hdf5_conforms st2 genby date Wf2 M2 Tv2) as (f & E & C & _ & _ & _ & N & D1 & D2 & _).
  exists f. split; [exact E|]. split; [exact C|]. split.
  - destruct C as (n & m & nnz & _ & _ & _ & V & _). exact V.
  - rewrite Hm2 in N, D1, D2. split; [exact N|]. split; [exact D1|exact D2].
Qed.
