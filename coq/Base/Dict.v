(* Python dict with string keys as an insertion-ordered association list. *)
From Coq Require Import List String Bool Arith Lia.
Import ListNotations.
Open Scope string_scope. Open Scope list_scope.

Definition dict (V : Type) := list (string * V).

Fixpoint dget {V} (d : dict V) (k : string) : option V :=
  match d with [] => None | (k', v) :: t => if String.eqb k k' then Some v else dget t k end.
Definition dmem {V} (d : dict V) (k : string) : bool :=
  match dget d k with Some _ => true | None => false end.
Fixpoint dset {V} (d : dict V) (k : string) (v : V) : dict V :=
  match d with
  | [] => [(k, v)]
  | (k', v') :: t => if String.eqb k k' then (k, v) :: t else (k', v') :: dset t k v
  end.
Definition dkeys {V} (d : dict V) : list string := map fst d.
Definition smem (s : string) (l : list string) : bool := existsb (String.eqb s) l.

Lemma dkeys_dset_mem {V} (d : dict V) k v : dmem d k = true -> dkeys (dset d k v) = dkeys d.
Proof.
  unfold dmem. induction d as [|[k' v'] t IH]; simpl; [discriminate|].
  destruct (String.eqb k k') eqn:E; simpl.
  - apply String.eqb_eq in E. subst. reflexivity.
  - intros H. f_equal. apply IH. exact H.
Qed.

Lemma dget_dset_same {V} (d : dict V) k v : dget (dset d k v) k = Some v.
Proof.
  induction d as [|[k' v'] t IH]; simpl.
  - rewrite String.eqb_refl. reflexivity.
  - destruct (String.eqb k k') eqn:E; simpl.
    + rewrite String.eqb_refl. reflexivity.
    + rewrite E. exact IH.
Qed.

Lemma dget_dset_other {V} (d : dict V) k k2 v : k2 <> k -> dget (dset d k v) k2 = dget d k2.
Proof.
  intros Hne. induction d as [|[k' v'] t IH]; simpl.
  - destruct (String.eqb k2 k) eqn:E; [apply String.eqb_eq in E; contradiction|reflexivity].
  - destruct (String.eqb k k') eqn:E; simpl.
    + apply String.eqb_eq in E. subst k'.
      destruct (String.eqb k2 k) eqn:E2; [apply String.eqb_eq in E2; contradiction|reflexivity].
    + destruct (String.eqb k2 k'); [reflexivity|exact IH].
Qed.

(* insertion sort of strings in Python's order for ASCII text (byte order) *)
Fixpoint sinsert (x : string) (l : list string) : list string :=
  match l with
  | [] => [x]
  | y :: t => if String.leb x y then x :: l else y :: sinsert x t
  end.
Definition ssorted (l : list string) : list string := fold_right sinsert [] l.
