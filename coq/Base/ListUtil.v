(* Small list library shared by every model file: functional update, lookup by
   position, sums, index of an element, selection by a boolean mask. *)
From Coq Require Import List Arith ZArith Lia Bool.
Import ListNotations.

Definition upd {A} (l : list A) (i : nat) (v : A) : list A :=
  firstn i l ++ match skipn i l with [] => [] | _ :: t => v :: t end.

Lemma upd_length {A} (l : list A) i v : length (upd l i v) = length l.
Proof.
  unfold upd. rewrite app_length.
  pose proof (firstn_skipn i l) as H.
  destruct (skipn i l) eqn:E.
  - rewrite <- H at 2. rewrite app_length. simpl. lia.
  - rewrite <- H at 2. rewrite app_length. simpl. lia.
Qed.

Lemma nth_upd_eq {A} (l : list A) i v d : i < length l -> nth i (upd l i v) d = v.
Proof.
  intros Hi. unfold upd.
  rewrite app_nth2; rewrite firstn_length_le by lia; [|lia].
  replace (i - i) with 0 by lia.
  destruct (skipn i l) eqn:E.
  - exfalso. assert (length (skipn i l) = 0) by (rewrite E; reflexivity).
    rewrite skipn_length in H. lia.
  - reflexivity.
Qed.

Lemma nth_upd_neq {A} (l : list A) i j v d : i <> j -> nth j (upd l i v) d = nth j l d.
Proof.
  intros Hij. unfold upd.
  rewrite <- (firstn_skipn i l) at 3.
  destruct (Nat.lt_ge_cases j i) as [Hlt|Hge].
  - destruct (Nat.lt_ge_cases j (length (firstn i l))) as [H1|H1].
    + rewrite !app_nth1 by assumption. reflexivity.
    + rewrite firstn_length in H1.
      assert (length l <= j) by lia.
      rewrite !nth_overflow; auto.
      * rewrite app_length, firstn_length, skipn_length. lia.
      * rewrite app_length, firstn_length.
        destruct (skipn i l) eqn:E; simpl; [lia|].
        assert (length (skipn i l) = S (length l0)) by (rewrite E; reflexivity).
        rewrite skipn_length in H0. lia.
  - assert (i < j) by lia.
    destruct (Nat.lt_ge_cases i (length l)) as [Hil|Hil].
    + rewrite !app_nth2; rewrite firstn_length_le by lia; try lia.
      destruct (skipn i l) eqn:E.
      * reflexivity.
      * destruct (j - i) eqn:Ej; [lia|]. reflexivity.
    + rewrite skipn_all2 by lia. rewrite firstn_all2 by lia. reflexivity.
Qed.

Definition zsum (l : list Z) : Z := fold_right Z.add 0%Z l.
Definition nsum (l : list nat) : nat := fold_right Nat.add 0 l.

Lemma zsum_app a b : zsum (a ++ b) = (zsum a + zsum b)%Z.
Proof. induction a as [|x a IH]; simpl; [reflexivity|]. rewrite IH. lia. Qed.

Lemma nsum_app a b : nsum (a ++ b) = nsum a + nsum b.
Proof. induction a as [|x a IH]; simpl; [reflexivity|]. rewrite IH. lia. Qed.

(* position of the first occurrence *)
Fixpoint index_of {A} (eqb : A -> A -> bool) (x : A) (l : list A) : option nat :=
  match l with
  | [] => None
  | y :: t => if eqb x y then Some 0 else option_map S (index_of eqb x t)
  end.

Definition memb {A} (eqb : A -> A -> bool) (x : A) (l : list A) : bool :=
  existsb (eqb x) l.

Definition zmem (x : Z) (l : list Z) : bool := existsb (Z.eqb x) l.

Lemma zmem_In x l : zmem x l = true <-> In x l.
Proof.
  unfold zmem. rewrite existsb_exists. split.
  - intros [y [Hy He]]. apply Z.eqb_eq in He. subst. exact Hy.
  - intros H. exists x. split; [exact H|apply Z.eqb_refl].
Qed.

Lemma index_of_Z_Some x l i :
  index_of Z.eqb x l = Some i -> nth i l 0%Z = x /\ i < length l.
Proof.
  revert i. induction l as [|y t IH]; simpl; intros i H; [discriminate|].
  destruct (Z.eqb x y) eqn:E.
  - inversion H; subst. apply Z.eqb_eq in E. subst. simpl. split; [reflexivity|lia].
  - destruct (index_of Z.eqb x t) as [k|] eqn:K; simpl in H; [|discriminate].
    inversion H; subst. destruct (IH k eq_refl) as [A B]. simpl. split; [exact A|lia].
Qed.

Lemma index_of_Z_None x l : index_of Z.eqb x l = None <-> ~ In x l.
Proof.
  induction l as [|y t IH]; simpl.
  - split; [intros _ []|reflexivity].
  - destruct (Z.eqb x y) eqn:E.
    + apply Z.eqb_eq in E. subst. split; [discriminate|]. intros H. exfalso. apply H. left; reflexivity.
    + apply Z.eqb_neq in E. destruct (index_of Z.eqb x t) as [k|] eqn:K; simpl.
      * split; [discriminate|]. intros H. exfalso. apply H. right.
        destruct (In_dec Z.eq_dec x t) as [Hi|Hn]; [exact Hi|]. apply IH in Hn. discriminate.
      * split; [|reflexivity]. intros _ [H|H]; [congruence|]. destruct IH as [IH1 _]. exact (IH1 eq_refl H).
Qed.

(* selection of the positions where a boolean mask is true *)
Fixpoint select {A} (mask : list bool) (l : list A) : list A :=
  match mask, l with
  | b :: m, x :: t => if b then x :: select m t else select m t
  | _, _ => []
  end.

Lemma select_length_le {A} (m : list bool) (l : list A) : length (select m l) <= length l.
Proof.
  revert l; induction m as [|b m IH]; intros [|x t]; simpl; try lia.
  destruct b; simpl; specialize (IH t); lia.
Qed.

Fixpoint zdup (l : list Z) : bool :=
  match l with [] => false | x :: t => zmem x t || zdup t end.

Lemma zdup_false_NoDup l : zdup l = false <-> NoDup l.
Proof.
  induction l as [|x t IH]; simpl.
  - split; [constructor|reflexivity].
  - rewrite orb_false_iff. split.
    + intros [A B]. constructor; [|apply IH; exact B].
      intros Hin. apply zmem_In in Hin. congruence.
    + intros H. inversion H as [|? ? Hn Hd]; subst. split; [|apply IH; exact Hd].
      destruct (zmem x t) eqn:E; [|reflexivity]. apply zmem_In in E. contradiction.
Qed.

Definition list_eqb {A} (eqb : A -> A -> bool) : list A -> list A -> bool :=
  fix go (a b : list A) : bool :=
    match a, b with
    | [], [] => true
    | x :: a', y :: b' => eqb x y && go a' b'
    | _, _ => false
    end.

Lemma list_eqb_Z_eq a b : list_eqb Z.eqb a b = true <-> a = b.
Proof.
  revert b; induction a as [|x a IH]; intros [|y b]; simpl; split; intros H;
    try reflexivity; try discriminate.
  - apply andb_true_iff in H. destruct H as [H1 H2]. apply Z.eqb_eq in H1. apply IH in H2. congruence.
  - inversion H; subst. rewrite Z.eqb_refl. simpl. apply IH. reflexivity.
Qed.
