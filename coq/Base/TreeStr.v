(* strings cross the wire as lists of byte values *)
From Coq Require Import List String Ascii ZArith.
From BiomV Require Import Base.Tree.
Import ListNotations.

Fixpoint string_of_codes (l : list Z) : string :=
  match l with [] => EmptyString | c :: t => String (ascii_of_nat (Z.to_nat c)) (string_of_codes t) end.
Fixpoint codes_of_string (s : string) : list Z :=
  match s with EmptyString => [] | String a t => Z.of_nat (nat_of_ascii a) :: codes_of_string t end.
Definition tS (t : Tree) : string := string_of_codes (tLZ t).
Definition eS (s : string) : Tree := eLZ (codes_of_string s).
