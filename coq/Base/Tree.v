(* Wire format between the Python harness and the executable model.
   A case is a tree of integers; strings travel as lists of code points.
   Every model entry point is a pure function  run : Tree -> Tree,  so the same
   definition is what vm_compute and the extracted OCaml binary evaluate. *)
From Coq Require Import List ZArith Bool.
Import ListNotations.

Inductive Tree := I (z : Z) | L (l : list Tree).

Definition tZ (t : Tree) : Z := match t with I z => z | L _ => 0%Z end.
Definition tN (t : Tree) : nat := Z.to_nat (tZ t).
Definition tB (t : Tree) : bool := negb (Z.eqb (tZ t) 0).
Definition tL (t : Tree) : list Tree := match t with I _ => [] | L l => l end.
Definition tLZ (t : Tree) : list Z := map tZ (tL t).
Definition tLN (t : Tree) : list nat := map tN (tL t).
Definition tLLZ (t : Tree) : list (list Z) := map tLZ (tL t).
Definition tnth (t : Tree) (i : nat) : Tree := nth i (tL t) (I 0%Z).
Definition tOpt {A} (f : Tree -> A) (t : Tree) : option A :=
  match t with L [x] => Some (f x) | _ => None end.

Definition eZ (z : Z) : Tree := I z.
Definition eN (n : nat) : Tree := I (Z.of_nat n).
Definition eB (b : bool) : Tree := I (if b then 1%Z else 0%Z).
Definition eLZ (l : list Z) : Tree := L (map I l).
Definition eLN (l : list nat) : Tree := L (map eN l).
Definition eLLZ (l : list (list Z)) : Tree := L (map eLZ l).
Definition eOpt {A} (f : A -> Tree) (o : option A) : Tree :=
  match o with Some a => L [f a] | None => L [] end.
Definition ePair {A B} (f : A -> Tree) (g : B -> Tree) (p : A * B) : Tree :=
  L [f (fst p); g (snd p)].

(* errors cross the wire as  L [I (-1); I code]  *)
Definition eErr (code : Z) : Tree := L [I (-1)%Z; I code].

Fixpoint tree_eqb (a b : Tree) {struct a} : bool :=
  match a, b with
  | I x, I y => Z.eqb x y
  | L xs, L ys =>
      (fix go (xs ys : list Tree) {struct xs} : bool :=
         match xs, ys with
         | [], [] => true
         | x :: xs', y :: ys' => tree_eqb x y && go xs' ys'
         | _, _ => false
         end) xs ys
  | _, _ => false
  end.

(* induction principle for the nested type *)
Section TreeInd.
  Variable P : Tree -> Prop.
  Hypothesis HI : forall z, P (I z).
  Hypothesis HL : forall l, Forall P l -> P (L l).
  Fixpoint Tree_ind' (t : Tree) : P t :=
    match t with
    | I z => HI z
    | L l => HL l ((fix go (l : list Tree) : Forall P l :=
                      match l with [] => Forall_nil P | x :: r => Forall_cons x (Tree_ind' x) (go r) end) l)
    end.
End TreeInd.

Lemma tree_eqb_eq a b : tree_eqb a b = true <-> a = b.
Proof.
  revert b. induction a as [z|l IH] using Tree_ind'; intros [y|m]; simpl.
  - rewrite Z.eqb_eq. split; congruence.
  - split; discriminate.
  - split; discriminate.
  - revert m. induction IH as [|x l Hx Hl IHl]; intros [|y m].
    + split; reflexivity.
    + split; discriminate.
    + split; discriminate.
    + rewrite andb_true_iff, Hx. specialize (IHl m). split.
      * intros [E1 E2]. apply IHl in E2. congruence.
      * intros E. inversion E; subst. split; [reflexivity|]. apply IHl. reflexivity.
Qed.

Lemma tree_eqb_refl a : tree_eqb a a = true.
Proof. apply tree_eqb_eq. reflexivity. Qed.
