(* Dense matrices as row-major lists of rows over Z (matrix values travel as scaled
   integers), with an explicit column count so that 0 x m and n x 0 matrices exist. *)
From Coq Require Import List Arith ZArith Lia Bool.
From BiomV Require Import Base.ListUtil.
Import ListNotations.

Definition matrix := list (list Z).

Definition rect (c : nat) (m : matrix) : Prop := Forall (fun r => length r = c) m.
Definition rectb (c : nat) (m : matrix) : bool := forallb (fun r => Nat.eqb (length r) c) m.

Lemma rectb_rect c m : rectb c m = true <-> rect c m.
Proof.
  unfold rectb, rect. rewrite forallb_forall, Forall_forall.
  split; intros H r Hr; specialize (H r Hr); [apply Nat.eqb_eq|apply Nat.eqb_eq]; exact H.
Qed.

Definition get (m : matrix) (i j : nat) : Z := nth j (nth i m []) 0%Z.
Definition mrow (m : matrix) (i : nat) : list Z := nth i m [].
Definition mcol (m : matrix) (j : nat) : list Z := map (fun r => nth j r 0%Z) m.

Definition transpose (c : nat) (m : matrix) : matrix := map (mcol m) (seq 0 c).

Lemma mcol_length m j : length (mcol m j) = length m.
Proof. unfold mcol. apply map_length. Qed.

Lemma transpose_length c m : length (transpose c m) = c.
Proof. unfold transpose. rewrite map_length, seq_length. reflexivity. Qed.

Lemma transpose_rect c m : rect (length m) (transpose c m).
Proof.
  unfold rect, transpose. apply Forall_forall. intros r Hr.
  apply in_map_iff in Hr. destruct Hr as [j [Hj _]]. subst. apply mcol_length.
Qed.

Lemma nth_mcol m j i : nth i (mcol m j) 0%Z = get m i j.
Proof.
  unfold mcol, get. destruct (Nat.lt_ge_cases i (length m)) as [H|H].
  - rewrite (nth_indep _ 0%Z (nth j [] 0%Z)) by (rewrite map_length; exact H).
    rewrite (map_nth (fun r => nth j r 0%Z)). reflexivity.
  - rewrite nth_overflow by (rewrite map_length; exact H).
    rewrite (nth_overflow m) by exact H. destruct j; reflexivity.
Qed.

Lemma get_transpose c m i j : i < c -> get (transpose c m) i j = get m j i.
Proof.
  intros Hi. unfold get at 1. unfold transpose.
  rewrite (nth_indep _ [] (mcol m 0)) by (rewrite map_length, seq_length; exact Hi).
  rewrite (map_nth (mcol m)). rewrite seq_nth by exact Hi. simpl. apply nth_mcol.
Qed.

(* extensionality: same shape and same cells *)
Lemma list_ext_Z (a b : list Z) :
  length a = length b -> (forall i, i < length a -> nth i a 0%Z = nth i b 0%Z) -> a = b.
Proof.
  revert b. induction a as [|x a IH]; intros [|y b] Hl H; simpl in *; try discriminate; [reflexivity|].
  f_equal.
  - apply (H 0). lia.
  - apply IH; [lia|]. intros i Hi. apply (H (S i)). lia.
Qed.

Lemma mat_ext c (a b : matrix) :
  length a = length b -> rect c a -> rect c b ->
  (forall i j, i < length a -> j < c -> get a i j = get b i j) -> a = b.
Proof.
  revert b. induction a as [|x a IH]; intros [|y b] Hl Ra Rb H; simpl in *; try discriminate; [reflexivity|].
  inversion Ra as [|? ? Hx Ra']; subst. inversion Rb as [|? ? Hy Rb']; subst.
  f_equal.
  - apply list_ext_Z; [congruence|]. intros j Hj. apply (H 0 j); lia.
  - apply IH; try assumption; [lia|]. intros i j Hi Hj. apply (H (S i) j); lia.
Qed.

Lemma rect_nth_length c m i : rect c m -> i < length m -> length (nth i m []) = c.
Proof.
  intros R Hi. unfold rect in R. rewrite Forall_forall in R. apply R. apply nth_In. exact Hi.
Qed.

Theorem transpose_involutive c m : rect c m -> transpose (length m) (transpose c m) = m.
Proof.
  intros R. apply (mat_ext c).
  - apply transpose_length.
  - (* rows of the double transpose have length = length (transpose c m) = c *)
    pose proof (transpose_rect (length m) (transpose c m)) as H.
    rewrite transpose_length in H. exact H.
  - exact R.
  - intros i j Hi Hj. rewrite transpose_length in Hi.
    rewrite get_transpose by exact Hi. apply get_transpose. exact Hj.
Qed.

(* keep the rows / columns at the positions where the mask is true *)
Definition sel_rows (mask : list bool) (m : matrix) : matrix := select mask m.
Definition sel_cols (mask : list bool) (m : matrix) : matrix := map (select mask) m.

(* reorder rows / columns: result position k holds source position (nth k order) *)
Definition perm_rows (order : list nat) (m : matrix) : matrix := map (fun i => nth i m []) order.
Definition perm_cols (order : list nat) (m : matrix) : matrix :=
  map (fun r => map (fun j => nth j r 0%Z) order) m.

Lemma get_perm_rows order m k j : k < length order ->
  get (perm_rows order m) k j = get m (nth k order 0) j.
Proof.
  intros Hk. unfold get, perm_rows.
  rewrite (nth_indep _ [] (nth 0 m [])) by (rewrite map_length; exact Hk).
  rewrite (map_nth (fun i => nth i m [])). reflexivity.
Qed.

Lemma get_perm_cols order m i k : k < length order ->
  get (perm_cols order m) i k = get m i (nth k order 0).
Proof.
  intros Hk. unfold get, perm_cols.
  destruct (Nat.lt_ge_cases i (length m)) as [Hi|Hi].
  - rewrite (nth_indep _ [] (map (fun j => nth j [] 0%Z) order)) by (rewrite map_length; exact Hi).
    rewrite (map_nth (fun r => map (fun j => nth j r 0%Z) order)).
    rewrite (nth_indep _ 0%Z (nth 0 (nth i m []) 0%Z)) by (rewrite map_length; exact Hk).
    rewrite (map_nth (fun j => nth j (nth i m []) 0%Z)). reflexivity.
  - rewrite (nth_overflow (map _ m)) by (rewrite map_length; exact Hi).
    rewrite (nth_overflow m) by exact Hi. destruct k, (nth _ order 0); reflexivity.
Qed.

Lemma perm_rows_length order m : length (perm_rows order m) = length order.
Proof. apply map_length. Qed.
Lemma perm_cols_length order m : length (perm_cols order m) = length m.
Proof. apply map_length. Qed.
Lemma perm_cols_rect order m : rect (length order) (perm_cols order m).
Proof.
  apply Forall_forall. intros r Hr. apply in_map_iff in Hr. destruct Hr as [x [Hx _]]. subst.
  apply map_length.
Qed.
Lemma perm_rows_rect c order m : rect c m -> Forall (fun i => i < length m) order -> rect c (perm_rows order m).
Proof.
  intros R F. apply Forall_forall. intros r Hr. apply in_map_iff in Hr. destruct Hr as [i [Hi Hin]]. subst.
  rewrite Forall_forall in F. apply (rect_nth_length c m i R). apply F. exact Hin.
Qed.

Definition msum (m : matrix) : Z := zsum (map zsum m).
Definition row_sums (m : matrix) : list Z := map zsum m.
Definition col_sums (c : nat) (m : matrix) : list Z := map zsum (transpose c m).
Definition zero_row (c : nat) : list Z := repeat 0%Z c.
Definition all_zero (l : list Z) : bool := forallb (Z.eqb 0) l.
Definition count_nz (l : list Z) : nat := length (filter (fun v => negb (Z.eqb v 0)) l).
Definition mat_eqb (a b : matrix) : bool := list_eqb (list_eqb Z.eqb) a b.

Lemma mat_eqb_eq a b : mat_eqb a b = true <-> a = b.
Proof.
  unfold mat_eqb. revert b; induction a as [|x a IH]; intros [|y b]; simpl; split; intros H;
    try reflexivity; try discriminate.
  - apply andb_true_iff in H. destruct H as [H1 H2]. apply list_eqb_Z_eq in H1. apply IH in H2. congruence.
  - inversion H; subst. apply andb_true_iff. split; [apply list_eqb_Z_eq; reflexivity|apply IH; reflexivity].
Qed.
