#!/bin/sh
# Regenerate the grouping-mode translated parts of the Coq model (tools/py2v_part: coq/Gen/PartitionGen.v, coq/Gen/CollapseGen.v
# from biom/table.py) from the source tree under test (BIOM_REPO, default /repo).
# Exit code 2 = the translator refused the source (the tie is broken); nothing is written then.
here="$(cd "$(dirname "$0")/.." && pwd)"
exec /venv/bin/python "$here/tools/py2v_part/main.py" --repo "${BIOM_REPO:-/repo}" --out "$here" "$@"
