#!/bin/sh
# Regenerate the uc-importer part of the Coq model (tools/py2v_uc: coq/Gen/UcGen.v from biom/parse.py
# parse_uc) from the source tree under test (BIOM_REPO, default /repo).
# Exit code 2 = the translator refused the source (the tie is broken); nothing is written then.
here="$(cd "$(dirname "$0")/.." && pwd)"
exec /venv/bin/python "$here/tools/py2v_uc/main.py" --repo "${BIOM_REPO:-/repo}" --out "$here" "$@"
