#!/bin/sh
# Regenerate the summary-mode translated parts of the Coq model (tools/py2v_sum: coq/Gen/SummaryGen.v
# from biom/util.py) from the source tree under test (BIOM_REPO, default /repo).
# Exit code 2 = the translator refused the source (the tie is broken); nothing is written then.
here="$(cd "$(dirname "$0")/.." && pwd)"
exec /venv/bin/python "$here/tools/py2v_sum/main.py" --repo "${BIOM_REPO:-/repo}" --out "$here" "$@"
