#!/venv/bin/python
"""py2v_eq: small fail-closed translator for methods of one Python class that compare or rename
through numpy / scipy / attribute operations: each such operation becomes a named primitive of a
hand-written prelude (coq/Gen/EqPrelude.v), typed by the signature file; objects the method can
change in place (the receiver, a matrix argument) are threaded through the generated function,
which returns  result (value * receiver afterwards * argument afterwards).

usage: main.py [--repo DIR] [--out DIR] [--stdout] [target ...]
Targets are the signature files in tools/py2v_eq/sigs/ (default: all).  Any AST node, name,
attribute, call, keyword value or message text not covered by the signature file gives exit code 2
and NO file is written.  Output is deterministic; a file is rewritten only when its text changed.
Source text is never copied into the output.  (Sibling of tools/py2v and tools/py2v_dyn; see
docs/translator.md, "Comparison mode".)"""
import ast
import glob
import hashlib
import json
import os
import sys

HERE = os.path.dirname(os.path.abspath(__file__))


class Unsupported(Exception):
    def __init__(self, node, msg):
        Exception.__init__(self, 'line %s: %s' % (getattr(node, 'lineno', 0), msg))


def ast_hash(fn):
    body = fn.body
    if body and isinstance(body[0], ast.Expr) and isinstance(getattr(body[0], 'value', None), ast.Constant) \
            and isinstance(body[0].value.value, str):
        body = body[1:]
    text = ast.dump(ast.Module(body=body, type_ignores=[]), annotate_fields=False, include_attributes=False)
    text += '|' + ast.dump(fn.args, annotate_fields=False, include_attributes=False)
    return hashlib.sha256(text.encode()).hexdigest()[:16]


def paren(t):
    t = t.strip()
    if ' ' not in t:
        return t
    if t[0] == '(' and t[-1] == ')':
        depth = 0
        for i, ch in enumerate(t):
            depth += ch == '('
            depth -= ch == ')'
            if depth == 0:
                if i == len(t) - 1:
                    return t
                break
    return '(%s)' % t


def fmt(template, *args):
    return template.format(*[paren(a) for a in args])


# code trees: ('let', pat, term, body) | ('bind', pat, mterm, body) | ('if', cond, A, B) | ('ret', term)
#             | ('match', scrut, [(pat, body)..])
def render(c, ind):
    sp = ' ' * ind
    k = c[0]
    if k == 'let':
        return '%slet %s := %s in\n%s' % (sp, c[1], c[2], render(c[3], ind))
    if k == 'bind':
        return '%s%s <- %s ;;\n%s' % (sp, c[1], c[2], render(c[3], ind))
    if k == 'if':
        return '%sif %s then\n%s\n%selse\n%s' % (sp, c[1], render(c[2], ind + 2), sp, render(c[3], ind + 2))
    if k == 'ret':
        return sp + 'ROk %s' % paren(c[1])
    if k == 'm':
        return sp + c[1]
    if k == 'bindc':
        return '%s%s <- (\n%s) ;;\n%s' % (sp, c[1], render(c[2], ind + 4), render(c[3], ind))
    if k == 'match':
        rows = ''.join('\n%s| %s =>\n%s' % (sp, p, render(b, ind + 4)) for p, b in c[2])
        return '%smatch %s with%s\n%send' % (sp, c[1], rows, sp)
    raise AssertionError(k)


def match_pattern(pat, node):
    """pat: python expression text with holes _0_, _1_; structural match on the AST"""
    p = ast.parse(pat, mode='eval').body
    binds = {}

    def go(a, b):
        if isinstance(a, ast.Name) and a.id.startswith('_') and a.id.endswith('_') and a.id[1:-1].isdigit():
            binds[int(a.id[1:-1])] = b
            return True
        if type(a) is not type(b):
            return False
        for f, va in ast.iter_fields(a):
            if f == 'ctx':
                continue
            vb = getattr(b, f)
            if isinstance(va, list):
                if not isinstance(vb, list) or len(va) != len(vb) or not all(go(x, y) for x, y in zip(va, vb)):
                    return False
            elif isinstance(va, ast.AST):
                if not isinstance(vb, ast.AST) or not go(va, vb):
                    return False
            elif va != vb:
                return False
        return True
    return [binds[i] for i in sorted(binds)] if go(p, node) else None


class State:
    """cells: the objects the caller can see afterwards (receiver, parameters) -> [coq var, type];
    env: python name -> ('cell', key) | ('val', coq term, type)"""

    def __init__(self, cells, env, n=0):
        self.cells, self.env, self.n = cells, env, n

    def copy(self):
        return State({k: list(v) for k, v in self.cells.items()}, dict(self.env), self.n)


class Fn:
    def __init__(self, tr, spec, node):
        self.tr, self.sig, self.spec, self.node = tr, tr.sig, spec, node
        self.counter = [0]

    def fresh(self, base='t'):
        self.counter[0] += 1
        return '%s%d' % (base, self.counter[0])

    # ------------------------------------------------------------ expressions
    def lookup(self, e, st):
        if e.id not in st.env:
            raise Unsupported(e, 'name %s is not a parameter or local' % e.id)
        b = st.env[e.id]
        if b[0] == 'cell':
            return st.cells[b[1]][0], st.cells[b[1]][1]
        return b[1], b[2]

    def lvalue(self, e, st):
        """an expression naming an object the caller can see: -> (term, type, write-back(new term) -> [(pat, term)])"""
        if isinstance(e, ast.Name) and e.id in st.env and st.env[e.id][0] == 'cell':
            key = st.env[e.id][1]
            var, ty = st.cells[key]
            return var, ty, (lambda new: [(var, new)])
        if isinstance(e, ast.Attribute) and isinstance(e.value, ast.Name) and e.value.id in st.env \
                and st.env[e.value.id][0] == 'cell':
            pre = []
            self.refine(e.value, st, pre)
            key = st.env[e.value.id][1]
            var, ty = st.cells[key]
            setter = self.sig['fields'].get(ty, {}).get(e.attr)
            getter = self.sig['attrs'].get(ty, {}).get(e.attr)
            if isinstance(setter, str) and getter:
                return fmt(getter[0], var), getter[1], (lambda new: [(var, fmt(setter, var, new))]), pre
        raise Unsupported(e, 'an in-place effect on an object that is not the receiver, a parameter or a field of one '
                             '(it may alias one)')

    def lv(self, e, st, pre):
        r = self.lvalue(e, st)
        if len(r) == 4:
            pre.extend(r[3])
        return r[0], r[1], r[2]

    def refine(self, name, st, pre):
        """first attribute access on an object of unknown class: AttributeError unless it is a table"""
        b = st.env.get(name.id)
        if b and b[0] == 'cell':
            var, ty = st.cells[b[1]]
            r = self.sig['refine'].get(ty)
            if r:
                nv = var + '_t'
                pre.append(('bind', nv, fmt(r['coq'], var)))
                st.cells[b[1]] = [nv, r['to']]

    def cx(self, e, st, pre, stmt=False):
        """-> (pure term, type); bindings needed before it are appended to pre as (kind, pat, term)"""
        sig = self.sig
        for p in sig.get('patterns', []):
            b = match_pattern(p['py'], e)
            if b is not None:
                args = []
                for i, want in enumerate(p['args']):
                    t, ty = self.cx(b[i], st, pre)
                    if ty != want:
                        raise Unsupported(e, 'pattern argument of type %s, expected %s' % (ty, want))
                    args.append(t)
                return fmt(p['coq'], *args), p['type']
        if isinstance(e, ast.Name):
            return self.lookup(e, st)
        if isinstance(e, ast.Constant):
            if isinstance(e.value, bool):
                return ('true' if e.value else 'false'), 'bool'
            if isinstance(e.value, str):
                if e.value not in sig['messages']:
                    raise Unsupported(e, 'message text %r is not in the signature file' % e.value[:50])
                return sig['messages'][e.value], 'msg'
            if isinstance(e.value, int) and e.value >= 0:
                return str(e.value), 'nat'
            raise Unsupported(e, 'constant %r' % (e.value,))
        if isinstance(e, ast.Attribute):
            if isinstance(e.value, ast.Name):
                self.refine(e.value, st, pre)
            base, bty = self.cx(e.value, st, pre)
            a = sig['attrs'].get(bty, {}).get(e.attr)
            if a is None:
                raise Unsupported(e, 'attribute .%s of a %s is not in the signature file' % (e.attr, bty))
            return fmt(a[0], base), a[1]
        if isinstance(e, ast.UnaryOp) and isinstance(e.op, ast.Not):
            t, ty = self.cx(e.operand, st, pre)
            if ty != 'bool':
                raise Unsupported(e, 'truth value of a %s' % ty)
            return 'negb %s' % paren(t), 'bool'
        if isinstance(e, ast.BoolOp):
            op = '||' if isinstance(e.op, ast.Or) else '&&'
            parts = []
            for i, v in enumerate(e.values):
                p2 = []
                t, ty = self.cx(v, st, pre if i == 0 else p2)
                if p2:
                    raise Unsupported(e, 'an operand after the first that has an effect or can raise')
                if ty != 'bool':
                    raise Unsupported(e, 'truth value of a %s' % ty)
                parts.append(paren(t))
            return '(%s)' % (' %s ' % op).join(parts), 'bool'
        if isinstance(e, ast.Compare):
            return self.compare(e, st, pre)
        if isinstance(e, ast.Call):
            return self.call(e, st, pre, stmt)
        if isinstance(e, ast.ListComp):
            if len(e.generators) != 1 or e.generators[0].ifs or e.generators[0].is_async \
                    or not isinstance(e.generators[0].target, ast.Name):
                raise Unsupported(e, 'list comprehension outside the subset')
            g = e.generators[0]
            src, sty = self.cx(g.iter, st, pre)
            ety = self.sig.get('elem', {}).get(sty)
            if ety is None:
                raise Unsupported(e, 'comprehension over a %s' % sty)
            if g.target.id in st.env:
                raise Unsupported(e, 'comprehension variable %s shadows a name' % g.target.id)
            st2 = st.copy()
            st2.env[g.target.id] = ('val', g.target.id, ety)
            p2 = []
            body, bty = self.cx(e.elt, st2, p2)
            lty = self.sig.get('listof', {}).get(bty)
            if p2 or lty is None:
                raise Unsupported(e, 'comprehension element outside the subset (a %s)' % bty)
            return 'map (fun %s => %s) %s' % (g.target.id, body, paren(src)), lty
        raise Unsupported(e, 'expression %s is outside the supported subset' % type(e).__name__)

    def compare(self, e, st, pre):
        if len(e.ops) != 1:
            raise Unsupported(e, 'chained comparison')
        op, l, r = e.ops[0], e.left, e.comparators[0]
        if isinstance(op, (ast.Is, ast.IsNot)):
            if not (isinstance(r, ast.Constant) and r.value is None):
                raise Unsupported(e, '`is` with anything but None')
            t, ty = self.cx(l, st, pre)
            if ty not in self.sig.get('is_none', {}):
                raise Unsupported(e, 'None test of a %s' % ty)
            t = fmt(self.sig['is_none'][ty], t)
            return (t if isinstance(op, ast.Is) else 'negb %s' % paren(t)), 'bool'
        if isinstance(op, (ast.In, ast.NotIn)):
            a, aty = self.cx(l, st, pre)
            b, bty = self.cx(r, st, pre)
            c = self.sig.get('contains', {}).get('%s in %s' % (aty, bty))
            if c is None:
                raise Unsupported(e, 'membership of a %s in a %s' % (aty, bty))
            t = fmt(c, a, b)
            return (t if isinstance(op, ast.In) else 'negb %s' % paren(t)), 'bool'
        if not isinstance(op, (ast.Eq, ast.NotEq)):
            raise Unsupported(e, 'comparison operator %s' % type(op).__name__)
        if isinstance(r, ast.Constant) and isinstance(r.value, str):
            a, aty = self.cx(l, st, pre)
            c = self.sig.get('const_eq', {}).get(aty, {}).get(r.value)
            if c is None:
                raise Unsupported(e, 'comparison of a %s with the text %r' % (aty, r.value))
            t = fmt(c, a)
            return (t if isinstance(op, ast.Eq) else 'negb %s' % paren(t)), 'bool'
        # == / != on the receiver dispatches to a translated method
        if isinstance(l, ast.Name) and l.id in st.env and st.env[l.id][0] == 'cell' \
                and st.cells[st.env[l.id][1]][1] in self.sig.get('dispatch', {}):
            ty = st.cells[st.env[l.id][1]][1]
            meth = self.sig['dispatch'][ty]['Eq' if isinstance(op, ast.Eq) else 'NotEq']
            return self.user_call(e, l, meth, [r], st, pre)
        a, aty = self.cx(l, st, pre)
        b, bty = self.cx(r, st, pre)
        if aty != bty or aty not in self.sig['eq']:
            raise Unsupported(e, 'comparison of a %s with a %s' % (aty, bty))
        t = fmt(self.sig['eq'][aty], a, b)
        return (t if isinstance(op, ast.Eq) else 'negb %s' % paren(t)), 'bool'

    def dotted(self, f):
        if isinstance(f, ast.Attribute) and isinstance(f.value, ast.Name):
            return '%s.%s' % (f.value.id, f.attr)
        return None

    def call(self, e, st, pre, stmt=False):
        f = e.func
        sig = self.sig
        # module functions, overloaded on the argument types
        name = self.dotted(f)
        if name in sig.get('functions', {}) and f.value.id not in st.env:
            if e.keywords:
                raise Unsupported(e, 'keyword arguments to %s' % name)
            args = [self.cx(a, st, pre) for a in e.args]
            for want, coq, ty in sig['functions'][name]:
                if [a[1] for a in args] == want:
                    return fmt(coq, *[a[0] for a in args]), ty
            raise Unsupported(e, '%s on arguments of types %s' % (name, [a[1] for a in args]))
        if isinstance(f, ast.Name) and f.id not in st.env:
            key = f.id + ('(%s)' % ','.join(k.arg or '*' for k in e.keywords) if e.keywords else '')
            if key not in sig.get('functions', {}):
                raise Unsupported(e, 'call of %s is not in the signature file' % key)
            self.tr.need_import(e, f.id)
            args = [self.cx(a, st, pre) for a in list(e.args) + [k.value for k in e.keywords]]
            for ent in sig['functions'][key]:
                if [a[1] for a in args] == ent[0]:
                    t = fmt(ent[1], *[a[0] for a in args])
                    if len(ent) > 3 and ent[3].get('monadic'):
                        if not stmt:
                            v = self.fresh('t')
                            pre.append(('bind', v, t))
                            return v, ent[2]
                        pre.append(('bind', '_', t))
                        return 'tt', ent[2]
                    return t, ent[2]
            raise Unsupported(e, '%s on arguments of types %s' % (key, [a[1] for a in args]))
        if not isinstance(f, ast.Attribute):
            raise Unsupported(e, 'call outside the supported subset')
        # translated methods of the class
        if isinstance(f.value, ast.Name) and f.attr in self.tr.specs:
            if e.keywords:
                raise Unsupported(e, 'keyword arguments to %s' % f.attr)
            return self.user_call(e, f.value, f.attr, e.args, st, pre)
        # methods of the signature file
        if isinstance(f.value, ast.Name):
            self.refine(f.value, st, pre)
        p0 = []
        base, bty = self.cx(f.value, st, p0)
        m = sig['methods'].get(bty, {}).get(f.attr)
        if m is None:
            raise Unsupported(e, 'method .%s of a %s is not in the signature file' % (f.attr, bty))
        if 'kw' in m:
            pre.extend(p0)
            if e.args or len(e.keywords) > 1 or (e.keywords and e.keywords[0].arg != m['kw']):
                raise Unsupported(e, 'arguments of .%s outside the subset' % f.attr)
            val = m['default']
            if e.keywords and isinstance(e.keywords[0].value, ast.Name) and 'var' in m:
                t, ty = self.cx(e.keywords[0].value, st, pre)
                if ty != m['var'][1]:
                    raise Unsupported(e, '%s= of type %s' % (m['kw'], ty))
                return fmt(m['var'][0], base, t), m['type']
            if e.keywords:
                v = e.keywords[0].value
                if not (isinstance(v, ast.Constant) and isinstance(v.value, str)):
                    raise Unsupported(e, '%s= is not a text constant' % m['kw'])
                val = v.value
            if val not in m['values']:
                raise Unsupported(e, '%s=%r is not in the signature file' % (m['kw'], val))
            return fmt(m['values'][val], base), m['type']
        if e.keywords:
            raise Unsupported(e, 'keyword arguments of .%s outside the subset' % f.attr)
        margs = []
        want = m.get('args', [])
        if len(e.args) != len(want):
            raise Unsupported(e, '.%s with %d arguments' % (f.attr, len(e.args)))
        for a, w in zip(e.args, want):
            if w == 'None':
                if not (isinstance(a, ast.Constant) and a.value is None):
                    raise Unsupported(e, 'argument of .%s is not None' % f.attr)
                continue
            t, ty = self.cx(a, st, p0)
            if ty != w:
                raise Unsupported(e, 'argument of .%s has type %s, expected %s' % (f.attr, ty, w))
            margs.append(t)
        if m.get('fresh'):
            raise Unsupported(e, 'a new object (.%s) that is not given a name first' % f.attr)
        if m.get('mutating'):
            if self.in_loop:
                raise Unsupported(e, 'in-place method inside a loop')
            if p0:
                raise Unsupported(e, 'receiver of an in-place method that needs a binding')
            term, ty, wb = self.lv(f.value, st, pre)
            v, o = self.fresh('t'), self.fresh('d')
            pre.append(('let', "'(%s, %s)" % (v, o), fmt(m['coq'], term, *margs)))
            for pat, new in wb(o):
                pre.append(('let', pat, new))
            return v, m['type']
        pre.extend(p0)
        return fmt(m['coq'], base, *margs), m['type']

    def user_call(self, e, recv, meth, args, st, pre):
        if meth not in self.tr.done:
            raise Unsupported(e, 'method %s is called before it is emitted (or is not in the signature file)' % meth)
        spec = self.tr.specs[meth]
        if not (isinstance(recv, ast.Name) and recv.id in st.env and st.env[recv.id] == ('cell', 'self')):
            raise Unsupported(e, 'call of %s on anything but the receiver' % meth)
        if len(args) != 1:
            raise Unsupported(e, 'call of %s with %d arguments' % (meth, len(args)))
        rterm, rty, rwb = self.lv(recv, st, pre)
        aterm, aty, awb = self.lv(args[0], st, pre)
        if aty != spec['params'][0][1]:
            # an argument of unknown class passed where a known one is expected is not refined silently
            raise Unsupported(e, 'argument of %s has type %s, expected %s' % (meth, aty, spec['params'][0][1]))
        v, s, o = self.fresh('t'), self.fresh('s'), self.fresh('d')
        r = self.fresh('r')
        pre.append(('bind', r, '%s %s %s' % (spec['coq'], paren(rterm), paren(aterm))))
        pre.append(('let', "'(%s, %s, %s)" % (v, s, o), r))
        for pat, new in rwb(s) + awb(o):
            pre.append(('let', pat, new))
        return v, spec['ret']

    # ------------------------------------------------------------ statements
    def binds(self, pre, code):
        for kind, pat, term in reversed(pre):
            code = (kind, pat, term, code)
        return code

    def leaves(self, stmts):
        if not stmts:
            return False
        s = stmts[-1]
        if isinstance(s, (ast.Return, ast.Raise)):
            return True
        if isinstance(s, ast.If):
            return self.leaves(s.body) and self.leaves(s.orelse)
        return False

    def result_tuple(self, t, st):
        parts = [t]
        for key in self.out_cells:
            var, ty = st.cells[key]
            want = self.cell_types[key]
            if ty != want:
                r = self.sig['refine'].get(want)
                if not r or r['to'] != ty:
                    raise AssertionError('cell %s of type %s' % (key, ty))
                var = fmt(r['wrap'], var)
            parts.append(var)
        return '(%s)' % ', '.join(parts)

    def current(self, name, st):
        b = st.env[name]
        return st.cells[b[1]] if b[0] == 'cell' else [b[1], b[2]]

    def modified(self, stmts, st):
        """names of the environment a block can rebind or change in place (syntactic)"""
        out = []

        def add(n):
            if isinstance(n, ast.Name) and n.id in st.env and n.id not in out:
                out.append(n.id)
        for s in stmts:
            for n in ast.walk(s):
                if isinstance(n, ast.Assign):
                    for t in n.targets:
                        add(t if isinstance(t, ast.Name) else getattr(t, 'value', None))
                elif isinstance(n, (ast.AugAssign, ast.AnnAssign, ast.Delete, ast.With, ast.NamedExpr)):
                    raise Unsupported(n, 'statement %s is outside the supported subset' % type(n).__name__)
                elif isinstance(n, ast.Expr) and isinstance(n.value, ast.Call) and isinstance(n.value.func, ast.Attribute):
                    add(n.value.func.value)
                elif isinstance(n, ast.Call) and isinstance(n.func, ast.Attribute):
                    # a mutating method inside an expression
                    for ms in self.sig['methods'].values():
                        if ms.get(n.func.attr, {}).get('mutating'):
                            v = n.func.value
                            add(v if isinstance(v, ast.Name) else getattr(v, 'value', None))
        return out

    def store(self, tg, term, ty, st, pre):
        """name.field = term"""
        if not (isinstance(tg.value, ast.Name) and tg.value.id in st.env and st.env[tg.value.id][0] == 'cell'):
            raise Unsupported(tg, 'store into a field of anything but the receiver, a parameter or a fresh object')
        if self.in_loop:
            raise Unsupported(tg, 'store into a field inside a loop')
        self.refine(tg.value, st, pre)
        key = st.env[tg.value.id][1]
        var, oty = st.cells[key]
        f = self.sig['fields'].get(oty, {}).get(tg.attr)
        if f is None:
            raise Unsupported(tg, 'field .%s of a %s is not in the signature file' % (tg.attr, oty))
        setter, fty = (f, self.sig['attrs'][oty][tg.attr][1]) if isinstance(f, str) else (f[0], f[1])
        if fty != ty:
            raise Unsupported(tg, 'store of a %s into a field of type %s' % (ty, fty))
        pre.append(('let', var, fmt(setter, var, term)))

    def block(self, stmts, st, tail):
        if not stmts:
            return tail(st)
        s, rest = stmts[0], stmts[1:]
        if isinstance(s, ast.Expr) and isinstance(s.value, ast.Constant) and isinstance(s.value.value, str):
            return self.block(rest, st, tail)
        if isinstance(s, ast.Pass):
            return self.block(rest, st, tail)
        if isinstance(s, ast.Return):
            if s.value is None:
                raise Unsupported(s, 'bare return')
            if self.no_return:
                raise Unsupported(s, 'return inside a loop or a merged if')
            pre = []
            t, ty = self.cx(s.value, st, pre)
            if ty != self.spec['ret']:
                raise Unsupported(s, 'return of a %s where %s is expected' % (ty, self.spec['ret']))
            return self.binds(pre, ('ret', self.result_tuple(t, st)))
        if isinstance(s, ast.Raise):
            return self.raise_(s, st)
        if isinstance(s, ast.Assign):
            return self.assign(s, rest, st, tail)
        if isinstance(s, ast.If):
            return self.if_(s, rest, st, tail)
        if isinstance(s, ast.For):
            return self.for_(s, rest, st, tail)
        if isinstance(s, ast.Expr) and isinstance(s.value, ast.Call):
            pre = []
            t, ty = self.cx(s.value, st, pre, stmt=True)
            if ty != 'none':
                raise Unsupported(s, 'a call statement whose value (a %s) is dropped' % ty)
            return self.binds(pre, self.block(rest, st, tail))
        raise Unsupported(s, 'statement %s is outside the supported subset' % type(s).__name__)

    def raise_(self, s, st):
        e = s.exc
        if s.cause is not None or not (isinstance(e, ast.Call) and isinstance(e.func, ast.Name) and len(e.args) == 1
                                       and not e.keywords and e.func.id in self.sig.get('exceptions', {})):
            raise Unsupported(s, 'raise outside the subset (one of the exception classes of the signature file, one message)')
        self.tr.need_import(s, e.func.id)
        m = e.args[0]
        args = []
        if isinstance(m, ast.BinOp) and isinstance(m.op, ast.Mod):
            args = list(m.right.elts) if isinstance(m.right, ast.Tuple) else [m.right]
            m = m.left
        if not (isinstance(m, ast.Constant) and isinstance(m.value, str)):
            raise Unsupported(s, 'exception message outside the subset')
        if m.value not in self.sig.get('raise_messages', []):
            raise Unsupported(s, 'message text %r is not in the signature file' % m.value[:50])
        for a in args:
            if not (isinstance(a, ast.Name) and a.id in st.env):
                raise Unsupported(s, 'message parameter outside the subset')
        return ('m', 'RErr %s' % self.sig['exceptions'][e.func.id])

    def fresh_object(self, e, st):
        """x.m() with m declared to return a new object -> (term, type) or None"""
        if isinstance(e, ast.Call) and isinstance(e.func, ast.Attribute) and isinstance(e.func.value, ast.Name) \
                and e.func.value.id in st.env and not e.args and not e.keywords:
            var, ty = self.current(e.func.value.id, st)
            m = self.sig['methods'].get(ty, {}).get(e.func.attr)
            if m and m.get('fresh'):
                return fmt(m['coq'], var), m['type']
        return None

    def new_cell(self, name, term, ty, st):
        v = self.fresh(name + '_')
        key = '%s#%s' % (name, v)
        st.cells[key] = [v, ty]
        self.cell_types[key] = ty
        st.env[name] = ('cell', key)
        return v

    def assign(self, s, rest, st, tail):
        if len(s.targets) != 1:
            raise Unsupported(s, 'multiple assignment targets')
        tg = s.targets[0]
        pre = []
        if isinstance(tg, ast.Name) and tg.id == 'self':
            raise Unsupported(s, 'assignment to self')
        # name = <object> if c else <object>: the rest is translated once per alias
        if isinstance(tg, ast.Name) and isinstance(s.value, ast.IfExp):
            c, cty = self.cx(s.value.test, st, pre)
            if cty != 'bool':
                raise Unsupported(s, 'truth value of a %s' % cty)
            arms = []
            for e in (s.value.body, s.value.orelse):
                st2 = st.copy()
                if isinstance(e, ast.Name) and e.id in st2.env and st2.env[e.id][0] == 'cell':
                    st2.env[tg.id] = st2.env[e.id]
                    arms.append(self.block(rest, st2, tail))
                    continue
                fo = self.fresh_object(e, st2)
                if fo is None:
                    raise Unsupported(s, 'conditional expression whose arms are not objects')
                v = self.new_cell(tg.id, fo[0], fo[1], st2)
                arms.append(('let', v, fo[0], self.block(rest, st2, tail)))
            return self.binds(pre, ('if', c, arms[0], arms[1]))
        if isinstance(tg, ast.Name) and isinstance(s.value, ast.Name) and s.value.id in st.env \
                and st.env[s.value.id][0] == 'cell' and tg.id not in st.env:
            st.env[tg.id] = st.env[s.value.id]      # a second name for the same object
            return self.block(rest, st, tail)
        if isinstance(tg, ast.Name):
            fo = self.fresh_object(s.value, st)
            if fo is not None:
                v = self.new_cell(tg.id, fo[0], fo[1], st)
                return ('let', v, fo[0], self.block(rest, st, tail))
        t, ty = self.cx(s.value, st, pre)
        if isinstance(tg, ast.Name):
            if ty not in self.sig['types']:
                raise Unsupported(s, 'a local of type %s' % ty)
            if tg.id in st.env and self.current(tg.id, st)[1] != ty and \
                    not (st.env[tg.id][0] == 'cell' and self.cell_types[st.env[tg.id][1]] == ty):
                raise Unsupported(s, 'name %s changes type to %s' % (tg.id, ty))
            # the name now denotes a new value; an object of the caller keeps what it had
            v = self.fresh(tg.id + '_')
            st.env[tg.id] = ('val', v, ty)
            return self.binds(pre, ('let', v, t, self.block(rest, st, tail)))
        if isinstance(tg, ast.Attribute):
            self.store(tg, t, ty, st, pre)
            return self.binds(pre, self.block(rest, st, tail))
        if isinstance(tg, ast.Subscript) and isinstance(tg.value, ast.Name) and tg.value.id in st.env \
                and st.env[tg.value.id][0] == 'val':
            name = tg.value.id
            var, aty = self.current(name, st)
            si = self.sig.get('setitem', {}).get(aty)
            i, ity = self.cx(tg.slice, st, pre)
            if si is None or ity != si['index'] or ty != si['value']:
                raise Unsupported(s, 'item store %s[%s] = %s outside the signature file' % (aty, ity, ty))
            v = self.fresh(name + '_')
            st.env[name] = ('val', v, aty)
            return self.binds(pre, ('bind', v, fmt(si['coq'], var, i, t), self.block(rest, st, tail)))
        raise Unsupported(s, 'assignment target outside the subset')

    def if_(self, s, rest, st, tail):
        # if not isinstance(x, self.__class__): <leave>   -> case analysis that types x afterwards
        for ty, r in self.sig['refine'].items():
            b = match_pattern(r['guard'], s.test)
            if b is not None and isinstance(b[0], ast.Name) and b[0].id in st.env and st.env[b[0].id][0] == 'cell' \
                    and st.cells[st.env[b[0].id][1]][1] == ty and self.leaves(s.body) and not s.orelse \
                    and st.cells['self'][1] == r['to']:
                key = st.env[b[0].id][1]
                var = st.cells[key][0]
                no = self.block(list(s.body), st.copy(), tail)
                st2 = st.copy()
                st2.cells[key] = [var + '_t', r['to']]
                yes = self.block(list(rest), st2, tail)
                return ('match', fmt(r['test'], var), [('None', no), ('Some %s_t' % var, yes)])
        pre = []
        c, ty = self.cx(s.test, st, pre)
        if ty != 'bool':
            raise Unsupported(s, 'truth value of a %s' % ty)
        if self.leaves(s.body):
            a = self.block(list(s.body), st.copy(), tail)
            b = self.block(list(s.orelse) + list(rest), st.copy(), tail)
            return self.binds(pre, ('if', c, a, b))
        if s.orelse and self.leaves(s.orelse):
            a = self.block(list(s.body) + list(rest), st.copy(), tail)
            b = self.block(list(s.orelse), st.copy(), tail)
            return self.binds(pre, ('if', c, a, b))
        # both arms fall through: merge through the tuple of what they can change
        if any(isinstance(n, ast.Return) for x in list(s.body) + list(s.orelse) for n in ast.walk(x)):
            raise Unsupported(s, 'an if that returns on some paths only')
        names = self.modified(list(s.body) + list(s.orelse), st)
        before = {n: self.current(n, st)[1] for n in names}

        def merged(st2):
            vals = []
            for n in names:
                var, ty2 = self.current(n, st2)
                if ty2 != before[n] or st2.env[n][0] != st.env[n][0] or \
                        (st.env[n][0] == 'cell' and st2.env[n][1] != st.env[n][1]):
                    raise Unsupported(s, 'name %s changes type or object in one arm of an if' % n)
                vals.append(var)
            return ('ret', '(%s)' % ', '.join(vals) if len(vals) != 1 else vals[0]) if vals else ('ret', 'tt')
        saved = self.no_return
        self.no_return = True
        a = self.block(list(s.body), st.copy(), merged)
        b = self.block(list(s.orelse), st.copy(), merged)
        self.no_return = saved
        pats = []
        for n in names:
            if st.env[n][0] == 'cell':
                pats.append(st.cells[st.env[n][1]][0])
            else:
                v = self.fresh(n + '_')
                st.env[n] = ('val', v, before[n])
                pats.append(v)
        body = self.block(rest, st, tail)
        if len(pats) == 0:
            code = ('bindc', '_', ('if', c, a, b), body)
        elif len(pats) == 1:
            code = ('bindc', pats[0], ('if', c, a, b), body)
        else:
            m = self.fresh('m')
            code = ('bindc', m, ('if', c, a, b), ('let', "'(%s)" % ', '.join(pats), m, body))
        return self.binds(pre, code)

    def for_(self, s, rest, st, tail):
        it = s.iter
        if s.orelse or not (isinstance(it, ast.Call) and isinstance(it.func, ast.Name) and it.func.id == 'enumerate'
                            and 'enumerate' not in st.env and len(it.args) == 1 and not it.keywords
                            and isinstance(s.target, ast.Tuple) and len(s.target.elts) == 2
                            and all(isinstance(x, ast.Name) for x in s.target.elts)):
            raise Unsupported(s, 'loop outside the subset (only `for i, x in enumerate(<list>)`)')
        if self.in_loop:
            raise Unsupported(s, 'nested loop')
        idx, item = s.target.elts[0].id, s.target.elts[1].id
        pre = []
        src, sty = self.cx(it.args[0], st, pre)
        ety = self.sig.get('elem', {}).get(sty)
        if ety is None:
            raise Unsupported(s, 'loop over a %s' % sty)
        for n in (idx, item):
            if n in st.env:
                raise Unsupported(s, 'loop target %s shadows a name' % n)
        for n in ast.walk(ast.Module(body=s.body, type_ignores=[])):
            if isinstance(n, (ast.Return, ast.Break, ast.Continue, ast.For, ast.While)):
                raise Unsupported(n, '%s inside a loop' % type(n).__name__)
        state = self.modified(s.body, st)
        for n in state:
            if st.env[n][0] != 'val':
                raise Unsupported(s, 'a loop that changes the object %s' % n)
        used = {n.id for b in s.body for n in ast.walk(b) if isinstance(n, ast.Name)}
        frees = [n for n in st.env if n in used and n not in state]
        self.nloop += 1
        lname = '%s_loop%d' % (self.spec['coq'], self.nloop)
        types = self.sig['types']
        lst = st.copy()
        params, args0 = [], []
        for n in frees + [None] + state:
            if n is None:
                params.append('(%s : nat)' % idx)
                args0.append('0')
                continue
            var, ty = self.current(n, st)
            if ty not in types:
                raise Unsupported(s, 'a loop that uses a %s' % ty)
            pv = var if st.env[n][0] == 'val' else var
            params.append('(%s : %s)' % (pv, types[ty]))
            args0.append(var)
        lst.env[idx] = ('val', idx, 'nat')
        lst.env[item] = ('val', item, ety)

        def again(st2):
            a = [self.current(n, st2)[0] for n in frees] + ['(S %s)' % idx] + [self.current(n, st2)[0] for n in state]
            return ('m', '%s %s rest_' % (lname, ' '.join(a)))
        saved = (self.no_return, self.in_loop)
        self.no_return, self.in_loop = True, True
        body = self.block(list(s.body), lst, again)
        self.no_return, self.in_loop = saved
        svals = [self.current(n, st)[0] for n in state]
        sty_ = [types[self.current(n, st)[1]] for n in state]
        if not state:
            raise Unsupported(s, 'a loop without any effect on a local')
        nil = 'ROk %s' % (svals[0] if len(svals) == 1 else '(%s)' % ', '.join(svals))
        self.aux.append('Fixpoint %s %s (l_ : list %s) {struct l_} : result (%s) :=\n  match l_ with\n  | [] => %s\n'
                        '  | %s :: rest_ =>\n%s\n  end.' % (lname, ' '.join(params), types[ety], ' * '.join(sty_), nil,
                                                            item, render(body, 6)))
        pats = []
        for n in state:
            v = self.fresh(n + '_')
            st.env[n] = ('val', v, self.current(n, st)[1])
            pats.append(v)
        call = '%s %s %s' % (lname, ' '.join(args0), paren(src))
        after = self.block(rest, st, tail)
        if len(pats) == 1:
            return self.binds(pre, ('bind', pats[0], call, after))
        m = self.fresh('m')
        return self.binds(pre, ('bind', m, call, ('let', "'(%s)" % ', '.join(pats), m, after)))

    def translate(self):
        fn, spec, sig = self.node, self.spec, self.sig
        a = fn.args
        if a.posonlyargs or a.kwonlyargs or a.vararg or a.kwarg or a.kw_defaults or fn.decorator_list:
            raise Unsupported(fn, 'parameter list of %s outside the subset' % fn.name)
        names = [x.arg for x in a.args]
        if names[:1] != ['self'] or names[1:] != [p[0] for p in spec['params']]:
            raise Unsupported(fn, 'parameters of %s are %s, the signature file says %s'
                              % (fn.name, names[1:], [p[0] for p in spec['params']]))
        want = spec.get('defaults', [])
        got = []
        for d in a.defaults:
            if not isinstance(d, ast.Constant):
                raise Unsupported(fn, 'a default of %s is not a constant' % fn.name)
            got.append(d.value)
        if got != want or [type(x) for x in got] != [type(x) for x in want]:
            raise Unsupported(fn, 'defaults of %s are %s, the signature file says %s' % (fn.name, got, want))
        cells = {'self': ['self', sig['self_type']]}
        env = {'self': ('cell', 'self')}
        self.cell_types = {'self': sig['self_type']}
        self.out_cells = ['self']
        self.no_return = self.in_loop = False
        self.nloop = 0
        self.aux = []
        ps = ' (self : %s)' % sig['types'][sig['self_type']]
        for p in spec['params']:
            pn, pt = p[0], p[1]
            v = pn + '_' if pn in sig.get('reserved', []) else pn
            if len(p) > 2 and p[2] == 'value':
                env[pn] = ('val', v, pt)
            else:
                cells[pn] = [v, pt]
                env[pn] = ('cell', pn)
                self.cell_types[pn] = pt
                self.out_cells.append(pn)
            ps += ' (%s : %s)' % (v, sig['types'][pt])

        def no_tail(st):
            raise Unsupported(fn, '%s can end without a return' % fn.name)
        code = self.block(list(fn.body), State(cells, env), no_tail)
        rty = ' * '.join([sig['types'][spec['ret']]] + [sig['types'][self.cell_types[k]] for k in self.out_cells])
        text = 'Definition %s%s : result (%s) :=\n%s.' % (spec['coq'], ps, rty, render(code, 2))
        return '\n\n'.join(self.aux + [text])


class Translator:
    def __init__(self, sig, text):
        self.sig = sig
        self.tree = ast.parse(text)
        cls = [n for n in self.tree.body if isinstance(n, ast.ClassDef) and n.name == sig['class']]
        if len(cls) != 1:
            raise Unsupported(self.tree, 'class %s not found' % sig['class'])
        self.cls = cls[0]
        self.methods = {}
        for n in self.cls.body:
            if isinstance(n, ast.FunctionDef):
                if n.name in self.methods and (n.name in sig.get('pinned', {}) or n.name in [e['py'] for e in sig['emit']]):
                    raise Unsupported(n, 'method %s is defined twice' % n.name)
                self.methods.setdefault(n.name, n)
        self.specs = {e['py']: e for e in sig['emit']}
        self.done = []

    def need_import(self, node, name):
        """a module-level name the signature file gives a meaning to must come from the module it names"""
        want = self.sig.get('imports', {}).get(name)
        if want is None:
            return
        for n in self.tree.body:
            if isinstance(n, ast.ImportFrom) and n.level == 0 and n.module == want \
                    and any(a.name == name and a.asname is None for a in n.names):
                break
        else:
            raise Unsupported(node, 'name %s is not imported from %s' % (name, want))
        for n in ast.walk(self.tree):
            if isinstance(n, (ast.FunctionDef, ast.ClassDef)) and n.name == name or \
                    isinstance(n, ast.Name) and n.id == name and isinstance(n.ctx, ast.Store) or \
                    isinstance(n, ast.arg) and n.arg == name or \
                    isinstance(n, ast.alias) and (n.asname or n.name) == name and not \
                    (n.name == name and n.asname is None):
                raise Unsupported(node, 'name %s is rebound somewhere in the module' % name)

    def translate(self):
        sig = self.sig
        for name, h in sorted(sig.get('pinned', {}).items()):
            if name not in self.methods:
                raise Unsupported(self.cls, 'pinned method %s is missing' % name)
            got = ast_hash(self.methods[name])
            if got != h:
                raise Unsupported(self.methods[name], '%s is not translated but pinned (the primitives rely on it), '
                                  'and it changed (ast hash %s, pinned %s)' % (name, got, h))
        out = []
        for ent in sig['emit']:
            if ent['py'] not in self.methods:
                raise Unsupported(self.cls, 'method %s not found' % ent['py'])
            node = self.methods[ent['py']]
            text = Fn(self, ent, node).translate()
            out.append('(* %s.%s, lines %d-%d *)\n%s' % (sig['class'], ent['py'], node.lineno, node.end_lineno, text))
            self.done.append(ent['py'])
        head = ['(* GENERATED by tools/py2v_eq from %s (class %s) - do not edit; regenerated on every check. *)'
                % (sig['source'], sig['class'])] + sig['header']
        return '\n'.join(head) + '\n\n' + '\n\n'.join(out) + '\n' + ''.join(l + '\n' for l in sig.get('footer', []))


def translate(sigpath, repo):
    sig = json.load(open(sigpath))
    raw = open(os.path.join(repo, sig['source']), 'rb').read()
    out = Translator(sig, raw.decode('utf8')).translate()
    return sig, out, hashlib.sha256(raw).hexdigest()


def main(argv):
    repo = os.environ.get('BIOM_REPO', '/repo')
    outroot = os.path.dirname(os.path.dirname(HERE))
    to_stdout = False
    targets = []
    it = iter(argv)
    for a in it:
        if a == '--repo':
            repo = next(it)
        elif a == '--out':
            outroot = next(it)
        elif a == '--stdout':
            to_stdout = True
        else:
            targets.append(a)
    sigs = sorted(glob.glob(os.path.join(HERE, 'sigs', '*.json')))
    if targets:
        sigs = [s for s in sigs if os.path.basename(s)[:-5] in targets]
        if len(sigs) != len(targets):
            print('py2v_eq: unknown target in %s' % targets, file=sys.stderr)
            return 2
    failed = False
    for s in sigs:
        src = json.load(open(s))['source']
        try:
            sig, out, sha = translate(s, repo)
        except Unsupported as e:
            print('py2v_eq: REFUSED %s (%s): %s' % (src, os.path.basename(s)[:-5], e), file=sys.stderr)
            failed = True
            continue
        except (OSError, SyntaxError, ValueError, KeyError, IndexError, TypeError, AttributeError, AssertionError) as e:
            print('py2v_eq: REFUSED %s (%s): %s: %s' % (src, os.path.basename(s)[:-5], type(e).__name__, e), file=sys.stderr)
            failed = True
            continue
        if to_stdout:
            sys.stdout.write(out)
            continue
        path = os.path.join(outroot, sig['output'])
        old = open(path).read() if os.path.exists(path) else None
        if old != out:
            os.makedirs(os.path.dirname(path), exist_ok=True)
            tmp = path + '.tmp'
            open(tmp, 'w').write(out)
            os.replace(tmp, path)
            state = 'written'
        else:
            state = 'unchanged'
        print('py2v_eq: %s -> %s %s (source sha256 %s)' % (sig['source'], sig['output'], state, sha))
    return 2 if failed else 0


if __name__ == '__main__':
    sys.exit(main(sys.argv[1:]))
