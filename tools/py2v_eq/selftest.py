#!/venv/bin/python
"""Self-test of tools/py2v_eq: apply source edits to scratch copies of /repo one at a time and record
what the translator, the bridge proofs and (with --check) `./check <property>` say.
usage: selftest.py [--check] [--markdown] [edit-name ...]
Scratch copies live under /tmp/c16gen-*; they are removed at the end of each edit.  Semantic edits must
change the generated text, break a named bridge and (with --check) end in a VIOLATION line; harmless
rewrites should stay green where the proof survives; edits leaving the subset must be refused."""
import json
import os
import re
import shutil
import subprocess
import sys
from concurrent.futures import ThreadPoolExecutor

VERIF = os.path.dirname(os.path.dirname(os.path.dirname(os.path.abspath(__file__))))
SRC = 'biom/table.py'
CHECK = '--check' in sys.argv

T_EQ = {'prop': 'C16', 'gen': 'coq/Gen/EqualityGen.v',
        'files': ['Gen/EqPrelude.v', 'Gen/EqualityGen.v', 'Proofs/GenBridgeEqualityProofs.v', 'Props/C16.v']}
T_UPD = {'prop': 'C06', 'gen': 'coq/Gen/UpdateIdsGen.v',
         'files': ['Gen/EqPrelude.v', 'Gen/UpdateIdsGen.v', 'Proofs/GenBridgeUpdateIdsProofs.v', 'Props/C06.v']}

# (name, group, what, target, method, [(old, new)..])  - replacements are made inside the text of the method
EDITS = [
    ('desc_swap_tests', 'semantic', 'descriptive_equality: the type test and the observation-id test swapped (another message wins)', T_EQ,
     'descriptive_equality',
     [('        if not self.type == other.type:\n            return "Tables are not the same type"\n'
       '        if not np.array_equal(self.ids(axis=\'observation\'),\n                              other.ids(axis=\'observation\')):\n'
       '            return "Observation IDs are not the same"\n',
       '        if not np.array_equal(self.ids(axis=\'observation\'),\n                              other.ids(axis=\'observation\')):\n'
       '            return "Observation IDs are not the same"\n'
       '        if not self.type == other.type:\n            return "Tables are not the same type"\n')]),
    ('eq_drop_class_test', 'semantic', '__eq__: the isinstance test dropped', T_EQ, '__eq__',
     [('        if not isinstance(other, self.__class__):\n            return False\n', '')]),
    ('ne_not_negation', 'semantic', '__ne__ returns what == returns', T_EQ, '__ne__',
     [('return not (self == other)', 'return self == other')]),
    ('eq_samp_vs_obs', 'semantic', '__eq__: sample ids compared with the other table\'s observation ids', T_EQ, '__eq__',
     [('np.array_equal(self.ids(), other.ids())', "np.array_equal(self.ids(), other.ids(axis='observation'))")]),
    ('eq_md_both_not_none', 'semantic', '__eq__: sample metadata compared only when both are not None', T_EQ, '__eq__',
     [('if not np.array_equal(self.metadata(), other.metadata()):',
       'if self.metadata() is not None and other.metadata() is not None and not np.array_equal(self.metadata(), other.metadata()):')]),
    ('de_drop_shape', 'semantic', '_data_equality: the shape test dropped', T_EQ, '_data_equality',
     [('        if self._data.shape != other.shape:\n            return False\n', '')]),
    ('de_stored_count', 'semantic', '_data_equality: stored-entry count (.nnz) instead of count_nonzero()', T_EQ, '_data_equality',
     [('self._data.count_nonzero() != other.count_nonzero()', 'self._data.nnz != other.nnz')]),
    ('de_no_tocsr_store', 'semantic', '_data_equality: the receiver\'s matrix is no longer replaced by its CSR form', T_EQ, '_data_equality',
     [('        self._data = self._data.tocsr()\n', '')]),
    ('eq_ignore_data', 'semantic', '__eq__: the data test dropped', T_EQ, '__eq__',
     [('        if not self._data_equality(other._data):\n            return False\n', '')]),
    ('desc_wrong_message', 'semantic', 'descriptive_equality: the two metadata messages exchanged', T_EQ, 'descriptive_equality',
     [('"Observation metadata are not the same"', '"@@"'), ('"Sample metadata are not the same"', '"Observation metadata are not the same"'),
      ('"@@"', '"Sample metadata are not the same"')]),
    ('eq_ne_spelling', 'preserving', '__eq__: `a != b` on the types written `not a == b`', T_EQ, '__eq__',
     [('if self.type != other.type:', 'if not self.type == other.type:')]),
    ('de_return_expr', 'preserving', '_data_equality: the last test returned as an expression', T_EQ, '_data_equality',
     [('        if (self._data != other).nnz > 0:\n            return False\n\n        return True\n',
       '        return (self._data != other).nnz == 0\n')]),
    ('ne_local', 'preserving', '__ne__: the verdict of == kept in a local first', T_EQ, '__ne__',
     [('return not (self == other)', 'same = self == other\n        return not same')]),
    ('eq_none_test', 'subset', '__eq__: a test `other is None` added', T_EQ, '__eq__',
     [('        if self.type != other.type:\n', '        if other is None:\n            return False\n        if self.type != other.type:\n')]),
    ('de_shape_subscript', 'subset', '_data_equality: only the first shape entry compared (subscript)', T_EQ, '_data_equality',
     [('self._data.shape != other.shape', 'self._data.shape[0] != other.shape[0]')]),
    ('ids_default_axis', 'subset', 'ids(): default axis changed (pinned, not translated)', T_EQ, 'ids',
     [("def ids(self, axis='sample'):", "def ids(self, axis='observation'):")]),
    ('desc_new_message', 'subset', 'descriptive_equality: a message text the signature file does not know', T_EQ, 'descriptive_equality',
     [('"Tables are not the same type"', '"Table types differ"')]),
    ('upd_always_strict', 'semantic', 'update_ids: an unmapped id is refused whether strict or not', T_UPD, 'update_ids',
     [('if strict and old_id not in id_map:', 'if old_id not in id_map:')]),
    ('upd_inverted_test', 'semantic', 'update_ids: strict refuses the MAPPED ids', T_UPD, 'update_ids',
     [('if strict and old_id not in id_map:', 'if strict and old_id in id_map:')]),
    ('upd_dup_test_moved', 'semantic', 'update_ids: the early duplicate test made when NOT in place (issue 892 back)', T_UPD, 'update_ids',
     [('        if inplace:\n            if len(updated_ids)', '        if not inplace:\n            if len(updated_ids)')]),
    ('upd_axis_swapped', 'semantic', 'update_ids: the new ids stored on the other axis', T_UPD, 'update_ids',
     [("if axis == 'sample':", "if axis == 'observation':")]),
    ('upd_width_strict_only', 'semantic', 'update_ids: the old ids widen the text dtype only when strict (numpy truncates kept ids)', T_UPD, 'update_ids',
     [('        if not strict:\n            ids =', '        if strict:\n            ids =')]),
    ('upd_no_copy', 'semantic', 'update_ids: inplace=False works on the receiver', T_UPD, 'update_ids',
     [('result = self if inplace else self.copy()', 'result = self')]),
    ('upd_no_errcheck', 'semantic', 'update_ids: errcheck dropped (duplicates accepted when not in place)', T_UPD, 'update_ids',
     [('        errcheck(result)\n', '')]),
    ('upd_not_in_spelling', 'preserving', 'update_ids: `x not in m` written `not (x in m)`', T_UPD, 'update_ids',
     [('old_id not in id_map', 'not (old_id in id_map)')]),
    ('upd_else_first', 'preserving', 'update_ids: the two arms of the final axis test exchanged with the test negated', T_UPD, 'update_ids',
     [("        if axis == 'sample':\n            result._sample_ids = updated_ids\n        else:\n            result._observation_ids = updated_ids\n",
       "        if axis != 'sample':\n            result._observation_ids = updated_ids\n        else:\n            result._sample_ids = updated_ids\n")]),
    ('upd_subscript', 'subset', 'update_ids: the lookup written with a conditional expression and a subscript', T_UPD, 'update_ids',
     [('id_map.get(old_id, old_id)', 'id_map[old_id] if old_id in id_map else old_id')]),
    ('upd_other_exception', 'subset', 'update_ids: the duplicate test raises ValueError', T_UPD, 'update_ids',
     [('raise TableException("Duplicate IDs observed")', 'raise ValueError("Duplicate IDs observed")')]),
    ('upd_copy_changed', 'subset', 'copy(): changed (pinned, not translated)', T_UPD, 'copy',
     [('def copy(self):', 'def copy(self, deep=True):')]),
]


def sh(cmd, cwd=None, env=None, timeout=3000):
    e = dict(os.environ)
    e.update(env or {})
    p = subprocess.run(cmd, shell=True, cwd=cwd, env=e, timeout=timeout, stdout=subprocess.PIPE,
                       stderr=subprocess.STDOUT, text=True)
    return p.returncode, p.stdout


def edit_method(text, method, pairs):
    m = re.search(r'^    def %s\(.*?(?=^    def |\Z)' % re.escape(method), text, re.S | re.M)
    assert m, method
    body = m.group(0)
    for old, new in pairs:
        assert body.count(old) == 1, (method, old, body.count(old))
        body = body.replace(old, new)
    return text[:m.start()] + body + text[m.end():]


def lemma_at(path, line):
    name = '?'
    for i, l in enumerate(open(path)):
        if i >= line:
            break
        m = re.match(r'\s*(Lemma|Theorem|Example|Definition)\s+(\w+)', l)
        if m:
            name = m.group(2)
    return name


def run(edit):
    name, group, what, tgt, method, pairs = edit
    repo = '/tmp/c16gen-repo/%s' % name
    verif = '/tmp/c16gen-verif-%s' % name
    out = '/tmp/c16gen-out/%s' % name
    for d in (repo, verif, out):
        shutil.rmtree(d, ignore_errors=True)
    os.makedirs('/tmp/c16gen-repo', exist_ok=True)
    shutil.copytree('/repo', repo, symlinks=True)
    sh('rsync -a --exclude .git %s/ %s/' % (VERIF, verif))
    p = os.path.join(repo, SRC)
    text = edit_method(open(p).read(), method, pairs)
    open(p, 'w').write(text)
    res = {'name': name, 'group': group, 'what': what, 'prop': tgt['prop']}
    rc, o = sh('/venv/bin/python tools/py2v_eq/main.py --repo %s --out %s' % (repo, verif), cwd=verif)
    res['translator'] = 'accepts' if rc == 0 else 'REFUSES'
    res['refusal'] = ' '.join(l.split('REFUSED', 1)[1].strip() for l in o.split('\n') if 'REFUSED' in l)
    base = open(os.path.join(VERIF, tgt['gen'])).read()
    res['gen'] = '-' if rc != 0 else ('differs' if open(os.path.join(verif, tgt['gen'])).read() != base else 'same text')
    res['proof'] = ''
    if rc == 0:
        for f in tgt['files']:
            rc2, o2 = sh('ulimit -v 8000000; timeout 300 coqc -Q . BiomV %s' % f, cwd=verif + '/coq')
            if rc2 != 0:
                m = re.search(r'File "\./([^"]+)", line (\d+)', o2)
                res['proof'] = 'breaks %s' % lemma_at(verif + '/coq/' + m.group(1), int(m.group(2))) if m else 'breaks %s' % f
                break
        else:
            res['proof'] = 'all proofs check'
    if CHECK:
        rc3, o3 = sh('./check %s' % tgt['prop'], cwd=verif, env={'BIOM_REPO': repo, 'VERIF_OUT': out})
        res['check_rc'] = rc3
        lines = [l for l in o3.split('\n') if l.strip()]
        res['check_tail'] = [l[:300] for l in lines[-3:]]
        res['verdict'] = ' / '.join(l[:160] for l in lines if l.startswith('VIOLATION') or 'no-failing-input-found' in l) \
            or ('pass' if rc3 == 0 else 'rc=%d' % rc3)
        try:
            rp = sorted(os.listdir(out + '/replays'))
            if rp:
                r = json.load(open(out + '/replays/' + rp[-1]))
                res['case'] = json.dumps(r.get('case'))[:600]
        except Exception as e:
            res['replay_err'] = str(e)
    shutil.rmtree(verif, ignore_errors=True)
    shutil.rmtree(repo, ignore_errors=True)
    os.makedirs('/tmp/c16gen', exist_ok=True)
    json.dump(res, open('/tmp/c16gen/res-%s.json' % name, 'w'), indent=1)
    return res


if __name__ == '__main__':
    sel = [a for a in sys.argv[1:] if not a.startswith('--')]
    todo = [e for e in EDITS if not sel or e[0] in sel]
    bad = 0
    with ThreadPoolExecutor(5) as ex:
        for r in ex.map(run, todo):
            v = r.get('verdict', '')
            if 'VIOLATION' in v:
                v = '%s VIOLATION, %s' % (r['prop'], 'no-failing-input-found' if 'no-failing-input-found' in v else 'failing input')
            if '--markdown' in sys.argv:
                print('| `%s` | %s | %s | %s | %s | %s | %s |' % (r['name'], r['group'], r['what'], r['translator'] +
                      (': ' + r['refusal'].split(': ', 1)[-1][:90] if r['refusal'] else ''), r['gen'], r['proof'], v))
            else:
                print('%-22s %-10s %-8s %-9s %-40s %s' % (r['name'], r['group'], r['translator'], r['gen'], r['proof'], v))
                if r['refusal']:
                    print('    ' + r['refusal'][:200])
            ok = {'semantic': r['translator'] == 'accepts' and r['gen'] == 'differs' and r['proof'].startswith('breaks'),
                  'preserving': r['translator'] == 'accepts' and r['proof'] == 'all proofs check',
                  'subset': r['translator'] == 'REFUSES'}[r['group']]
            if CHECK:
                ok = ok and {'semantic': 'VIOLATION' in v, 'preserving': v == 'pass', 'subset': 'VIOLATION' in v}[r['group']]
            if not ok:
                bad += 1
                print('    UNEXPECTED')
    shutil.rmtree('/tmp/c16gen-repo', ignore_errors=True)
    sys.exit(1 if bad else 0)
