import subprocess, sys, os, hashlib, shutil, json, re
V='/tmp/c03gen/verif'; R='/tmp/c03gen-repo'; SRC=R+'/biom/table.py'
orig=open('/repo/biom/table.py').read()
E=[
('S1 first header line text changed', "output = [\n                '# Constructed from biom file',\n                f'{observation_column_name}", "output = [\n                '# Constructed from BIOM file',\n                f'{observation_column_name}"),
('S2 blank inserted before the values of a plain row', "output_row = '%s%s%s%s' % \\", "output_row = '%s%s %s%s' % \\"),
('S3 header column decided by header_key instead of header_value', "        if header_value:\n            output = [", "        if header_key:\n            output = ["),
('S4 metadata looked up under header_value', "md.get(header_key, None)", "md.get(header_value, None)"),
('S5 sample ids joined by a blank', "samp_ids = delim.join(", "samp_ids = ' '.join("),
('S6 rows iterate over the sample ids', "iterable = self.ids(axis='observation')\n        end_line", "iterable = self.ids()\n        end_line"),
('S7 lines joined by CR LF', "return '\\n'.join(output)", "return '\\r\\n'.join(output)"),
('S8 metadata cell decided by header_value', "if header_key and obs_metadata is not None:", "if header_value and obs_metadata is not None:"),
('S9 values joined by a comma', "str_obs_vals = delim.join(map(str,", "str_obs_vals = ','.join(map(str,"),
('H1 local renamed', None, None),
('H2 plain row as f-string', "output_row = '%s%s%s%s' % \\\n                            (obs_id, delim, str_obs_vals, end_line)", "output_row = f'{obs_id}{delim}{str_obs_vals}{end_line}'"),
('H3 header tab written as delim', "{samp_ids}\\t{header_value}'", "{samp_ids}{delim}{header_value}'"),
('O1 str method outside the signature', "obs_id = to_utf8(obs_id)\n", "obs_id = to_utf8(obs_id).strip()\n"),
('O2 message text changed', "Cannot delimit self if I don't have data...", "Cannot delimit an empty table"),
('O3 stream branch changed', "direct_io.writelines([i+\"\\n\" for i in output])", "direct_io.writelines([i+\"\\r\\n\" for i in output])"),
('O4 pinned is_empty changed', "if not self.ids().size or not self.ids(axis='observation').size:", "if not self.ids().size and not self.ids(axis='observation').size:"),
('O5 try/except around the row', "            obs_id = to_utf8(obs_id)\n", "            try:\n                obs_id = to_utf8(obs_id)\n            except ValueError:\n                pass\n"),
]
def sha(p): return hashlib.sha256(open(p,'rb').read()).hexdigest()[:12]
only=sys.argv[1:]
base=sha(V+'/coq/Gen/TsvGen.v')
for name,a,b in E:
    tag=name.split()[0]
    if only and tag not in only: continue
    if tag=='H1':
        new=orig
        i=new.index('    def delimited_self('); j=new.index('    def is_empty(')
        new=new[:i]+new[i:j].replace('str_obs_vals','vals_txt')+new[j:]
    else:
        assert orig.count(a)>=1,(name)
        i=orig.index('    def delimited_self(') if tag!='O4' else 0
        k=orig.index(a,i)
        new=orig[:k]+b+orig[k+len(a):]
    assert new!=orig
    open(SRC,'w').write(new)
    env=dict(os.environ,BIOM_REPO=R,VERIF_OUT='/tmp/c03gen-out')
    p=subprocess.run(['./check','C03'],cwd=V,env=env,capture_output=True,text=True)
    out=(p.stdout+p.stderr).strip().split('\n')
    g=sha(V+'/coq/Gen/TsvGen.v')
    key=[l for l in out if 'VIOLATION' in l or 'BROKEN' in l or 'REFUSED' in l or 'Error' in l or 'quick:' in l or '_is_source' in l or 'File "' in l]
    print('==',name,'| rc',p.returncode,'| gen', 'changed' if g!=base else 'same')
    vl=[l for l in out if l.startswith('VIOLATION')]
    if vl:
        import re
        rp=re.search(r'replay=(\S+)',vl[0]).group(1)
        pay=json.load(open(rp))
        print('    broken:',[ (b if isinstance(b,str) else b.get('what')) [:160] for b in pay.get('broken',[])])
        if 'case' in pay: print('    failing input:',json.dumps(pay['case'],default=str)[:300])
    if g!=base:
        q=subprocess.run('ulimit -v 8000000; timeout 300 coqc -Q . BiomV Gen/TsvGen.v && timeout 300 coqc -Q . BiomV Proofs/GenBridgeTsvProofs.v',shell=True,cwd=V+'/coq',capture_output=True,text=True)
        m=re.search(r'File "([^"]+)", line (\d+)',q.stderr) if q.returncode else None
        if m:
            lines=open(V+'/coq/'+m.group(1)).read().split('\n')[:int(m.group(2))]
            nm=[re.match(r'\s*(Lemma|Theorem|Definition|Fixpoint)\s+(\w+)',l) for l in lines]
            nm=[x.group(2) for x in nm if x]
            print('    bridge obligation failing: %s (%s line %s): %s'%(nm[-1] if nm else '?',m.group(1),m.group(2),' '.join(q.stderr.split('Error:')[-1].split())[:160]))
        else:
            print('    bridge file still compiles' if q.returncode==0 else q.stderr[:300])
    for l in (out if os.environ.get("FULL") else key[:8]): print('   ',l[:400])
    sys.stdout.flush()
open(SRC,'w').write(orig)
env=dict(os.environ,BIOM_REPO=R,VERIF_OUT='/tmp/c03gen-out')
p=subprocess.run(['./check','C03'],cwd=V,env=env,capture_output=True,text=True)
print('== restored | rc',p.returncode,(p.stdout+p.stderr).strip().split('\n')[-1][:300])
