import subprocess, sys, os, hashlib, shutil, json, re
V='/tmp/c03gen/verif'; R='/tmp/c03gen-repo'; SRC=R+'/biom/table.py'
orig=open('/repo/biom/table.py').read()
E=[
('Q1 last field not stripped before the float test', "last_values = [line.rsplit(delim, 1)[-1].strip()\n", "last_values = [line.rsplit(delim, 1)[-1]\n"),
('Q2 any() instead of all()', "last_column_is_numeric = all([isfloat(i) for i in last_values])", "last_column_is_numeric = any([isfloat(i) for i in last_values])"),
('Q3 metadata column only when the data start at line 0', "if last_column_is_numeric or data_start == 0:", "if last_column_is_numeric or data_start == 1:"),
('Q4 sample ids keep the last header cell', "            samp_ids = header[:-1]\n", "            samp_ids = header[:]\n"),
('Q5 checks start at the first line', "value_checks = lines[data_start:]", "value_checks = lines[0:]"),
('Q6 metadata starts as None in the metadata branch', "            metadata = []\n            samp_ids", "            metadata = None\n            samp_ids"),
('QH1 local renamed', "LAST_VALUES", "LAST_VALUES"),
('QO1 sum() of the tests', "last_column_is_numeric = all([isfloat(i) for i in last_values])", "last_column_is_numeric = sum([isfloat(i) for i in last_values])"),
('QO2 seek branch changed', "            for index in range(0, data_start):\n                lines.readline()\n            value_checks", "            for index in range(1, data_start):\n                lines.readline()\n            value_checks"),
]
def sha(p): return hashlib.sha256(open(p,'rb').read()).hexdigest()[:12]
only=sys.argv[1:]
base=sha(V+'/coq/Gen/TsvRead2Gen.v')
for name,a,b in E:
    tag=name.split()[0]
    if only and tag not in only: continue
    if tag=='QH1':
        new=orig
        i=new.index('    def _extract_data_from_tsv('); j=new.index('    def to_tsv(')
        new=new[:i]+new[i:j].replace('last_values','tails')+new[j:]
    else:
        assert orig.count(a)>=1,(name)
        i=orig.index('    def _extract_data_from_tsv(')
        k=orig.index(a,i)
        new=orig[:k]+b+orig[k+len(a):]
    assert new!=orig
    open(SRC,'w').write(new)
    env=dict(os.environ,BIOM_REPO=R,VERIF_OUT='/tmp/c03gen-out')
    p=subprocess.run(['./check','C03'],cwd=V,env=env,capture_output=True,text=True)
    out=(p.stdout+p.stderr).strip().split('\n')
    g=sha(V+'/coq/Gen/TsvRead2Gen.v')
    key=[l for l in out if 'VIOLATION' in l or 'BROKEN' in l or 'REFUSED' in l or 'Error' in l or 'quick:' in l or '_is_source' in l or 'File "' in l]
    print('==',name,'| rc',p.returncode,'| gen', 'changed' if g!=base else 'same')
    vl=[l for l in out if l.startswith('VIOLATION')]
    if vl:
        import re
        rp=re.search(r'replay=(\S+)',vl[0]).group(1)
        pay=json.load(open(rp))
        print('    broken:',[ (b if isinstance(b,str) else b.get('what')) [:160] for b in pay.get('broken',[])])
        if 'case' in pay: print('    failing input:',json.dumps(pay['case'],default=str)[:300])
    if g!=base:
        q=subprocess.run('ulimit -v 8000000; timeout 300 coqc -Q . BiomV Gen/TsvRead2Gen.v && timeout 300 coqc -Q . BiomV Proofs/GenBridgeTsvRead2Proofs.v',shell=True,cwd=V+'/coq',capture_output=True,text=True)
        m=re.search(r'File "([^"]+)", line (\d+)',q.stderr) if q.returncode else None
        if m:
            lines=open(V+'/coq/'+m.group(1)).read().split('\n')[:int(m.group(2))]
            nm=[re.match(r'\s*(Lemma|Theorem|Definition|Fixpoint)\s+(\w+)',l) for l in lines]
            nm=[x.group(2) for x in nm if x]
            print('    bridge obligation failing: %s (%s line %s): %s'%(nm[-1] if nm else '?',m.group(1),m.group(2),' '.join(q.stderr.split('Error:')[-1].split())[:160]))
        else:
            print('    bridge file still compiles' if q.returncode==0 else q.stderr[:300])
    for l in (out if os.environ.get("FULL") else key[:8]): print('   ',l[:400])
    sys.stdout.flush()
open(SRC,'w').write(orig)
env=dict(os.environ,BIOM_REPO=R,VERIF_OUT='/tmp/c03gen-out')
p=subprocess.run(['./check','C03'],cwd=V,env=env,capture_output=True,text=True)
print('== restored | rc',p.returncode,(p.stdout+p.stderr).strip().split('\n')[-1][:300])
