import subprocess, sys, os, hashlib, shutil, json, re
V='/tmp/c03gen/verif'; R='/tmp/c03gen-repo'; SRC=R+'/biom/table.py'
orig=open('/repo/biom/table.py').read()
E=[
('R1 blank test without strip()', "        for line in lines:\n            if not line.strip():\n                continue\n            if not line.startswith('#'):\n                # Covers", "        for line in lines:\n            if not line:\n                continue\n            if not line.startswith('#'):\n                # Covers"),
('R2 header of a data line through strip()', "header = line.rstrip().split(delim)[1:]", "header = line.strip().split(delim)[1:]"),
('R3 data start one line early', "data_start = list_index + 1\n", "data_start = list_index\n"),
('R4 counter advanced by two', "            list_index += 1\n", "            list_index += 2\n"),
('R5 header of a comment line keeps the first cell', "            header = line.strip().split(delim)[1:]\n\n        # If the first line", "            header = line.strip().split(delim)\n\n        # If the first line"),
('R6 first data line always taken as header', "                if not header:\n                    header = line.rstrip()", "                if not list_index:\n                    header = line.rstrip()"),
('RH1 += written out', "            list_index += 1\n", "            list_index = list_index + 1\n"),
('RO1 comment lines no longer skipped in the data loop (outside the region)', "            if line.startswith('#'):\n                continue\n", "            if line.startswith('##'):\n                continue\n"),
('RO2 rstrip with an argument', "header = line.rstrip().split(delim)[1:]", "header = line.rstrip('\\n').split(delim)[1:]"),
]
def sha(p): return hashlib.sha256(open(p,'rb').read()).hexdigest()[:12]
only=sys.argv[1:]
base=sha(V+'/coq/Gen/TsvReadGen.v')
for name,a,b in E:
    tag=name.split()[0]
    if only and tag not in only: continue
    if tag=='H1':
        new=orig
        i=new.index('    def delimited_self('); j=new.index('    def is_empty(')
        new=new[:i]+new[i:j].replace('str_obs_vals','vals_txt')+new[j:]
    else:
        assert orig.count(a)>=1,(name)
        i=orig.index('    def _extract_data_from_tsv(')
        k=orig.index(a,i)
        new=orig[:k]+b+orig[k+len(a):]
    assert new!=orig
    open(SRC,'w').write(new)
    env=dict(os.environ,BIOM_REPO=R,VERIF_OUT='/tmp/c03gen-out')
    p=subprocess.run(['./check','C03'],cwd=V,env=env,capture_output=True,text=True)
    out=(p.stdout+p.stderr).strip().split('\n')
    g=sha(V+'/coq/Gen/TsvReadGen.v')
    key=[l for l in out if 'VIOLATION' in l or 'BROKEN' in l or 'REFUSED' in l or 'Error' in l or 'quick:' in l or '_is_source' in l or 'File "' in l]
    print('==',name,'| rc',p.returncode,'| gen', 'changed' if g!=base else 'same')
    vl=[l for l in out if l.startswith('VIOLATION')]
    if vl:
        import re
        rp=re.search(r'replay=(\S+)',vl[0]).group(1)
        pay=json.load(open(rp))
        print('    broken:',[ (b if isinstance(b,str) else b.get('what')) [:160] for b in pay.get('broken',[])])
        if 'case' in pay: print('    failing input:',json.dumps(pay['case'],default=str)[:300])
    if g!=base:
        q=subprocess.run('ulimit -v 8000000; timeout 300 coqc -Q . BiomV Gen/TsvReadGen.v && timeout 300 coqc -Q . BiomV Proofs/GenBridgeTsvReadProofs.v',shell=True,cwd=V+'/coq',capture_output=True,text=True)
        m=re.search(r'File "([^"]+)", line (\d+)',q.stderr) if q.returncode else None
        if m:
            lines=open(V+'/coq/'+m.group(1)).read().split('\n')[:int(m.group(2))]
            nm=[re.match(r'\s*(Lemma|Theorem|Definition|Fixpoint)\s+(\w+)',l) for l in lines]
            nm=[x.group(2) for x in nm if x]
            print('    bridge obligation failing: %s (%s line %s): %s'%(nm[-1] if nm else '?',m.group(1),m.group(2),' '.join(q.stderr.split('Error:')[-1].split())[:160]))
        else:
            print('    bridge file still compiles' if q.returncode==0 else q.stderr[:300])
    for l in (out if os.environ.get("FULL") else key[:8]): print('   ',l[:400])
    sys.stdout.flush()
open(SRC,'w').write(orig)
env=dict(os.environ,BIOM_REPO=R,VERIF_OUT='/tmp/c03gen-out')
p=subprocess.run(['./check','C03'],cwd=V,env=env,capture_output=True,text=True)
print('== restored | rc',p.returncode,(p.stdout+p.stderr).strip().split('\n')[-1][:300])
