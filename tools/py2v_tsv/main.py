#!/usr/bin/env python3
"""py2v_tsv: fail-closed translator for the writer of the classic tab-separated format
(Table.delimited_self of biom/table.py) into Gallina over coq/Gen/TsvPrelude.v.

A Python str is `text` (list of code points); every local is typed statically from the signature
file (tools/py2v_tsv/sigs/tsv.json); statements become nested lets in continuation-passing style
(the statements after an `if` are duplicated into both branches), a `for` over zip(..) becomes a
Fixpoint over `combine`, a `raise` becomes RErr, an operation that can raise is bound with rbind.
The parameter listed under "static_none" is specialised to None: a test on it is decided at
translation time and the branch not taken is pinned by AST hash.  Any AST node, name, call,
attribute, keyword, constant or message text the signature file does not cover -> exit code 2 and
NO file is written.  Methods the primitives stand for are pinned by AST hash.  Output is
deterministic; a file is rewritten only when its text changed.
"""
import ast
import glob
import hashlib
import json
import os
import sys

HERE = os.path.dirname(os.path.abspath(__file__))


class Unsupported(Exception):
    pass


def no(node, why):
    raise Unsupported('line %s: %s' % (getattr(node, 'lineno', '?'), why))


def dump_hash(nodes):
    return hashlib.sha256('|'.join(ast.dump(n) for n in nodes).encode()).hexdigest()[:16]


def strip_doc(body):
    if body and isinstance(body[0], ast.Expr) and isinstance(body[0].value, ast.Constant) \
            and isinstance(body[0].value.value, str):
        return body[1:]
    return body


def ast_hash(fn):
    return dump_hash([fn.args] + strip_doc(list(fn.body)))


def lit(s):
    return '[' + ';'.join(str(ord(c)) for c in s) + ']'


class Tr:
    def __init__(self, sig):
        self.sig = sig
        self.types = sig['types']
        self.localfns = {}       # name -> (argtypes, rettype)
        self.pruned = []         # hashes of the branches decided at translation time
        self.defs = []           # emitted definitions
        self.tmp = 0
        self.loopctx = None
        self.static_none = sig['static_none']

    def coqty(self, t):
        if t not in self.types:
            raise Unsupported('unknown type %s' % t)
        return self.types[t]

    # ---------- static tests ----------
    def static_test(self, e):
        """True/False when the test is decided by the specialisation, None otherwise."""
        if ast.dump(e) in self.sig.get('static_true', []):
            return True
        if isinstance(e, ast.Compare) and len(e.ops) == 1 and isinstance(e.left, ast.Name) \
                and e.left.id in self.static_none and isinstance(e.comparators[0], ast.Constant) \
                and e.comparators[0].value is None:
            if isinstance(e.ops[0], ast.Is):
                return True
            if isinstance(e.ops[0], ast.IsNot):
                return False
        return None

    # ---------- expressions ----------
    def expr(self, e, env, binds):
        """-> (coq text, type); operations that can raise are appended to binds as (tmp, text)."""
        if isinstance(e, ast.Name):
            if e.id in self.static_none:
                no(e, 'use of the specialised parameter %s' % e.id)
            if e.id not in env:
                no(e, 'unknown name %s' % e.id)
            return e.id, env[e.id]
        if isinstance(e, ast.Constant):
            if isinstance(e.value, str):
                return lit(e.value), 'text'
            if type(e.value) is int and e.value >= 0:
                return '%d%%nat' % e.value, 'nat'
            no(e, 'constant %r' % (e.value,))
        if isinstance(e, ast.JoinedStr):
            parts = []
            for v in e.values:
                if isinstance(v, ast.Constant) and isinstance(v.value, str):
                    parts.append(lit(v.value))
                elif isinstance(v, ast.FormattedValue) and v.conversion == -1 and v.format_spec is None:
                    t, ty = self.expr(v.value, env, binds)
                    parts.append(self.as_text(v, t, ty))
                else:
                    no(v, 'f-string piece')
            return '(' + ' ++ '.join(parts or ['[]']) + ')', 'text'
        if isinstance(e, ast.BinOp) and isinstance(e.op, ast.Mod):
            if not (isinstance(e.left, ast.Constant) and isinstance(e.left.value, str)
                    and isinstance(e.right, ast.Tuple)):
                no(e, '% formatting outside the subset')
            pieces = e.left.value.split('%s')
            if any('%' in p for p in pieces) or len(pieces) != len(e.right.elts) + 1:
                no(e, '% format string outside the subset')
            parts = []
            for i, a in enumerate(e.right.elts):
                if pieces[i]:
                    parts.append(lit(pieces[i]))
                t, ty = self.expr(a, env, binds)
                parts.append(self.as_text(a, t, ty))
            if pieces[-1]:
                parts.append(lit(pieces[-1]))
            return '(' + ' ++ '.join(parts or ['[]']) + ')', 'text'
        if isinstance(e, ast.BinOp) and isinstance(e.op, ast.Add):
            a, ta = self.expr(e.left, env, binds)
            b, tb = self.expr(e.right, env, binds)
            if ta == 'text' and tb == 'text':
                return '(%s ++ %s)' % (a, b), 'text'
            if ta == 'nat' and tb == 'nat':
                return '(%s + %s)%%nat' % (a, b), 'nat'
            no(e, '+ on %s, %s' % (ta, tb))
        if isinstance(e, ast.IfExp):
            st = self.static_test(e.test)
            if st is None:
                c = self.cond(e.test, env, binds)
                a, ta = self.expr(e.body, env, binds)
                b, tb = self.expr(e.orelse, env, binds)
                if ta != tb:
                    no(e, 'conditional expression of two types')
                return '(if %s then %s else %s)' % (c, a, b), ta
            self.pruned.append(dump_hash([e.orelse if st else e.body]))
            return self.expr(e.body if st else e.orelse, env, binds)
        if isinstance(e, ast.ListComp):
            if len(e.generators) != 1:
                no(e, 'comprehension')
            g = e.generators[0]
            if g.ifs or g.is_async or not isinstance(g.target, ast.Name):
                no(e, 'comprehension')
            it, ity = self.expr(g.iter, env, binds)
            if ity not in self.sig['elem']:
                no(e, 'iteration over %s' % ity)
            env2 = dict(env)
            env2[g.target.id] = self.sig['elem'][ity]
            inner = []
            b, bty = self.expr(e.elt, env2, inner)
            lty = [k for k, v in self.sig['elem'].items() if v == bty]
            if not lty:
                no(e, 'list of %s' % bty)
            if inner:
                return self.bind(binds, 'rmap (fun %s =>\n%s) %s' % (g.target.id, self.wrap(inner, 'ROk %s' % b), it)), lty[0]
            return '(map (fun %s => %s) %s)' % (g.target.id, b, it), lty[0]
        if isinstance(e, ast.List):
            if not e.elts:
                no(e, 'empty list literal')
            items = [self.expr(x, env, binds) for x in e.elts]
            lty = [k for k, v in self.sig['elem'].items() if all(t == v for _, t in items)]
            if not lty:
                no(e, 'list literal of mixed types')
            return '[' + '; '.join(t for t, _ in items) + ']', lty[0]
        if isinstance(e, ast.Subscript) and isinstance(e.slice, ast.Slice):
            sl = e.slice
            extra = []
            def bound(b):
                if b is None:
                    return ''
                if isinstance(b, ast.Name):
                    t, ty = self.expr(b, env, binds)
                    extra.append(t)
                    return '@' + ty
                if isinstance(b, ast.Constant) and type(b.value) is int:
                    return str(b.value)
                if isinstance(b, ast.UnaryOp) and isinstance(b.op, ast.USub) and isinstance(b.operand, ast.Constant) \
                        and type(b.operand.value) is int:
                    return '-%d' % b.operand.value
                no(e, 'slice bound')
            if sl.step is not None:
                no(e, 'slice step')
            v, vty = self.expr(e.value, env, binds)
            key = '%s[%s:%s]' % (vty, bound(sl.lower), bound(sl.upper))
            ent = self.sig.get('slices', {}).get(key)
            if ent is None:
                no(e, 'slice %s' % key)
            text = '%s %s%s' % (ent['coq'], v, ''.join(' ' + x for x in extra))
            if ent.get('raises'):
                return self.bind(binds, text), ent['ret']
            return '(%s)' % text, ent['ret']
        if isinstance(e, ast.Subscript) and isinstance(e.slice, ast.UnaryOp) and isinstance(e.slice.op, ast.USub) \
                and isinstance(e.slice.operand, ast.Constant) and e.slice.operand.value == 1:
            v, vty = self.expr(e.value, env, binds)
            ent = self.sig.get('last_index', {}).get(vty)
            if ent is None:
                no(e, '%s[-1]' % vty)
            return self.bind(binds, '%s %s' % (ent['coq'], v)), ent['ret']
        if isinstance(e, ast.Subscript):
            if isinstance(e.value, ast.Attribute) and isinstance(e.value.value, ast.Name) \
                    and e.value.value.id == 'self':
                ent = self.sig['self_index'].get(e.value.attr)
                if ent is None:
                    no(e, 'self.%s[..]' % e.value.attr)
                k, kty = self.expr(e.slice, env, binds)
                if kty != ent['key']:
                    no(e, 'key of type %s' % kty)
                return self.bind(binds, '%s self %s' % (ent['coq'], k)), ent['ret']
            v, vty = self.expr(e.value, env, binds)
            k, kty = self.expr(e.slice, env, binds)
            ent = self.sig['index'].get(vty)
            if ent is None or kty != ent['key']:
                no(e, 'indexing %s by %s' % (vty, kty))
            return self.bind(binds, '%s %s %s' % (ent['coq'], v, k)), ent['ret']
        if isinstance(e, ast.Call):
            return self.call(e, env, binds)
        no(e, 'expression %s' % type(e).__name__)

    def bind(self, binds, text):
        self.tmp += 1
        name = 'r%d' % self.tmp
        binds.append((name, text))
        return name

    def as_text(self, node, t, ty):
        if ty == 'text':
            return t
        if ty == 'otext':
            return '(str_of_opt %s)' % t
        no(node, 'formatting a value of type %s' % ty)

    def call(self, e, env, binds):
        f = e.func
        if isinstance(f, ast.Name):
            if f.id in self.localfns:
                if e.keywords or len(e.args) != len(self.localfns[f.id][0]):
                    no(e, 'call of %s' % f.id)
                args = []
                for a, want in zip(e.args, self.localfns[f.id][0]):
                    t, ty = self.expr(a, env, binds)
                    if ty != want:
                        no(a, 'argument of type %s' % ty)
                    args.append(t)
                return '(%s %s)' % (f.id, ' '.join(args)), self.localfns[f.id][1]
            if f.id == 'map' and len(e.args) == 2 and not e.keywords and isinstance(e.args[0], ast.Name):
                l, lty = self.expr(e.args[1], env, binds)
                ent = self.sig['map_fns'].get('%s:%s' % (e.args[0].id, lty))
                if ent is None:
                    no(e, 'map(%s, %s)' % (e.args[0].id, lty))
                return '(map %s %s)' % (ent['coq'], l), ent['ret']
            if f.id in env and env[f.id] in self.sig['fn_types'] and not e.keywords and len(e.args) == 1:
                a, aty = self.expr(e.args[0], env, binds)
                want, ret = self.sig['fn_types'][env[f.id]]
                if aty != want:
                    no(e, '%s on %s' % (f.id, aty))
                return '(%s %s)' % (f.id, a), ret
            if f.id in self.sig['builtins'] and not e.keywords:
                args = []
                tys = []
                for a in e.args:
                    if isinstance(a, ast.Name) and a.id in self.sig['type_names']:
                        args.append(None)
                        tys.append('@' + a.id)
                    else:
                        t, ty = self.expr(a, env, binds)
                        args.append(t)
                        tys.append(ty)
                ent = self.sig['builtins'][f.id].get(','.join(tys))
                if ent is None:
                    no(e, '%s(%s)' % (f.id, ','.join(tys)))
                return '(%s %s)' % (ent['coq'], ' '.join(a for a in args if a is not None)), ent['ret']
            no(e, 'call of %s' % f.id)
        if isinstance(f, ast.Attribute):
            if isinstance(f.value, ast.Name) and f.value.id == 'self':
                key = f.attr + '(' + ','.join(
                    ['_'] * len(e.args) + ['%s=%r' % (k.arg, getattr(k.value, 'value', '?')) for k in e.keywords]) + ')'
                for k in e.keywords:
                    if not isinstance(k.value, ast.Constant):
                        no(e, 'keyword argument')
                ent = self.sig['self_calls'].get(key)
                if ent is None:
                    no(e, 'self.%s' % key)
                args = []
                for a, want in zip(e.args, ent.get('args', [])):
                    t, ty = self.expr(a, env, binds)
                    if ty != want:
                        no(a, 'argument of type %s' % ty)
                    args.append(t)
                return '(%s self%s)' % (ent['coq'], ''.join(' ' + a for a in args)), ent['ret']
            recv, rty = self.expr(f.value, env, binds)
            if e.keywords:
                no(e, 'keyword argument')
            args = []
            tys = []
            for a in e.args:
                if isinstance(a, ast.Constant) and a.value is None:
                    tys.append('None')
                elif isinstance(a, ast.Constant) and type(a.value) is int:
                    tys.append(str(a.value))
                elif isinstance(a, ast.Constant) and isinstance(a.value, str) and \
                        ('%s.%s' % (rty, f.attr)) in self.sig['const_args']:
                    if a.value not in self.sig['const_args']['%s.%s' % (rty, f.attr)]:
                        no(a, 'constant argument %r' % a.value)
                    tys.append('const')
                else:
                    t, ty = self.expr(a, env, binds)
                    args.append(t)
                    tys.append(ty)
            ent = self.sig['methods'].get('%s.%s(%s)' % (rty, f.attr, ','.join(tys)))
            if ent is None:
                no(e, 'method %s.%s(%s)' % (rty, f.attr, ','.join(tys)))
            return '(%s %s%s)' % (ent['coq'], recv, ''.join(' ' + a for a in args)), ent['ret']
        no(e, 'call')

    def cond(self, e, env, binds):
        if isinstance(e, ast.BoolOp):
            op = ' && ' if isinstance(e.op, ast.And) else ' || '
            # Python evaluates lazily; the operands here cannot raise, so && / || agree
            inner = []
            cs = [self.cond(v, env, inner) for v in e.values]
            if inner:
                no(e, 'raising operation under and/or')
            return '(' + op.join(cs) + ')'
        if isinstance(e, ast.UnaryOp) and isinstance(e.op, ast.Not):
            return '(negb %s)' % self.cond(e.operand, env, binds)
        if isinstance(e, ast.Compare) and len(e.ops) == 1 and isinstance(e.comparators[0], ast.Constant) \
                and e.comparators[0].value is None and isinstance(e.ops[0], (ast.Is, ast.IsNot)):
            if self.static_test(e) is not None:
                no(e, 'test on the specialised parameter in a compound condition')
            t, ty = self.expr(e.left, env, binds)
            if ty not in self.sig['optional']:
                no(e, 'None test on %s' % ty)
            return ('(opt_is_none %s)' if isinstance(e.ops[0], ast.Is) else '(negb (opt_is_none %s))') % t
        if isinstance(e, ast.Compare) and len(e.ops) == 1 and isinstance(e.ops[0], ast.Eq):
            a, ta = self.expr(e.left, env, binds)
            b, tb = self.expr(e.comparators[0], env, binds)
            if ta == 'nat' and tb == 'nat':
                return '(Nat.eqb %s %s)' % (a, b)
            no(e, '== on %s, %s' % (ta, tb))
        t, ty = self.expr(e, env, binds)
        if ty == 'bool':
            return t
        if ty in self.sig['truth']:
            return '(%s %s)' % (self.sig['truth'][ty], t)
        no(e, 'truth value of %s' % ty)

    # ---------- statements ----------
    def wrap(self, binds, body):
        for name, text in reversed(binds):
            body = 'rbind (%s) (fun %s =>\n%s)' % (text, name, body)
        return body

    def block(self, stmts, env, k):
        """k(env) -> coq text of what follows the block."""
        if not stmts:
            return k(env)
        s, rest = stmts[0], stmts[1:]
        if isinstance(s, ast.FunctionDef):
            self.localfn(s, env)
            return self.block(rest, env, k)
        if isinstance(s, ast.Raise):
            return self.raise_(s)
        if isinstance(s, ast.Return):
            if s.value is None:
                no(s, 'bare return')
            binds = []
            t, ty = self.expr(s.value, env, binds)
            if ty != self.sig['returns']:
                no(s, 'return of type %s' % ty)
            return self.wrap(binds, 'ROk %s' % t)
        if isinstance(s, ast.Assign):
            if len(s.targets) != 1 or not isinstance(s.targets[0], ast.Name):
                no(s, 'assignment target')
            name = s.targets[0].id
            if name in self.sig['reserved'] or name in self.static_none:
                no(s, 'assignment to %s' % name)
            binds = []
            decl = self.sig.get('declared', {}).get(name)
            if isinstance(s.value, ast.Constant) and s.value.value is False and name in self.sig.get('false_as_none', {}):
                t, ty = 'None', self.sig['false_as_none'][name]
            elif isinstance(s.value, ast.Constant) and s.value.value is None and decl in self.sig['optional']:
                t, ty = 'None', decl
            elif isinstance(s.value, ast.List) and not s.value.elts and decl in self.sig.get('empty_list', {}):
                t, ty = self.sig['empty_list'][decl], decl
            else:
                t, ty = self.expr(s.value, env, binds)
            if decl is not None and ty != decl:
                co = self.sig.get('coerce', {}).get('%s->%s' % (ty, decl))
                if co is None:
                    no(s, '%s assigned a value of type %s' % (name, ty))
                t, ty = '(%s %s)' % (co, t), decl
            if name in env and env[name] != ty:
                co = self.sig.get('coerce', {}).get('%s->%s' % (ty, env[name]))
                if co is None:
                    no(s, 'retyping of %s' % name)
                t, ty = '(%s %s)' % (co, t), env[name]
            env2 = dict(env)
            env2[name] = ty
            return self.wrap(binds, 'let %s := %s in\n%s' % (name, t, self.block(rest, env2, k)))
        if isinstance(s, ast.AugAssign):
            if not (isinstance(s.target, ast.Name) and isinstance(s.op, ast.Add) and s.target.id in env):
                no(s, 'augmented assignment')
            return self.block([ast.copy_location(ast.Assign(
                targets=[ast.Name(id=s.target.id, ctx=ast.Store())],
                value=ast.copy_location(ast.BinOp(left=ast.Name(id=s.target.id, ctx=ast.Load()), op=ast.Add(), right=s.value), s)), s)]
                + rest, env, k)
        if isinstance(s, ast.Continue) and self.loopctx:
            return self.loopctx[0](env)
        if isinstance(s, ast.Break) and self.loopctx:
            return self.loopctx[1](env)
        if isinstance(s, ast.Expr):
            c = s.value
            if isinstance(c, ast.Call) and isinstance(c.func, ast.Attribute) and c.func.attr == 'append' \
                    and isinstance(c.func.value, ast.Name) and len(c.args) == 1 and not c.keywords:
                name = c.func.value.id
                if name not in env or env[name] not in self.sig['elem']:
                    no(s, 'append on %s' % name)
                binds = []
                t, ty = self.expr(c.args[0], env, binds)
                if ty != self.sig['elem'][env[name]]:
                    no(s, 'append of %s' % ty)
                return self.wrap(binds, 'let %s := %s ++ [%s] in\n%s' % (name, name, t, self.block(rest, env, k)))
            no(s, 'expression statement')
        if isinstance(s, ast.If):
            st = self.static_test(s.test)
            if st is not None:
                taken, other = (s.body, s.orelse) if st else (s.orelse, s.body)
                self.pruned.append(dump_hash(other))
                return self.block(list(taken) + rest, env, k)
            if any(isinstance(st, (ast.Continue, ast.Break))
                   for st in ast.walk(ast.Module(body=list(s.body) + list(s.orelse), type_ignores=[]))):
                # a branch leaves the loop body: no join point, what follows is copied into both branches
                binds = []
                c = self.cond(s.test, env, binds)
                a = self.block(list(s.body) + rest, env, k)
                b = self.block(list(s.orelse) + rest, env, k)
                return self.wrap(binds, 'if %s then\n%s\nelse\n%s' % (c, a, b))
            # join point: the branches hand the variables they (both) define to what follows
            names = []
            for st in ast.walk(ast.Module(body=list(s.body) + list(s.orelse), type_ignores=[])):
                if isinstance(st, ast.Return):
                    no(st, 'return under an if')
                if isinstance(st, ast.Assign) and len(st.targets) == 1 and isinstance(st.targets[0], ast.Name):
                    if st.targets[0].id not in names:
                        names.append(st.targets[0].id)
                if isinstance(st, ast.Call) and isinstance(st.func, ast.Attribute) and st.func.attr == 'append' \
                        and isinstance(st.func.value, ast.Name) and st.func.value.id not in names:
                    names.append(st.func.value.id)
            saved = (list(self.pruned), list(self.defs), self.tmp, dict(self.localfns))
            envs = []
            self.block(list(s.body), env, lambda e: envs.append(e) or '')
            self.block(list(s.orelse), env, lambda e: envs.append(e) or '')
            self.pruned, self.defs, self.tmp, self.localfns = saved
            if not envs:
                no(s, 'if without a branch that continues')
            out = [n for n in names if all(n in e and e[n] == envs[0][n] for e in envs)]
            val = 'tt' if not out else out[0] if len(out) == 1 else '(%s)' % ', '.join(out)
            pat = '_' if not out else out[0] if len(out) == 1 else "'(%s)" % ', '.join(out)
            binds = []
            c = self.cond(s.test, env, binds)
            a = self.block(list(s.body), env, lambda e: 'ROk %s' % val)
            b = self.block(list(s.orelse), env, lambda e: 'ROk %s' % val)
            env2 = dict(env)
            for n in out:
                env2[n] = envs[0][n]
            return self.wrap(binds, 'rbind (if %s then\n%s\nelse\n%s) (fun %s =>\n%s)'
                             % (c, a, b, pat, self.block(rest, env2, k)))
        if isinstance(s, ast.For):
            return self.for_(s, rest, env, k)
        no(s, 'statement %s' % type(s).__name__)

    def raise_(self, s):
        c = s.exc
        if not (isinstance(c, ast.Call) and isinstance(c.func, ast.Name) and len(c.args) == 1
                and not c.keywords and isinstance(c.args[0], ast.Constant) and s.cause is None):
            no(s, 'raise outside the subset')
        ent = self.sig['exceptions'].get(c.func.id)
        if ent is None:
            no(s, 'exception %s' % c.func.id)
        if c.args[0].value not in self.sig['messages']:
            no(s, 'message text not in the signature file')
        return 'RErr %s' % ent

    def for1_(self, s, rest, env, k):
        it = s.iter
        if s.orelse or not isinstance(it, ast.Name) or env.get(it.id) not in self.sig['elem']:
            no(s, 'for iterable')
        acc = self.sig['loop_state']
        for n in acc:
            if n not in env:
                no(s, 'loop state %s undefined' % n)
        x = s.target.id
        fname = '%s_loop' % self.sig.get('coq_name', self.sig['method'])
        free = [n for n in env if n not in acc and n != it.id and n not in self.sig['section_vars'] and n not in self.localfns]
        if 'items' in env or x in acc:
            no(s, 'reserved name')
        env2 = dict(env)
        env2[x] = self.sig['elem'][env[it.id]]
        del env2[it.id]      # the list being walked is not visible inside the body
        accval = '(%s)' % ', '.join(acc) if len(acc) > 1 else acc[0]

        def chk(e3):
            for n in acc:
                if e3.get(n) != env[n]:
                    no(s, 'loop state %s retyped' % n)
        def again(e3):
            chk(e3)
            return '%s %s items %s' % (fname, ' '.join(free), ' '.join(acc))
        def leave(e3):
            chk(e3)
            return 'ROk %s' % accval
        for st in ast.walk(ast.Module(body=list(s.body), type_ignores=[])):
            if isinstance(st, (ast.Return, ast.For, ast.While)):
                no(st, 'return / nested loop in a loop')
        old = self.loopctx
        self.loopctx = (again, leave)
        body = self.block(list(s.body), env2, again)
        self.loopctx = old
        accty = '(%s)%%type' % ' * '.join(self.coqty(env[n]) for n in acc) if len(acc) > 1 else self.coqty(env[acc[0]])
        params = ''.join(' (%s : %s)' % (n, self.coqty(env[n])) for n in free)
        self.defs.append(
            'Fixpoint %s%s (items : %s) %s : result (%s) :=\n'
            'match items with\n| [] => ROk %s\n| %s :: items =>\n%s\nend.'
            % (fname, params, self.coqty(env[it.id]),
               ' '.join('(%s : %s)' % (n, self.coqty(env[n])) for n in acc), accty, accval, x, body))
        after = self.block(rest, env, k)
        pat = accval if len(acc) == 1 else "'%s" % accval
        return 'rbind (%s %s %s %s) (fun %s =>\n%s)' % (fname, ' '.join(free), it.id, ' '.join(acc), pat, after)

    def for_(self, s, rest, env, k):
        if isinstance(s.target, ast.Name):
            return self.for1_(s, rest, env, k)
        if s.orelse or not (isinstance(s.target, ast.Tuple) and len(s.target.elts) == 2
                            and all(isinstance(x, ast.Name) for x in s.target.elts)):
            no(s, 'for target')
        it = s.iter
        if not (isinstance(it, ast.Call) and isinstance(it.func, ast.Name) and it.func.id == 'zip'
                and len(it.args) == 2 and not it.keywords):
            no(s, 'for iterable')
        binds = []
        a, ta = self.expr(it.args[0], env, binds)
        b, tb = self.expr(it.args[1], env, binds)
        if binds or ta not in self.sig['elem'] or tb not in self.sig['elem']:
            no(s, 'for iterable')
        acc = self.sig['loop_state']
        for n in acc:
            if n not in env:
                no(s, 'loop state %s undefined' % n)
        x, y = s.target.elts[0].id, s.target.elts[1].id
        fname = '%s_loop' % self.sig.get('coq_name', self.sig['method'])
        free = [n for n in env if n not in acc and n not in self.sig['section_vars'] and n not in self.localfns]
        env2 = dict(env)
        env2[x] = self.sig['elem'][ta]
        env2[y] = self.sig['elem'][tb]

        def again(e3):
            for n in acc:
                if e3.get(n) != env[n]:
                    no(s, 'loop state %s retyped' % n)
            return '%s %s items %s' % (fname, ' '.join(free), ' '.join(acc))
        for st in ast.walk(ast.Module(body=list(s.body), type_ignores=[])):
            if isinstance(st, (ast.Break, ast.Continue, ast.Return)):
                no(st, 'break/continue/return in a loop')
        body = self.block(list(s.body), env2, again)
        accty = '(%s)%%type' % ' * '.join(self.coqty(env[n]) for n in acc) if len(acc) > 1 else self.coqty(env[acc[0]])
        accval = '(%s)' % ', '.join(acc) if len(acc) > 1 else acc[0]
        self.loop_ret = (accty, acc)
        params = ''.join(' (%s : %s)' % (n, self.coqty(env[n])) for n in free)
        self.defs.append(
            'Fixpoint %s%s (items : list (%s * %s)) %s : result %s :=\n'
            'match items with\n| [] => ROk %s\n| (%s, %s) :: items =>\n%s\nend.'
            % (fname, params, self.coqty(self.sig['elem'][ta]), self.coqty(self.sig['elem'][tb]),
               ' '.join('(%s : %s)' % (n, self.coqty(env[n])) for n in acc), '(%s)' % accty, accval, x, y, body))
        after = self.block(rest, env, k)
        pat = accval if len(acc) == 1 else "'%s" % accval
        return 'rbind (%s %s (combine %s %s) %s) (fun %s =>\n%s)' % (fname, ' '.join(free), a, b, ' '.join(acc), pat, after)

    def localfn(self, fn, env):
        ent = self.sig['local_functions'].get(fn.name)
        if ent is None:
            no(fn, 'local function %s' % fn.name)
        a = fn.args
        if a.vararg or a.kwarg or a.kwonlyargs or a.defaults or a.posonlyargs or fn.decorator_list \
                or [x.arg for x in a.args] != [p[0] for p in ent['params']]:
            no(fn, 'parameters of %s' % fn.name)
        env2 = {p[0]: p[1] for p in ent['params']}
        body = self.pure_body(strip_doc(list(fn.body)), env2, ent['ret'])
        self.defs.append('Definition %s%s : %s :=\n%s.' % (
            fn.name, ''.join(' (%s : %s)' % (p[0], self.coqty(p[1])) for p in ent['params']),
            self.coqty(ent['ret']), body))
        self.localfns[fn.name] = ([p[1] for p in ent['params']], ent['ret'])

    def pure_body(self, stmts, env, ret):
        if len(stmts) == 1 and isinstance(stmts[0], ast.Return) and stmts[0].value is not None:
            binds = []
            t, ty = self.expr(stmts[0].value, env, binds)
            if binds or ty != ret:
                no(stmts[0], 'return in a local function')
            return t
        if stmts and isinstance(stmts[0], ast.If):
            s = stmts[0]
            binds = []
            c = self.cond(s.test, env, binds)
            if binds:
                no(s, 'raising test in a local function')
            return 'if %s then %s else %s' % (c, self.pure_body(list(s.body) + stmts[1:], env, ret),
                                              self.pure_body(list(s.orelse) + stmts[1:], env, ret))
        no(stmts[0] if stmts else None, 'local function body outside the subset')


def translate(sigpath, repo):
    sig = json.load(open(sigpath))
    raw = open(os.path.join(repo, sig['source']), 'rb').read()
    tree = ast.parse(raw.decode('utf8'))
    cls = [n for n in tree.body if isinstance(n, ast.ClassDef) and n.name == sig['class']]
    if len(cls) != 1:
        raise Unsupported('class %s not found once' % sig['class'])
    ms = {}
    for n in cls[0].body:
        if isinstance(n, ast.FunctionDef):
            if n.name in ms and (n.name == sig['method'] or n.name in sig['pinned']):
                raise Unsupported('%s defined twice' % n.name)
            ms[n.name] = n
    for name, h in sorted(sig['pinned'].items()):
        if name not in ms:
            raise Unsupported('pinned method %s missing' % name)
        if ast_hash(ms[name]) != h:
            raise Unsupported('pinned method %s changed (AST hash %s, signature file has %s)' % (name, ast_hash(ms[name]), h))
    fn = ms.get(sig['method'])
    if fn is None:
        raise Unsupported('method %s missing' % sig['method'])
    a = fn.args
    if a.vararg or a.kwarg or a.kwonlyargs or a.posonlyargs or [ast.dump(d) for d in fn.decorator_list] != sig.get('decorators', []):
        no(fn, 'parameter list / decorators')
    names = [x.arg for x in a.args]
    lead = [] if sig.get('static') else ['self']
    if names != lead + [p['name'] for p in sig['params']]:
        no(fn, 'parameters %s' % names)
    defaults = [None] * (len(names) - len(a.defaults)) + list(a.defaults)
    for p, d in zip(sig['params'], defaults[len(lead):]):
        got = None if d is None else ast.dump(d)
        if got != p['default']:
            no(fn, 'default of %s' % p['name'])
    tr = Tr(sig)
    env = {} if sig.get('static') else {'self': sig['self_type']}
    for p in sig['params']:
        if p['name'] not in sig['static_none'] and not p.get('omit'):
            env[p['name']] = p['type']
    for n, t in sig.get('region_in', []):
        env[n] = t
    stmts = strip_doc(list(fn.body))
    if 'region' in sig:
        # only the statements region[0] .. region[1] are translated; all the others are pinned by AST hash
        lo, hi = sig['region']
        # statements translated by a sibling target (other_regions) are that target's business
        skip = set(range(lo, hi + 1))
        for a2, b2 in sig.get('other_regions', []):
            skip |= set(range(a2, b2 + 1))
        others = [st for i, st in enumerate(stmts) if i not in skip]
        if dump_hash(others) != sig['rest_hash']:
            raise Unsupported('the statements of %s outside the translated region changed (AST hash %s, signature file has %s)'
                              % (sig['method'], dump_hash(others), sig['rest_hash']))

        def fin(e):
            for n, t in sig['region_out']:
                if e.get(n) != t:
                    no(fn, 'region result %s has type %s' % (n, e.get(n)))
            return 'ROk (%s)' % ', '.join(n for n, _ in sig['region_out'])
        body = tr.block(stmts[lo:hi + 1], env, fin)
    else:
        body = tr.block(stmts, env, lambda e: no(fn, 'the method can end without a return'))
    if tr.pruned != sig['pruned']:
        raise Unsupported('a branch decided at translation time (%s) changed (AST hashes %s, signature file has %s)'
                          % ('/'.join(sig['static_none'] + ['static_true'] * bool(sig.get('static_true'))), tr.pruned, sig['pruned']))
    params = ''.join(' (%s : %s)' % (n, tr.coqty(t)) for n, t in env.items() if n not in sig['section_vars'])
    out = ['(* GENERATED by tools/py2v_tsv from %s (%s.%s) - do not edit; tools/regen_tsv.sh rewrites it.'
           % (sig['source'], sig['class'], sig['method']),
           '   Vocabulary: coq/Gen/TsvPrelude.v (hand-written).  Tied to coq/Model/Tsv.v by the *_is_source',
           '   theorems of coq/Proofs/GenBridgeTsvProofs.v. *)']
    out += sig['header']
    out.append('Section TsvGen.')
    for n in sig['section_vars']:
        out.append('Variable %s : %s.' % (n, tr.coqty(env[n] if n in env else sig['section_types'][n])))
    out.append('')
    for d in tr.defs:
        out.append(d)
        out.append('')
    out.append('Definition %s%s : result (%s) :=\n%s.' % (sig.get('coq_name', sig['method']), params, tr.coqty(sig['returns']), body))
    out.append('End TsvGen.')
    return sig, '\n'.join(out) + '\n', hashlib.sha256(raw).hexdigest()


def main(argv):
    repo = os.environ.get('BIOM_REPO', '/repo')
    outroot = os.path.dirname(os.path.dirname(HERE))
    to_stdout = False
    hashes = False
    targets = []
    it = iter(argv)
    for a in it:
        if a == '--repo':
            repo = next(it)
        elif a == '--out':
            outroot = next(it)
        elif a == '--stdout':
            to_stdout = True
        elif a == '--hashes':
            hashes = True
        else:
            targets.append(a)
    sigs = sorted(glob.glob(os.path.join(HERE, 'sigs', '*.json')))
    if targets:
        sigs = [s for s in sigs if os.path.basename(s)[:-5] in targets]
        if len(sigs) != len(targets):
            print('py2v_tsv: unknown target in %s' % targets, file=sys.stderr)
            return 2
    if hashes:   # maintenance: print the AST hashes the signature files pin
        for s in sigs:
            sig = json.load(open(s))
            tree = ast.parse(open(os.path.join(repo, sig['source'])).read())
            cls = [n for n in tree.body if isinstance(n, ast.ClassDef) and n.name == sig['class']][0]
            ms = {n.name: n for n in cls.body if isinstance(n, ast.FunctionDef)}
            for name in sorted(sig['pinned']):
                print(name, ast_hash(ms[name]))
            sig['pruned'] = None
            stmts = strip_doc(list(ms[sig['method']].body))
            if 'region' in sig:
                lo, hi = sig['region']
                skip = set(range(lo, hi + 1))
                for a2, b2 in sig.get('other_regions', []):
                    skip |= set(range(a2, b2 + 1))
                print('rest_hash', dump_hash([st for i, st in enumerate(stmts) if i not in skip]))
                continue
            tr = Tr(sig)
            env = {'self': sig['self_type']}
            for p in sig['params']:
                if p['name'] not in sig['static_none']:
                    env[p['name']] = p['type']
            tr.block(stmts, env, lambda e: '')
            print('pruned', json.dumps(tr.pruned))
        return 0
    failed = False
    for s in sigs:
        src = json.load(open(s))['source']
        try:
            sig, out, sha = translate(s, repo)
        except Unsupported as e:
            print('py2v_tsv: REFUSED %s (%s): %s' % (src, os.path.basename(s)[:-5], e), file=sys.stderr)
            failed = True
            continue
        except (OSError, SyntaxError, ValueError, KeyError, IndexError, TypeError, AttributeError, AssertionError) as e:
            print('py2v_tsv: REFUSED %s (%s): %s: %s' % (src, os.path.basename(s)[:-5], type(e).__name__, e), file=sys.stderr)
            failed = True
            continue
        if to_stdout:
            sys.stdout.write(out)
            continue
        path = os.path.join(outroot, sig['output'])
        old = open(path).read() if os.path.exists(path) else None
        if old != out:
            os.makedirs(os.path.dirname(path), exist_ok=True)
            tmp = path + '.tmp'
            open(tmp, 'w').write(out)
            os.replace(tmp, path)
            state = 'written'
        else:
            state = 'unchanged'
        print('py2v_tsv: %s -> %s %s (source sha256 %s)' % (sig['source'], sig['output'], state, sha))
    return 2 if failed else 0


if __name__ == '__main__':
    sys.exit(main(sys.argv[1:]))
