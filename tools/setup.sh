#!/bin/sh
# offline build of the whole framework: Coq development (full .vo), extracted model runners
set -e
cd "$(dirname "$0")/.."
[ -x tools/regen.sh ] && tools/regen.sh
tools/build_coq.sh
for f in coq/Run/Extract*.v; do id=$(basename "$f" .v | sed 's/Extract//' | tr A-Z a-z); tools/build_model.sh "$id"; done
