#!/bin/sh
# offline build of the whole framework: regenerate translated files, full .vo build of the Coq
# development, extracted model runners.  A file that fails to build is reported but does not stop
# the rest: every check rebuilds its own cone and reports a broken obligation itself.
cd "$(dirname "$0")/.."
[ -x tools/regen.sh ] && tools/regen.sh
tools/build_coq.sh -k || echo "SETUP: some Coq files did not build (see above); the checks depending on them will report it"
for f in coq/Run/Extract*.v; do
  id=$(basename "$f" .v | sed 's/Extract//' | tr A-Z a-z)
  tools/build_model.sh "$id" || echo "SETUP: model runner $id did not build"
done
exit 0
