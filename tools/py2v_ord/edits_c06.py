"""The edits of biom/table.py tried against the C06 translator tie T21 (docs/C06.md, "Translator tie"): each is applied to a
scratch copy of the repository (cp -r /repo /tmp/c06gen-repo first) and run through the whole
`BIOM_REPO=/tmp/c06gen-repo VERIF_OUT=/tmp/c06gen-out ./check C06`; rows go to /tmp/c06gen/rows.json.  Afterwards run
tools/regen_ord.sh and ./check C06 against /repo again."""
import os, re, shutil, subprocess, sys, json, glob
REPO = os.environ.get('C06GEN_REPO', '/tmp/c06gen-repo')
TAG = os.environ.get('C06GEN_TAG', 'c06gen')
EDITS = [
 ('so-rows-for-cols', 'semantic', "sort_order, sample branch: the matrix is fancy-indexed on its rows",
  "mat = self.matrix_data[:, fancy]", "mat = self.matrix_data[fancy, :]"),
 ('so-md-swapped', 'semantic', "sort_order, sample branch: the two metadata arguments of the constructor swapped",
  "self.metadata(axis='observation'), metadata,\n", "metadata, self.metadata(axis='observation'),\n"),
 ('so-ids-not-order', 'semantic', "sort_order, observation branch: the new table keeps the old observation ids over the reordered rows",
  "order[:], self.ids()[:],\n", "self.ids(axis='observation')[:], self.ids()[:],\n"),
 ('so-md-not-reordered', 'semantic', "sort_order: the metadata of the axis is not fancy-indexed",
  "metadata = np.array(metadata)[fancy]", "metadata = np.array(metadata)"),
 ('sort-wrong-axis', 'semantic', "sort: sort_f gets the sample ids whatever the axis",
  "return self.sort_order(sort_f(self.ids(axis=axis)), axis=axis)", "return self.sort_order(sort_f(self.ids()), axis=axis)"),
 ('align-both-or', 'semantic', "align_to: 'both' is refused only when NEITHER axis is alignable",
  "if axis == 'both' and not (alignable_o and alignable_s):", "if axis == 'both' and not (alignable_o or alignable_s):"),
 ('align-detect-axis', 'semantic', "align_to, 'detect': alignable samples schedule the observation axis",
  "order.append('sample')", "order.append('observation')"),
 ('align-own-ids', 'semantic', "align_to: the table is sorted by its own ids (nothing moves)",
  "table = table.sort_order(other.ids(axis=aln_axis),", "table = table.sort_order(self.ids(axis=aln_axis),"),
 ('transpose-md-swapped', 'semantic', "transpose: the metadata copies are handed over unswapped",
  "sample_md_copy, obs_md_copy, self.table_id)", "obs_md_copy, sample_md_copy, self.table_id)"),
 ('copy-type-dropped', 'semantic', "copy: the type is not handed to the constructor",
  "self.table_id,\n                              type=self.type)", "self.table_id)"),
 ('rename-local', 'preserving', "sort_order: local fancy renamed", None, None),
 ('swap-lets', 'preserving', "align_to: the two independent alignable_* assignments swapped",
  "        alignable_o = self_o == other_o\n        alignable_s = self_s == other_s\n",
  "        alignable_s = self_s == other_s\n        alignable_o = self_o == other_o\n"),
 ('list-call', 'reject', "sort_order: order[:] written as list(order)",
  "self.ids(axis='observation')[:], order[:],", "self.ids(axis='observation')[:], list(order),"),
 ('message-text', 'reject', "align_to: another message text",
  '"Cannot align samples"', '"Cannot align the samples"'),
 ('pinned-index', 'reject', "index (pinned, not translated) returns the position after the one looked up",
  "        return idx_lookup[id]\n", "        return idx_lookup[id] + 1\n"),
]
names = sys.argv[1:]
rows = []
os.makedirs('/tmp/%s' % TAG, exist_ok=True)
for name, group, what, old, new in EDITS:
    if names and name not in names:
        continue
    shutil.copy('/repo/biom/table.py', REPO + '/biom/table.py')
    s = open(REPO + '/biom/table.py').read()
    if name == 'rename-local':
        a = s.index('    def sort_order(self'); b = s.index('    def sort(self')
        assert s[a:b].count('fancy') == 4
        s2 = s[:a] + s[a:b].replace('fancy', 'positions') + s[b:]
    else:
        assert s.count(old) == 1, (name, s.count(old))
        s2 = s.replace(old, new)
    open(REPO + '/biom/table.py', 'w').write(s2)
    env = dict(os.environ, BIOM_REPO=REPO, VERIF_OUT='/tmp/%s-out' % TAG + '')
    shutil.rmtree('/tmp/%s-out' % TAG + '/replays', ignore_errors=True)
    p = subprocess.run(['./check', 'C06'], cwd='/verif', env=env, capture_output=True, text=True)
    out = p.stdout + p.stderr
    open('/tmp/%s/' % TAG + '%s.log' % name, 'w').write(out)
    refused = [l for l in out.split('\n') if 'REFUSED' in l]
    try:
        ev = json.load(open('/tmp/%s-out' % TAG + '/evidence/C06.json'))
        refused += [l for l in ev['coverage']['trusted_base'] if 'REFUSED' in l]
    except Exception:
        pass
    diff = subprocess.run(['git', 'diff', '--quiet', '--', 'coq/Gen/ReorderGen.v'], cwd='/verif').returncode
    broke = ''
    rep = {}
    for f in glob.glob('/tmp/%s-out' % TAG + '/replays/C06-*.json'):
        try:
            rep = json.load(open(f))
        except Exception:
            pass
    out2 = out
    if p.returncode and not refused:
        q = subprocess.run('ulimit -v 8000000; timeout 300 coqc -Q . BiomV Gen/ReorderGen.v && timeout 300 coqc -Q . BiomV '
                           'Proofs/GenBridgeReorderProofs.v && timeout 300 coqc -Q . BiomV Props/C06.v', shell=True,
                           cwd='/verif/coq', capture_output=True, text=True)
        out2 = q.stdout + q.stderr
    m = re.search(r'File "\./(Gen/ReorderGen\.v|Proofs/GenBridgeReorderProofs\.v|Props/C06\.v)", line (\d+)', out2)
    if m:
        lines = open('/verif/coq/' + m.group(1)).read().split('\n')[:int(m.group(2))]
        for l in reversed(lines):
            mm = re.match(r'(Lemma|Theorem|Example|Definition|Fixpoint)\s+(\w+)', l)
            if mm:
                broke = m.group(1) + ': ' + mm.group(2)
                break
    verdict = [l for l in out.split('\n') if l.startswith('VIOLATION') or 'quick:' in l]
    fail = json.dumps([rep.get('case', ''), rep.get('impl', ''), rep.get('oracle', '')], default=str)[:400]
    rows.append((name, group, what, 'REFUSES' if refused else 'accepts', 'not written' if refused else ('differs' if diff else 'same text'),
                 broke or (refused[0][:200] if refused else 'all proofs check'), ' | '.join(verdict)[:300], p.returncode, fail))
    print(rows[-1], flush=True)
shutil.copy('/repo/biom/table.py', REPO + '/biom/table.py')
json.dump(rows, open('/tmp/%s/' % TAG + 'rows.json', 'w'), indent=1)
