#!/venv/bin/python
"""py2v_ord: small fail-closed translator ("reorder mode") for the methods of biom.table.Table that
rebuild a table in another order: sort_order, sort, copy, transpose, align_to.  Every method call,
attribute, subscript shape, string literal, exception class and message text must be listed in the
signature file tools/py2v_ord/sigs/reorder.json; each becomes a named primitive of the hand-written
vocabulary coq/Gen/OrdPrelude.v.  A method body is translated statement by statement into the
error monad (result): calls that can raise are hoisted, in evaluation order, into binds; an
if / for that assigns one local becomes a bind of that local.  Methods the primitives stand for
are pinned by AST hash.

usage: main.py [--repo DIR] [--out DIR] [--stdout]
Anything outside the subset gives exit code 2 and NO file is written.  Output is deterministic; the
file is rewritten only when its text changed.  Source text is never copied into the output."""
import ast
import hashlib
import json
import os
import sys

HERE = os.path.dirname(os.path.abspath(__file__))


class Unsupported(Exception):
    def __init__(self, node, msg):
        Exception.__init__(self, 'line %s: %s' % (getattr(node, 'lineno', 0), msg))


def strip_doc(body):
    if body and isinstance(body[0], ast.Expr) and isinstance(getattr(body[0], 'value', None), ast.Constant) \
            and isinstance(body[0].value.value, str):
        return body[1:]
    return body


def ast_hash(fn):
    text = ast.dump(ast.Module(body=strip_doc(fn.body), type_ignores=[]), annotate_fields=False, include_attributes=False)
    text += '|' + ast.dump(fn.args, annotate_fields=False, include_attributes=False)
    return hashlib.sha256(text.encode()).hexdigest()[:16]


def paren(t):
    t = t.strip()
    if t and (t[0] == '(' and t[-1] == ')' and t.count('(') == 1 or ' ' not in t):
        return t
    return '(' + t + ')'


class Fn:
    def __init__(self, sig, spec, fn):
        self.sig, self.spec, self.fn = sig, spec, fn
        self.pre = []          # hoisted monadic bindings (name, text) of the statement being compiled
        self.n = 0
        self.sets = set()      # locals that hold set(...) values
        self.locals = set()

    # ---------------------------------------------------------------- expressions
    def fresh(self):
        self.n += 1
        return 'h%d' % self.n

    def hoist(self, text):
        h = self.fresh()
        self.pre.append((h, text))
        return h

    def var(self, node, name):
        if name not in self.locals:
            raise Unsupported(node, 'unknown name %r' % name)
        return 'v_' + name

    def lit(self, node, kind=None):
        v = node.value
        if isinstance(v, str):
            for k, tab in self.sig['strings'].items():
                if (kind is None or k == kind) and v in tab:
                    return k, tab[v]
        raise Unsupported(node, 'constant %r not in the signature' % (v,))

    def expr(self, e):
        if isinstance(e, ast.Name):
            return self.var(e, e.id)
        if isinstance(e, ast.Constant):
            return self.lit(e)[1]
        if isinstance(e, ast.List):
            return '[' + '; '.join(self.expr(x) for x in e.elts) + ']'
        if isinstance(e, ast.BoolOp):
            op = {ast.And: 'andb', ast.Or: 'orb'}[type(e.op)]
            before = len(self.pre)
            parts = [self.expr(x) for x in e.values]
            if len(self.pre) != before:
                raise Unsupported(e, 'a call that can raise inside and/or')
            out = paren(parts[-1])
            for p in reversed(parts[:-1]):
                out = '(%s %s %s)' % (op, paren(p), out)
            return out
        if isinstance(e, ast.UnaryOp) and isinstance(e.op, ast.Not):
            return 'negb ' + paren(self.expr(e.operand))
        if isinstance(e, ast.Compare):
            return self.compare(e)
        if isinstance(e, ast.Attribute):
            a = self.sig['attrs'].get(e.attr)
            if a is None:
                raise Unsupported(e, 'attribute .%s not in the signature' % e.attr)
            return '%s %s' % (a, paren(self.expr(e.value)))
        if isinstance(e, ast.Subscript):
            return self.subscript(e)
        if isinstance(e, ast.ListComp):
            return self.listcomp(e)
        if isinstance(e, ast.Call):
            return self.call(e)
        raise Unsupported(e, 'expression %s outside the subset' % type(e).__name__)

    def compare(self, e):
        if len(e.ops) != 1:
            raise Unsupported(e, 'chained comparison')
        l, r, op = e.left, e.comparators[0], e.ops[0]
        if isinstance(op, ast.IsNot) and isinstance(r, ast.Constant) and r.value is None:
            return 'py_is_not_none ' + paren(self.expr(l))
        if isinstance(op, ast.Eq):
            if isinstance(r, ast.Constant):
                kind, txt = self.lit(r)
                return '%s %s %s' % (self.sig['eq'][kind], paren(self.expr(l)), txt)
            if isinstance(l, ast.Name) and isinstance(r, ast.Name) and l.id in self.sets and r.id in self.sets:
                return 'set_eqb %s %s' % (self.expr(l), self.expr(r))
        raise Unsupported(e, 'comparison outside the subset')

    def subscript(self, e):
        s = e.slice

        def full(x):
            return isinstance(x, ast.Slice) and x.lower is None and x.upper is None and x.step is None
        if full(s):
            return 'py_slice_all ' + paren(self.expr(e.value))
        if isinstance(s, ast.Tuple) and len(s.elts) == 2:
            a, b = s.elts
            if full(a) and isinstance(b, ast.Name):
                return 'mx_take_cols %s %s' % (paren(self.expr(e.value)), self.expr(b))
            if full(b) and isinstance(a, ast.Name):
                return 'mx_take_rows %s %s' % (paren(self.expr(e.value)), self.expr(a))
        if isinstance(s, ast.Name) and isinstance(e.value, ast.Call) and self.dotted(e.value.func) == 'np.array':
            return 'np_take %s %s' % (paren(self.expr(e.value)), self.expr(s))
        raise Unsupported(e, 'subscript outside the subset')

    def dotted(self, f):
        if isinstance(f, ast.Name):
            return f.id
        if isinstance(f, ast.Attribute) and isinstance(f.value, ast.Name) and f.value.id in ('np',):
            return f.value.id + '.' + f.attr
        return None

    def listcomp(self, e):
        if len(e.generators) != 1 or e.generators[0].ifs or e.generators[0].is_async \
                or not isinstance(e.generators[0].target, ast.Name):
            raise Unsupported(e, 'comprehension outside the subset')
        g = e.generators[0]
        it = self.expr(g.iter)
        name = g.target.id
        saved, self.pre = self.pre, []
        added = name not in self.locals
        self.locals.add(name)
        body = self.expr(e.elt)
        inner = self.binds(self.pre, 'ROk ' + paren(body))
        self.pre = saved
        if added:
            self.locals.discard(name)
        return self.hoist('mapM (fun v_%s => %s) %s' % (name, inner, paren(it)))

    def call(self, e):
        f = e.func
        d = self.dotted(f)
        if d is not None and d in self.sig['functions']:
            kws = {k.arg: ast.unparse(k.value) for k in e.keywords}
            specs = [x for x in self.sig['functions'][d] if x.get('kw', {}) == kws and x['nargs'] == len(e.args)]
            if len(specs) != 1:
                raise Unsupported(e, '%s: arguments / keywords %r not in the signature' % (d, kws))
            spec = specs[0]
            return '%s %s' % (spec['coq'], ' '.join(paren(self.expr(a)) for a in e.args))
        if isinstance(f, ast.Name) and f.id in self.spec.get('oracles', []) and not e.keywords:
            return '%s %s' % (self.var(f, f.id), ' '.join(paren(self.expr(a)) for a in e.args))
        if isinstance(f, ast.Attribute) and f.attr in self.sig['methods']:
            m = self.sig['methods'][f.attr]
            if ast.unparse(f.value) not in m['recv']:
                raise Unsupported(e, 'receiver %s of .%s not in the signature' % (ast.unparse(f.value), f.attr))
            recv = self.expr(f.value)
            args = self.bindargs(e, m)
            text = '%s %s %s' % (m['coq'], paren(recv), ' '.join(paren(a) for a in args))
            return self.hoist(text.strip()) if m.get('monadic') else text.strip()
        raise Unsupported(e, 'call outside the subset')

    def ctor(self, e):
        m = self.sig['constructor']
        args = self.bindargs(e, m)
        return self.hoist('%s %s' % (m['coq'], ' '.join(paren(a) for a in args)))

    def bindargs(self, e, m):
        params = m['params']
        if len(e.args) > len(params):
            raise Unsupported(e, 'too many arguments')
        got = {}
        order = []
        for p, a in zip(params, e.args):
            got[p] = a
            order.append(p)
        for k in e.keywords:
            if k.arg is None or k.arg not in params or k.arg in got:
                raise Unsupported(e, 'keyword %r not in the signature' % k.arg)
            got[k.arg] = k.value
            order.append(k.arg)
        # evaluation order = textual order
        texts = {}
        for p in order:
            a = got[p]
            fixed = m.get('fixed', {}).get(p)
            if fixed is not None:
                if ast.unparse(a) != fixed:
                    raise Unsupported(a, 'argument %s must be %s' % (p, fixed))
                continue
            texts[p] = self.expr(a)
        out = []
        for p in params:
            if p in m.get('fixed', {}):
                if p not in got and not m.get('fixed_optional'):
                    raise Unsupported(e, 'argument %s missing' % p)
                continue
            if p in texts:
                out.append(texts[p])
            elif p in m.get('defaults', {}):
                out.append(m['defaults'][p])
            else:
                raise Unsupported(e, 'argument %s missing' % p)
        return out

    def cexpr(self, e):
        """expression in a position where self.__class__(...) is allowed (a return)"""
        if isinstance(e, ast.Call) and isinstance(e.func, ast.Attribute) and e.func.attr == '__class__' \
                and isinstance(e.func.value, ast.Name) and e.func.value.id == 'self':
            return self.ctor(e)
        return self.expr(e)

    # ---------------------------------------------------------------- statements
    def binds(self, pre, tail):
        out = tail
        for h, text in reversed(pre):
            out = '%s <- %s ;;\n%s' % (h, text, out)
        return out

    def flush(self, rest):
        pre, self.pre = self.pre, []
        return self.binds(pre, rest)

    def assigned(self, stmts):
        out = []
        for s in stmts:
            if isinstance(s, ast.Assign) and len(s.targets) == 1 and isinstance(s.targets[0], ast.Name):
                names = [s.targets[0].id]
            elif isinstance(s, ast.Assign) and len(s.targets) == 1 and isinstance(s.targets[0], ast.Attribute) \
                    and isinstance(s.targets[0].value, ast.Name):
                names = [s.targets[0].value.id]
            elif isinstance(s, ast.Expr) and isinstance(s.value, ast.Call) and isinstance(s.value.func, ast.Attribute) \
                    and s.value.func.attr == 'append' and isinstance(s.value.func.value, ast.Name):
                names = [s.value.func.value.id]
            elif isinstance(s, ast.If):
                names = self.assigned(s.body) + self.assigned(s.orelse)
            elif isinstance(s, ast.For):
                names = self.assigned(s.body)
            elif isinstance(s, (ast.Raise, ast.Return)):
                names = []
            else:
                raise Unsupported(s, 'statement %s outside the subset' % type(s).__name__)
            for n in names:
                if n not in out:
                    out.append(n)
        return out

    def terminal(self, stmts):
        if not stmts:
            return False
        s = stmts[-1]
        if isinstance(s, (ast.Raise, ast.Return)):
            return True
        if isinstance(s, ast.If):
            return bool(s.orelse) and self.terminal(s.body) and self.terminal(s.orelse)
        return False

    def block(self, stmts, tail):
        """Coq text of the statements; [tail] is the text that ends a block which falls through (None: it must not)"""
        if not stmts:
            if tail is None:
                raise Unsupported(self.fn, 'a path falls off the end of the function')
            return tail
        s, rest = stmts[0], stmts[1:]
        if isinstance(s, ast.Return):
            if rest or s.value is None:
                raise Unsupported(s, 'return outside the subset')
            val = self.cexpr(s.value)
            if self.pre and self.pre[-1][0] == val:
                _, text = self.pre.pop()
                return self.flush(text)
            return self.flush('ROk ' + paren(val))
        if isinstance(s, ast.Raise):
            if rest:
                raise Unsupported(s, 'code after raise')
            return self.raise_(s)
        if isinstance(s, ast.Assign):
            if len(s.targets) != 1:
                raise Unsupported(s, 'multiple targets')
            t = s.targets[0]
            if isinstance(t, ast.Name):
                val = self.cexpr(s.value)
                if isinstance(s.value, ast.Call) and self.dotted(s.value.func) == 'set':
                    self.sets.add(t.id)
                else:
                    self.sets.discard(t.id)
                self.locals.add(t.id)
                if self.pre and self.pre[-1][0] == val:
                    _, text = self.pre.pop()
                    pre, self.pre = self.pre, []
                    return self.binds(pre, 'v_%s <- %s ;;\n%s' % (t.id, text, self.block(rest, tail)))
                pre, self.pre = self.pre, []
                return self.binds(pre, 'let v_%s := %s in\n%s' % (t.id, val, self.block(rest, tail)))
            if isinstance(t, ast.Attribute) and isinstance(t.value, ast.Name) and t.attr in self.sig['setattrs']:
                obj = self.var(t, t.value.id)
                val = self.expr(s.value)
                pre, self.pre = self.pre, []
                return self.binds(pre, 'let %s := %s %s %s in\n%s' % (obj, self.sig['setattrs'][t.attr], obj, paren(val),
                                                                      self.block(rest, tail)))
            raise Unsupported(s, 'assignment target outside the subset')
        if isinstance(s, ast.Expr):
            c = s.value
            if isinstance(c, ast.Call) and isinstance(c.func, ast.Attribute) and c.func.attr == 'append' \
                    and isinstance(c.func.value, ast.Name) and len(c.args) == 1 and not c.keywords:
                obj = self.var(c, c.func.value.id)
                val = self.expr(c.args[0])
                return self.flush('let %s := py_append %s %s in\n%s' % (obj, obj, paren(val), self.block(rest, tail)))
            raise Unsupported(s, 'expression statement outside the subset')
        if isinstance(s, ast.If):
            if not rest and (tail is None or self.terminal([s])):
                # the function ends in this if
                return self.if_(s, lambda b: self.block(b, tail))
            if any(isinstance(n, ast.Return) for n in ast.walk(s)):
                raise Unsupported(s, 'return inside an if that does not end the function')
            names = self.assigned([s])
            if len(names) > 1:
                raise Unsupported(s, 'an if assigning more than one local (%s)' % ', '.join(names))
            if names:
                if names[0] not in self.locals and not (self.assigned(s.body) and self.terminal_or_assigns(s, names[0])):
                    raise Unsupported(s, 'local %s may be unset after the if' % names[0])
                v = 'v_' + names[0]
                sets_before = set(self.sets)
                text = self.if_(s, lambda b: self.block(b, 'ROk ' + v), missing='ROk ' + v)
                self.sets = sets_before - {names[0]}
                self.locals.add(names[0])
                return '%s <- (%s) ;;\n%s' % (v, text, self.block(rest, tail))
            text = self.if_(s, lambda b: self.block(b, 'ROk tt'), missing='ROk tt')
            return '_ <- (%s) ;;\n%s' % (text, self.block(rest, tail))
        if isinstance(s, ast.For):
            if s.orelse or not isinstance(s.target, ast.Name):
                raise Unsupported(s, 'for outside the subset')
            if any(isinstance(n, (ast.Return, ast.Break, ast.Continue)) for n in ast.walk(s)):
                raise Unsupported(s, 'return / break / continue inside a for')
            names = self.assigned(s.body)
            if len(names) != 1 or names[0] not in self.locals:
                raise Unsupported(s, 'a for must update exactly one existing local')
            it = self.expr(s.iter)
            pre, self.pre = self.pre, []
            v = 'v_' + names[0]
            added = s.target.id not in self.locals
            self.locals.add(s.target.id)
            body = self.block(s.body, 'ROk ' + v)
            if added:
                self.locals.discard(s.target.id)
            return self.binds(pre, '%s <- foldM (fun %s v_%s =>\n%s) %s %s ;;\n%s'
                              % (v, v, s.target.id, body, paren(it), v, self.block(rest, tail)))
        raise Unsupported(s, 'statement %s outside the subset' % type(s).__name__)

    def terminal_or_assigns(self, s, name):
        """every branch of the if chain either ends the function or assigns [name] (so it is set afterwards)"""
        def br(b):
            return self.terminal(b) or name in self.assigned(b)
        if not s.orelse:
            return False
        return br(s.body) and (self.terminal_or_assigns(s.orelse[0], name)
                               if len(s.orelse) == 1 and isinstance(s.orelse[0], ast.If) else br(s.orelse))

    def if_(self, s, blk, missing=None):
        cond = self.expr(s.test)
        if self.pre:
            raise Unsupported(s, 'a call that can raise inside a condition')
        locals_before = set(self.locals)
        then = blk(s.body)
        self.locals = set(locals_before)
        if s.orelse:
            if len(s.orelse) == 1 and isinstance(s.orelse[0], ast.If):
                els = self.if_(s.orelse[0], blk, missing)
            else:
                els = blk(s.orelse)
        else:
            if missing is None:
                raise Unsupported(s, 'if without else at the end of the function')
            els = missing
        self.locals = locals_before
        return 'if %s then\n%s\nelse\n%s' % (cond, then, els)

    def raise_(self, s):
        e = s.exc
        if s.cause is not None or not isinstance(e, ast.Call) or not isinstance(e.func, ast.Name) or e.keywords:
            raise Unsupported(s, 'raise outside the subset')
        r = self.sig['raises'].get(e.func.id)
        if r is None:
            raise Unsupported(s, 'exception %s not in the signature' % e.func.id)
        args = [ast.unparse(a) for a in e.args]
        if args not in r['args']:
            raise Unsupported(s, 'message %r of %s not in the signature' % (args, e.func.id))
        if self.pre:
            raise Unsupported(s, 'call inside raise')
        return 'RErr ' + r['code']

    # ---------------------------------------------------------------- the function
    def translate(self):
        a = self.fn.args
        if a.vararg or a.kwarg or a.kwonlyargs or a.posonlyargs:
            raise Unsupported(self.fn, 'parameter list outside the subset')
        names = [x.arg for x in a.args]
        want = [p[0] for p in self.spec['params']]
        if names != want:
            raise Unsupported(self.fn, 'parameters %r, signature says %r' % (names, want))
        defaults = [ast.unparse(d) for d in a.defaults]
        if defaults != self.spec.get('defaults', []):
            raise Unsupported(self.fn, 'defaults %r, signature says %r' % (defaults, self.spec.get('defaults', [])))
        if self.fn.decorator_list:
            raise Unsupported(self.fn, 'decorators')
        self.locals = set(names)
        body = self.block(strip_doc(self.fn.body), None)
        ps = ' '.join('(v_%s : %s)' % (n, t) for n, t in self.spec['params'])
        return 'Definition %s %s : result %s :=\n%s.' % (self.spec['coq'], ps, self.spec['returns'], body)


def indent(text):
    """indentation by nesting of if/then/else and fun bodies is cosmetic: two spaces"""
    return '\n'.join('  ' + ln if i else ln for i, ln in enumerate(text.split('\n')))


def run(repo, sigpath):
    sig = json.load(open(sigpath))
    path = os.path.join(repo, sig['source'])
    raw = open(path, 'rb').read()
    tree = ast.parse(raw)
    cls = [n for n in tree.body if isinstance(n, ast.ClassDef) and n.name == sig['class']]
    if len(cls) != 1:
        raise Unsupported(tree, 'class %s not found' % sig['class'])
    fns = {}
    for n in cls[0].body:
        if isinstance(n, ast.FunctionDef):
            if n.name in fns:
                raise Unsupported(n, 'method %s defined twice' % n.name)
            fns[n.name] = n
    for name, h in sorted(sig['pinned'].items()):
        if name not in fns:
            raise Unsupported(tree, 'pinned method %s is gone' % name)
        if ast_hash(fns[name]) != h:
            raise Unsupported(fns[name], 'pinned method %s changed (AST hash %s, signature says %s)'
                              % (name, ast_hash(fns[name]), h))
    out = list(sig['header'])
    for spec in sig['emit']:
        if spec['name'] not in fns:
            raise Unsupported(tree, 'method %s not found' % spec['name'])
        out.append('')
        out.append('(* %s.%s *)' % (sig['class'], spec['name']))
        out.append(indent(Fn(sig, spec, fns[spec['name']]).translate()))
    out += sig['footer']
    banner = ['(* GENERATED by tools/py2v_ord/main.py from %s with tools/py2v_ord/sigs/%s - DO NOT EDIT.'
              % (sig['source'], os.path.basename(sigpath)),
              '   Regenerated on every ./check C06 (harness/regen_ord.py) and by tools/regen.sh; the bridge theorems',
              '   coq/Proofs/GenBridgeReorderProofs.v tie it to the hand-written model coq/Model/Reorder.v. *)']
    return sig, '\n'.join(banner + out) + '\n', hashlib.sha256(raw).hexdigest()


def main(argv):
    repo, outdir, stdout = '/repo', os.path.dirname(os.path.dirname(HERE)), False
    args = list(argv)
    while args:
        a = args.pop(0)
        if a == '--repo':
            repo = args.pop(0)
        elif a == '--out':
            outdir = args.pop(0)
        elif a == '--stdout':
            stdout = True
        else:
            print('py2v_ord: unknown argument %s' % a)
            return 2
    sigpath = os.path.join(HERE, 'sigs', 'reorder.json')
    try:
        sig, text, sha = run(repo, sigpath)
    except (Unsupported, KeyError, OSError, SyntaxError, ValueError) as e:
        print('py2v_ord: REFUSED biom/table.py: %s: %s' % (type(e).__name__, e))
        return 2
    if stdout:
        sys.stdout.write(text)
        return 0
    dest = os.path.join(outdir, sig['output'])
    old = open(dest).read() if os.path.exists(dest) else None
    state = 'unchanged'
    if old != text:
        with open(dest, 'w') as f:
            f.write(text)
        state = 'written'
    print('py2v_ord: %s -> %s %s (source sha256 %s)' % (sig['source'], sig['output'], state, sha))
    return 0


if __name__ == '__main__':
    sys.exit(main(sys.argv[1:]))
