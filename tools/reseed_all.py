#!/usr/bin/env python3
"""Re-runs every kept seeded change against the quick check of its property (scratch worktrees,
never /repo itself) and refreshes seeded/<name>/meta.json; prints a table for DESIGN.md."""
import json, os, re, subprocess, sys
from concurrent.futures import ThreadPoolExecutor
ROOT = '/verif/seeded'
EXTRA = {'C01': ['C04'], 'C04': ['C01'], 'C08': ['C05'], 'C06': ['C05'], 'C12': ['C05'], 'C13': ['C05']}
only = sys.argv[1:]

def run(name):
    d = os.path.join(ROOT, name)
    meta = json.load(open(os.path.join(d, 'meta.json')))
    pid = meta['property']
    props = [pid]
    for q in list(meta.get('checks_that_catch_it') or []) + EXTRA.get(pid, []):
        if q not in props and os.path.exists('/verif/harness/%s.py' % q.lower()):
            props.append(q)
    out = subprocess.run(['/verif/tools/try_seed.sh', pid, d] + props[1:], capture_output=True, text=True).stdout
    if 'patch does not apply' in out:
        meta['last_run'] = {'patch': 'no longer applies to /repo HEAD (later repairs changed its context); earlier result kept'}
        json.dump(meta, open(os.path.join(d, 'meta.json'), 'w'), indent=1)
        return name, pid, meta.get('checks_that_catch_it') or [], meta.get('first_version_missed', False), '[patch no longer applies] ' + meta['needs_to_manifest']
    caught = re.findall(r'SEED check (C\d+): exit 1', out)
    tests = re.search(r'SEED tests with change: (.*)', out)
    demo = re.findall(r'SEED demo (with|without) change: exit (\d+)', out)
    first = meta.get('checks_that_catch_it')
    if not first and caught and 'first_version_missed' not in meta:
        meta['first_version_missed'] = True
    meta['checks_that_catch_it'] = caught
    counts = {m.group(1): [int(m.group(2)), int(m.group(3))] for m in
              re.finditer(r'(C\d+) quick: .*?(\d+) disagreements, (\d+) oracle failures', out)}
    how = re.search(r'SEED patch: (.*)', out)
    meta['last_run'] = {'tests_with_change': tests.group(1) if tests else None, 'demo': dict(demo), 'checks_run': props,
                        'patch': how.group(1) if how else None, 'failing_cases': counts}
    json.dump(meta, open(os.path.join(d, 'meta.json'), 'w'), indent=1)
    return name, pid, caught, meta.get('first_version_missed', False), meta['needs_to_manifest']

names = sorted(n for n in os.listdir(ROOT) if os.path.isdir(os.path.join(ROOT, n)) and (not only or n.split('-')[0] in only or n in only))
def translated(name):
    # changes to sources the translator reads rewrite coq/Gen/*.v while they are checked: one at a time
    txt = open(os.path.join(ROOT, name, 'patch.diff')).read()
    if re.search(r'^\+\+\+ b/biom/(err\.py|util\.py|parse\.py|cli/table_validator\.py|_\w+\.pyx)', txt, re.M):
        return True
    # table.py: the methods the translators read (hunk headers and context lines name them)
    return bool(re.search(r'_cast_metadata|_index_ids|_union_id_order|_intersect_id_order|_invert_axis|_axis_to_num|def sum\b|'
                          r'add_metadata|del_metadata|__eq__|__ne__|descriptive_equality|_data_equality|update_ids|self\._sample_metadata = |'
                          r'def concat|def partition|def collapse|delimited_self|_extract_data_from_tsv|table_summarizer|nonzero_counts|get_table_density', txt))

par = [n for n in names if not translated(n)]
ser = [n for n in names if translated(n)]

def results():
    with ThreadPoolExecutor(3) as ex:
        for r in ex.map(run, par):
            yield r
    for n in ser:
        yield run(n)
    subprocess.run(['/verif/tools/regen.sh'], capture_output=True)

if True:
    for name, pid, caught, missed1, needs in results():
        print('| %s | %s | %s%s | %s |' % (name, pid, ','.join(caught) or 'MISSED', ' (missed by the first version)' if missed1 else '', needs[:110]))
