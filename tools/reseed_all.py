#!/usr/bin/env python3
"""Re-runs every kept seeded change against the quick check of its property (scratch worktrees,
never /repo itself) and refreshes seeded/<name>/meta.json; prints a table for DESIGN.md."""
import json, os, re, subprocess, sys
from concurrent.futures import ThreadPoolExecutor
ROOT = '/verif/seeded'
EXTRA = {'C01': ['C04'], 'C04': ['C01'], 'C08': ['C05'], 'C06': ['C05'], 'C12': ['C05'], 'C13': ['C05']}
only = sys.argv[1:]

def run(name):
    d = os.path.join(ROOT, name)
    meta = json.load(open(os.path.join(d, 'meta.json')))
    pid = meta['property']
    props = [pid] + [p for p in EXTRA.get(pid, []) if os.path.exists('/verif/harness/%s.py' % p.lower())]
    out = subprocess.run(['/verif/tools/try_seed.sh', pid, d] + props[1:], capture_output=True, text=True).stdout
    caught = re.findall(r'SEED check (C\d+): exit 1', out)
    tests = re.search(r'SEED tests with change: (.*)', out)
    demo = re.findall(r'SEED demo (with|without) change: exit (\d+)', out)
    first = meta.get('checks_that_catch_it')
    if not first and caught and 'first_version_missed' not in meta:
        meta['first_version_missed'] = True
    meta['checks_that_catch_it'] = caught
    meta['last_run'] = {'tests_with_change': tests.group(1) if tests else None, 'demo': dict(demo), 'checks_run': props}
    json.dump(meta, open(os.path.join(d, 'meta.json'), 'w'), indent=1)
    return name, pid, caught, meta.get('first_version_missed', False), meta['needs_to_manifest']

names = sorted(n for n in os.listdir(ROOT) if os.path.isdir(os.path.join(ROOT, n)) and (not only or n.split('-')[0] in only or n in only))
with ThreadPoolExecutor(4) as ex:
    for name, pid, caught, missed1, needs in ex.map(run, names):
        print('| %s | %s | %s%s | %s |' % (name, pid, ','.join(caught) or 'MISSED', ' (missed by the first version)' if missed1 else '', needs[:110]))
