#!/venv/bin/python
"""py2v_wrap: small fail-closed translator for the python-level wrappers around the compiled
kernels (wrapper-object mode): Table.transform, Table.pa, Table.rankdata (and what else the
signature files list).  The statements of a method are translated one by one into a Gallina term
of type `outcome` = (receiver afterwards, returned table or error) over the hand-written
vocabulary coq/Gen/WrapPrelude.v.  Table objects live in a two-slot heap that is threaded through
the statements under the name `h`:
  x = <allocating expression>          let '(v_x, h) := ... in
  x = <raising call>                   rbind2 h (...) (fun v_x => ...)
  x = <pure expression>                let v_x := ... in
  obj.<attr> = e                       let h := <store primitive> in
  call(...) that mutates an argument   rebinds that argument (let / rbind2)
  def g(a, b, c): return e             let v_g := fun v_a v_b v_c => e in
  import m                             only the modules the signature file lists; no output
  return x / return self.m(...)        py_return h v_x / the generated definition of m (tail call;
                                       missing arguments are filled from the defaults m has IN THE SOURCE)
Expressions are translated by the python patterns of the signature file (holes _0_, _1_, ...) plus
names, listed constants, `a if c else b`, `not c`.  The methods the primitives stand for are pinned
by AST hash.

usage: main.py [--repo DIR] [--out DIR] [--stdout] [--hashes] [target ...]
Any AST node, name, attribute, call, keyword or constant not covered by the signature file gives
exit code 2 and NO file is written.  Output is deterministic; a file is rewritten only when its text
changed.  Source text is never copied into the output."""
import ast
import glob
import hashlib
import json
import os
import sys

HERE = os.path.dirname(os.path.abspath(__file__))


class Unsupported(Exception):
    def __init__(self, node, msg):
        Exception.__init__(self, 'line %s: %s' % (getattr(node, 'lineno', 0), msg))


def dump_hash(nodes, extra=''):
    text = ast.dump(ast.Module(body=nodes, type_ignores=[]), annotate_fields=False, include_attributes=False)
    return hashlib.sha256((text + extra).encode()).hexdigest()[:16]


def strip_doc(body):
    if body and isinstance(body[0], ast.Expr) and isinstance(getattr(body[0], 'value', None), ast.Constant) \
            and isinstance(body[0].value.value, str):
        return body[1:]
    return body


def ast_hash(fn):
    return dump_hash(strip_doc(fn.body), '|' + ast.dump(fn.args, annotate_fields=False, include_attributes=False))


def paren(t):
    t = t.strip()
    if ' ' not in t:
        return t
    if t[0] == '(' and t[-1] == ')':
        depth = 0
        for i, ch in enumerate(t):
            depth += ch == '('
            depth -= ch == ')'
            if depth == 0:
                if i == len(t) - 1:
                    return t
                break
    return '(%s)' % t


def is_hole(n):
    return isinstance(n, ast.Name) and n.id.startswith('_') and n.id.endswith('_') and n.id[1:-1].isdigit()


def match_pattern(p, node, binds):
    if is_hole(p):
        k = int(p.id[1:-1])
        if k in binds:
            return ast.dump(binds[k]) == ast.dump(node)
        binds[k] = node
        return True
    if type(p) is not type(node):
        return False
    for f in p._fields:
        a, b = getattr(p, f, None), getattr(node, f, None)
        if isinstance(a, list):
            if not isinstance(b, list) or len(a) != len(b):
                return False
            for x, y in zip(a, b):
                if isinstance(x, ast.AST):
                    if not match_pattern(x, y, binds):
                        return False
                elif x != y:
                    return False
        elif isinstance(a, ast.AST):
            if not isinstance(b, ast.AST) or not match_pattern(a, b, binds):
                return False
        elif f not in ('ctx', 'kind', 'type_comment') and a != b:
            return False
    return True


def mangle(name):
    return 'v_' + name


class Tr:
    def __init__(self, sig, methods, ent=None):
        self.sig = sig
        self.ent = ent or {}
        self.pats = [(ast.parse(p['py'], mode='eval').body, p) for p in sig['patterns']]
        self.methods = methods          # python name -> (emit entry, FunctionDef)

    def const(self, n):
        key = repr(n.value)
        if key not in self.sig['constants']:
            raise Unsupported(n, 'constant %s not in the signature' % key)
        return self.sig['constants'][key]

    def expr(self, n, env):
        """-> (coq text, kind) with kind one of pure / alloc / raises"""
        for p, ent in self.pats:
            b = {}
            if match_pattern(p, n, b):
                args = []
                for k in range(len(b)):
                    t, kind = self.expr(b[k], env)
                    if kind != 'pure':
                        raise Unsupported(n, 'allocating / raising expression nested in an expression')
                    want = (ent.get('holes') or {}).get(str(k))
                    if want is not None:
                        if not isinstance(b[k], ast.Name) or env.get(b[k].id) != want:
                            raise Unsupported(n, 'hole %d of this pattern must be a name of kind %s' % (k, want))
                    args.append(paren(t))
                return ent['coq'].format(*args), ent.get('kind', 'pure')
        if isinstance(n, ast.Name):
            if n.id not in env:
                raise Unsupported(n, 'unknown name %r' % n.id)
            return mangle(n.id), 'pure'
        if isinstance(n, ast.Constant):
            return self.const(n), 'pure'
        if isinstance(n, ast.UnaryOp) and isinstance(n.op, ast.Not):
            t, kind = self.expr(n.operand, env)
            if kind != 'pure':
                raise Unsupported(n, 'not of an allocating / raising expression')
            return 'negb %s' % paren(t), 'pure'
        if isinstance(n, ast.IfExp):
            c, kc = self.expr(n.test, env)
            a, ka = self.expr(n.body, env)
            b, kb = self.expr(n.orelse, env)
            if kc != 'pure' or 'raises' in (ka, kb):
                raise Unsupported(n, 'conditional expression over a raising expression')
            if 'alloc' in (ka, kb):
                def lift(node, t, k):
                    if k == 'alloc':
                        return t
                    if not isinstance(node, ast.Name) or env.get(node.id) != 'ref':
                        raise Unsupported(n, 'the other branch of an allocating conditional must name an object')
                    return 'obj_keep h %s' % t
                return 'if %s then %s else %s' % (c, lift(n.body, a, ka), lift(n.orelse, b, kb)), 'alloc'
            return 'if %s then %s else %s' % (c, paren(a), paren(b)), 'pure'
        raise Unsupported(n, 'expression %s outside the subset' % type(n).__name__)

    def self_call(self, n, env):
        """self.m(args) for a method m of the emit list -> the generated definition applied"""
        if not (isinstance(n, ast.Call) and isinstance(n.func, ast.Attribute) and isinstance(n.func.value, ast.Name)
                and n.func.value.id == 'self' and env.get('self') == 'ref' and n.func.attr in self.methods):
            return None
        ent, fn = self.methods[n.func.attr]
        params = [a.arg for a in fn.args.args[1:]]
        defaults = dict(zip(params[len(params) - len(fn.args.defaults):], fn.args.defaults))
        given = {}
        if len(n.args) > len(params):
            raise Unsupported(n, 'too many arguments')
        for p, a in zip(params, n.args):
            given[p] = a
        for kw in n.keywords:
            if kw.arg is None or kw.arg not in params or kw.arg in given:
                raise Unsupported(n, 'keyword %r' % kw.arg)
            given[kw.arg] = kw.value
        out = []
        for p in params:
            if p in given:
                t, kind = self.expr(given[p], env)
                if kind != 'pure':
                    raise Unsupported(n, 'argument is not a pure expression')
            elif p in defaults:
                if not isinstance(defaults[p], ast.Constant):
                    raise Unsupported(n, 'default of %r is not a constant' % p)
                t = self.const(defaults[p])
            else:
                raise Unsupported(n, 'argument %r missing' % p)
            out.append(paren(t))
        return '%s (deref h v_self) %s' % (self.ent.get('callee', {}).get(n.func.attr, ent['coq']), ' '.join(out))

    def stmts(self, body, env, ind):
        pad = '  ' * ind
        if not body:
            raise Unsupported(None, 'control reaches the end of the method without return')
        s, rest = body[0], body[1:]
        if isinstance(s, ast.Import):
            for a in s.names:
                if a.name not in self.sig.get('imports', []) or a.asname is not None:
                    raise Unsupported(s, 'import of %r' % a.name)
            return self.stmts(rest, env, ind)
        if isinstance(s, ast.FunctionDef):
            a = s.args
            if a.vararg or a.kwarg or a.kwonlyargs or a.defaults or a.posonlyargs or s.decorator_list \
                    or len(a.args) != 3:
                raise Unsupported(s, 'nested function form')
            fb = strip_doc(s.body)
            if len(fb) != 1 or not isinstance(fb[0], ast.Return) or fb[0].value is None:
                raise Unsupported(s, 'nested function body must be one return')
            env2 = dict((k, v) for k, v in env.items() if v == 'val')      # closes over values only
            for x in a.args:
                env2[x.arg] = 'val'
            t, kind = self.expr(fb[0].value, env2)
            if kind != 'pure':
                raise Unsupported(s, 'nested function must be pure')
            env3 = dict(env)
            env3[s.name] = 'val'
            return '%slet %s : %s := fun %s => %s in\n%s' % (
                pad, mangle(s.name), self.ent.get('fn_type', 'userfn'), ' '.join(mangle(x.arg) for x in a.args), t, self.stmts(rest, env3, ind))
        if isinstance(s, ast.Assign) and len(s.targets) == 1 and isinstance(s.targets[0], ast.Name):
            x = s.targets[0].id
            t, kind = self.expr(s.value, env)
            env2 = dict(env)
            if kind == 'alloc':
                env2[x] = 'ref'
                return "%slet '(%s, h) := %s in\n%s" % (pad, mangle(x), t, self.stmts(rest, env2, ind))
            env2[x] = 'val'
            if kind == 'raises':
                return '%srbind2 h %s (fun %s =>\n%s)' % (pad, paren(t), mangle(x), self.stmts(rest, env2, ind))
            return '%slet %s := %s in\n%s' % (pad, mangle(x), t, self.stmts(rest, env2, ind))
        if isinstance(s, ast.Assign) and len(s.targets) == 1 and isinstance(s.targets[0], ast.Attribute) \
                and isinstance(s.targets[0].value, ast.Name):
            tg = s.targets[0]
            st = self.sig.get('stores', {}).get(tg.attr)
            if st is None or env.get(tg.value.id) != 'ref':
                raise Unsupported(s, 'assignment to attribute %r' % tg.attr)
            t, kind = self.expr(s.value, env)
            if kind != 'pure':
                raise Unsupported(s, 'stored value is not a pure expression')
            return '%slet h := %s in\n%s' % (pad, st.format(mangle(tg.value.id), paren(t)), self.stmts(rest, env, ind))
        if isinstance(s, ast.Expr) and isinstance(s.value, ast.Call):
            for p, ent in self.pats:
                b = {}
                if 'mutates' in ent and match_pattern(p, s.value, b):
                    tgt = b[int(ent['mutates'])]
                    if not isinstance(tgt, ast.Name) or env.get(tgt.id) != 'val':
                        raise Unsupported(s, 'mutated argument must be a local value name')
                    t, kind = self.expr(s.value, env)
                    if kind == 'raises':
                        return '%srbind2 h %s (fun %s =>\n%s)' % (pad, paren(t), mangle(tgt.id), self.stmts(rest, env, ind))
                    return '%slet %s := %s in\n%s' % (pad, mangle(tgt.id), t, self.stmts(rest, env, ind))
            raise Unsupported(s, 'call statement outside the subset')
        if isinstance(s, ast.Return) and s.value is not None:
            if rest:
                raise Unsupported(rest[0], 'statement after return')
            if isinstance(s.value, ast.Name) and env.get(s.value.id) == 'ref':
                return '%spy_return h %s' % (pad, mangle(s.value.id))
            t = self.self_call(s.value, env)
            if t is not None:
                return pad + t
            raise Unsupported(s, 'return form')
        raise Unsupported(s, 'statement %s outside the subset' % type(s).__name__)


def translate(sigpath, repo):
    sig = json.load(open(sigpath))
    path = os.path.join(repo, sig['source'])
    data = open(path, 'rb').read()
    sha = hashlib.sha256(data).hexdigest()
    tree = ast.parse(data.decode())
    cls = [n for n in tree.body if isinstance(n, ast.ClassDef) and n.name == sig['class']]
    if len(cls) != 1:
        raise Unsupported(None, 'class %s not found once' % sig['class'])
    ms = {}
    for n in cls[0].body:
        if isinstance(n, ast.FunctionDef):
            if n.name in ms:
                raise Unsupported(n, 'method %s defined twice' % n.name)
            ms[n.name] = n
    for name, h in sorted(sig['pinned'].items()):
        if name not in ms:
            raise Unsupported(None, 'pinned method %s is gone' % name)
        if ast_hash(ms[name]) != h:
            raise Unsupported(ms[name], 'pinned method %s changed (AST hash %s, expected %s)' % (name, ast_hash(ms[name]), h))
    methods = {}
    out = list(sig['header'])
    for e in sig['emit']:
        fn = ms.get(e['py'])
        if fn is None:
            raise Unsupported(None, 'method %s is gone' % e['py'])
        a = fn.args
        if a.vararg or a.kwarg or a.kwonlyargs or a.posonlyargs or fn.decorator_list or not a.args or a.args[0].arg != 'self':
            raise Unsupported(fn, 'signature form of %s' % e['py'])
        tr = Tr(sig, dict(methods), e)
        env = {'self': 'ref'}
        binders = ['(self_t : table)']
        for p in a.args[1:]:
            if p.arg not in e['params']:
                raise Unsupported(fn, 'parameter %r of %s not in the signature' % (p.arg, e['py']))
            binders.append('(%s : %s)' % (mangle(p.arg), e['params'][p.arg]))
            env[p.arg] = 'val'
        if len(a.args) - 1 != len(e['params']):
            raise Unsupported(fn, 'parameters of %s differ from the signature' % e['py'])
        for d in a.defaults:
            if not isinstance(d, ast.Constant):
                raise Unsupported(fn, 'default is not a constant')
            tr.const(d)
        term = tr.stmts(strip_doc(list(fn.body)), env, 1)
        out.append('')
        out.append('Definition %s %s : %s :=' % (e['coq'], ' '.join(binders), e.get('ret', 'outcome')))
        out.append('  let h := heap0 self_t in let v_self := RSelf in')
        out.append(term + '.')
        methods[e['py']] = (e, fn)
    out.extend(sig.get('footer', []))
    return sig, '\n'.join(out) + '\n', sha


def main(argv):
    repo = os.environ.get('BIOM_REPO', '/repo')
    outroot = os.path.dirname(os.path.dirname(HERE))
    to_stdout = hashes = False
    targets = []
    it = iter(argv)
    for a in it:
        if a == '--repo':
            repo = next(it)
        elif a == '--out':
            outroot = next(it)
        elif a == '--stdout':
            to_stdout = True
        elif a == '--hashes':
            hashes = True
        else:
            targets.append(a)
    sigs = sorted(glob.glob(os.path.join(HERE, 'sigs', '*.json')))
    if targets:
        sigs = [s for s in sigs if os.path.basename(s)[:-5] in targets]
        if len(sigs) != len(targets):
            print('py2v_wrap: unknown target in %s' % targets, file=sys.stderr)
            return 2
    if hashes:   # maintenance: print the AST hashes the signature files pin
        for s in sigs:
            sig = json.load(open(s))
            tree = ast.parse(open(os.path.join(repo, sig['source'])).read())
            cls = [n for n in tree.body if isinstance(n, ast.ClassDef) and n.name == sig['class']][0]
            ms = dict((n.name, n) for n in cls.body if isinstance(n, ast.FunctionDef))
            for name in sorted(sig['pinned']):
                print(name, ast_hash(ms[name]))
        return 0
    failed = False
    for s in sigs:
        src = json.load(open(s))['source']
        try:
            sig, out, sha = translate(s, repo)
        except Unsupported as e:
            print('py2v_wrap: REFUSED %s (%s): %s' % (src, os.path.basename(s)[:-5], e), file=sys.stderr)
            failed = True
            continue
        except (OSError, SyntaxError, ValueError, KeyError, IndexError, TypeError, AttributeError, AssertionError) as e:
            print('py2v_wrap: REFUSED %s (%s): %s: %s' % (src, os.path.basename(s)[:-5], type(e).__name__, e), file=sys.stderr)
            failed = True
            continue
        if to_stdout:
            sys.stdout.write(out)
            continue
        path = os.path.join(outroot, sig['output'])
        old = open(path).read() if os.path.exists(path) else None
        if old != out:
            os.makedirs(os.path.dirname(path), exist_ok=True)
            tmp = path + '.tmp'
            open(tmp, 'w').write(out)
            os.replace(tmp, path)
            state = 'written'
        else:
            state = 'unchanged'
        print('py2v_wrap: %s -> %s %s (source sha256 %s)' % (sig['source'], sig['output'], state, sha))
    return 2 if failed else 0


if __name__ == '__main__':
    sys.exit(main(sys.argv[1:]))
