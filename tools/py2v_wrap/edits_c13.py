#!/venv/bin/python
"""Edit table of the T22 tie (tools/py2v_wrap, ./check C13): applies one edit at a time to a scratch copy
of the library, runs the check against it and prints one line per edit.
usage: edits_c13.py SCRATCH_REPO OUT_DIR [edit-id ...]     (SCRATCH_REPO = cp -r /repo ...)"""
import os
import subprocess
import sys

ROOT = os.path.dirname(os.path.dirname(os.path.dirname(os.path.abspath(__file__))))
EDITS = [
    # (id, kind, old, new)
    ('S1', 'semantic', 'table = self if inplace else self.copy()\n\n        metadata = table.metadata(axis=axis)\n        ids = table.ids(axis=axis)\n        arr',
     'table = self.copy() if inplace else self\n\n        metadata = table.metadata(axis=axis)\n        ids = table.ids(axis=axis)\n        arr'),
    ('S2', 'semantic', "        ids = table.ids(axis=axis)\n        arr = table._get_sparse_data(axis=axis)",
     "        ids = table.ids(axis='sample')\n        arr = table._get_sparse_data(axis=axis)"),
    ('S3', 'semantic', "        _transform(arr, ids, metadata, f, axis)\n        arr.eliminate_zeros()\n",
     "        _transform(arr, ids, metadata, f, axis)\n"),
    ('S4', 'semantic', 'np.where(data != 0, 1., 0.)', 'np.where(data == 0, 1., 0.)'),
    ('S5', 'semantic', 'np.where(data != 0, 1., 0.)', 'np.where(data != 0, 0., 1.)'),
    ('S6', 'semantic', "def transform(self, f, axis='sample', inplace=True):", "def transform(self, f, axis='observation', inplace=True):"),
    ('S7', 'semantic', "            return scipy.stats.rankdata(val, method=method)\n        return self.transform(f, axis=axis, inplace=inplace)",
     "            return scipy.stats.rankdata(val, method=method)\n        return self.transform(f, axis=axis, inplace=True)"),
    ('S8', 'semantic', "        arr.eliminate_zeros()\n\n        table._data = arr\n\n        return table\n\n    def rankdata",
     "        arr.eliminate_zeros()\n\n        return table\n\n    def rankdata"),
    ('P1', 'preserving', "        ids = table.ids(axis=axis)\n        arr = table._get_sparse_data(axis=axis)",
     "        ids = table.ids(axis)\n        arr = table._get_sparse_data(axis)"),
    ('P2', 'preserving', 'table = self if inplace else self.copy()\n\n        metadata = table.metadata(axis=axis)\n        ids = table.ids(axis=axis)\n        arr',
     'table = self.copy() if not inplace else self\n\n        metadata = table.metadata(axis=axis)\n        ids = table.ids(axis=axis)\n        arr'),
    ('O1', 'out-of-subset', "        _transform(arr, ids, metadata, f, axis)\n        arr.eliminate_zeros()\n",
     "        _transform(arr, ids, metadata, f, axis)\n        arr.eliminate_zeros()\n        arr.sort_indices()\n"),
    ('O2', 'out-of-subset', 'table = self if inplace else self.copy()\n\n        metadata = table.metadata(axis=axis)\n        ids = table.ids(axis=axis)\n        arr',
     'table = self if inplace else deepcopy(self)\n\n        metadata = table.metadata(axis=axis)\n        ids = table.ids(axis=axis)\n        arr'),
    ('O3', 'out-of-subset (pinned _axis_to_num)', "    def _axis_to_num(self, axis):\n", "    def _axis_to_num(self, axis):\n        axis = axis.lower()\n"),
    # metadata(self, id=None, axis='sample'): the positional spelling passes the axis name as an id - NOT a rewrite; the
    # signature file of the first version listed it as one and ./check C13 answered with 729 failing inputs
    ('O4', 'out-of-subset (positional metadata)', "        metadata = table.metadata(axis=axis)\n        ids = table.ids(axis=axis)\n        arr = table._get_sparse_data(axis=axis)",
     "        metadata = table.metadata(axis)\n        ids = table.ids(axis=axis)\n        arr = table._get_sparse_data(axis=axis)"),
    ('P3', 'preserving', "        arr = table._get_sparse_data(axis=axis)\n\n        axis = table._axis_to_num(axis)\n\n        _transform(arr, ids, metadata, f, axis)\n        arr.eliminate_zeros()\n\n        table._data = arr\n",
     "        mat_ = table._get_sparse_data(axis=axis)\n\n        axis = table._axis_to_num(axis)\n\n        _transform(mat_, ids, metadata, f, axis)\n        mat_.eliminate_zeros()\n\n        table._data = mat_\n"),
    ('N1', 'semantic', "            return val / float(val.sum())\n\n        return self.transform(f, axis=axis, inplace=inplace)",
     "            return val / float(val.sum())\n\n        return self.transform(f, inplace=inplace)"),
    ('N2', 'out-of-subset', "            return val / float(val.sum())\n", "            return val / float(val.max())\n"),
]


def main(argv):
    scratch, outdir = argv[0], argv[1]
    want = argv[2:]
    orig = open('/repo/biom/table.py').read()
    target = os.path.join(scratch, 'biom', 'table.py')
    gen = os.path.join(ROOT, 'coq', 'Gen', 'TransformWrapGen.v')
    base = open(gen).read()
    for eid, kind, old, new in EDITS:
        if want and eid not in want:
            continue
        assert orig.count(old) == 1, (eid, orig.count(old))
        open(target, 'w').write(orig.replace(old, new))
        env = dict(os.environ, BIOM_REPO=scratch, VERIF_OUT=os.path.join(outdir, eid))
        want_gen = subprocess.run([sys.executable, os.path.join(ROOT, 'tools', 'py2v_wrap', 'main.py'), '--repo', scratch, '--stdout'],
                                  stdout=subprocess.PIPE, stderr=subprocess.DEVNULL, universal_newlines=True)
        for attempt in range(3):
            p = subprocess.run([os.path.join(ROOT, 'check'), 'C13'], cwd=ROOT, env=env, stdout=subprocess.PIPE,
                               stderr=subprocess.STDOUT, universal_newlines=True)
            # other agents regenerate the shared tree against /repo at any time: a run whose generated file was
            # put back under it before the build proves nothing and is repeated
            if want_gen.returncode != 0 or open(gen).read() == want_gen.stdout:
                break
        open(os.path.join(outdir, eid + '.log'), 'w').write(p.stdout)
        changed = want_gen.returncode == 0 and want_gen.stdout != base
        brk = ''
        try:
            import glob
            import json
            for r in glob.glob(os.path.join(outdir, eid, 'replays', 'C13-*.json')):
                brk = '; '.join(str(b if isinstance(b, str) else b.get('what'))[:160] for b in json.load(open(r)).get('broken', []))
        except Exception as e:
            brk = 'replay unreadable: %s' % e
        lines = [ln for ln in p.stdout.split('\n') if ln.startswith('VIOLATION') or ln.startswith('C13 ')]
        print('%s | %s | generated %s | attempts=%d rc=%d | broken: %s | %s' % (
            eid, kind, 'refused' if want_gen.returncode != 0 else ('CHANGED' if changed else 'same'), attempt + 1, p.returncode,
            brk, ' || '.join(x[:200] for x in lines[:3])), flush=True)
    open(target, 'w').write(orig)


if __name__ == '__main__':
    main(sys.argv[1:])
