"""The edits of biom/table.py tried against the C09 translator tie of Table.merge (docs/C09.md, "Translator tie"):
each is applied to a scratch copy of the repository (cp -r /repo /tmp/c09gen-repo first) and run through the whole
`BIOM_REPO=/tmp/c09gen-repo VERIF_OUT=/tmp/c09gen-out ./check C09`; rows go to /tmp/c09gen/rows.json.  Afterwards run
tools/regen_merge.sh and ./check C09 against /repo again."""
import os, re, shutil, subprocess, sys, json, glob
REPO = '/tmp/c09gen-repo'
EDITS = [
 ('fast-and-to-or', 'semantic', "the fast path is taken when one of the two axes is 'union'",
  "if sample == 'union' and observation == 'union':", "if sample == 'union' or observation == 'union':"),
 ('ignore-md-or', 'semantic', 'metadata counts as ignored when one of the two functions is None',
  "ignore_md = (sample_metadata_f is None) and \\\n", "ignore_md = (sample_metadata_f is None) or \\\n"),
 ('no-md-one-axis', 'semantic', 'only the sample metadata is looked at when deciding that no operand has metadata',
  "for ax in ('sample', 'observation'))", "for ax in ('sample', 'sample'))"),
 ('loop-modes-swapped', 'semantic', 'the pairwise loop hands the two axis modes over in the other order',
  "merged = merged.merge(other, sample, observation,", "merged = merged.merge(other, observation, sample,"),
 ('sample-union-intersects', 'semantic', "sample == 'union' computes the intersection order",
  "new_samp_order = self._union_id_order(self.ids(), other.ids())", "new_samp_order = self._intersect_id_order(self.ids(), other.ids())"),
 ('obs-order-args', 'semantic', 'the observation union order starts with the ids of other',
  "new_obs_order = self._union_id_order(\n                self.ids(axis='observation'), other.ids(axis='observation'))",
  "new_obs_order = self._union_id_order(\n                other.ids(axis='observation'), self.ids(axis='observation'))"),
 ('empty-check-inverted', 'semantic', 'the no-samples refusal fires when there ARE samples',
  "if not new_samp_order:", "if new_samp_order:"),
 ('none-f-keeps-self', 'semantic', 'a None sample metadata function is replaced by one that keeps the receiver metadata',
  "            def sample_metadata_f(x, y):\n                return None", "            def sample_metadata_f(x, y):\n                return x"),
 ('pairwise-for-two', 'semantic', 'a list with exactly two others goes down the single-table path (the second is ignored)',
  "if len(others) != 1:", "if len(others) != 1 and len(others) != 2:"),
 ('len-operands-swapped', 'preserving', 'the operands of the length test swapped',
  "if len(others) != 1:", "if 1 != len(others):"),
 ('none-blocks-swapped', 'preserving', 'the two independent None-function replacements swapped',
  "        if sample_metadata_f is None:\n            def sample_metadata_f(x, y):\n                return None\n        if observation_metadata_f is None:\n            def observation_metadata_f(x, y):\n                return None\n",
  "        if observation_metadata_f is None:\n            def observation_metadata_f(x, y):\n                return None\n        if sample_metadata_f is None:\n            def sample_metadata_f(x, y):\n                return None\n"),
 ('fast-test-merged', 'preserving', 'the nested fast-path tests written as one condition',
  "        if no_md or ignore_md:\n            if sample == 'union' and observation == 'union':\n                return self._fast_merge(others)",
  "        if (no_md or ignore_md) and sample == 'union' and observation == 'union':\n            return self._fast_merge(others)"),
 ('md-guard-and', 'semantic', 'the guard of the receiver sample metadata look-up uses `and`',
  "if self_sample_md is None or not self.exists(id_):", "if self_sample_md is None and not self.exists(id_):"),
 ('md-other-from-self', 'semantic', "the other table's sample metadata entry is read from the receiver's list",
  "other_md = other_sample_md[other_samp_idx[id_]]", "other_md = self_sample_md[other_samp_idx[id_]]"),
 ('md-args-swapped', 'semantic', 'the sample metadata function gets (other_md, self_md)',
  "sample_md.append(sample_metadata_f(self_md, other_md))", "sample_md.append(sample_metadata_f(other_md, self_md))"),
 ('obs-fn-wrong', 'semantic', 'the observation metadata is merged with the sample metadata function',
  "obs_md.append(observation_metadata_f(self_md, other_md))", "obs_md.append(sample_metadata_f(self_md, other_md))"),
 ('ctor-md-swapped', 'semantic', 'the constructor gets the two metadata lists in the other order',
  "sample_ids[:], obs_md, sample_md)", "sample_ids[:], sample_md, obs_md)"),
 ('md-inits-swapped', 'preserving', 'the two independent initialisations sample_ids / sample_md swapped',
  "        sample_ids = []\n        sample_md = []\n", "        sample_md = []\n        sample_ids = []\n"),
 ('pinned-region', 'reject', 'the pinned pre-computed sample order uses 0 for a missing id',
  "other_samp_order.append((nsi, other_samp_idx.get(samp_id, None)))", "other_samp_order.append((nsi, other_samp_idx.get(samp_id, 0)))"),
 ('all-to-any', 'reject', 'any(...) instead of all(...) in no_md', "no_md = all(t.metadata(axis=ax) is None", "no_md = any(t.metadata(axis=ax) is None"),
 ('other-exception', 'reject', 'the no-samples refusal raises ValueError',
  'raise TableException("No samples in resulting table!")', 'raise ValueError("No samples in resulting table!")'),
 ('message-text', 'reject', 'another message text', '"No observations in resulting table!"', '"Nothing left"'),
 ('pinned-fast-merge', 'reject', '_fast_merge (pinned, not translated) orders the features descending',
  "feature_order = sorted(all_features)", "feature_order = sorted(all_features, reverse=True)"),
 ('pinned-tail', 'reject', 'the pinned rest of merge subtracts the two cell values',
  "new_vec[new_samp_idx] = self_vec_value + other_vec_value", "new_vec[new_samp_idx] = self_vec_value - other_vec_value"),
]
names = sys.argv[1:]
rows = []
os.makedirs('/tmp/c09gen', exist_ok=True)
for name, group, what, old, new in EDITS:
    if names and name not in names:
        continue
    shutil.copy('/repo/biom/table.py', REPO + '/biom/table.py')
    s = open(REPO + '/biom/table.py').read()
    assert s.count(old) == 1, (name, s.count(old))
    open(REPO + '/biom/table.py', 'w').write(s.replace(old, new))
    env = dict(os.environ, BIOM_REPO=REPO, VERIF_OUT='/tmp/c09gen-out')
    shutil.rmtree('/tmp/c09gen-out/replays', ignore_errors=True)
    p = subprocess.run(['./check', 'C09'], cwd='/verif', env=env, capture_output=True, text=True)
    out = p.stdout + p.stderr
    open('/tmp/c09gen/%s.log' % name, 'w').write(out)
    refused = [l for l in out.split('\n') if 'REFUSED' in l]
    try:
        ev = json.load(open('/tmp/c09gen-out/evidence/C09.json'))
        refused += [l for l in ev['coverage']['trusted_base'] if 'REFUSED' in l]
    except Exception:
        pass
    # other agents' no-argument tools/regen.sh may have rewritten the file from /repo meanwhile: translate once more
    subprocess.run(['tools/regen_merge.sh'], cwd='/verif', env=env, capture_output=True, text=True)
    diff = subprocess.run(['git', 'diff', '--quiet', '--', 'coq/Gen/MergeGen.v'], cwd='/verif').returncode
    broke = ''
    rep = {}
    for f in glob.glob('/tmp/c09gen-out/replays/C09-*.json'):
        try:
            rep = json.load(open(f))
        except Exception:
            pass
    out2 = out
    if p.returncode and not refused:
        q = subprocess.run('ulimit -v 8000000; timeout 300 coqc -Q . BiomV Gen/MergeGen.v && timeout 300 coqc -Q . BiomV '
                           'Proofs/GenBridgeMergeWrapProofs.v && timeout 300 coqc -Q . BiomV Props/C09.v', shell=True,
                           cwd='/verif/coq', capture_output=True, text=True)
        out2 = q.stdout + q.stderr
    m = re.search(r'File "\./(Gen/MergeGen\.v|Proofs/GenBridgeMergeWrapProofs\.v|Props/C09\.v)", line (\d+)', out2)
    if m:
        lines = open('/verif/coq/' + m.group(1)).read().split('\n')[:int(m.group(2))]
        for l in reversed(lines):
            mm = re.match(r'(Lemma|Theorem|Example|Definition|Fixpoint)\s+(\w+)', l)
            if mm:
                broke = m.group(1) + ': ' + mm.group(2)
                break
    verdict = [l for l in out.split('\n') if l.startswith('VIOLATION') or 'quick:' in l]
    fail = json.dumps([rep.get('case', ''), rep.get('impl', ''), rep.get('oracle', '')], default=str)[:400]
    rows.append((name, group, what, 'REFUSES' if refused else 'accepts', 'differs' if diff else 'same text',
                 broke or (refused[0][:200] if refused else 'all proofs check'), ' | '.join(verdict)[:300], p.returncode, fail))
    print(rows[-1], flush=True)
shutil.copy('/repo/biom/table.py', REPO + '/biom/table.py')
json.dump(rows, open('/tmp/c09gen/rows%s.json' % ('-' + names[0] if names else ''), 'w'), indent=1)
