#!/venv/bin/python
"""py2v_merge: small fail-closed translator for Table.merge (dispatch mode).  The statements of the
method are translated one by one into a Gallina term of type `result table` over the hand-written
vocabulary coq/Gen/MergePrelude.v: an assignment is a let (of a raising call: a bind), an `if`
whose branches fall through hands the assigned names to a local continuation, a `for` with one
carried name is a fold over `result`, a nested `def` is a lambda, `raise` is the error code of the
exception class (the message text must be listed in the signature file), the recursive call of the
method goes to a function parameter (open recursion; the bridge closes it at depth 2).
Expressions are translated by the python patterns of the signature file (holes _0_, _1_, ...)
plus a fixed set of node kinds.  The statements after the translated prefix and the methods the
primitives stand for are pinned by AST hash.

usage: main.py [--repo DIR] [--out DIR] [--stdout] [--hashes] [target ...]
Any AST node, name, attribute, call, keyword, constant or message text not covered by the
signature file gives exit code 2 and NO file is written.  Output is deterministic; a file is
rewritten only when its text changed.  Source text is never copied into the output."""
import ast
import glob
import hashlib
import json
import os
import sys

HERE = os.path.dirname(os.path.abspath(__file__))


class Unsupported(Exception):
    def __init__(self, node, msg):
        Exception.__init__(self, 'line %s: %s' % (getattr(node, 'lineno', 0), msg))


def dump_hash(nodes, extra=''):
    text = ast.dump(ast.Module(body=nodes, type_ignores=[]), annotate_fields=False, include_attributes=False)
    return hashlib.sha256((text + extra).encode()).hexdigest()[:16]


def strip_doc(body):
    if body and isinstance(body[0], ast.Expr) and isinstance(getattr(body[0], 'value', None), ast.Constant) \
            and isinstance(body[0].value.value, str):
        return body[1:]
    return body


def ast_hash(fn):
    return dump_hash(strip_doc(fn.body), '|' + ast.dump(fn.args, annotate_fields=False, include_attributes=False))


def paren(t):
    t = t.strip()
    if ' ' not in t or (t[0] == '[' and t[-1] == ']' and t.count('[') == 1):
        return t
    if t[0] == '(' and t[-1] == ')':
        depth = 0
        for i, ch in enumerate(t):
            depth += ch == '('
            depth -= ch == ')'
            if depth == 0:
                if i == len(t) - 1:
                    return t
                break
    return '(%s)' % t


def is_hole(n):
    return isinstance(n, ast.Name) and n.id.startswith('_') and n.id.endswith('_') and n.id[1:-1].isdigit()


def match_pattern(p, node, binds):
    if is_hole(p):
        k = int(p.id[1:-1])
        if k in binds:
            return ast.dump(binds[k]) == ast.dump(node)
        binds[k] = node
        return True
    if type(p) is not type(node):
        return False
    for f in p._fields:
        a, b = getattr(p, f, None), getattr(node, f, None)
        if isinstance(a, list):
            if not isinstance(b, list) or len(a) != len(b):
                return False
            for x, y in zip(a, b):
                if isinstance(x, ast.AST):
                    if not match_pattern(x, y, binds):
                        return False
                elif x != y:
                    return False
        elif isinstance(a, ast.AST):
            if not isinstance(b, ast.AST) or not match_pattern(a, b, binds):
                return False
        elif f not in ('ctx', 'kind', 'type_comment') and a != b:
            return False
    return True


class Tr:
    def __init__(self, sig):
        self.sig = sig
        self.pats = [(ast.parse(p['py'], mode='eval').body, p) for p in sig['patterns']]
        self.nk = 0
        self.regions = {}

    # ------------------------------------------------------------ expressions
    def typ(self, name):
        t = self.sig['locals'].get(name)
        if t is None:
            raise Unsupported(None, 'no type for local name %r' % name)
        return t

    def expr(self, n, env, want=None):
        """-> (coq text, raises?)"""
        for p, ent in self.pats:
            b = {}
            if match_pattern(p, n, b):
                args = []
                for k in range(len(b)):
                    t, r = self.expr(b[k], env, (ent.get('holes') or {}).get(str(k)))
                    if r:
                        raise Unsupported(n, 'raising call nested in an expression')
                    args.append(paren(t))
                return ent['coq'].format(*args), bool(ent.get('raises'))
        if isinstance(n, ast.Name) and n.id in self.regions:      # a pinned region of statements: its primitive
            reg = self.regions[n.id]
            for nm, ty in reg['needs']:
                if env.get(nm) != ty:
                    raise Unsupported(n, 'name %r : %s is not bound where the pinned region starts' % (nm, ty))
            return reg['coq'], False
        if isinstance(n, ast.Name):
            if n.id not in env:
                raise Unsupported(n, 'unknown name %r' % n.id)
            ty = env[n.id]
            co = self.sig.get('coerce', {}).get('%s->%s' % (ty, want)) if want and want != ty else None
            return (co.format(n.id) if co else n.id), False
        if isinstance(n, ast.Constant):
            key = repr(n.value)
            if key not in self.sig['constants']:
                raise Unsupported(n, 'constant %s not in the signature' % key)
            return self.sig['constants'][key], False
        if isinstance(n, ast.BoolOp):
            op = {ast.And: ' && ', ast.Or: ' || '}[type(n.op)]
            return op.join(paren(self.cond(v, env)) for v in n.values), False
        if isinstance(n, ast.UnaryOp) and isinstance(n.op, ast.Not) and isinstance(n.operand, ast.Name) \
                and env.get(n.operand.id) in self.sig.get('falsy', {}):
            return self.sig['falsy'][env[n.operand.id]].format(n.operand.id), False
        if isinstance(n, ast.UnaryOp) and isinstance(n.op, ast.Not):
            return 'negb %s' % paren(self.cond(n.operand, env)), False
        if isinstance(n, ast.Compare) and len(n.ops) == 1:
            l, r, op = n.left, n.comparators[0], n.ops[0]
            if isinstance(op, (ast.Is, ast.IsNot)) and isinstance(r, ast.Constant) and r.value is None:
                t = 'is_none %s' % paren(self.pure(l, env))
                return (t if isinstance(op, ast.Is) else 'negb (%s)' % t), False
            if isinstance(op, (ast.Eq, ast.NotEq)):
                kind = None
                for side in (l, r):
                    if isinstance(side, ast.Constant):
                        kind = self.sig['eq_by_constant'].get(repr(side.value))
                        if kind is None and isinstance(side.value, int) and not isinstance(side.value, bool):
                            kind = 'Nat.eqb'
                if kind is None:
                    raise Unsupported(n, 'comparison without a typed constant side')
                t = '%s %s %s' % (kind, paren(self.pure(l, env)), paren(self.pure(r, env)))
                return (t if isinstance(op, ast.Eq) else 'negb (%s)' % t), False
            raise Unsupported(n, 'comparison operator %s' % type(op).__name__)
        if isinstance(n, (ast.List, ast.Tuple)):
            return '[%s]' % '; '.join(self.pure(e, env, self.sig.get('list_elem')) for e in n.elts), False
        if isinstance(n, ast.BinOp) and isinstance(n.op, ast.Add) and isinstance(n.left, ast.List):
            return '%s ++ %s' % (paren(self.pure(n.left, env)), paren(self.pure(n.right, env))), False
        if isinstance(n, ast.Call) and isinstance(n.func, ast.Name) and n.func.id == 'all' and len(n.args) == 1 \
                and not n.keywords and isinstance(n.args[0], ast.GeneratorExp):
            g = n.args[0]
            env2 = dict(env)
            outer = []
            for c in g.generators:
                if c.ifs or c.is_async or not isinstance(c.target, ast.Name):
                    raise Unsupported(n, 'generator form')
                outer.append((c.target.id, self.pure(c.iter, env2)))
                env2[c.target.id] = '?'
            t = self.pure(g.elt, env2)
            for name, it in reversed(outer):
                t = 'forallb (fun %s => %s) %s' % (name, t, paren(it))
            return t, False
        raise Unsupported(n, 'expression %s not in the subset' % type(n).__name__)

    def cond(self, n, env):
        """a python truth value: a bool-typed term, or the typed emptiness test of a bare name"""
        if isinstance(n, ast.Name):
            ty = env.get(n.id)
            if ty == 'bool':
                return n.id
            if ty in self.sig.get('falsy', {}):
                return 'negb (%s)' % self.sig['falsy'][ty].format(n.id)
            raise Unsupported(n, 'truth value of %r : %s' % (n.id, ty))
        if isinstance(n, ast.Constant):
            raise Unsupported(n, 'constant as a truth value')
        return self.pure(n, env)

    def pure(self, n, env, want=None):
        t, r = self.expr(n, env, want)
        if r:
            raise Unsupported(n, 'raising call where a value is needed')
        return t

    # ------------------------------------------------------------ statements
    def assigned(self, body):
        out = []
        for s in body:
            if isinstance(s, ast.Assign) and len(s.targets) == 1 and isinstance(s.targets[0], ast.Name):
                names = [s.targets[0].id]
            elif isinstance(s, ast.FunctionDef):
                names = [s.name]
            elif self.is_append(s):
                names = [s.value.func.value.id]
            elif isinstance(s, ast.If):
                names = self.assigned(s.body) + self.assigned(s.orelse)
            elif isinstance(s, ast.For):
                names = self.assigned(s.body)
            else:
                names = []
            for x in names:
                if x not in out:
                    out.append(x)
        return out

    @staticmethod
    def is_append(s):
        return isinstance(s, ast.Expr) and isinstance(s.value, ast.Call) and isinstance(s.value.func, ast.Attribute) \
            and s.value.func.attr == 'append' and isinstance(s.value.func.value, ast.Name) \
            and len(s.value.args) == 1 and not s.value.keywords

    def terminates(self, body):
        if not body:
            return False
        s = body[-1]
        if isinstance(s, (ast.Return, ast.Raise)):
            return True
        if isinstance(s, ast.If):
            return self.terminates(s.body) and self.terminates(s.orelse)
        return False

    def stmts(self, body, env, fall, ind):
        """fall: callable(env) -> coq text for running off the end of the block (None: not allowed)"""
        pad = '  ' * ind
        if not body:
            if fall is None:
                raise Unsupported(None, 'control runs off the end of the method')
            return pad + fall(env)
        s, rest = body[0], body[1:]
        if isinstance(s, ast.Assign) and len(s.targets) == 1 and isinstance(s.targets[0], ast.Name):
            name = s.targets[0].id
            ty = self.typ(name)
            t, r = self.expr(s.value, env, ty)
            env2 = dict(env)
            env2[name] = ty
            if r:
                return '%srbind %s (fun %s : %s =>\n%s)' % (pad, paren(t), name, ty, self.stmts(rest, env2, fall, ind))
            return '%slet %s : %s := %s in\n%s' % (pad, name, ty, t, self.stmts(rest, env2, fall, ind))
        if isinstance(s, ast.FunctionDef):
            a = s.args
            if a.defaults or a.vararg or a.kwarg or a.kwonlyargs or a.posonlyargs or s.decorator_list \
                    or len(s.body) != 1 or not isinstance(s.body[0], ast.Return) or s.body[0].value is None:
                raise Unsupported(s, 'nested def form')
            lam = self.sig['lambdas'].get(s.name)
            if lam is None or len(a.args) != len(lam['args']):
                raise Unsupported(s, 'nested def %r not in the signature' % s.name)
            env2 = dict(env)
            binders = []
            for arg, ty in zip(a.args, lam['args']):
                env2[arg.arg] = ty
                binders.append('(%s : %s)' % (arg.arg, ty))
            bt = self.pure(s.body[0].value, env2, lam['ret'])
            ty = self.typ(s.name)
            env3 = dict(env)
            env3[s.name] = ty
            return '%slet %s : %s := %s in\n%s' % (pad, s.name, ty, lam['wrap'].format('fun %s => %s' % (' '.join(binders), bt)),
                                                    self.stmts(rest, env3, fall, ind))
        if isinstance(s, ast.If):
            c = self.cond(s.test, env)
            falls = not (self.terminates(s.body) and self.terminates(s.orelse))
            if not falls and rest:
                raise Unsupported(rest[0], 'unreachable statement')
            if not rest or not falls:
                f2, pre = fall, ''
            else:
                vs = []
                for br in (s.body, s.orelse):       # only the branches that fall through hand names on
                    if not self.terminates(br):
                        vs += [x for x in self.assigned(br) if x not in vs]
                self.nk += 1
                k = 'k%d' % self.nk
                envk = dict(env)
                for v in vs:
                    envk[v] = self.typ(v)
                binders = ' '.join('(%s : %s)' % (v, self.typ(v)) for v in vs) or '(_ : unit)'
                pre = '%slet %s := fun %s =>\n%s in\n' % (pad, k, binders, self.stmts(rest, envk, fall, ind + 1))

                def f2(e, k=k, vs=vs):
                    for v in vs:
                        if v not in e:
                            raise Unsupported(s, 'name %r is not bound on every path' % v)
                    return '%s %s' % (k, ' '.join(vs) or 'tt')
            return '%s%sif %s then\n%s\n%selse\n%s' % (pre, pad, c, self.stmts(s.body, dict(env), f2, ind + 1), pad,
                                                      self.stmts(s.orelse, dict(env), f2, ind + 1))
        if self.is_append(s):
            name = s.value.func.value.id
            if name not in env or not env[name].startswith('list '):
                raise Unsupported(s, 'append to %r' % name)
            a, r = self.expr(s.value.args[0], env)
            if r:       # the appended value is a raising call: bind it first
                return '%srbind %s (fun appended =>\n%slet %s : %s := %s ++ [appended] in\n%s)' % (
                    pad, paren(a), pad, name, env[name], name, self.stmts(rest, env, fall, ind))
            return '%slet %s : %s := %s ++ [%s] in\n%s' % (pad, name, env[name], name, a, self.stmts(rest, env, fall, ind))
        if isinstance(s, ast.For) and not s.orelse and (isinstance(s.target, ast.Tuple) or len(
                [v for v in self.assigned(s.body) if v in env]) > 1):
            tg = [s.target] if isinstance(s.target, ast.Name) else list(s.target.elts)
            if not all(isinstance(x, ast.Name) for x in tg):
                raise Unsupported(s, 'for target')
            tn = [x.id for x in tg]
            vs = [v for v in self.assigned(s.body) if v in env and v not in tn]
            if not vs:
                raise Unsupported(s, 'a loop must carry a bound name')
            envb = dict(env)
            for x in tn:
                envb[x] = self.typ(x)
            st_ty = ' * '.join(paren(env[v]) for v in vs)
            it_ty = ' * '.join(paren(self.typ(x)) for x in tn)
            tup = '(%s)' % ', '.join(vs) if len(vs) > 1 else vs[0]
            bodyt = self.stmts(s.body, envb, lambda e: 'ROk %s' % tup, ind + 2)
            it = self.pure(s.iter, env)
            return ("%srbind (fold_left (fun (acc : result (%s)) (it : %s) => rbind acc (fun st : %s =>\n%s  let '%s := st in let '(%s) := it in\n%s)) "
                    "%s (ROk %s)) (fun st : %s =>\n%slet '%s := st in\n%s)" % (
                        pad, st_ty, it_ty, st_ty, pad, tup if len(vs) > 1 else '(%s)' % tup, ', '.join(tn), bodyt, paren(it), tup, st_ty,
                        pad, tup if len(vs) > 1 else '(%s)' % tup, self.stmts(rest, env, fall, ind)))
        if isinstance(s, ast.For):
            if s.orelse or not isinstance(s.target, ast.Name):
                raise Unsupported(s, 'for form')
            vs = [v for v in self.assigned(s.body) if v != s.target.id]
            if len(vs) != 1 or vs[0] not in env:
                raise Unsupported(s, 'a loop must carry exactly one bound name (%s)' % vs)
            v = vs[0]
            x = s.target.id
            envb = dict(env)
            envb[x] = self.typ(x)
            bodyt = self.stmts(s.body, envb, lambda e: 'ROk %s' % v, ind + 2)
            it = self.pure(s.iter, env)
            return ('%srbind (fold_left (fun (acc : result %s) (%s : %s) => rbind acc (fun %s : %s =>\n%s)) %s (ROk %s)) '
                    '(fun %s : %s =>\n%s)' % (pad, env[v], x, self.typ(x), v, env[v], bodyt, paren(it), v, v, env[v],
                                              self.stmts(rest, env, fall, ind)))
        if isinstance(s, ast.Return):
            if rest:
                raise Unsupported(rest[0], 'unreachable statement')
            if s.value is None:
                raise Unsupported(s, 'bare return')
            t, r = self.expr(s.value, env, self.sig['returns'])
            return pad + (t if r else 'ROk %s' % paren(t))
        if isinstance(s, ast.Raise):
            if rest:
                raise Unsupported(rest[0], 'unreachable statement')
            e = s.exc
            if s.cause or not isinstance(e, ast.Call) or not isinstance(e.func, ast.Name) or e.keywords or len(e.args) != 1:
                raise Unsupported(s, 'raise form')
            code = self.sig['errors'].get(e.func.id)
            if code is None:
                raise Unsupported(s, 'exception class %r' % e.func.id)
            m = e.args[0]
            if isinstance(m, ast.BinOp) and isinstance(m.op, ast.Mod) and isinstance(m.right, ast.Name):
                if m.right.id not in env:
                    raise Unsupported(s, 'unknown name in message')
                m = m.left
            if not isinstance(m, ast.Constant) or m.value not in self.sig['messages']:
                raise Unsupported(s, 'message text not in the signature')
            return pad + 'RErr %s' % code
        raise Unsupported(s, 'statement %s not in the subset' % type(s).__name__)


def translate(sigpath, repo):
    sig = json.load(open(sigpath))
    data = open(os.path.join(repo, sig['source']), 'rb').read()
    sha = hashlib.sha256(data).hexdigest()
    tree = ast.parse(data.decode('utf-8'))
    cls = [n for n in tree.body if isinstance(n, ast.ClassDef) and n.name == sig['class']]
    if len(cls) != 1:
        raise Unsupported(None, 'class %s not found once' % sig['class'])
    for mod, name in sig.get('imports', []):     # names the patterns use must be the imported ones
        ok = [n for n in tree.body if isinstance(n, ast.ImportFrom) and n.module == mod and n.level == 0
              and any(a.name == name and a.asname is None for a in n.names)]
        rebound = [n for n in tree.body if isinstance(n, (ast.FunctionDef, ast.ClassDef)) and n.name == name]
        if len(ok) != 1 or rebound:
            raise Unsupported(None, 'module-level name %s is not `from %s import %s`' % (name, mod, name))
    ms = {}
    for n in cls[0].body:
        if isinstance(n, ast.FunctionDef):
            if n.name in ms:
                raise Unsupported(n, 'method %s defined twice' % n.name)
            ms[n.name] = n
    for name, h in sorted(sig['pinned'].items()):
        if name not in ms:
            raise Unsupported(None, 'pinned method %s is missing' % name)
        if ast_hash(ms[name]) != h:
            raise Unsupported(ms[name], 'pinned method %s changed (AST hash %s, expected %s)' % (name, ast_hash(ms[name]), h))
    out = list(sig['header'])
    for e in sig['emit']:
        fn = ms.get(e['py'])
        if fn is None:
            raise Unsupported(None, 'method %s is missing' % e['py'])
        if fn.decorator_list:
            raise Unsupported(fn, 'decorated method')
        a = fn.args
        if a.vararg or a.kwarg or a.kwonlyargs or a.posonlyargs:
            raise Unsupported(fn, 'argument form')
        names = [x.arg for x in a.args]
        if names != [p[0] for p in e['params']]:
            raise Unsupported(fn, 'parameters %s differ from the signature' % names)
        defaults = [ast.dump(d) for d in a.defaults]
        if defaults != [ast.dump(ast.parse(d, mode='eval').body) for d in e['defaults']]:
            raise Unsupported(fn, 'parameter defaults differ from the signature')
        body = strip_doc(list(fn.body))
        n = e['translated_statements']
        if len(body) < n:
            raise Unsupported(fn, 'fewer statements than the signature translates')
        head, tail = body[:n], body[n:]
        env = dict((p[0], p[1]) for p in e['params'])
        tr = Tr(sig)
        # pinned regions inside the translated prefix: hashed, replaced by `name = <primitive>` or dropped
        for k, reg in sorted(enumerate(e.get('regions', [])), key=lambda kr: -kr[1]['start']):
            a, b = reg['start'], reg['start'] + reg['count']
            if b > len(head):
                raise Unsupported(fn, 'pinned region outside the translated statements')
            h = dump_hash(head[a:b])
            if h != reg['hash']:
                raise Unsupported(head[a], 'pinned region %d of %s changed (AST hash %s, expected %s)' % (k, e['py'], h, reg['hash']))
            repl = []
            if reg.get('binds'):
                key = '__region_%d__' % k
                tr.regions[key] = reg
                node = ast.Assign(targets=[ast.Name(id=reg['binds'], ctx=ast.Store())], value=ast.Name(id=key, ctx=ast.Load()))
                ast.copy_location(node, head[a])
                repl = [node]
            head[a:b] = repl
        fall = None
        if tail:
            h = dump_hash(tail)
            if h != e['tail']['hash']:
                raise Unsupported(tail[0], 'pinned rest of %s changed (AST hash %s, expected %s)' % (e['py'], h, e['tail']['hash']))

            def fall(en, e=e):
                for nm, ty in e['tail']['needs']:
                    if en.get(nm) != ty:
                        raise Unsupported(None, 'name %r : %s is not bound where the pinned rest starts' % (nm, ty))
                return e['tail']['coq']
        term = tr.stmts(head, env, fall, 1)
        binders = ' '.join('(%s : %s)' % (p[0], p[1]) for p in e['params'])
        out.append('')
        out.append('Definition %s %s %s : %s :=' % (e['coq'], e.get('extra_binders', ''), binders, e['ret']))
        out.append(term + '.')
    out.extend(sig.get('footer', []))
    return sig, '\n'.join(out) + '\n', sha


def main(argv):
    repo = os.environ.get('BIOM_REPO', '/repo')
    outroot = os.path.dirname(os.path.dirname(HERE))
    to_stdout = hashes = False
    targets = []
    it = iter(argv)
    for a in it:
        if a == '--repo':
            repo = next(it)
        elif a == '--out':
            outroot = next(it)
        elif a == '--stdout':
            to_stdout = True
        elif a == '--hashes':
            hashes = True
        else:
            targets.append(a)
    sigs = sorted(glob.glob(os.path.join(HERE, 'sigs', '*.json')))
    if targets:
        sigs = [s for s in sigs if os.path.basename(s)[:-5] in targets]
        if len(sigs) != len(targets):
            print('py2v_merge: unknown target in %s' % targets, file=sys.stderr)
            return 2
    if hashes:   # maintenance: print the AST hashes the signature files pin
        for s in sigs:
            sig = json.load(open(s))
            tree = ast.parse(open(os.path.join(repo, sig['source'])).read())
            cls = [n for n in tree.body if isinstance(n, ast.ClassDef) and n.name == sig['class']][0]
            ms = dict((n.name, n) for n in cls.body if isinstance(n, ast.FunctionDef))
            for name in sorted(sig['pinned']):
                print(name, ast_hash(ms[name]))
            for e in sig['emit']:
                print(e['py'], 'tail', dump_hash(strip_doc(list(ms[e['py']].body))[e['translated_statements']:]))
                for k, reg in enumerate(e.get('regions', [])):
                    print(e['py'], 'region', k, dump_hash(strip_doc(list(ms[e['py']].body))[reg['start']:reg['start'] + reg['count']]))
        return 0
    failed = False
    for s in sigs:
        src = json.load(open(s))['source']
        try:
            sig, out, sha = translate(s, repo)
        except Unsupported as e:
            print('py2v_merge: REFUSED %s (%s): %s' % (src, os.path.basename(s)[:-5], e), file=sys.stderr)
            failed = True
            continue
        except (OSError, SyntaxError, ValueError, KeyError, IndexError, TypeError, AttributeError, AssertionError) as e:
            print('py2v_merge: REFUSED %s (%s): %s: %s' % (src, os.path.basename(s)[:-5], type(e).__name__, e), file=sys.stderr)
            failed = True
            continue
        if to_stdout:
            sys.stdout.write(out)
            continue
        path = os.path.join(outroot, sig['output'])
        old = open(path).read() if os.path.exists(path) else None
        if old != out:
            os.makedirs(os.path.dirname(path), exist_ok=True)
            tmp = path + '.tmp'
            open(tmp, 'w').write(out)
            os.replace(tmp, path)
            state = 'written'
        else:
            state = 'unchanged'
        print('py2v_merge: %s -> %s %s (source sha256 %s)' % (sig['source'], sig['output'], state, sha))
    return 2 if failed else 0


if __name__ == '__main__':
    sys.exit(main(sys.argv[1:]))
