#!/bin/sh
# Regenerate the reorder-mode translated part of the Coq model (tools/py2v_ord: coq/Gen/ReorderGen.v =
# Table.sort_order / sort / copy / transpose / align_to of biom/table.py) from the source tree under
# test (BIOM_REPO, default /repo).
# Exit code 2 = the translator refused the source (the tie is broken); nothing is written then.
here="$(cd "$(dirname "$0")/.." && pwd)"
exec /venv/bin/python "$here/tools/py2v_ord/main.py" --repo "${BIOM_REPO:-/repo}" --out "$here" "$@"
