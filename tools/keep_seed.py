#!/usr/bin/env python3
"""keep_seed.py <property> <mutant dir> <name> <caught-by: comma list or 'missed'> <needs text...>
stores a confirmed seeded change under /verif/seeded/<property>-<name>/"""
import json, os, shutil, sys
pid, src, name, caught = sys.argv[1:5]
needs = ' '.join(sys.argv[5:])
dst = '/verif/seeded/%s-%s' % (pid, name)
os.makedirs(dst, exist_ok=True)
for f in ('patch.diff', 'demo.py', 'notes.md'):
    if os.path.exists(os.path.join(src, f)):
        shutil.copy(os.path.join(src, f), os.path.join(dst, f))
meta = {'property': pid, 'breaks': pid, 'needs_to_manifest': needs,
        'origin': 'independent sub-agent given only the property text and a scratch worktree',
        'confirmed': 'tools/try_seed.sh %s %s : baseline suite passes with the change (377 passed), demo.py exits non-zero with the change and 0 without' % (pid, dst),
        'checks_that_catch_it': [] if caught == 'missed' else caught.split(','),
        'ran': 'BIOM_REPO=<scratch worktree with patch> ./check <id> --tier quick'}
json.dump(meta, open(os.path.join(dst, 'meta.json'), 'w'), indent=1)
print(dst)
