#!/bin/sh
# Regenerate the HDF5 writer part of the Coq model (tools/py2v_h5: coq/Gen/Hdf5Gen.v from
# Table.to_hdf5 in biom/table.py) from the source tree under test (BIOM_REPO, default /repo).
# Exit code 2 = the translator refused the source (the tie is broken); nothing is written then.
here="$(cd "$(dirname "$0")/.." && pwd)"
exec /venv/bin/python "$here/tools/py2v_h5/main.py" --repo "${BIOM_REPO:-/repo}" --out "$here" "$@"
