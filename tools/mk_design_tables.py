#!/usr/bin/env python3
"""Regenerates the generated blocks of DESIGN.md (between <!-- BEGIN:x --> / <!-- END:x --> markers)
from known_findings.jsonl, seeded/*/meta.json, evidence/*.json and coq/Props/*.v."""
import glob, json, os, re
ROOT = os.path.dirname(os.path.dirname(os.path.abspath(__file__)))


def findings():
    rows = [json.loads(l) for l in open(os.path.join(ROOT, 'known_findings.jsonl')) if l.strip()]
    out = ['| id | properties | status | what failed | repair commit / why not repaired |', '|---|---|---|---|---|']
    def key(r):
        m = re.match(r'F(\d+)(.*)', r['id'])
        return (int(m.group(1)), m.group(2))
    for r in sorted(rows, key=key):
        props = ','.join(r.get('properties', []))
        tail = r.get('commit', '') if r['status'] == 'fixed' else r.get('why_not_fixed', '')
        out.append('| %s | %s | %s | %s | %s |' % (r['id'], props, r['status'], r['what'].replace('|', '/'), str(tail).replace('|', '/')))
    nfix = sum(1 for r in rows if r['status'] == 'fixed')
    out.append('')
    out.append('%d repaired by `fix:` commits (baseline suite re-run after each: 377 passed), %d recorded as known findings.' % (nfix, len(rows) - nfix))
    return '\n'.join(out)


def seeded():
    out = ['| seeded change | property | caught by | what it needs in order to manifest |', '|---|---|---|---|']
    n = c = first = h = own = 0
    for d in sorted(glob.glob(os.path.join(ROOT, 'seeded', '*', 'meta.json'))):
        m = json.load(open(d))
        name = os.path.basename(os.path.dirname(d))
        caught = ','.join(m.get('checks_that_catch_it') or []) or ('harmless now' if m.get('harmless') else 'not caught (outside the stated domain)' if m.get('outside_domain') else '**missed**')
        if m.get('first_version_missed') or 'missed by the first version' in m.get('needs_to_manifest', ''):
            caught += ' (after strengthening; the first version of the check missed it)' if m.get('checks_that_catch_it') else ''
            first += 1
        n += 1
        c += 1 if m.get('checks_that_catch_it') else 0
        h += 1 if m.get('harmless') else 0
        own += 1 if m['property'] in (m.get('checks_that_catch_it') or []) else 0
        note = (' [' + m['status_note'] + ']') if m.get('status_note') else ''
        out.append('| %s | %s | %s | %s |' % (name, m['property'], caught, (m['needs_to_manifest'] + note).replace('|', '/')))
    out.append('')
    out.append('%d independently seeded changes kept (five rounds); %d caught by the current checks (%d by the check of their own property, the others by '
               'the check of the property whose clause they break in passing), %d of them only after a check was strengthened; %d made harmless by a later repair; %d not caught (listed above with the reason).'
               % (n, c, own, first, h, n - c - h))
    return '\n'.join(out)


def status():
    out = ['| property | theorems in Props | quick cases (distinct non-trivial) | disagreements | known-finding hits | quick wall s | docs |', '|---|---|---|---|---|---|---|']
    for p in ['C%02d' % i for i in range(1, 21)]:
        props = os.path.join(ROOT, 'coq', 'Props', p + '.v')
        ev = os.path.join(ROOT, 'evidence', p + '.json')
        nth = len(re.findall(r'^\s*Theorem\s', open(props).read(), re.M)) if os.path.exists(props) else 0
        if os.path.exists(ev):
            e = json.load(open(ev))
            cv = e['coverage']
            out.append('| %s | %d | %s (%s) | %s | %s | %s | docs/%s.md |' % (
                p, nth, cv.get('evaluations'), cv.get('distinct_nontrivial'), cv.get('disagreements_checked'),
                sum((cv.get('known_finding_hits') or {}).values()), e.get('wall_s'), p))
        else:
            out.append('| %s | %d | - | - | - | - | docs/%s.md |' % (p, nth, p))
    return '\n'.join(out)


def main():
    path = os.path.join(ROOT, 'DESIGN.md')
    s = open(path).read()
    for name, fn in (('findings', findings), ('seeded', seeded), ('status', status)):
        b, e = '<!-- BEGIN:%s -->' % name, '<!-- END:%s -->' % name
        if b in s and e in s:
            i, j = s.index(b) + len(b), s.index(e)
            s = s[:i] + '\n' + fn() + '\n' + s[j:]
    open(path, 'w').write(s)


main()
