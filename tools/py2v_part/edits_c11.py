"""The edits of biom/table.py tried against the C11 translator tie (docs/C11.md, "Translator tie"): each is applied to
a scratch copy of the repository (cp -r /repo /tmp/c11gen-repo first; mkdir -p /tmp/c11gen) and run through the whole
`BIOM_REPO=/tmp/c11gen-repo VERIF_OUT=/tmp/c11gen-out ./check C11`; rows go to /tmp/c11gen/rows.json.  Afterwards run
tools/regen_part.sh and ./check C11 against /repo again."""
import os, re, shutil, subprocess, sys, json
REPO = '/tmp/c11gen-repo'
EDITS = [
 ('always-skip-none', 'semantic', 'labels None are skipped whatever ignore_none says',
  [("            if ignore_none and part is None:", "            if part is None:")]),
 ('hashable-flip', 'semantic', 'tuple() applied to the hashable labels instead of the unhashable ones',
  [("            if not isinstance(part, Hashable):", "            if isinstance(part, Hashable):")]),
 ('bucket-guard-flip', 'semantic', 'a bucket is created when the label is already there',
  [("            if part not in partitions:", "            if part in partitions:")]),
 ('bucket-reset', 'semantic', 'the bucket is re-created for every vector (only the last one of a group survives)',
  [("            if part not in partitions:\n                partitions[part] = [[], [], []]", "            partitions[part] = [[], [], []]")]),
 ('no-transpose', 'semantic', 'sample branch: the vectors are not transposed',
  [("data = self._conv_to_self_type(values, transpose=True)", "data = self._conv_to_self_type(values, transpose=False)")]),
 ('md-same-axis', 'semantic', 'the copied metadata is the one of the partitioned axis, not of the other one',
  [("        md = self.metadata(axis=self._invert_axis(axis))\n\n        for part, (ids, values, metadata)", "        md = self.metadata(axis=axis)\n\n        for part, (ids, values, metadata)")]),
 ('ids-wrong-axis', 'semantic', 'sample branch: the observation ids of a part are the sample ids of self',
  [("                obs_ids = self.ids(axis='observation')[:]", "                obs_ids = self.ids()[:]")]),
 ('remove-empty-flip', 'semantic', 'remove_empty applied when it is NOT asked for',
  [("            if remove_empty:\n                tab.remove_empty(inplace=True)", "            if not remove_empty:\n                tab.remove_empty(inplace=True)")]),
 ('rename-tab', 'preserving', 'the local tab renamed',
  [("            tab = Table(data,", "            sub = Table(data,"), ("                tab.remove_empty(inplace=True)", "                sub.remove_empty(inplace=True)"),
   ("            yield part, tab", "            yield part, sub")]),
 ('swap-assign', 'preserving', 'sample branch: two independent assignments swapped',
  [("                samp_ids = ids\n                samp_md = metadata\n                obs_ids", "                samp_md = metadata\n                samp_ids = ids\n                obs_ids")]),
 ('dense-iter', 'reject', 'the loop iterates dense vectors',
  [("in self.iter(dense=False, axis=axis):\n            part = part_f", "in self.iter(dense=True, axis=axis):\n            part = part_f")]),
 ('pinned-preamble', 'reject', 'the dict form falls back to the id (first statement, pinned)',
  [("                return mapping.get(i)", "                return mapping.get(i, i)")]),
 ('sorted-items', 'reject', 'the parts are yielded in sorted order',
  [("in partitions.items():", "in sorted(partitions.items()):")]),
]
names = sys.argv[1:]
rows = []
for name, group, what, pairs in EDITS:
    if names and name not in names:
        continue
    shutil.copy('/repo/biom/table.py', REPO + '/biom/table.py')
    s = open(REPO + '/biom/table.py').read()
    for old, new in pairs:
        assert s.count(old) == 1, (name, old, s.count(old))
        s = s.replace(old, new)
    open(REPO + '/biom/table.py', 'w').write(s)
    subprocess.run(['tools/regen_part.sh'], cwd='/verif', env=dict(os.environ, BIOM_REPO='/repo'), capture_output=True)
    env = dict(os.environ, BIOM_REPO=REPO, VERIF_OUT='/tmp/c11gen-out')
    p = subprocess.run(['./check', 'C11'], cwd='/verif', env=env, capture_output=True, text=True)
    out = p.stdout + p.stderr
    open('/tmp/c11gen/%s.log' % name, 'w').write(out)
    try:
        rep = json.load(open('/tmp/c11gen-out/replays/C11-20261001.json')) if p.returncode else {}
    except Exception:
        rep = {}
    refused = [str(b) for b in rep.get('broken', []) if 'translator rejected' in str(b)]
    diff = subprocess.run(['git', 'diff', '--quiet', '--', 'coq/Gen/PartitionGen.v'], cwd='/verif').returncode
    broke = ''
    out2 = out
    if p.returncode and not refused:
        q = subprocess.run('ulimit -v 8000000; timeout 300 coqc -Q . BiomV Gen/PartitionGen.v && timeout 300 coqc -Q . BiomV '
                           'Proofs/GenBridgePartitionProofs.v && timeout 300 coqc -Q . BiomV Props/C11.v', shell=True,
                           cwd='/verif/coq', capture_output=True, text=True)
        out2 = q.stdout + q.stderr
    m = re.search(r'File "\./(Proofs/GenBridgePartitionProofs\.v|Props/C11\.v|Gen/PartitionGen\.v)", line (\d+)', out2)
    if m:
        lines = open('/verif/coq/' + m.group(1)).read().split('\n')[:int(m.group(2))]
        broke = m.group(1)
        for l in reversed(lines):
            mm = re.match(r'(Lemma|Theorem|Example)\s+(\w+)', l)
            if mm:
                broke = m.group(1) + ': ' + mm.group(2)
                break
    verdict = [l for l in out.split('\n') if l.startswith('VIOLATION') or 'quick:' in l]
    rows.append((name, group, what, 'REFUSES' if refused else 'accepts', 'differs' if diff else 'same text',
                 broke or (refused[0][:200] if refused else 'all proofs check'), ' | '.join(verdict)[:400], p.returncode))
    print(rows[-1], flush=True)
    json.dump(rows, open('/tmp/c11gen/rows.json', 'w'), indent=1)
shutil.copy('/repo/biom/table.py', REPO + '/biom/table.py')
