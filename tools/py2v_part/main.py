#!/venv/bin/python
"""py2v_part: small fail-closed translator for generator methods of one Python class that group the
vectors of a table in a dictionary and build one table per group (Table.partition).  Each numpy /
scipy / table operation becomes a named primitive of the hand-written prelude coq/Gen/PartPrelude.v,
typed by the signature file; the user's labelling function is an oracle (its results are an input of
the model), called with the position of the vector.  Statements are translated to nested lets
(a later binding of a name shadows the earlier one; the rest of a block is repeated in both
branches of an if); a `for` over a list becomes a Fixpoint, `continue` its recursive call,
a trailing `yield` a cons.

usage: main.py [--repo DIR] [--out DIR] [--stdout] [target ...]
Any AST node, name, attribute, call, keyword value or message text not covered by the signature
file gives exit code 2 and NO file is written.  A statement or method the primitives stand for is
pinned by AST hash.  Output is deterministic; a file is rewritten only when its text changed.
Source text is never copied into the output.  (Sibling of tools/py2v, py2v_dyn, py2v_eq; see
docs/translator.md, "Grouping mode".)"""
import ast
import glob
import hashlib
import json
import os
import sys

HERE = os.path.dirname(os.path.abspath(__file__))


class Unsupported(Exception):
    def __init__(self, node, msg):
        Exception.__init__(self, 'line %s: %s' % (getattr(node, 'lineno', 0), msg))


def dump_hash(nodes, extra=''):
    text = ast.dump(ast.Module(body=nodes, type_ignores=[]), annotate_fields=False, include_attributes=False)
    return hashlib.sha256((text + extra).encode()).hexdigest()[:16]


def strip_doc(body):
    if body and isinstance(body[0], ast.Expr) and isinstance(getattr(body[0], 'value', None), ast.Constant) \
            and isinstance(body[0].value.value, str):
        return body[1:]
    return body


def ast_hash(fn):
    return dump_hash(strip_doc(fn.body), '|' + ast.dump(fn.args, annotate_fields=False, include_attributes=False))


def paren(t):
    t = t.strip()
    if ' ' not in t:
        return t
    if t[0] == '(' and t[-1] == ')':
        depth = 0
        for i, ch in enumerate(t):
            depth += ch == '('
            depth -= ch == ')'
            if depth == 0:
                if i == len(t) - 1:
                    return t
                break
    return '(%s)' % t


def fmt(template, *args):
    return template.format(*[paren(a) for a in args])


def match_pattern(pat, node):
    """pat: python expression text with holes _0_, _1_; structural match on the AST"""
    p = ast.parse(pat, mode='eval').body
    binds = {}

    def go(a, b):
        if isinstance(a, ast.Name) and a.id.startswith('_') and a.id.endswith('_') and a.id[1:-1].isdigit():
            k = int(a.id[1:-1])
            if k in binds:
                return ast.dump(binds[k]) == ast.dump(b)
            binds[k] = b
            return True
        if type(a) is not type(b):
            return False
        for f, va in ast.iter_fields(a):
            if f == 'ctx':
                continue
            vb = getattr(b, f)
            if isinstance(va, list):
                if not isinstance(vb, list) or len(va) != len(vb) or not all(go(x, y) for x, y in zip(va, vb)):
                    return False
            elif isinstance(va, ast.AST):
                if not isinstance(vb, ast.AST) or not go(va, vb):
                    return False
            elif va != vb:
                return False
        return True
    return [binds[i] for i in sorted(binds)] if go(p, node) else None


def shape(t):
    if isinstance(t, ast.Tuple):
        return '(' + ', '.join(shape(e) for e in t.elts) + ')'
    if isinstance(t, ast.Name):
        return '_'
    raise Unsupported(t, 'loop target %s' % type(t).__name__)


def names_of(t):
    if isinstance(t, ast.Tuple):
        return [n for e in t.elts for n in names_of(e)]
    return [t.id]


class Fn:
    def __init__(self, sig, spec, node):
        self.sig, self.spec, self.node = sig, spec, node
        self.aux = []
        self.nloop = 0

    def cname(self, n):
        return n + '_' if n in self.sig.get('reserved', []) else n

    # ------------------------------------------------------------ expressions
    # env: ordered list of (python name, coq name, type); the last binding of a name wins
    def lookup(self, e, env):
        for pn, cn, ty in reversed(env):
            if pn == e.id:
                return cn, ty
        raise Unsupported(e, 'name %s is not a parameter or local' % e.id)

    def coerce(self, node, term, ty, want):
        if ty == want:
            return term
        c = self.sig.get('coerce', {}).get('%s->%s' % (ty, want))
        if c is None:
            raise Unsupported(node, 'a %s where a %s is needed' % (ty, want))
        return fmt(c, term)

    def const_of(self, e):
        if isinstance(e, ast.Constant) and (e.value is None or isinstance(e.value, (bool, str))):
            return repr(e.value)
        return None

    def call_spec(self, node, ms, recv, args, keywords, env, idx):
        """ms: {args: [types], kw: {name: const repr | {"type": t}}, star: type?, coq, type}"""
        want = ms.get('args', [])
        if len(args) != len(want):
            raise Unsupported(node, 'call with %d positional arguments, signature has %d' % (len(args), len(want)))
        terms = [recv] if recv is not None else []
        for a, wt in zip(args, want):
            t, ty = self.expr(a, env, idx)
            terms.append(self.coerce(a, t, ty, wt))
        kws = dict(ms.get('kw', {}))
        seen = set()
        for k in keywords:
            key = '**' if k.arg is None else k.arg
            if key not in kws or key in seen:
                raise Unsupported(node, 'keyword %s is not in the signature' % key)
            seen.add(key)
            w = kws[key]
            if isinstance(w, dict):
                t, ty = self.expr(k.value, env, idx)
                terms.append((key, self.coerce(k.value, t, ty, w['type'])))
            elif self.const_of(k.value) != w:
                raise Unsupported(node, 'keyword %s must be the constant %s' % (key, w))
        for key, w in kws.items():
            if key not in seen and not (isinstance(w, dict) and 'default' in w):
                raise Unsupported(node, 'keyword %s is required by the signature' % key)
        # keyword values in signature order
        kwterms = {}
        for t in terms:
            if isinstance(t, tuple):
                kwterms[t[0]] = t[1]
        pos = [t for t in terms if not isinstance(t, tuple)]
        for key, w in kws.items():
            if isinstance(w, dict):
                pos.append(kwterms[key] if key in kwterms else w['default'])
        if 'needs_idx' in ms:
            if idx is None:
                raise Unsupported(node, 'an oracle call outside a loop')
            pos.insert(1, idx)
        return fmt(ms['coq'], *pos), ms['type']

    def expr(self, e, env, idx):
        for p in self.sig.get('patterns', []):
            m = match_pattern(p['py'], e)
            if m is not None:
                terms = []
                for a, wt in zip(m, p['args']):
                    t, ty = self.expr(a, env, idx)
                    terms.append(self.coerce(a, t, ty, wt))
                return fmt(p['coq'], *terms), p['type']
        if isinstance(e, ast.Name):
            return self.lookup(e, env)
        if isinstance(e, ast.Constant) and isinstance(e.value, bool):
            return ('true' if e.value else 'false'), 'bool'
        if isinstance(e, ast.Constant) and isinstance(e.value, str) and e.value in self.sig.get('axis_names', {}):
            return self.sig['axis_names'][e.value], 'axis'
        if isinstance(e, ast.BoolOp):
            op = ' && ' if isinstance(e.op, ast.And) else ' || '
            ts = []
            for v in e.values:
                t, ty = self.expr(v, env, idx)
                ts.append(paren(self.coerce(v, t, ty, 'bool')))
            return op.join(ts), 'bool'
        if isinstance(e, ast.UnaryOp) and isinstance(e.op, ast.Not):
            t, ty = self.expr(e.operand, env, idx)
            return 'negb %s' % paren(self.coerce(e.operand, t, ty, 'bool')), 'bool'
        if isinstance(e, ast.Compare) and len(e.ops) == 1:
            op, l, r = e.ops[0], e.left, e.comparators[0]
            lt, lty = self.expr(l, env, idx)
            if isinstance(op, (ast.Is, ast.IsNot)) and isinstance(r, ast.Constant) and r.value is None:
                tpl = self.sig.get('is_none', {}).get(lty)
                if tpl is None:
                    raise Unsupported(e, 'is None on a %s' % lty)
                t = fmt(tpl, lt)
                return (t if isinstance(op, ast.Is) else 'negb %s' % paren(t)), 'bool'
            if isinstance(op, (ast.In, ast.NotIn)):
                rt, rty = self.expr(r, env, idx)
                tpl = self.sig.get('contains', {}).get('%s in %s' % (lty, rty))
                if tpl is None:
                    raise Unsupported(e, '%s in %s' % (lty, rty))
                t = fmt(tpl, lt, rt)
                return (t if isinstance(op, ast.In) else 'negb %s' % paren(t)), 'bool'
            if isinstance(op, (ast.Eq, ast.NotEq)) and lty == 'axis' and isinstance(r, ast.Constant) \
                    and r.value in self.sig.get('axis_eq', {}):
                t = fmt(self.sig['axis_eq'][r.value], lt)
                return (t if isinstance(op, ast.Eq) else 'negb %s' % paren(t)), 'bool'
            raise Unsupported(e, 'comparison %s on %s' % (type(op).__name__, lty))
        if isinstance(e, ast.Attribute):
            t, ty = self.expr(e.value, env, idx)
            a = self.sig.get('attrs', {}).get(ty, {}).get(e.attr)
            if a is None:
                raise Unsupported(e, 'attribute .%s of a %s' % (e.attr, ty))
            return fmt(a[0], t), a[1]
        if isinstance(e, ast.Subscript) and isinstance(e.slice, ast.Slice) and e.slice.lower is None \
                and e.slice.upper is None and e.slice.step is None:
            t, ty = self.expr(e.value, env, idx)
            tpl = self.sig.get('copyslice', {}).get(ty)
            if tpl is None:
                raise Unsupported(e, '[:] on a %s' % ty)
            return fmt(tpl, t), ty
        if isinstance(e, ast.Call):
            if isinstance(e.func, ast.Attribute):
                rt, rty = self.expr(e.func.value, env, idx)
                ms = self.sig.get('methods', {}).get(rty, {}).get(e.func.attr)
                if ms is None or ms.get('mutating'):
                    raise Unsupported(e, 'method .%s of a %s (as an expression)' % (e.func.attr, rty))
                return self.call_spec(e, ms, rt, e.args, e.keywords, env, idx)
            if isinstance(e.func, ast.Name):
                bound = [x for x in env if x[0] == e.func.id]
                if bound:
                    ft, fty = self.lookup(e.func, env)
                    ms = self.sig.get('callable', {}).get(fty)
                    if ms is None:
                        raise Unsupported(e, 'call of a %s' % fty)
                    return self.call_spec(e, ms, ft, e.args, e.keywords, env, idx)
                name = e.func.id
                if name == 'isinstance' and len(e.args) == 2 and isinstance(e.args[1], ast.Name) and not e.keywords:
                    name = 'isinstance:' + e.args[1].id
                    self.need_import(e, e.args[1].id)
                    args = e.args[:1]
                else:
                    args = e.args
                    self.not_rebound(e, name)
                for ms in self.sig.get('functions', {}).get(name, []):
                    try:
                        return self.call_spec(e, ms, None, args, e.keywords, env, idx)
                    except Unsupported:
                        continue
                raise Unsupported(e, 'call of %s with these arguments' % name)
        raise Unsupported(e, 'expression %s' % type(e).__name__)

    def not_rebound(self, node, name):
        """a builtin (or the class itself) called by name keeps its meaning: nothing in the module rebinds it"""
        for n in ast.walk(self.tree):
            if isinstance(n, (ast.FunctionDef, ast.ClassDef)) and n.name == name and \
                    not (isinstance(n, ast.ClassDef) and name == self.sig['class'] and n in self.tree.body) or \
                    isinstance(n, ast.Name) and n.id == name and isinstance(n.ctx, ast.Store) or \
                    isinstance(n, ast.arg) and n.arg == name or \
                    isinstance(n, ast.alias) and (n.asname or n.name).split('.')[0] == name:
                raise Unsupported(node, 'name %s is rebound somewhere in the module' % name)

    def need_import(self, node, name):
        want = self.sig.get('imports', {}).get(name)
        if want is None:
            raise Unsupported(node, 'name %s has no meaning in the signature file' % name)
        for n in self.tree.body:
            if isinstance(n, ast.ImportFrom) and n.level == 0 and n.module == want \
                    and any(a.name == name and a.asname is None for a in n.names):
                break
        else:
            raise Unsupported(node, 'name %s is not imported from %s' % (name, want))
        for n in ast.walk(self.tree):
            if isinstance(n, (ast.FunctionDef, ast.ClassDef)) and n.name == name or \
                    isinstance(n, ast.Name) and n.id == name and isinstance(n.ctx, ast.Store) or \
                    isinstance(n, ast.arg) and n.arg == name:
                raise Unsupported(node, 'name %s is rebound somewhere in the module' % name)

    # ------------------------------------------------------------ statements
    # ctx: None at function level | ('state', call text of the recursive call with {0} = carried var)
    #      | ('yield', recursive call text)
    def block(self, stmts, env, ind, ctx, idx):
        sp = ' ' * ind
        if not stmts:
            if ctx is None:
                raise Unsupported(self.node, 'the function can end without its final loop')
            if ctx[0] == 'state':
                return sp + ctx[1](env)
            raise Unsupported(self.node, 'a loop body that does not end in yield')
        s, rest = stmts[0], stmts[1:]
        if isinstance(s, ast.Continue) and ctx is not None:
            return sp + ctx[1](env)
        if isinstance(s, ast.Assign) and len(s.targets) == 1 and isinstance(s.targets[0], ast.Name):
            t, ty = self.expr(s.value, env, idx)
            n = s.targets[0].id
            old = [x for x in env if x[0] == n]
            if old and old[-1][2] != ty:
                raise Unsupported(s, '%s changes its type from %s to %s' % (n, old[-1][2], ty))
            cn = self.cname(n)
            return '%slet %s := %s in\n%s' % (sp, cn, t, self.block(rest, env + [(n, cn, ty)], ind, ctx, idx))
        if isinstance(s, ast.Assign) and len(s.targets) == 1 and isinstance(s.targets[0], ast.Subscript) \
                and isinstance(s.targets[0].value, ast.Name):
            d = s.targets[0].value
            dt, dty = self.lookup(d, env)
            ss = self.sig.get('setitem', {}).get(dty)
            if ss is None:
                raise Unsupported(s, 'item assignment on a %s' % dty)
            kt, kty = self.expr(s.targets[0].slice, env, idx)
            vt, vty = self.expr(s.value, env, idx)
            t = fmt(ss['coq'], dt, self.coerce(s, kt, kty, ss['key']), self.coerce(s, vt, vty, ss['value']))
            return '%slet %s := %s in\n%s' % (sp, dt, t, self.block(rest, env, ind, ctx, idx))
        if isinstance(s, ast.Expr) and isinstance(s.value, ast.Call) and isinstance(s.value.func, ast.Attribute):
            c = s.value
            f = c.func
            # d[k][N].append(x)
            if f.attr == 'append' and isinstance(f.value, ast.Subscript) and isinstance(f.value.value, ast.Subscript) \
                    and isinstance(f.value.value.value, ast.Name) and isinstance(f.value.slice, ast.Constant) \
                    and len(c.args) == 1 and not c.keywords:
                dt, dty = self.lookup(f.value.value.value, env)
                sa = self.sig.get('slot_append', {}).get(dty, {}).get(repr(f.value.slice.value))
                if sa is None:
                    raise Unsupported(s, 'append to slot %r of an entry of a %s' % (f.value.slice.value, dty))
                kt, kty = self.expr(f.value.value.slice, env, idx)
                vt, vty = self.expr(c.args[0], env, idx)
                t = fmt(sa['coq'], dt, self.coerce(s, kt, kty, sa['key']), self.coerce(s, vt, vty, sa['value']))
                return '%slet %s := %s in\n%s' % (sp, dt, t, self.block(rest, env, ind, ctx, idx))
            if isinstance(f.value, ast.Name):
                rt, rty = self.lookup(f.value, env)
                ms = self.sig.get('methods', {}).get(rty, {}).get(f.attr)
                if ms is not None and ms.get('mutating'):
                    t, _ = self.call_spec(c, ms, rt, c.args, c.keywords, env, idx)
                    return '%slet %s := %s in\n%s' % (sp, rt, t, self.block(rest, env, ind, ctx, idx))
            raise Unsupported(s, 'expression statement')
        if isinstance(s, ast.Expr) and isinstance(s.value, ast.Yield) and ctx is not None and ctx[0] == 'yield':
            if rest:
                raise Unsupported(s, 'statements after yield')
            v = s.value.value
            want = self.sig['yield']
            if not isinstance(v, ast.Tuple) or len(v.elts) != len(want):
                raise Unsupported(s, 'yield of something else than a %d-tuple' % len(want))
            ts = []
            for a, wt in zip(v.elts, want):
                t, ty = self.expr(a, env, idx)
                ts.append(self.coerce(a, t, ty, wt))
            return '%s(%s) :: %s' % (sp, ', '.join(ts), ctx[1](env))
        if isinstance(s, ast.If):
            ax = self.axis_chain(s, env, idx)
            if ax is not None:
                at, branches = ax
                rows = ''
                for ctor, body in branches:
                    rows += '\n%s| %s =>\n%s' % (sp, ctor, self.block(body + rest, env, ind + 4, ctx, idx))
                return '%smatch %s with%s\n%send' % (sp, at, rows, sp)
            t, ty = self.expr(s.test, env, idx)
            t = self.coerce(s.test, t, ty, 'bool')
            return '%sif %s then\n%s\n%selse\n%s' % (sp, t, self.block(s.body + rest, env, ind + 2, ctx, idx), sp,
                                                    self.block(s.orelse + rest, env, ind + 2, ctx, idx))
        if isinstance(s, ast.For) and ctx is None and not s.orelse:
            return self.loop(s, rest, env, ind)
        raise Unsupported(s, 'statement %s' % type(s).__name__)

    def axis_chain(self, s, env, idx):
        """if a == N1: .. elif a == N2: ..  (no else) over exactly the axis names -> match"""
        names = self.sig.get('axis_names', {})
        got = []
        cur = s
        var = None
        while True:
            t = cur.test
            if not (isinstance(t, ast.Compare) and len(t.ops) == 1 and isinstance(t.ops[0], ast.Eq)
                    and isinstance(t.left, ast.Name) and isinstance(t.comparators[0], ast.Constant)
                    and t.comparators[0].value in names):
                return None
            at, aty = self.lookup(t.left, env)
            if aty != 'axis' or (var is not None and var != at):
                return None
            var = at
            got.append((names[t.comparators[0].value], cur.body))
            if not cur.orelse:
                break
            if len(cur.orelse) == 1 and isinstance(cur.orelse[0], ast.If):
                cur = cur.orelse[0]
                continue
            return None
        if sorted(g[0] for g in got) != sorted(names.values()):
            return None
        return var, got

    def loop(self, s, rest, env, ind):
        sp = ' ' * ind
        sig = self.sig
        it, ity = self.expr(s.iter, env, None)
        es = sig.get('iterables', {}).get(ity)
        if es is None:
            raise Unsupported(s, 'for over a %s' % ity)
        if shape(s.target) != es['shape']:
            raise Unsupported(s, 'loop target of shape %s, signature has %s' % (shape(s.target), es['shape']))
        tn = names_of(s.target)
        if len(set(tn)) != len(tn):
            raise Unsupported(s, 'a name twice in the loop target')
        self.nloop += 1
        fname = '%s_loop%d' % (self.spec['coq'], self.nloop)
        has_yield = any(isinstance(n, ast.Yield) for n in ast.walk(s))
        # the carried variable: the one local of the enclosing block that the body assigns / mutates
        carried = []
        if not has_yield:
            for n in ast.walk(s):
                nm = None
                if isinstance(n, ast.Assign) and isinstance(n.targets[0], ast.Subscript) and isinstance(n.targets[0].value, ast.Name):
                    nm = n.targets[0].value.id
                if isinstance(n, ast.Call) and isinstance(n.func, ast.Attribute) and n.func.attr == 'append':
                    b = n.func.value
                    while isinstance(b, ast.Subscript):
                        b = b.value
                    if isinstance(b, ast.Name):
                        nm = b.id
                if isinstance(n, ast.Assign) and isinstance(n.targets[0], ast.Name) and \
                        any(x[0] == n.targets[0].id for x in env):
                    nm = n.targets[0].id
                if nm is not None and nm not in carried:
                    carried.append(nm)
            if len(carried) != 1 or not any(x[0] == carried[0] for x in env):
                raise Unsupported(s, 'the loop must update exactly one local of the enclosing block (found %s)' % carried)
        # parameters: every visible binding (last one per name), the carried one last
        vis = []
        for pn, cn, ty in env:
            vis = [x for x in vis if x[0] != pn] + [(pn, cn, ty)]
        fixed = [x for x in vis if x[0] not in carried]
        car = [x for x in vis if x[0] in carried]
        for n in tn:
            if any(x[0] == n for x in fixed + car):
                if has_yield and n not in [x[0] for x in car]:
                    # a loop variable may shadow an earlier local that the body does not read afterwards
                    fixed = [x for x in fixed if x[0] != n]
                else:
                    raise Unsupported(s, 'loop variable %s shadows a carried local' % n)
        use_idx = not has_yield
        params = ''.join(' (%s : %s)' % (cn, sig['types'][ty]) for pn, cn, ty in fixed)
        if use_idx:
            params += ' (idx_ : nat)'
        params += ''.join(' (%s : %s)' % (cn, sig['types'][ty]) for pn, cn, ty in car)
        params += ' (l_ : list (%s))' % sig['types'][es['elem']]

        def rec(e2, advance=True):
            args = [cn for pn, cn, ty in fixed]
            if use_idx:
                args.append('(S idx_)')
            for pn, cn, ty in car:
                args.append(self.lookup(ast.Name(id=pn), e2)[0])
            return '%s %s rest_' % (fname, ' '.join(args))
        benv = list(fixed) + list(car)
        tys = es['types']
        cns = [self.cname(n) for n in tn]
        benv += [(n, c, t) for n, c, t in zip(tn, cns, tys)]
        pat = es['pat'].format(*cns)
        if has_yield:
            if rest:
                raise Unsupported(s, 'statements after the yielding loop')
            body = self.block(list(s.body), benv, 6, ('yield', rec), None)
            rty = 'list (%s)' % ' * '.join(sig['types'][t] for t in sig['yield'])
            nil = '[]'
        else:
            body = self.block(list(s.body), benv, 6, ('state', rec), 'idx_')
            rty = sig['types'][car[0][2]]
            nil = car[0][1]
        self.aux.append('Fixpoint %s%s {struct l_} : %s :=\n  match l_ with\n  | [] => %s\n  | x_ :: rest_ =>\n'
                        '      let \'%s := x_ in\n%s\n  end.' % (fname, params, rty, nil, pat, body))
        args = [cn for pn, cn, ty in fixed] + (['0'] if use_idx else []) + [cn for pn, cn, ty in car]
        call = '%s %s %s' % (fname, ' '.join(args), paren(it))
        if has_yield:
            return '%sROk (%s)' % (sp, call)
        return '%slet %s := %s in\n%s' % (sp, car[0][1], call, self.block(rest, env, ind, None, None))

    def translate(self, tree):
        self.tree = tree
        sig, spec, fn = self.sig, self.spec, self.node
        a = fn.args
        if a.vararg or a.kwarg or a.kwonlyargs or a.posonlyargs or fn.decorator_list:
            raise Unsupported(fn, 'signature of %s' % fn.name)
        names = [x.arg for x in a.args]
        if names != ['self'] + [p[0] for p in spec['params']]:
            raise Unsupported(fn, 'parameters of %s are %s' % (fn.name, names))
        if [self.const_of(d) for d in a.defaults] != [repr(d) for d in spec['defaults']]:
            raise Unsupported(fn, 'defaults of %s changed' % fn.name)
        env = [('self', 'self', sig['self_type'])]
        ps = ' (self : %s)' % sig['types'][sig['self_type']]
        for pn, pt in spec['params']:
            env.append((pn, self.cname(pn), pt))
            ps += ' (%s : %s)' % (self.cname(pn), sig['types'][pt])
        body = strip_doc(list(fn.body))
        pre = ''
        pin = spec.get('pinned_statement')
        if pin:
            k = pin['index']
            if len(body) <= k:
                raise Unsupported(fn, 'pinned statement %d is missing' % k)
            got = dump_hash([body[k]])
            if got != pin['hash']:
                raise Unsupported(body[k], 'statement %d of %s is not translated but pinned (the primitive %s stands for it), '
                                  'and it changed (ast hash %s, pinned %s)' % (k, fn.name, pin['coq'].split()[0], got, pin['hash']))
            if k != 0:
                raise Unsupported(fn, 'only the first statement can be pinned')
            args = [self.lookup(ast.Name(id=x), env)[0] for x in pin['reads']]
            pre = '  %s <- %s ;;\n' % (pin['binds'], fmt(pin['coq'], *args))
            env.append((pin['binds'], pin['binds'], pin['type']))
            body = body[1:]
        code = self.block(body, env, 2, None, None)
        rty = 'list (%s)' % ' * '.join(sig['types'][t] for t in sig['yield'])
        text = 'Definition %s%s : result (%s) :=\n%s%s.' % (spec['coq'], ps, rty, pre, code)
        return '\n\n'.join(self.aux + [text])


def translate(sigpath, repo):
    sig = json.load(open(sigpath))
    if sig.get('mode') == 'collapse':   # second statement subset (tools/py2v_part/collapse.py)
        sys.modules.setdefault('main', sys.modules[__name__])
        if HERE not in sys.path:
            sys.path.insert(0, HERE)
        import collapse
        return collapse.translate(sig, repo)
    raw = open(os.path.join(repo, sig['source']), 'rb').read()
    tree = ast.parse(raw.decode('utf8'))
    cls = [n for n in tree.body if isinstance(n, ast.ClassDef) and n.name == sig['class']]
    if len(cls) != 1:
        raise Unsupported(tree, 'class %s not found' % sig['class'])
    methods = {}
    emitted = [e['py'] for e in sig['emit']]
    for n in cls[0].body:
        if isinstance(n, ast.FunctionDef):
            if n.name in methods and (n.name in sig.get('pinned', {}) or n.name in emitted):
                raise Unsupported(n, 'method %s is defined twice' % n.name)
            methods.setdefault(n.name, n)
    for name, h in sorted(sig.get('pinned', {}).items()):
        if name not in methods:
            raise Unsupported(cls[0], 'pinned method %s is missing' % name)
        got = ast_hash(methods[name])
        if got != h:
            raise Unsupported(methods[name], '%s is not translated but pinned (the primitives rely on it), '
                              'and it changed (ast hash %s, pinned %s)' % (name, got, h))
    out = []
    for ent in sig['emit']:
        if ent['py'] not in methods:
            raise Unsupported(cls[0], 'method %s not found' % ent['py'])
        node = methods[ent['py']]
        text = Fn(sig, ent, node).translate(tree)
        out.append('(* %s.%s, lines %d-%d *)\n%s' % (sig['class'], ent['py'], node.lineno, node.end_lineno, text))
    head = ['(* GENERATED by tools/py2v_part from %s (class %s) - do not edit; regenerated on every check. *)'
            % (sig['source'], sig['class'])] + sig['header']
    text = '\n'.join(head) + '\n\n' + '\n\n'.join(out) + '\n' + ''.join(l + '\n' for l in sig.get('footer', []))
    return sig, text, hashlib.sha256(raw).hexdigest()


def main(argv):
    repo = os.environ.get('BIOM_REPO', '/repo')
    outroot = os.path.dirname(os.path.dirname(HERE))
    to_stdout = False
    hashes = False
    targets = []
    it = iter(argv)
    for a in it:
        if a == '--repo':
            repo = next(it)
        elif a == '--out':
            outroot = next(it)
        elif a == '--stdout':
            to_stdout = True
        elif a == '--hashes':
            hashes = True
        else:
            targets.append(a)
    sigs = sorted(glob.glob(os.path.join(HERE, 'sigs', '*.json')))
    if targets:
        sigs = [s for s in sigs if os.path.basename(s)[:-5] in targets]
        if len(sigs) != len(targets):
            print('py2v_part: unknown target in %s' % targets, file=sys.stderr)
            return 2
    if hashes:   # maintenance: print the AST hashes the signature files pin
        for s in sigs:
            sig = json.load(open(s))
            tree = ast.parse(open(os.path.join(repo, sig['source'])).read())
            cls = [n for n in tree.body if isinstance(n, ast.ClassDef) and n.name == sig['class']][0]
            ms = {}
            for n in cls.body:
                if isinstance(n, ast.FunctionDef):
                    ms.setdefault(n.name, n)
            for name in sorted(sig.get('pinned', {})):
                print(name, ast_hash(ms[name]))
            for e in sig['emit']:
                if e.get('pinned_statement'):
                    print(e['py'], 'statement', e['pinned_statement']['index'],
                          dump_hash([strip_doc(list(ms[e['py']].body))[e['pinned_statement']['index']]]))
        return 0
    failed = False
    for s in sigs:
        src = json.load(open(s))['source']
        try:
            sig, out, sha = translate(s, repo)
        except Unsupported as e:
            print('py2v_part: REFUSED %s (%s): %s' % (src, os.path.basename(s)[:-5], e), file=sys.stderr)
            failed = True
            continue
        except (OSError, SyntaxError, ValueError, KeyError, IndexError, TypeError, AttributeError, AssertionError) as e:
            print('py2v_part: REFUSED %s (%s): %s: %s' % (src, os.path.basename(s)[:-5], type(e).__name__, e), file=sys.stderr)
            failed = True
            continue
        if to_stdout:
            sys.stdout.write(out)
            continue
        path = os.path.join(outroot, sig['output'])
        old = open(path).read() if os.path.exists(path) else None
        if old != out:
            os.makedirs(os.path.dirname(path), exist_ok=True)
            tmp = path + '.tmp'
            open(tmp, 'w').write(out)
            os.replace(tmp, path)
            state = 'written'
        else:
            state = 'unchanged'
        print('py2v_part: %s -> %s %s (source sha256 %s)' % (sig['source'], sig['output'], state, sha))
    return 2 if failed else 0


if __name__ == '__main__':
    sys.exit(main(sys.argv[1:]))
