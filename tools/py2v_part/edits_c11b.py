"""The edits of Table.collapse (biom/table.py) tried against the C11 collapse translator tie (docs/C11.md, "Translator
tie", second table).  Every edit gets its own scratch copies (/tmp/c11bgen/v-<name> of this framework without .git,
/tmp/c11bgen/r-<name> of the repository) so that the runs do not share a build; each runs the whole
`BIOM_REPO=... VERIF_OUT=... ./check C11` of the copy.  Rows go to /tmp/c11bgen/rows/<name>.json.
usage: edits_c11b.py            (all edits in parallel)      edits_c11b.py NAME   (one edit)"""
import os, re, shutil, subprocess, sys, json
W = '/tmp/c11bgen'
EDITS = [
 ('keep-small-groups', 'semantic', 'groups of at least min_group_size are skipped instead of the smaller ones',
  [("                if len(axis_ids) < min_group_size:", "                if len(axis_ids) >= min_group_size:")]),
 ('norm-flip', 'semantic', 'the sums are divided when norm is NOT set',
  [("                if norm:\n                    redux_data /=", "                if not norm:\n                    redux_data /=")]),
 ('norm-by-min-size', 'semantic', 'norm divides by min_group_size instead of the group size',
  [("                    redux_data /= len(axis_ids)", "                    redux_data /= min_group_size")]),
 ('md-flag-flip', 'semantic', 'collapsed_ids metadata appended when include_collapsed_metadata is NOT set',
  [("                if include_collapsed_metadata:\n                    # retain", "                if not include_collapsed_metadata:\n                    # retain")]),
 ('no-transpose', 'semantic', 'sample axis: the collapsed vectors are not transposed',
  [("            transpose = True\n", "            transpose = False\n")]),
 ('sum-same-axis', 'semantic', 'a part is summed over the collapsed axis instead of the other one',
  [("redux_data = collapse_f(table, self._invert_axis(axis))", "redux_data = collapse_f(table, axis)")]),
 ('md-same-axis', 'semantic', 'the metadata kept for the other axis is the one of the collapsed axis',
  [("        md = self.metadata(axis=self._invert_axis(axis))\n        if axis == 'sample':\n            sample_ids = collapsed_ids",
    "        md = self.metadata(axis=axis)\n        if axis == 'sample':\n            sample_ids = collapsed_ids")]),
 ('ids-wrong-axis', 'semantic', 'sample axis: the observation ids of the result are the sample ids of self',
  [("            obs_ids = self.ids(axis='observation')[:]\n            obs_md = md if", "            obs_ids = self.ids()[:]\n            obs_md = md if")]),
 ('no-errcheck', 'preserving', 'the errcheck call removed (the default error state ignores an empty table)',
  [("        errcheck(self, 'empty')\n", "")]),
 ('rename-redux', 'preserving', 'the local redux_data renamed',
  [("                redux_data = collapse_f(", "                rd = collapse_f("), ("                    redux_data /= len", "                    rd /= len"),
   ("self._conv_to_self_type(redux_data))", "self._conv_to_self_type(rd))")]),
 ('swap-appends', 'preserving', 'two independent appends swapped',
  [("                collapsed_data.append(self._conv_to_self_type(redux_data))\n                collapsed_ids.append(part)",
    "                collapsed_ids.append(part)\n                collapsed_data.append(self._conv_to_self_type(redux_data))")]),
 ('sorted-parts', 'reject', 'the parts are visited in sorted order',
  [("            for part, table in self.partition(f, axis=axis):", "            for part, table in sorted(self.partition(f, axis=axis)):")]),
 ('multiply', 'reject', 'norm multiplies',
  [("                    redux_data /= len(axis_ids)", "                    redux_data *= len(axis_ids)")]),
 ('one-to-many-edit', 'reject', 'the one-to-many branch (not translated, pinned) counts every pathway twice',
  [("                    new_md[partition] = pathway\n                    num_md += 1", "                    new_md[partition] = pathway\n                    num_md += 2")]),
 ('mode-list', 'reject', "a third one_to_many_mode accepted",
  [("        if one_to_many_mode not in ['add', 'divide']:", "        if one_to_many_mode not in ['add', 'divide', 'mean']:")]),
]
FILES = r'(Proofs/GenBridgeCollapseProofs\.v|Proofs/GenBridgePartitionProofs\.v|Props/C11\.v|Gen/CollapseGen\.v|Gen/PartitionGen\.v)'


def one(name):
    ent = [e for e in EDITS if e[0] == name][0]
    name, group, what, pairs = ent
    V, R, O = '%s/v-%s' % (W, name), '%s/r-%s' % (W, name), '%s/o-%s' % (W, name)
    for d in (V, R, O):
        shutil.rmtree(d, ignore_errors=True)
    subprocess.run(['rsync', '-a', '--exclude', '.git', '/verif/', V + '/'], check=True)
    shutil.copytree('/repo', R, ignore=shutil.ignore_patterns('.git'))
    s = open(R + '/biom/table.py').read()
    for old, new in pairs:
        assert s.count(old) == 1, (name, old, s.count(old))
        s = s.replace(old, new)
    open(R + '/biom/table.py', 'w').write(s)
    env = dict(os.environ, BIOM_REPO=R, VERIF_OUT=O)
    p = subprocess.run(['./check', 'C11'], cwd=V, env=env, capture_output=True, text=True)
    out = p.stdout + p.stderr
    open('%s/%s.log' % (W, name), 'w').write(out)
    refused = [l.strip() for l in out.split('\n') if 'translator rejected' in l or 'REFUSED' in l]
    if not refused and p.returncode:
        for root, _, fs in os.walk(O):
            for f in fs:
                if f.endswith('.json'):
                    t = open(os.path.join(root, f)).read()
                    m = re.search(r'translator rejected[^"]*', t)
                    if m:
                        refused.append(m.group(0))
    same = open(V + '/coq/Gen/CollapseGen.v').read() == open('/verif/coq/Gen/CollapseGen.v').read()
    broke = ''
    out2 = out
    if p.returncode and not refused:
        q = subprocess.run('ulimit -v 8000000; timeout 300 coqc -Q . BiomV Gen/CollapseGen.v && timeout 300 coqc -Q . BiomV '
                           'Proofs/GenBridgeCollapseProofs.v && timeout 300 coqc -Q . BiomV Props/C11.v', shell=True,
                           cwd=V + '/coq', capture_output=True, text=True)
        out2 = q.stdout + q.stderr
    m = re.search(r'File "\./' + FILES + r'", line (\d+)', out2)
    if m:
        lines = open(V + '/coq/' + m.group(1)).read().split('\n')[:int(m.group(2))]
        broke = m.group(1)
        for l in reversed(lines):
            mm = re.match(r'(Lemma|Theorem|Example)\s+(\w+)', l)
            if mm:
                broke = m.group(1) + ': ' + mm.group(2)
                break
    verdict = [l for l in out.split('\n') if l.startswith('VIOLATION') or 'quick:' in l]
    row = (name, group, what, 'REFUSES' if refused else 'accepts', 'same text' if same else 'differs',
           broke or (refused[0][:300] if refused else 'all proofs check'), ' | '.join(verdict)[:500], p.returncode)
    os.makedirs(W + '/rows', exist_ok=True)
    json.dump(row, open('%s/rows/%s.json' % (W, name), 'w'))
    print(row, flush=True)
    for d in (V, R):
        shutil.rmtree(d, ignore_errors=True)


if __name__ == '__main__':
    os.makedirs(W, exist_ok=True)
    if len(sys.argv) > 1:
        one(sys.argv[1])
    else:
        ps = [subprocess.Popen([sys.executable, __file__, e[0]]) for e in EDITS]
        for p in ps:
            p.wait()
