"""py2v_part, second statement subset ("mode": "collapse" in the signature file): methods that loop over the
parts of Table.partition carrying several locals, return a constructed table and refuse by `raise`
(Table.collapse).  Additions over main.py, all typed by the signature file:
  - parameters fixed to a constant by the signature (the definition emitted is the method at those values);
    an `if` over a fixed parameter is decided here and the branch not taken is pinned by AST hash
  - nested one-line functions (`def g(..): return e`): inlined where they are called; one that is never
    referenced is only checked to return a tuple of its own parameters
  - `if` whose branches only assign: one let over the tuple of the names assigned (a match for an axis chain)
  - `raise E(text ...)`: RErr with the code the signature gives E, the text pinned by hash
  - a `for` over a refusing call (self.partition): bound first, the loop is a Fixpoint returning the
    tuple of the locals it updates; `continue`; `x /= n`; `x.append(e)`; tuple assignment from a nested function
  - checks called for their exception (errcheck), statement patterns, `return E`
Everything else is refused (exit code 2, nothing written)."""
import ast
import hashlib
import os

import main as M
from main import Unsupported, dump_hash, fmt, paren, strip_doc


def hole(a):
    return isinstance(a, ast.Name) and a.id.startswith('_') and a.id.endswith('_') and a.id[1:-1].isdigit()


def match_nodes(p, node):
    binds = {}

    def go(a, b):
        if hole(a):
            k = int(a.id[1:-1])
            if k in binds:
                return ast.dump(binds[k]) == ast.dump(b)
            binds[k] = b
            return True
        if type(a) is not type(b):
            return False
        for f, va in ast.iter_fields(a):
            if f in ('ctx', 'type_comment'):
                continue
            vb = getattr(b, f)
            if isinstance(va, list):
                if not isinstance(vb, list) or len(va) != len(vb) or not all(go(x, y) for x, y in zip(va, vb)):
                    return False
            elif isinstance(va, ast.AST):
                if not isinstance(vb, ast.AST) or not go(va, vb):
                    return False
            elif va != vb:
                return False
        return True
    return [binds[i] for i in sorted(binds)] if go(p, node) else None


def text_hash(node):
    parts = [n.value for n in ast.walk(node) if isinstance(n, ast.Constant) and isinstance(n.value, str)]
    return hashlib.sha256('\x00'.join(parts).encode()).hexdigest()[:16]


def terminates(stmts):
    return bool(stmts) and isinstance(stmts[-1], (ast.Raise, ast.Continue, ast.Return))


class CFn(M.Fn):
    def __init__(self, sig, spec, node):
        M.Fn.__init__(self, sig, spec, node)
        self.closures = {}
        self.fixed = spec.get('fixed', {})

    # ------------------------------------------------------------ expressions
    def needs(self, node, p):
        for n in p.get('imports', []):
            self.need_import(node, n)
        for n in p.get('builtins', []):
            self.not_rebound(node, n)

    def expr(self, e, env, idx):
        for p in self.sig.get('patterns', []):
            if match_nodes(ast.parse(p['py'], mode='eval').body, e) is not None:
                self.needs(e, p)
        if isinstance(e, ast.Name) and e.id in self.fixed and not any(x[0] == e.id for x in env):
            raise Unsupported(e, 'parameter %s is fixed by the signature and used as a value' % e.id)
        if isinstance(e, ast.Compare) and len(e.ops) == 1 and isinstance(e.ops[0], (ast.Lt, ast.GtE)):
            lt, lty = self.expr(e.left, env, idx)
            rt, rty = self.expr(e.comparators[0], env, idx)
            if (lty, rty) != ('int', 'int'):
                raise Unsupported(e, 'order comparison of %s and %s' % (lty, rty))
            t = 'Z.ltb %s %s' % (paren(lt), paren(rt))
            return (t if isinstance(e.ops[0], ast.Lt) else 'negb (%s)' % t), 'bool'
        if isinstance(e, ast.Call) and isinstance(e.func, ast.Name) and e.func.id in self.closures:
            r = self.inline(e, env, idx)
            if isinstance(r, list):
                raise Unsupported(e, 'a nested function returning a tuple, outside a tuple assignment')
            return r
        if isinstance(e, ast.Call) and isinstance(e.func, ast.Attribute):
            rt, rty = self.expr(e.func.value, env, idx)
            ms = self.sig.get('methods', {}).get(rty, {}).get(e.func.attr)
            if isinstance(ms, list):
                err = None
                for m in ms:
                    if m.get('monadic') or m.get('mutating'):
                        continue
                    try:
                        return self.call_spec(e, m, rt, e.args, e.keywords, env, idx)
                    except Unsupported as x:
                        err = x
                raise err or Unsupported(e, 'method .%s of a %s' % (e.func.attr, rty))
            if ms is not None and ms.get('monadic'):
                raise Unsupported(e, 'method .%s can refuse: only as the sequence of a for' % e.func.attr)
        return M.Fn.expr(self, e, env, idx)

    def inline(self, e, env, idx):
        d = self.closures[e.func.id]
        ps = [a.arg for a in d.args.args]
        if e.keywords or len(e.args) != len(ps):
            raise Unsupported(e, 'call of the nested function %s' % d.name)
        env2 = list(env)
        for p, a in zip(ps, e.args):
            t, ty = self.expr(a, env, idx)
            env2.append((p, paren(t), ty))
        v = d.body[0].value
        if isinstance(v, ast.Tuple):
            return [self.expr(x, env2, idx) for x in v.elts]
        return self.expr(v, env2, idx)

    def static_test(self, t):
        """value of a test over fixed parameters only, or None"""
        if isinstance(t, ast.Name) and t.id in self.fixed and isinstance(self.fixed[t.id], bool):
            return self.fixed[t.id]
        if isinstance(t, ast.Compare) and len(t.ops) == 1 and isinstance(t.ops[0], (ast.Is, ast.IsNot)) \
                and isinstance(t.left, ast.Name) and t.left.id in self.fixed \
                and isinstance(t.comparators[0], ast.Constant) and t.comparators[0].value is None:
            r = self.fixed[t.left.id] is None
            return r if isinstance(t.ops[0], ast.Is) else not r
        return None

    # ------------------------------------------------------------ statements
    def nested_def(self, s):
        a = s.args
        if a.vararg or a.kwarg or a.kwonlyargs or a.posonlyargs or a.defaults or s.decorator_list \
                or len(s.body) != 1 or not isinstance(s.body[0], ast.Return) or s.body[0].value is None:
            raise Unsupported(s, 'nested function %s is not a one-line return' % s.name)
        used = [n for n in ast.walk(self.node) if isinstance(n, ast.Name) and n.id == s.name]
        ps = [x.arg for x in a.args]
        if not used:
            v = s.body[0].value
            if not (isinstance(v, ast.Tuple) and all(isinstance(x, ast.Name) and x.id in ps for x in v.elts)):
                raise Unsupported(s, 'unused nested function %s returns something else than its parameters' % s.name)
            return
        for n in ast.walk(s.body[0]):
            if isinstance(n, ast.Name) and n.id not in ps and n.id != 'self' \
                    and n.id not in [p[0] for p in self.spec['params']]:
                raise Unsupported(n, 'nested function %s reads the local %s' % (s.name, n.id))
            if isinstance(n, (ast.Lambda, ast.NamedExpr, ast.Yield, ast.Await)):
                raise Unsupported(n, 'nested function %s' % s.name)
        if s.name in self.closures and ast.dump(self.closures[s.name]) != ast.dump(s):
            raise Unsupported(s, 'nested function %s defined twice' % s.name)
        self.closures[s.name] = s

    def declared(self, s, n, ty):
        want = self.sig.get('locals', {}).get(n)
        if want is not None and want != ty:
            raise Unsupported(s, 'local %s is a %s, the signature declares %s' % (n, ty, want))

    def assigned(self, stmts, env):
        """names a join branch assigns, in order of first occurrence"""
        out = []
        for s in stmts:
            if isinstance(s, ast.FunctionDef):
                continue
            if isinstance(s, ast.Assign) and len(s.targets) == 1 and isinstance(s.targets[0], ast.Name):
                n = s.targets[0].id
            elif isinstance(s, ast.AugAssign) and isinstance(s.target, ast.Name):
                n = s.target.id
            elif isinstance(s, ast.Expr) and isinstance(s.value, ast.Call) and isinstance(s.value.func, ast.Attribute) \
                    and s.value.func.attr == 'append' and isinstance(s.value.func.value, ast.Name):
                n = s.value.func.value.id
            else:
                raise Unsupported(s, 'statement %s in a branch that is joined' % type(s).__name__)
            if n not in out:
                out.append(n)
        return out

    def join(self, s, rest, env, ind, ctx, branches, head):
        """branches: [(label text, stmts)]; head(rows) builds the if / match text"""
        sp = ' ' * ind
        sets = [self.assigned(b, env) for _, b in branches]
        names = []
        for st in sets:
            for n in st:
                if n not in names:
                    names.append(n)
        # a name assigned in one branch only and not bound before stays local to its branch (a later use is refused)
        names = [n for n in names if any(x[0] == n for x in env) or all(n in st for st in sets)]
        tys = {}

        def fin(e2):
            ts = []
            for n in names:
                t, ty = self.lookup(ast.Name(id=n), e2)
                if tys.setdefault(n, ty) != ty:
                    raise Unsupported(s, '%s has type %s in one branch and %s in another' % (n, tys[n], ty))
                ts.append(t)
            return ts[0] if len(ts) == 1 else '(%s)' % ', '.join(ts)
        rows = [(lab, self.block(list(b), env, ind + 4, ('join', fin))) for lab, b in branches]
        if not names:
            return self.block(rest, env, ind, ctx)
        cns = [self.cname(n) for n in names]
        pat = cns[0] if len(cns) == 1 else "'(%s)" % ', '.join(cns)
        env2 = env + [(n, c, tys[n]) for n, c in zip(names, cns)]
        return '%slet %s :=\n%s in\n%s' % (sp, pat, head(rows, sp + '  '), self.block(rest, env2, ind, ctx))

    def block(self, stmts, env, ind, ctx, idx=None):
        sp = ' ' * ind
        if not stmts:
            if ctx is None:
                raise Unsupported(self.node, 'the function can end without return')
            return sp + ctx[1](env)
        s, rest = stmts[0], stmts[1:]
        for p in self.sig.get('stmt_patterns', []):
            m = match_nodes(ast.parse(p['py']).body[0], s)
            if m is not None:
                self.needs(s, p)
                terms = []
                for a, wt in zip(m, p['args']):
                    t, ty = self.expr(a, env, None)
                    terms.append(self.coerce(a, t, ty, wt))
                tgt = m[p['assigns']]
                if not isinstance(tgt, ast.Name):
                    raise Unsupported(s, 'statement pattern target')
                return '%slet %s := %s in\n%s' % (sp, self.cname(tgt.id), fmt(p['coq'], *terms),
                                                  self.block(rest, env + [(tgt.id, self.cname(tgt.id), p['type'])], ind, ctx))
        if isinstance(s, ast.FunctionDef):
            self.nested_def(s)
            return self.block(rest, env, ind, ctx)
        if isinstance(s, ast.Continue) and ctx is not None and ctx[0] == 'loop':
            return sp + ctx[1](env)
        if isinstance(s, ast.Raise) and ctx is None:
            c = s.exc
            if s.cause is not None or not (isinstance(c, ast.Call) and isinstance(c.func, ast.Name)):
                raise Unsupported(s, 'raise of something else than a call of an exception class')
            r = self.sig.get('raises', {}).get(c.func.id)
            if r is None:
                raise Unsupported(s, 'raise of %s' % c.func.id)
            if 'import' in r:
                self.need_import(s, c.func.id)
            else:
                self.not_rebound(s, c.func.id)
            if text_hash(c) not in r['texts']:
                raise Unsupported(s, 'the text of this %s is not the pinned one (hash %s)' % (c.func.id, text_hash(c)))
            for n in ast.walk(c):
                if isinstance(n, ast.Name) and n is not c.func:
                    self.lookup(n, env)
                elif not isinstance(n, (ast.Call, ast.Name, ast.Constant, ast.BinOp, ast.Mod, ast.Tuple, ast.Load)):
                    raise Unsupported(n, '%s in the argument of a raise' % type(n).__name__)
            return '%sRErr %s' % (sp, r['code'])
        if isinstance(s, ast.Return) and ctx is None and s.value is not None:
            t, ty = self.expr(s.value, env, None)
            if ty != self.spec['returns']:
                raise Unsupported(s, 'return of a %s' % ty)
            return '%sROk (%s)' % (sp, t)
        if isinstance(s, ast.Assign) and len(s.targets) == 1 and isinstance(s.targets[0], ast.Name):
            n = s.targets[0].id
            v = s.value
            lit = None
            if isinstance(v, ast.List) and not v.elts:
                lit = 'empty_list'
            elif isinstance(v, ast.Constant) and v.value is None:
                lit = 'none'
            if lit is not None:
                ty = self.sig.get('locals', {}).get(n)
                t = self.sig.get(lit, {}).get(ty)
                if t is None:
                    raise Unsupported(s, '%s assigned to %s (declared %s)' % (lit, n, ty))
            else:
                t, ty = self.expr(v, env, None)
            self.declared(s, n, ty)
            old = [x for x in env if x[0] == n]
            if old and old[-1][2] != ty:
                raise Unsupported(s, '%s changes its type from %s to %s' % (n, old[-1][2], ty))
            cn = self.cname(n)
            return '%slet %s := %s in\n%s' % (sp, cn, t, self.block(rest, env + [(n, cn, ty)], ind, ctx))
        if isinstance(s, ast.Assign) and len(s.targets) == 1 and isinstance(s.targets[0], ast.Tuple) \
                and all(isinstance(x, ast.Name) for x in s.targets[0].elts) \
                and isinstance(s.value, ast.Call) and isinstance(s.value.func, ast.Name) and s.value.func.id in self.closures:
            r = self.inline(s.value, env, None)
            tn = [x.id for x in s.targets[0].elts]
            if not isinstance(r, list) or len(r) != len(tn) or len(set(tn)) != len(tn):
                raise Unsupported(s, 'tuple assignment')
            out = ''
            env2 = list(env)
            for n, (t, ty) in zip(tn, r):
                self.declared(s, n, ty)
                out += '%slet %s := %s in\n' % (sp, self.cname(n), t)
                env2.append((n, self.cname(n), ty))
            return out + self.block(rest, env2, ind, ctx)
        if isinstance(s, ast.AugAssign) and isinstance(s.target, ast.Name):
            lt, lty = self.lookup(s.target, env)
            rt, rty = self.expr(s.value, env, None)
            tpl = self.sig.get('augassign', {}).get('%s %s= %s' % (lty, type(s.op).__name__, rty))
            if tpl is None:
                raise Unsupported(s, 'augmented assignment %s %s= %s' % (lty, type(s.op).__name__, rty))
            n = s.target.id
            return '%slet %s := %s in\n%s' % (sp, self.cname(n), fmt(tpl, lt, rt),
                                              self.block(rest, env + [(n, self.cname(n), lty)], ind, ctx))
        if isinstance(s, ast.Expr) and isinstance(s.value, ast.Call):
            c = s.value
            if isinstance(c.func, ast.Attribute) and c.func.attr == 'append' and isinstance(c.func.value, ast.Name) \
                    and len(c.args) == 1 and not c.keywords:
                lt, lty = self.lookup(c.func.value, env)
                ap = self.sig.get('append', {}).get(lty)
                if ap is None:
                    raise Unsupported(s, 'append to a %s' % lty)
                vt, vty = self.expr(c.args[0], env, None)
                n = c.func.value.id
                return '%slet %s := %s in\n%s' % (sp, self.cname(n), fmt(ap['coq'], lt, self.coerce(s, vt, vty, ap['value'])),
                                                  self.block(rest, env + [(n, self.cname(n), lty)], ind, ctx))
            if ctx is None:
                for p in self.sig.get('checks', []):
                    m = match_nodes(ast.parse(p['py'], mode='eval').body, c)
                    if m is not None:
                        self.needs(s, p)
                        terms = []
                        for a, wt in zip(m, p['args']):
                            t, ty = self.expr(a, env, None)
                            terms.append(self.coerce(a, t, ty, wt))
                        return '%s_ <- %s ;;\n%s' % (sp, fmt(p['coq'], *terms), self.block(rest, env, ind, ctx))
            raise Unsupported(s, 'expression statement')
        if isinstance(s, ast.If):
            st = self.static_test(s.test)
            if st is not None:
                live, dead = (s.body, s.orelse) if st else (s.orelse, s.body)
                if dead:
                    key = ast.dump(s.test, annotate_fields=False)
                    want = self.spec.get('dead', {}).get(key)
                    got = dump_hash(list(dead))
                    if want != got:
                        raise Unsupported(s, 'the branch not taken for the fixed parameters is not translated but pinned, '
                                          'and it changed (test %s, ast hash %s, pinned %s)' % (key, got, want))
                return self.block(list(live) + rest, env, ind, ctx)
            # axis chain, a final else that only raises the unknown-axis error is unreachable (axis is one of the names)
            chain = s
            last = None
            while chain.orelse and len(chain.orelse) == 1 and isinstance(chain.orelse[0], ast.If):
                chain = chain.orelse[0]
            ax = None
            if chain is not s and chain.orelse:
                e = chain.orelse
                un = self.sig.get('unknown_axis')
                if len(e) == 1 and isinstance(e[0], ast.Raise) and un and \
                        match_nodes(ast.parse(un['py'], mode='eval').body, e[0].exc) is not None \
                        and e[0].cause is None:
                    self.need_import(e[0], un['import'])
                    self.lookup(e[0].exc.args[0], env)
                    last = chain.orelse
                    chain.orelse = []
                    try:
                        ax = self.axis_chain(s, env, None)
                    finally:
                        chain.orelse = last
            else:
                ax = self.axis_chain(s, env, None)
            if ax is not None:
                at, branches = ax

                def head(rows, sp2):
                    return '%smatch %s with%s\n%send' % (sp2, at, ''.join('\n%s| %s =>\n%s' % (sp2, l, b) for l, b in rows), sp2)
                return self.join(s, rest, env, ind, ctx, branches, head)
            t, ty = self.expr(s.test, env, None)
            if ty != 'bool':
                tpl = self.sig.get('truth', {}).get(ty)
                if tpl is None:
                    raise Unsupported(s.test, 'truth value of a %s' % ty)
                t = fmt(tpl, t)
            if terminates(s.body) and not s.orelse:
                return '%sif %s then\n%s\n%selse\n%s' % (sp, t, self.block(list(s.body), env, ind + 2, ctx), sp,
                                                        self.block(rest, env, ind + 2, ctx))

            def head(rows, sp2):
                return '%sif %s then\n%s\n%selse\n%s' % (sp2, t, rows[0][1], sp2, rows[1][1])
            return self.join(s, rest, env, ind, ctx, [('then', s.body), ('else', s.orelse)], head)
        if isinstance(s, ast.For) and ctx is None and not s.orelse:
            return self.loop(s, rest, env, ind)
        raise Unsupported(s, 'statement %s' % type(s).__name__)

    def loop(self, s, rest, env, ind):
        sp = ' ' * ind
        sig = self.sig
        it = s.iter
        if not (isinstance(it, ast.Call) and isinstance(it.func, ast.Attribute)):
            raise Unsupported(s, 'for over something else than a method call')
        rt, rty = self.expr(it.func.value, env, None)
        ms = sig.get('methods', {}).get(rty, {}).get(it.func.attr)
        if not isinstance(ms, dict) or not ms.get('monadic'):
            raise Unsupported(s, 'for over .%s' % it.func.attr)
        callt, ity = self.call_spec(it, ms, rt, it.args, it.keywords, env, None)
        es = sig['iterables'][ity]
        if M.shape(s.target) != es['shape']:
            raise Unsupported(s, 'loop target of shape %s, signature has %s' % (M.shape(s.target), es['shape']))
        tn = M.names_of(s.target)
        if len(set(tn)) != len(tn) or any(x[0] == n for n in tn for x in env):
            raise Unsupported(s, 'loop variable shadows a local')
        carried = [n for n in self.assigned_deep(s.body) if any(x[0] == n for x in env)]
        if not carried:
            raise Unsupported(s, 'the loop updates no local of the enclosing block')
        vis = []
        for pn, cn, ty in env:
            vis = [x for x in vis if x[0] != pn] + [(pn, cn, ty)]
        fixed = [x for x in vis if x[0] not in carried]
        car = [x for x in vis if x[0] in carried]
        self.nloop += 1
        fname = '%s_loop%d' % (self.spec['coq'], self.nloop)
        params = ''.join(' (%s : %s)' % (cn, sig['types'][ty]) for pn, cn, ty in fixed + car)
        params += ' (l_ : list (%s))' % sig['types'][es['elem']]

        def tup(xs):
            return xs[0] if len(xs) == 1 else '(%s)' % ', '.join(xs)

        def rec(e2):
            args = [cn for pn, cn, ty in fixed] + [self.lookup(ast.Name(id=pn), e2)[0] for pn, cn, ty in car]
            return '%s %s rest_' % (fname, ' '.join(args))
        cns = [self.cname(n) for n in tn]
        benv = list(fixed) + list(car) + [(n, c, t) for n, c, t in zip(tn, cns, es['types'])]
        body = self.block(list(s.body), benv, 6, ('loop', rec))
        rty = ' * '.join(paren(sig['types'][ty]) for pn, cn, ty in car)
        self.aux.append('Fixpoint %s%s {struct l_} : %s :=\n  match l_ with\n  | [] => %s\n  | x_ :: rest_ =>\n'
                        '      let \'%s := x_ in\n%s\n  end.'
                        % (fname, params, rty, tup([cn for pn, cn, ty in car]), es['pat'].format(*cns), body))
        args = [cn for pn, cn, ty in fixed + car]
        pat = car[0][1] if len(car) == 1 else "'(%s)" % ', '.join(cn for pn, cn, ty in car)
        return '%sl_ <- %s ;;\n%slet %s := %s %s l_ in\n%s' % (sp, callt, sp, pat, fname, ' '.join(args),
                                                             self.block(rest, env, ind, None))

    def assigned_deep(self, stmts):
        out = []
        for s in stmts:
            for n in ast.walk(s):
                nm = None
                if isinstance(n, ast.Assign):
                    for t in n.targets:
                        for x in ast.walk(t):
                            if isinstance(x, ast.Name) and x.id not in out:
                                out.append(x.id)
                if isinstance(n, ast.AugAssign) and isinstance(n.target, ast.Name):
                    nm = n.target.id
                if isinstance(n, ast.Call) and isinstance(n.func, ast.Attribute) and n.func.attr == 'append' \
                        and isinstance(n.func.value, ast.Name):
                    nm = n.func.value.id
                if nm is not None and nm not in out:
                    out.append(nm)
        return out

    def translate(self, tree):
        self.tree = tree
        sig, spec, fn = self.sig, self.spec, self.node
        a = fn.args
        if a.vararg or a.kwarg or a.kwonlyargs or a.posonlyargs or fn.decorator_list:
            raise Unsupported(fn, 'signature of %s' % fn.name)
        names = [x.arg for x in a.args]
        if names != ['self'] + spec['all_params']:
            raise Unsupported(fn, 'parameters of %s are %s' % (fn.name, names))
        try:
            defs = [repr(ast.literal_eval(d)) for d in a.defaults]
        except ValueError:
            raise Unsupported(fn, 'defaults of %s' % fn.name)
        if defs != spec['defaults']:
            raise Unsupported(fn, 'defaults of %s changed: %s' % (fn.name, defs))
        env = [('self', 'self', sig['self_type'])]
        ps = ' (self : %s)' % sig['types'][sig['self_type']]
        for pn, pt in spec['params']:
            env.append((pn, self.cname(pn), pt))
            ps += ' (%s : %s)' % (self.cname(pn), sig['types'][pt])
        if sorted([p[0] for p in spec['params']] + list(self.fixed)) != sorted(spec['all_params']):
            raise Unsupported(fn, 'signature file: params + fixed do not cover the parameters')
        code = self.block(strip_doc(list(fn.body)), env, 2, None)
        text = 'Definition %s%s : result (%s) :=\n%s.' % (spec['coq'], ps, sig['types'][spec['returns']], code)
        return '\n\n'.join(self.aux + [text])


def translate(sig, repo):
    raw = open(os.path.join(repo, sig['source']), 'rb').read()
    tree = ast.parse(raw.decode('utf8'))
    cls = [n for n in tree.body if isinstance(n, ast.ClassDef) and n.name == sig['class']]
    if len(cls) != 1:
        raise Unsupported(tree, 'class %s not found' % sig['class'])
    methods = {}
    emitted = [e['py'] for e in sig['emit']]
    for n in cls[0].body:
        if isinstance(n, ast.FunctionDef):
            if n.name in methods and (n.name in sig.get('pinned', {}) or n.name in emitted or n.name in sig.get('method_defaults', {})):
                raise Unsupported(n, 'method %s is defined twice' % n.name)
            methods.setdefault(n.name, n)
    for name, h in sorted(sig.get('pinned', {}).items()):
        if name not in methods:
            raise Unsupported(cls[0], 'pinned method %s is missing' % name)
        got = M.ast_hash(methods[name])
        if got != h:
            raise Unsupported(methods[name], '%s is not translated but pinned (the primitives rely on it), '
                              'and it changed (ast hash %s, pinned %s)' % (name, got, h))
    for name, want in sorted(sig.get('method_defaults', {}).items()):
        if name not in methods:
            raise Unsupported(cls[0], 'method %s is missing' % name)
        a = methods[name].args
        got = [x.arg for x in a.args] + [repr(ast.literal_eval(d)) for d in a.defaults]
        if got != want or a.vararg or a.kwarg or a.kwonlyargs:
            raise Unsupported(methods[name], 'parameters / defaults of %s changed: %s' % (name, got))
    out = []
    for ent in sig['emit']:
        if ent['py'] not in methods:
            raise Unsupported(cls[0], 'method %s not found' % ent['py'])
        node = methods[ent['py']]
        text = CFn(sig, ent, node).translate(tree)
        out.append('(* %s.%s, lines %d-%d *)\n%s' % (sig['class'], ent['py'], node.lineno, node.end_lineno, text))
    head = ['(* GENERATED by tools/py2v_part from %s (class %s) - do not edit; regenerated on every check. *)'
            % (sig['source'], sig['class'])] + sig['header']
    text = '\n'.join(head) + '\n\n' + '\n\n'.join(out) + '\n' + ''.join(l + '\n' for l in sig.get('footer', []))
    return sig, text, hashlib.sha256(raw).hexdigest()
