#!/venv/bin/python
"""Translator-only self-test of tools/py2v_part (no Coq): every edit below is applied to a scratch copy of
biom/table.py and translated with --stdout; 'reject' edits must give exit code 2 and no output, 'accept' edits exit
code 0 and a text different from the one for the unedited source, 'same' edits exit code 0 and the same text.
usage: selftest.py [--repo DIR]   (exit code 0 = all as expected).  The edits that go through the whole
./check C11 are in edits_c11.py."""
import os, shutil, subprocess, sys, tempfile
HERE = os.path.dirname(os.path.abspath(__file__))
EDITS = [
 ('slot-3', 'reject', "partitions[part][2].append(md)", "partitions[part][3].append(md)"),
 ('append-wrong-type', 'reject', "partitions[part][0].append(id_)", "partitions[part][0].append(md)"),
 ('validate-true', 'reject', "self.table_id, type=self.type, validate=False,\n                        **indices)", "self.table_id, type=self.type, validate=True,\n                        **indices)"),
 ('type-dropped', 'reject', "self.table_id, type=self.type, validate=False,\n                        **indices)", "self.table_id, validate=False,\n                        **indices)"),
 ('no-indices', 'reject', "validate=False,\n                        **indices)", "validate=False)"),
 ('default-changed', 'reject', "    def partition(self, f, axis='sample', remove_empty=False,\n                  ignore_none=False):", "    def partition(self, f, axis='sample', remove_empty=False,\n                  ignore_none=True):"),
 ('print', 'reject', "            if ignore_none and part is None:\n                continue", "            print(part)\n            if ignore_none and part is None:\n                continue"),
 ('break', 'reject', "            if ignore_none and part is None:\n                continue", "            if ignore_none and part is None:\n                break"),
 ('axis-name', 'reject', "            elif axis == 'observation':\n                data = self._conv_to_self_type(values, transpose=False)", "            elif axis == 'obs':\n                data = self._conv_to_self_type(values, transpose=False)"),
 ('md-none', 'reject', "                samp_md = md[:] if md is not None else None", "                samp_md = None"),
 ('pinned-invert-axis', 'reject', "            return UnknownAxisError(axis)", "            raise UnknownAxisError(axis)"),
 ('hashable-rebound', 'reject', "from collections.abc import Hashable, Iterable", "from collections.abc import Iterable\nfrom typing import Hashable"),
 ('whole-remove-empty', 'reject', "                tab.remove_empty(inplace=True)", "                tab.remove_empty(axis='sample', inplace=True)"),
 ('yield-swapped', 'reject', "            yield part, tab", "            yield tab, part"),
 ('tuple-rebound', 'reject', "from collections.abc import Hashable, Iterable", "from collections.abc import Hashable, Iterable\ntuple = list"),
 ('is-not-none', 'accept', "            if ignore_none and part is None:", "            if ignore_none and part is not None:"),
 ('append-order', 'accept', "            partitions[part][0].append(id_)\n            partitions[part][1].append(vals)", "            partitions[part][1].append(vals)\n            partitions[part][0].append(id_)"),
 ('comment', 'same', "            # try to make it hashable...", "            # labels that cannot be dictionary keys"),
]


def run(repo):
    p = subprocess.run([sys.executable, os.path.join(HERE, 'main.py'), '--repo', repo, '--stdout', 'partition'], capture_output=True, text=True)
    return p.returncode, p.stdout, p.stderr


def main():
    repo = '/repo'
    if '--repo' in sys.argv:
        repo = sys.argv[sys.argv.index('--repo') + 1]
    rc0, base, err = run(repo)
    if rc0 != 0:
        print('unedited source refused: %s' % err)
        return 1
    bad = 0
    tmp = tempfile.mkdtemp(prefix='py2v_part_selftest')
    try:
        os.makedirs(os.path.join(tmp, 'biom'))
        src = open(os.path.join(repo, 'biom', 'table.py')).read()
        for name, want, old, new in EDITS:
            if src.count(old) != 1:
                print('%-20s the text to edit occurs %d times' % (name, src.count(old)))
                bad += 1
                continue
            open(os.path.join(tmp, 'biom', 'table.py'), 'w').write(src.replace(old, new))
            rc, out, err = run(tmp)
            got = 'reject' if rc == 2 and not out else 'same' if rc == 0 and out == base else 'accept' if rc == 0 else 'rc=%d' % rc
            ok = got == want
            bad += not ok
            print('%-20s %-7s %s  %s' % (name, want, 'ok' if ok else 'UNEXPECTED ' + got, err.strip().split('REFUSED', 1)[-1][:110]))
    finally:
        shutil.rmtree(tmp, ignore_errors=True)
    return 1 if bad else 0


if __name__ == '__main__':
    sys.exit(main())
