#!/bin/sh
# Extract run for one property and build its OCaml binary. Usage: build_model.sh c20
set -e
id="$1"; ID=$(echo "$id" | tr a-z A-Z)
root="$(cd "$(dirname "$0")/.." && pwd)"
mkdir -p "$root/build/ml" "$root/build/bin"
cd "$root/build/ml"
src="$root/coq/Run/Extract$ID.v"
# rebuild only if the Run .vo or the driver is newer than the binary
bin="$root/build/bin/$id"
if [ -x "$bin" ] && [ "$bin" -nt "$root/coq/Run/Run$ID.vo" ] && [ "$bin" -nt "$root/ocaml/driver_tail.ml" ] && [ "$bin" -nt "$src" ]; then exit 0; fi
cp "$src" "Extract$ID.v"
flock -s "$root/coq/.buildlock" timeout 600 coqc -Q "$root/coq" BiomV "Extract$ID.v" >/dev/null
rm -f "$id.mli"
cat "$id.ml" "$root/ocaml/driver_tail.ml" > "${id}_main.ml"
timeout 600 ocamlfind ocamlopt -w -a -O2 "${id}_main.ml" -o "$bin" 2>/dev/null || timeout 600 ocamlfind ocamlopt -w -a "${id}_main.ml" -o "$bin"
