#!/bin/sh
# tools/run_all.sh [tier] [ids...] : runs the checks (default: all 20, quick) four at a time, one summary line per check
tier=${1:-quick}; [ $# -gt 0 ] && shift
ids=${*:-C01 C02 C03 C04 C05 C06 C07 C08 C09 C10 C11 C12 C13 C14 C15 C16 C17 C18 C19 C20}
mkdir -p /verif/build/runall
for p in $ids; do echo $p; done | xargs -P4 -I{} sh -c "s=\$(date +%s); /verif/check {} --tier $tier > /verif/build/runall/{}.$tier.log 2>&1; rc=\$?; echo \"{} exit \$rc \$((\$(date +%s)-s))s \$(grep -c '^VIOLATION' /verif/build/runall/{}.$tier.log) violation-lines \$(grep -c '^KNOWN-FINDING' /verif/build/runall/{}.$tier.log) known-finding-lines\""
