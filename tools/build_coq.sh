#!/bin/sh
# Full .vo build of the Coq development (no -vos). Usage: build_coq.sh [make targets...]
set -e
cd "$(dirname "$0")/../coq"
{ echo "-Q . BiomV"; echo "-arg -w -arg -notation-overridden,-deprecated-hint-without-locality,-deprecated-instance-without-locality";
  find Base Model Gen Proofs Props Run -name '*.v' ! -name 'Extract*.v' | LC_ALL=C sort; } > _CoqProject.new
if ! cmp -s _CoqProject.new _CoqProject 2>/dev/null; then mv _CoqProject.new _CoqProject; coq_makefile -f _CoqProject -o Makefile >/dev/null; else rm _CoqProject.new; fi
[ -f Makefile ] || coq_makefile -f _CoqProject -o Makefile >/dev/null
# a runaway tactic must not take the machine down: 16 GB per coqc
ulimit -v 16000000 2>/dev/null || true
exec flock /verif/coq/.buildlock timeout 3000 make -j"${JOBS:-16}" "$@"
