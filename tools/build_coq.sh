#!/bin/sh
# Full .vo build of the Coq development (no -vos). Usage: build_coq.sh [make targets...]
# Everything (regenerating _CoqProject / Makefile from the tree and make itself) runs under one
# lock, so that checks started at the same time cannot trip over each other's temporary files.
set -e
self="$(cd "$(dirname "$0")" && pwd)/$(basename "$0")"
cd "$(dirname "$self")/../coq"
if [ -z "$BIOMV_BUILD_LOCKED" ]; then
  BIOMV_BUILD_LOCKED=1; export BIOMV_BUILD_LOCKED
  exec flock /verif/coq/.buildlock "$self" "$@"
fi
tmp=_CoqProject.new.$$
{ echo "-Q . BiomV"; echo "-arg -w -arg -notation-overridden,-deprecated-hint-without-locality,-deprecated-instance-without-locality";
  find Base Model Gen Proofs Props Run -name '*.v' ! -name 'Extract*.v' | LC_ALL=C sort; } > "$tmp"
if ! cmp -s "$tmp" _CoqProject 2>/dev/null; then mv "$tmp" _CoqProject; coq_makefile -f _CoqProject -o Makefile >/dev/null; else rm -f "$tmp"; fi
[ -f Makefile ] || coq_makefile -f _CoqProject -o Makefile >/dev/null
# a runaway tactic must not take the machine down: 16 GB per coqc
ulimit -v 16000000 2>/dev/null || true
exec timeout 3000 make -j"${JOBS:-16}" "$@"
