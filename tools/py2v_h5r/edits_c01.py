"""The edits of biom/table.py tried against the C01 translator tie of Table.from_hdf5 (docs/C01.md, "Translator tie"):
each is applied to a scratch copy of the repository (cp -r /repo /tmp/c01gen-repo first) and run through the whole
`BIOM_REPO=/tmp/c01gen-repo VERIF_OUT=/tmp/c01gen-out ./check C01`; rows go to /tmp/c01gen/rows.json.  Afterwards run
tools/regen_h5r.sh and ./check C01 against /repo again."""
import os, re, shutil, subprocess, sys, json, glob
REPO = '/tmp/c01gen-repo'
EDITS = [
 ('type-from-id', 'semantic', 'a non-empty type is replaced by the table id',
  "type_ = None if h5grp.attrs['type'] == '' else h5grp.attrs['type']", "type_ = None if h5grp.attrs['type'] == '' else h5grp.attrs['id']"),
 ('id-from-type', 'semantic', 'the table id is read from the type attribute',
  "id_ = h5grp.attrs['id']", "id_ = h5grp.attrs['type']"),
 ('genby-from-date', 'semantic', 'generated-by is read from creation-date',
  "generated_by = h5grp.attrs['generated-by']", "generated_by = h5grp.attrs['creation-date']"),
 ('obs-axis-from-sample', 'semantic', 'the observation ids / metadata are loaded from the sample group',
  "axis_load(h5grp['observation'])", "axis_load(h5grp['sample'])"),
 ('csc-csr-swapped', 'semantic', 'the sample copy is handed to csr_matrix and the observation copy to csc_matrix',
  "if axis == 'sample':\n            matrix = csc_matrix(cs, shape=shape)", "if axis == 'observation':\n            matrix = csc_matrix(cs, shape=shape)"),
 ('cs-order', 'semantic', 'indices and indptr change places in the triple handed to scipy',
  "cs = (data, indices, indptr)", "cs = (data, indptr, indices)"),
 ('ctor-grp-md-swapped', 'semantic', 'the constructor gets the two group metadata dicts in the other order',
  "observation_group_metadata=obs_grp_md,\n                  sample_group_metadata=samp_grp_md)",
  "observation_group_metadata=samp_grp_md,\n                  sample_group_metadata=obs_grp_md)"),
 ('ctor-md-swapped', 'semantic', 'the constructor gets the two metadata lists in the other order',
  "obs_md or None,\n                  samp_md or None", "samp_md or None,\n                  obs_md or None"),
 ('matrix-other-copy', 'semantic', 'the matrix datasets are always read from the observation copy',
  "data_grp = h5grp[axis]['matrix']", "data_grp = h5grp['observation']['matrix']"),
 ('indices-from-indptr', 'semantic', 'indices is read from the indptr dataset',
  'h5_indices = data_grp["indices"]', 'h5_indices = data_grp["indptr"]'),
 ('parser-taxonomy-general', 'semantic', "axis_load: the category 'taxonomy' is parsed by general_parser",
  "parser['taxonomy'] = vlen_list_of_str_parser", "parser['taxonomy'] = general_parser"),
 ('none-when-any', 'semantic', 'axis_load: metadata becomes None when some id HAS a category',
  "md = md if any(md) else None", "md = None if any(md) else md"),
 ('lets-swapped', 'preserving', 'the two independent assignments data / indices swapped',
  "            data = h5_data\n            indices = h5_indices\n", "            indices = h5_indices\n            data = h5_data\n"),
 ('axis-list-order', 'preserving', 'the list of the axis test in the other order',
  "if axis not in ['sample', 'observation']:", "if axis not in ['observation', 'sample']:"),
 ('cs-inlined', 'preserving', 'the triple written at both uses instead of the name cs',
  "        cs = (data, indices, indptr)\n\n        if axis == 'sample':\n            matrix = csc_matrix(cs, shape=shape)\n        else:\n            matrix = csr_matrix(cs, shape=shape)",
  "        if axis == 'sample':\n            matrix = csc_matrix((data, indices, indptr), shape=shape)\n        else:\n            matrix = csr_matrix((data, indices, indptr), shape=shape)"),
 ('message-text', 'reject', 'another message text in the instance test', 'raise ValueError("h5grp does not appear to be an HDF5 file or "', 'raise ValueError("h5grp is not an HDF5 file or "'),
 ('pinned-axis-load', 'reject', 'axis_load (pinned, not translated) unescapes the category names to another character',
  "category = category.replace('@@SLASH@@', '/')", "category = category.replace('@@SLASH@@', '|')"),
 ('other-exception', 'reject', 'the axis refusal raises ValueError', "            raise UnknownAxisError(axis)\n\n        if parse_fs is None:", "            raise ValueError(axis)\n\n        if parse_fs is None:"),
]
names = sys.argv[1:]
rows = []
os.makedirs('/tmp/c01gen', exist_ok=True)
for name, group, what, old, new in EDITS:
    if names and name not in names:
        continue
    shutil.copy('/repo/biom/table.py', REPO + '/biom/table.py')
    s = open(REPO + '/biom/table.py').read()
    assert s.count(old) == 1, (name, s.count(old))
    open(REPO + '/biom/table.py', 'w').write(s.replace(old, new))
    env = dict(os.environ, BIOM_REPO=REPO, VERIF_OUT='/tmp/c01gen-out')
    shutil.rmtree('/tmp/c01gen-out/replays', ignore_errors=True)
    p = subprocess.run(['./check', 'C01'], cwd='/verif', env=env, capture_output=True, text=True)
    out = p.stdout + p.stderr
    open('/tmp/c01gen/%s.log' % name, 'w').write(out)
    refused = [l for l in out.split('\n') if 'REFUSED' in l]
    try:
        ev = json.load(open('/tmp/c01gen-out/evidence/C01.json'))
        refused += [l for l in ev['coverage']['trusted_base'] if 'REFUSED' in l]
    except Exception:
        pass
    diff = subprocess.run(['git', 'diff', '--quiet', '--', 'coq/Gen/Hdf5ReadGen.v'], cwd='/verif').returncode
    broke = ''
    rep = {}
    for f in glob.glob('/tmp/c01gen-out/replays/C01-*.json'):
        try:
            rep = json.load(open(f))
        except Exception:
            pass
    out2 = out
    if p.returncode and not refused:
        q = subprocess.run('ulimit -v 8000000; timeout 300 coqc -Q . BiomV Gen/Hdf5ReadGen.v && timeout 300 coqc -Q . BiomV '
                           'Proofs/GenBridgeHdf5ReadProofs.v && timeout 300 coqc -Q . BiomV Props/C01.v', shell=True,
                           cwd='/verif/coq', capture_output=True, text=True)
        out2 = q.stdout + q.stderr
    m = re.search(r'File "\./(Gen/Hdf5ReadGen\.v|Proofs/GenBridgeHdf5ReadProofs\.v|Props/C01\.v)", line (\d+)', out2)
    if m:
        lines = open('/verif/coq/' + m.group(1)).read().split('\n')[:int(m.group(2))]
        for l in reversed(lines):
            mm = re.match(r'(Lemma|Theorem|Example|Definition|Fixpoint)\s+(\w+)', l)
            if mm:
                broke = m.group(1) + ': ' + mm.group(2)
                break
    verdict = [l for l in out.split('\n') if l.startswith('VIOLATION') or 'quick:' in l]
    fail = json.dumps([rep.get('case', ''), rep.get('impl', ''), rep.get('oracle', '')], default=str)[:400]
    rows.append((name, group, what, 'REFUSES' if refused else 'accepts', 'differs' if diff else 'same text',
                 broke or (refused[0][:200] if refused else 'all proofs check'), ' | '.join(verdict)[:300], p.returncode, fail))
    print(rows[-1], flush=True)
shutil.copy('/repo/biom/table.py', REPO + '/biom/table.py')
json.dump(rows, open('/tmp/c01gen/rows%s.json' % ('-' + names[0] if names else ''), 'w'), indent=1)
