#!/venv/bin/python
"""py2v_h5r: small fail-closed translator for the READER Table.from_hdf5 (reader mode, DESIGN 3.1 T23).
The statements of the method are translated one by one into a Gallina term of type `result loaded`
over the hand-written vocabulary coq/Gen/H5ReadPrelude.v (h5py reads = accessors of the file tree of
coq/Model/Hdf5.v): an assignment is a let (of a raising read: a bind, a tuple target: a pattern
binder), `if T: raise E(..)` is a refusal with the error code of the exception class, an `if/else`
assigning one name is a conditional let, a conditional expression with a raising test binds the
test first.  The method is specialised to the call shape of the three load paths (the parameters
listed under "specialise" have their default value): a test that is statically false under it
removes its branch, which is pinned by AST hash instead.  Statements the model answers by typing
(listed verbatim under "typed_skips") produce nothing; nested helper functions are pinned by AST
hash and stand for a primitive of the vocabulary.

usage: main.py [--repo DIR] [--out DIR] [--stdout] [--hashes] [target ...]
Any AST node, name, attribute, call, keyword, constant or message text not covered by the signature
file gives exit code 2 and NO file is written.  Output is deterministic; a file is rewritten only
when its text changed.  Source text is never copied into the output."""
import ast
import glob
import hashlib
import json
import os
import sys

HERE = os.path.dirname(os.path.abspath(__file__))


class Unsupported(Exception):
    def __init__(self, node, msg):
        Exception.__init__(self, 'line %s: %s' % (getattr(node, 'lineno', 0), msg))


def dump(n):
    return ast.dump(n, annotate_fields=False, include_attributes=False)


def dump_hash(nodes, extra=''):
    text = dump(ast.Module(body=nodes, type_ignores=[]))
    return hashlib.sha256((text + extra).encode()).hexdigest()[:16]


def strip_doc(body):
    if body and isinstance(body[0], ast.Expr) and isinstance(getattr(body[0], 'value', None), ast.Constant) \
            and isinstance(body[0].value.value, str):
        return body[1:]
    return body


def ast_hash(fn):
    return dump_hash(strip_doc(fn.body), '|' + dump(fn.args))


def paren(t):
    t = t.strip()
    if ' ' not in t or (t[0] == '[' and t[-1] == ']' and t.count('[') == 1):
        return t
    if t[0] == '(' and t[-1] == ')':
        depth = 0
        for i, ch in enumerate(t):
            depth += ch == '('
            depth -= ch == ')'
            if depth == 0:
                if i == len(t) - 1:
                    return t
                break
    return '(%s)' % t


def is_hole(n):
    return isinstance(n, ast.Name) and n.id.startswith('_') and n.id.endswith('_') and n.id[1:-1].isdigit()


def match_pattern(p, node, binds):
    if is_hole(p):
        k = int(p.id[1:-1])
        if k in binds:
            return dump(binds[k]) == dump(node)
        binds[k] = node
        return True
    if type(p) is not type(node):
        return False
    for f in p._fields:
        a, b = getattr(p, f, None), getattr(node, f, None)
        if isinstance(a, list):
            if not isinstance(b, list) or len(a) != len(b):
                return False
            for x, y in zip(a, b):
                if isinstance(x, ast.AST):
                    if not match_pattern(x, y, binds):
                        return False
                elif x != y:
                    return False
        elif isinstance(a, ast.AST):
            if not isinstance(b, ast.AST) or not match_pattern(a, b, binds):
                return False
        elif f not in ('ctx', 'kind', 'type_comment') and a != b:
            return False
    return True


class Tr:
    def __init__(self, sig):
        self.sig = sig
        self.pats = [(ast.parse(p['py'], mode='eval').body, p) for p in sig['patterns']]
        self.skips = [dump(ast.parse(s).body[0]) for s in sig['typed_skips']]
        self.static = dict((dump(ast.parse(k, mode='eval').body), v) for k, v in sig['static_tests'].items())
        self.spats = [(ast.parse(p['py']).body[0], p) for p in sig.get('stmt_patterns', [])]
        self.defs = []
        self.nk = 0

    def fresh(self):
        self.nk += 1
        return 'v%d_' % self.nk

    # ------------------------------------------------------------ expressions: -> (coq text, raises?)
    def lift(self, t, r):
        return t if r else 'ret %s' % paren(t)

    def expr(self, n, env):
        for p, ent in self.pats:
            b = {}
            if match_pattern(p, n, b):
                for nm in ent.get('needs', []):
                    if nm not in env:
                        raise Unsupported(n, 'name %r is not bound here' % nm)
                args = []
                for k in range(len(b)):
                    t, r = self.expr(b[k], env)
                    if r:
                        raise Unsupported(n, 'raising read nested in a call')
                    args.append(paren(t))
                return ent['coq'].format(*args), bool(ent.get('raises'))
        if isinstance(n, ast.Name):
            if n.id not in env:
                if n.id in self.sig.get('globals', {}):
                    return self.sig['globals'][n.id], False
                raise Unsupported(n, 'unknown name %r' % n.id)
            return n.id, False
        if isinstance(n, ast.Constant):
            key = repr(n.value)
            if key not in self.sig['constants']:
                raise Unsupported(n, 'constant %s not in the signature' % key)
            return self.sig['constants'][key], False
        if isinstance(n, ast.List) or isinstance(n, ast.Tuple):
            parts = []
            for e in n.elts:
                t, r = self.expr(e, env)
                if r:
                    raise Unsupported(n, 'raising read nested in a display')
                parts.append(t)
            if isinstance(n, ast.List):
                return '[%s]' % '; '.join(parts), False
            return '(%s)' % ', '.join(parts), False
        if isinstance(n, ast.Compare) and len(n.ops) == 1:
            lt, lr = self.expr(n.left, env)
            rt, rr = self.expr(n.comparators[0], env)
            if rr:
                raise Unsupported(n, 'raising read on the right of a comparison')
            op = type(n.ops[0])
            if op is ast.Eq:
                f = lambda a: 'str_eq %s %s' % (paren(a), paren(rt))
            elif op is ast.NotIn:
                f = lambda a: 'negb (name_in %s %s)' % (paren(a), paren(rt))
            else:
                raise Unsupported(n, 'comparison %s' % op.__name__)
            if lr:
                v = self.fresh()
                return 'bind (%s) (fun %s => ret (%s))' % (lt, v, f(v)), True
            return f(lt), False
        if isinstance(n, ast.IfExp):
            tt, tr = self.expr(n.test, env)
            bt, br = self.branch(n.body, n.orelse, env)
            ot, orr = self.branch(n.orelse, n.body, env)
            if not (tr or br or orr):
                return 'if %s then %s else %s' % (tt, bt, ot), False
            body = 'if {c} then %s else %s' % (self.lift(bt, br), self.lift(ot, orr))
            if tr:
                c = self.fresh()
                return 'bind (%s) (fun %s => %s)' % (tt, c, body.format(c=c)), True
            return body.format(c=tt), True
        raise Unsupported(n, 'expression %s' % type(n).__name__)

    def branch(self, n, other, env):
        """a branch of a conditional expression; next to a None branch a value is wrapped in Some"""
        none = lambda x: isinstance(x, ast.Constant) and x.value is None
        t, r = self.expr(n, env)
        if none(other) and not none(n):
            if r:
                v = self.fresh()
                return 'bind (%s) (fun %s => ret (Some %s))' % (t, v, v), True
            return 'Some %s' % paren(t), False
        return t, r

    # ------------------------------------------------------------ statements
    def static_test(self, t):
        return self.static.get(dump(t))

    def stmts(self, body, env, pins):
        if not body:
            raise Unsupported(None, 'the method falls off its end')
        s, rest = body[0], body[1:]
        if dump(s) in self.skips:
            return self.stmts(rest, env, pins)
        if isinstance(s, ast.Import):
            for a in s.names:
                if a.name not in self.sig['imports'] or a.asname:
                    raise Unsupported(s, 'import %s' % a.name)
            return self.stmts(rest, env, pins)
        for pat, ent in self.spats:
            b = {}
            if match_pattern(pat, s, b):
                for nm in ent.get('needs', []):
                    if nm not in env:
                        raise Unsupported(s, 'name %r is not bound here' % nm)
                args = []
                for k in range(len(b)):
                    t, r = self.expr(b[k], env)
                    if r:
                        raise Unsupported(s, 'raising read nested in a statement pattern')
                    args.append(paren(t))
                env2 = dict(env)
                for nm in ent.get('binds', []):
                    env2[nm] = 1
                return ent['coq'].format(*args) + '\n  ' + self.stmts(rest, env2, pins)
        if isinstance(s, ast.For):
            h = dump_hash([s])
            ent = self.sig.get('pinned_loops', {}).get(h)
            if ent is None:
                raise Unsupported(s, 'loop is not pinned in the signature (AST hash %s)' % h)
            for nm in ent['needs']:
                if nm not in env:
                    raise Unsupported(s, 'name %r is not bound where the pinned loop starts' % nm)
            pins.add('loop:' + h)
            env2 = dict(env)
            for nm in ent['binds']:
                env2[nm] = 1
            return ent['coq'] + '\n  ' + self.stmts(rest, env2, pins) + ')'
        if isinstance(s, ast.FunctionDef) and s.name in self.sig.get('translated_defs', {}):
            ent = self.sig['translated_defs'][s.name]
            if dump(s.args) != dump(ast.parse(ent['def_line']).body[0].args) or s.decorator_list:
                raise Unsupported(s, 'parameter list of nested function %s changed' % s.name)
            for nm in ent['closure']:
                if nm not in env:
                    raise Unsupported(s, 'name %r is not bound where %s is defined' % (nm, s.name))
            sub = set()
            env2 = dict((nm, 1) for nm in ent['closure'] + ent['params'])
            term = self.stmts(strip_doc(list(s.body)), env2, sub)
            pins.update('%s/%s' % (s.name, x) for x in sub)
            self.defs.append('Definition %s %s : %s :=\n  %s.' % (ent['coq'], ent['binders'], ent['ret'], term))
            env2 = dict(env)
            env2[s.name] = 1
            return self.stmts(rest, env2, pins)
        if isinstance(s, ast.FunctionDef):
            want = self.sig['pinned_defs'].get(s.name)
            if want is None:
                raise Unsupported(s, 'nested function %s is not in the signature' % s.name)
            if ast_hash(s) != want:
                raise Unsupported(s, 'pinned nested function %s changed (AST hash %s, expected %s)' % (s.name, ast_hash(s), want))
            pins.add(s.name)
            return self.stmts(rest, env, pins)
        if isinstance(s, ast.If):
            st = self.static_test(s.test)
            if st is False:
                key = 'if@%d' % len([p for p in pins if p.startswith('if@')])
                want = self.sig['pinned_branches'].get(key)
                h = dump_hash(s.body)
                if want != h:
                    raise Unsupported(s, 'pinned branch %s changed (AST hash %s, expected %s)' % (key, h, want))
                pins.add(key)
                return self.stmts(list(s.orelse) + rest, env, pins)
            if st is not None:
                raise Unsupported(s, 'statically true test')
            if len(s.body) == 1 and isinstance(s.body[0], ast.Raise) and not s.orelse:
                tt, tr = self.expr(s.test, env)
                if tr:
                    raise Unsupported(s, 'raising read in a guard')
                return 'if %s then %s else\n  %s' % (tt, self.raise_(s.body[0], env), self.stmts(rest, env, pins))
            if len(s.body) == 1 and len(s.orelse) == 1 and all(
                    isinstance(x, ast.Assign) and len(x.targets) == 1 and isinstance(x.targets[0], ast.Name)
                    for x in (s.body[0], s.orelse[0])) and s.body[0].targets[0].id == s.orelse[0].targets[0].id:
                name = s.body[0].targets[0].id
                self.check_local(s, name)
                tt, tr = self.expr(s.test, env)
                at, ar = self.expr(s.body[0].value, env)
                bt, br = self.expr(s.orelse[0].value, env)
                if tr or ar or br:
                    raise Unsupported(s, 'raising read in a conditional assignment')
                env2 = dict(env)
                env2[name] = 1
                return 'let %s := if %s then %s else %s in\n  %s' % (name, tt, at, bt, self.stmts(rest, env2, pins))
            raise Unsupported(s, 'if statement of this shape')
        if isinstance(s, ast.Assign) and len(s.targets) == 1:
            tg = s.targets[0]
            if isinstance(tg, ast.Name):
                names, binder = [tg.id], tg.id
            elif isinstance(tg, ast.Tuple) and all(isinstance(e, ast.Name) for e in tg.elts):
                names = [e.id for e in tg.elts]
                binder = "'(%s)" % ', '.join(names)
            else:
                raise Unsupported(s, 'assignment target')
            for nm in names:
                self.check_local(s, nm)
            t, r = self.expr(s.value, env)
            env2 = dict(env)
            for nm in names:
                env2[nm] = 1
            k = self.stmts(rest, env2, pins)
            if r:
                return 'bind (%s) (fun %s =>\n  %s)' % (t, binder, k)
            return 'let %s := %s in\n  %s' % (binder, t, k)
        if isinstance(s, ast.Return) and s.value is not None:
            if rest:
                raise Unsupported(s, 'statements after return')
            t, r = self.expr(s.value, env)
            return self.lift(t, r)
        raise Unsupported(s, 'statement %s' % type(s).__name__)

    def check_local(self, s, nm):
        if nm not in self.sig['locals']:
            raise Unsupported(s, 'local name %r is not in the signature' % nm)

    def raise_(self, s, env):
        e = s.exc
        if not (isinstance(e, ast.Call) and isinstance(e.func, ast.Name) and not e.keywords and s.cause is None):
            raise Unsupported(s, 'raise of this shape')
        ent = self.sig['exceptions'].get(e.func.id)
        if ent is None:
            raise Unsupported(s, 'exception class %s' % e.func.id)
        args = [dump(a) for a in e.args]
        allowed = [[dump(ast.parse(a, mode='eval').body) for a in alt] for alt in ent['args']]
        if args not in allowed:
            raise Unsupported(s, 'arguments of %s are not listed in the signature' % e.func.id)
        return 'raise %s' % ent['code']


def translate(sigpath, repo):
    sig = json.load(open(sigpath))
    src = open(os.path.join(repo, sig['source'])).read()
    sha = hashlib.sha256(src.encode()).hexdigest()
    tree = ast.parse(src)
    cls = [n for n in tree.body if isinstance(n, ast.ClassDef) and n.name == sig['class']]
    if len(cls) != 1:
        raise Unsupported(None, 'class %s not found once' % sig['class'])
    ms = [n for n in cls[0].body if isinstance(n, ast.FunctionDef) and n.name == sig['method']]
    if len(ms) != 1:
        raise Unsupported(None, 'method %s not found once' % sig['method'])
    fn = ms[0]
    if dump(fn.args) != dump(ast.parse(sig['def_line']).body[0].args):
        raise Unsupported(fn, 'parameter list of %s changed' % sig['method'])
    if [dump(d) for d in fn.decorator_list] != [dump(ast.parse(d, mode='eval').body) for d in sig['decorators']]:
        raise Unsupported(fn, 'decorators of %s changed' % sig['method'])
    tr = Tr(sig)
    env = dict((p, 1) for p in sig['params'])
    pins = set()
    term = tr.stmts(strip_doc(list(fn.body)), env, pins)
    mods = dict((n.name, n) for n in tree.body if isinstance(n, ast.FunctionDef))
    for name, want in sorted(sig.get('pinned_module_defs', {}).items()):
        if name not in mods or ast_hash(mods[name]) != want:
            raise Unsupported(mods.get(name), 'pinned module function %s changed or is missing (expected AST hash %s)' % (name, want))
    for name, ent in sig.get('translated_defs', {}).items():
        for h in ent.get('loops', []):
            if 'loop:' + h not in [x.split('/', 1)[-1] for x in pins]:
                raise Unsupported(fn, 'pinned loop %s of %s not met' % (h, name))
    missing = (set(sig['pinned_defs']) | set(sig['pinned_branches'])) - pins
    if missing:
        raise Unsupported(fn, 'pinned parts not met: %s' % sorted(missing))
    out = list(sig['header'])
    for d in tr.defs:
        out.append('')
        out.append(d)
    out.append('')
    out.append('Definition %s %s : %s :=' % (sig['coq'], sig['binders'], sig['ret']))
    out.append('  ' + term + '.')
    return sig, '\n'.join(out) + '\n', sha, fn


def main(argv):
    repo = os.environ.get('BIOM_REPO', '/repo')
    outroot = os.path.dirname(os.path.dirname(HERE))
    to_stdout = hashes = False
    targets = []
    it = iter(argv)
    for a in it:
        if a == '--repo':
            repo = next(it)
        elif a == '--out':
            outroot = next(it)
        elif a == '--stdout':
            to_stdout = True
        elif a == '--hashes':
            hashes = True
        else:
            targets.append(a)
    sigs = sorted(glob.glob(os.path.join(HERE, 'sigs', '*.json')))
    if targets:
        sigs = [s for s in sigs if os.path.basename(s)[:-5] in targets]
        if len(sigs) != len(targets):
            print('py2v_h5r: unknown target in %s' % targets, file=sys.stderr)
            return 2
    if hashes:   # maintenance: print the AST hashes the signature files pin
        for s in sigs:
            sig = json.load(open(s))
            tree = ast.parse(open(os.path.join(repo, sig['source'])).read())
            cls = [n for n in tree.body if isinstance(n, ast.ClassDef) and n.name == sig['class']][0]
            fn = [n for n in cls.body if isinstance(n, ast.FunctionDef) and n.name == sig['method']][0]
            for n in tree.body:
                if isinstance(n, ast.FunctionDef) and n.name in sig.get('pinned_module_defs', {}):
                    print('module def', n.name, ast_hash(n))
            for n in ast.walk(fn):
                if isinstance(n, ast.FunctionDef) and n.name in sig.get('translated_defs', {}):
                    for st in n.body:
                        if isinstance(st, ast.For):
                            print('loop in', n.name, dump_hash([st]))
            k = 0
            tr = Tr(sig)
            for st in strip_doc(list(fn.body)):
                if isinstance(st, ast.FunctionDef):
                    print('def', st.name, ast_hash(st))
                if isinstance(st, ast.If) and tr.static_test(st.test) is False:
                    print('if@%d' % k, dump_hash(st.body))
                    k += 1
        return 0
    failed = False
    for s in sigs:
        src = json.load(open(s))['source']
        try:
            sig, out, sha, _ = translate(s, repo)
        except Unsupported as e:
            print('py2v_h5r: REFUSED %s (%s): %s' % (src, os.path.basename(s)[:-5], e), file=sys.stderr)
            failed = True
            continue
        except (OSError, SyntaxError, ValueError, KeyError, IndexError, TypeError, AttributeError, AssertionError) as e:
            print('py2v_h5r: REFUSED %s (%s): %s: %s' % (src, os.path.basename(s)[:-5], type(e).__name__, e), file=sys.stderr)
            failed = True
            continue
        if to_stdout:
            sys.stdout.write(out)
            continue
        path = os.path.join(outroot, sig['output'])
        old = open(path).read() if os.path.exists(path) else None
        if old != out:
            os.makedirs(os.path.dirname(path), exist_ok=True)
            tmp = path + '.tmp'
            open(tmp, 'w').write(out)
            os.replace(tmp, path)
            state = 'written'
        else:
            state = 'unchanged'
        print('py2v_h5r: %s -> %s %s (source sha256 %s)' % (sig['source'], sig['output'], state, sha))
    return 2 if failed else 0


if __name__ == '__main__':
    sys.exit(main(sys.argv[1:]))
