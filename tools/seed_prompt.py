#!/usr/bin/env python3
"""prints the prompt for an independent mutation-seeding agent for one property"""
import json, sys
pid = sys.argv[1]
p = [json.loads(l) for l in open('/verif/properties.jsonl') if json.loads(l)['id'] == pid][0]
wt = '/tmp/seed-%s' % pid
out = '/tmp/seedout-%s' % pid
print(f"""You are testing how well a (hidden) verification effort protects a semantic property of the Python library biocore/biom-format (a sparse count-matrix library: Table class over scipy sparse matrices, JSON/HDF5/TSV readers and writers, a validator, a CLI). You must NOT read anything under /verif or /root/.claude (your work has to be independent of it). Work ONLY in your own scratch git worktree of the repository:

    git -C /repo worktree add {wt} -b seed-{pid}
    cp /repo/biom/*.so {wt}/biom/     # compiled Cython kernels are gitignored; Cython is NOT installed, so edits to .pyx files have no runtime effect: change .py files

Run Python as `cd {wt} && PYTHONPATH={wt} PYTHONHASHSEED=0 /venv/bin/python ...` (check that `import biom; biom.__file__` points into {wt}). The existing test suite is run with
    cd {wt} && PYTHONPATH={wt} /venv/bin/python -m pytest -q -p no:cacheprovider --timeout=900 --continue-on-collection-errors
and currently passes completely (377 passed, 7 skipped). Never edit /repo itself and never edit test files.

The property (id {pid}): {p['title']}
STATEMENT: {p['statement']}
IT QUANTIFIES OVER: {p['quantifier']['text']}
Code it is anchored in: {', '.join(p['anchors']['files'])}; mechanisms: {'; '.join(m['name'] + ' (' + m.get('where','') + ')' for m in p['anchors']['mechanism'])}

YOUR TASK: produce THREE different realistic changes (call them m1, m2, m3) to the library source — each the kind of slip or well-meant refactoring a maintainer could plausibly commit — such that each one (a) still imports and passes the complete existing test suite unchanged (run it; all tests that pass now must pass), and (b) BREAKS the property above, but only under something specific: an unusual input, a particular internal sparse layout left behind by an earlier operation, a multi-step sequence of operations, a particular flag combination, or two cooperating sites that each look fine alone — NOT something ordinary use or the existing fixtures would expose at once. The three should use different mechanisms and touch different code where possible, and each should be small (a few lines). Do not add dead code, environment checks, randomness or time bombs: the change must be ordinary-looking code whose behaviour differs deterministically on the triggering inputs.

For each mutant mK write into {out}/mK/ :
  patch.diff  — `git diff` of the working tree against the branch point, applying cleanly with `git -C <a checkout of the same commit> apply patch.diff` (create it with `git -C {wt} diff > ...` and then `git -C {wt} checkout -- .` before starting the next mutant, so that each patch is independent);
  demo.py     — a small self-contained program that exits 0 on the unchanged library and exits non-zero (assert) with the change applied, demonstrating the property violation through the PUBLIC API (run it both ways yourself with PYTHONPATH set to the worktree with/without the patch and say what you saw);
  notes.md    — which clause of the property it breaks, what exactly is needed for it to manifest, why the existing tests do not see it, and the test-suite result with the change applied (counts).
When done, leave the worktree clean (`git -C {wt} checkout -- .`) and report the three mutants in a few lines each. Do not remove the worktree (I will).""")
