#!/usr/bin/env python3
"""py2v_uc: fail-closed translator for the uc importer, biom/parse.py parse_uc -> coq/Gen/UcGen.v.

A module-level function whose body is: initialisations, ONE `for x in <param>:` loop, a `return` of
the constructor call named by the signature file.  The loop body becomes a definition of one turn
(`<loop>_gen free.. state item : outcome state`), the function `obind (ofor ..)`.  Every expression
and statement is translated over the hand-written vocabulary coq/Gen/StrPrelude.v + UcPrelude.v;
the types of the locals come from the signature file (tools/py2v_uc/sigs/uc.json).  Anything
outside the subset (an AST node, a name, a call, an attribute, a keyword, a message text that the
signature file does not list) is a refusal: exit code 2 and NO file is written.  Output is
deterministic; the file is rewritten only when its text changed.

    main.py --repo /repo --out /verif [uc]
"""
import argparse
import ast
import hashlib
import json
import os
import sys

HERE = os.path.dirname(os.path.abspath(__file__))


class Refuse(Exception):
    def __init__(self, node, msg):
        line = getattr(node, 'lineno', '?')
        Exception.__init__(self, 'line %s: %s' % (line, msg))


def ast_hash(node):
    return hashlib.sha256(ast.dump(node).encode()).hexdigest()[:16]


def coq_text(s):
    return '[' + '; '.join('%d' % ord(c) for c in s) + ']'


EXN = ('IndexError', 'ValueError', 'KeyError')


class Fn:
    def __init__(self, sig, fn):
        self.sig = sig
        self.fn = fn
        self.types = dict(sig['locals'])
        self.n = 0
        self.loop = None          # (state names) while inside the loop body

    def fresh(self):
        self.n += 1
        return 'v_%d' % self.n

    # ---------------------------------------------------------------- expressions
    # -> (binds [(name, outcome term)], pure term, type)
    def ex(self, e, env):
        b, t, y = self.ex0(e, env)
        return b, self.par(t), y

    def ex0(self, e, env):
        if isinstance(e, ast.Name):
            if not isinstance(e.ctx, ast.Load) or e.id not in env:
                raise Refuse(e, 'name %r is not a local defined on this path' % e.id)
            return [], e.id, env[e.id]
        if isinstance(e, ast.Constant):
            if isinstance(e.value, str):
                return [], coq_text(e.value), 'text'
            raise Refuse(e, 'constant %r' % (e.value,))
        if isinstance(e, ast.List) and not e.elts:
            return [], '[]', 'list'
        if isinstance(e, ast.Dict) and not e.keys:
            return [], 'idict_empty', 'idict'
        if isinstance(e, ast.Tuple) and len(e.elts) == 2:
            b1, t1, y1 = self.ex(e.elts[0], env)
            b2, t2, y2 = self.ex(e.elts[1], env)
            if (y1, y2) != ('nat', 'nat'):
                raise Refuse(e, 'tuple of %s, %s' % (y1, y2))
            return b1 + b2, '(%s, %s)' % (t1, t2), 'natpair'
        if isinstance(e, ast.UnaryOp) and isinstance(e.op, ast.Not):
            b, t, y = self.ex(e.operand, env)
            if y in ('text', 'texts'):
                return b, 'lempty %s' % t, 'bool'
            if y == 'bool':
                return b, 'negb (%s)' % t, 'bool'
            raise Refuse(e, 'not of %s' % y)
        if isinstance(e, ast.BoolOp):
            parts = [self.ex(v, env) for v in e.values]
            if any(p[0] for p in parts) or any(p[2] != 'bool' for p in parts):
                raise Refuse(e, 'and/or over operands that can raise or are not bool')
            op = ' || ' if isinstance(e.op, ast.Or) else ' && '
            return [], '(' + op.join('(%s)' % p[1] for p in parts) + ')', 'bool'
        if isinstance(e, ast.Compare) and len(e.ops) == 1:
            op = e.ops[0]
            b1, t1, y1 = self.ex(e.left, env)
            b2, t2, y2 = self.ex(e.comparators[0], env)
            if isinstance(op, (ast.Eq, ast.NotEq)) and (y1, y2) == ('text', 'text'):
                t = 'teqb %s %s' % (t1, t2)
                return b1 + b2, (t if isinstance(op, ast.Eq) else 'negb (%s)' % t), 'bool'
            if isinstance(op, (ast.In, ast.NotIn)) and y1 == 'text' and y2 in ('strset', 'idict'):
                t = ('str_in %s %s' if y2 == 'strset' else 'idict_mem %s %s') % (t1, t2)
                return b1 + b2, (t if isinstance(op, ast.In) else 'negb (%s)' % t), 'bool'
            raise Refuse(e, 'comparison %s of %s and %s' % (type(op).__name__, y1, y2))
        if isinstance(e, ast.Subscript):
            b, t, y = self.ex(e.value, env)
            s = e.slice
            if isinstance(s, ast.Slice):
                if s.lower is not None or s.step is not None or s.upper is None:
                    raise Refuse(e, 'slice other than [:n]')
                b2, t2, y2 = self.ex(s.upper, env)
                if y != 'text' or y2 != 'nat':
                    raise Refuse(e, 'slice of %s by %s' % (y, y2))
                return b + b2, 'str_prefix %s %s' % (t, t2), 'text'
            if y == 'texts' and isinstance(s, ast.Constant) and type(s.value) is int and s.value >= 0:
                v = self.fresh()
                return b + [(v, 'seq_at %s %d' % (t, s.value))], v, 'text'
            if y == 'idict':
                b2, t2, y2 = self.ex(s, env)
                if y2 != 'text':
                    raise Refuse(e, 'dict key of type %s' % y2)
                v = self.fresh()
                return b + b2 + [(v, 'idict_at %s %s' % (t, t2))], v, 'nat'
            raise Refuse(e, 'subscript of %s' % y)
        if isinstance(e, ast.Call):
            if e.keywords:
                raise Refuse(e, 'keyword argument')
            f = e.func
            if isinstance(f, ast.Name):
                if f.id == 'len' and len(e.args) == 1:
                    b, t, y = self.ex(e.args[0], env)
                    if y not in ('texts', 'text'):
                        raise Refuse(e, 'len of %s' % y)
                    return b, 'length %s' % t, 'nat'
                if f.id == 'defaultdict' and len(e.args) == 1 and isinstance(e.args[0], ast.Name) \
                        and e.args[0].id == 'int' and 'defaultdict' in self.sig['imports']:
                    return [], 'dd_empty', 'ddict'
                if f.id == 'set' and len(e.args) == 1 and isinstance(e.args[0], ast.Constant) \
                        and isinstance(e.args[0].value, str):
                    return [], '[' + '; '.join(coq_text(c) for c in e.args[0].value) + ']', 'strset'
                raise Refuse(e, 'call of %r' % f.id)
            if isinstance(f, ast.Attribute):
                b, t, y = self.ex(f.value, env)
                if y == 'text' and f.attr == 'strip' and not e.args:
                    return b, 'py_strip %s' % t, 'text'
                if y == 'text' and f.attr == 'split' and not e.args:
                    return b, 'py_split_ws %s' % t, 'texts'
                if y == 'text' and f.attr in ('split', 'rindex') and len(e.args) == 1 \
                        and isinstance(e.args[0], ast.Constant) and isinstance(e.args[0].value, str) \
                        and len(e.args[0].value) == 1:
                    c = ord(e.args[0].value)
                    if f.attr == 'split':
                        return b, 'split_char %d %s' % (c, t), 'texts'
                    v = self.fresh()
                    return b + [(v, 'str_rindex %d %s' % (c, t))], v, 'nat'
                raise Refuse(e, 'method %r of %s' % (f.attr, y))
        raise Refuse(e, 'expression %s' % type(e).__name__)

    @staticmethod
    def par(t):
        return t if ' ' not in t or t.startswith('[') or t.startswith('(') else '(%s)' % t

    def binds(self, b, ind):
        return ''.join('%sobind (%s) (fun %s =>\n' % (ind, t, v) for v, t in b), ')' * len(b)

    # ---------------------------------------------------------------- statements
    def assigned(self, stmts):
        out = []

        def add(n):
            if n not in out:
                out.append(n)
        for s in stmts:
            for n in ast.walk(s):
                if isinstance(n, ast.Name) and isinstance(n.ctx, ast.Store):
                    add(n.id)
                elif isinstance(n, (ast.Assign, ast.AugAssign)):
                    for t in (n.targets if isinstance(n, ast.Assign) else [n.target]):
                        if isinstance(t, ast.Subscript) and isinstance(t.value, ast.Name):
                            add(t.value.id)
                elif isinstance(n, ast.Call) and isinstance(n.func, ast.Attribute) and n.func.attr == 'append' \
                        and isinstance(n.func.value, ast.Name):
                    add(n.func.value.id)
        return out

    def terminates(self, stmts):
        if not stmts:
            return False
        s = stmts[-1]
        if isinstance(s, (ast.Continue, ast.Raise, ast.Return)):
            return True
        if isinstance(s, ast.If):
            return self.terminates(s.body) and self.terminates(s.orelse)
        return False

    @staticmethod
    def tup(names):
        return 'tt' if not names else names[0] if len(names) == 1 else '(' + ', '.join(names) + ')'

    @staticmethod
    def pat(names):
        return '_' if not names else names[0] if len(names) == 1 else "'(" + ', '.join(names) + ')'

    def setvar(self, node, env, name, ty):
        want = self.types.get(name)
        if want is None:
            raise Refuse(node, 'local %r is not typed by the signature file' % name)
        if ty == 'list':
            ty = want if want in ('texts',) else ty
        if ty != want:
            raise Refuse(node, 'local %r: %s where the signature file says %s' % (name, ty, want))
        env = dict(env)
        env[name] = ty
        return env

    def join(self, node, branches, env, rest, k, ind, wrap=None):
        """branches: list of (head text or None, stmts); evaluates the statement as an outcome of the
        joined variables, then continues with rest."""
        names = []
        for _, st in branches:
            for n in self.assigned(st):
                if n not in names:
                    names.append(n)
        ends = []

        def kend(e):
            ends.append(e)
            return None
        # first pass: find the variables every non-terminating branch defines (or that exist before)
        save = self.n
        for _, st in branches:
            if not self.terminates(st):
                self.block(st, env, kend, ind, dry=True)
        self.n = save
        names = [n for n in names if n in env or all(n in e for e in ends)]
        for n in names:
            tys = set(e[n] for e in ends if n in e) | ({env[n]} if n in env else set())
            if len(tys) != 1:
                raise Refuse(node, 'local %r has two types at a join' % n)
        newenv = dict(env)
        for n in names:
            newenv[n] = (ends[0][n] if ends and n in ends[0] else env[n])
        ret = 'Val %s' % self.tup(names)
        return names, newenv, (lambda e, i: i + ret + '\n')

    def block(self, stmts, env, k, ind, dry=False):
        """k(env, ind) -> text of what follows the statements."""
        if dry:
            kk = k
            k = lambda e, i: (kk(e), '')[1]
        if not stmts:
            return k(env, ind)
        s, rest = stmts[0], stmts[1:]
        nxt = lambda e, i: self.block(rest, e, k, i)
        if isinstance(s, ast.Expr) and isinstance(s.value, ast.Constant) and isinstance(s.value.value, str):
            return nxt(env, ind)                                   # docstring
        if isinstance(s, ast.Pass):
            return nxt(env, ind)
        if isinstance(s, ast.Assign) and len(s.targets) == 1:
            t = s.targets[0]
            if isinstance(t, ast.Name):
                b, tm, ty = self.ex(s.value, env)
                env2 = self.setvar(s, env, t.id, ty)
                o, c = self.binds(b, ind)
                return o + '%slet %s := %s in\n' % (ind, t.id, tm) + nxt(env2, ind) + (c and ind + c + '\n')
            if isinstance(t, ast.Subscript) and isinstance(t.value, ast.Name) and env.get(t.value.id) == 'idict':
                b1, k1, y1 = self.ex(t.slice, env)
                b2, v2, y2 = self.ex(s.value, env)
                if (y1, y2) != ('text', 'nat'):
                    raise Refuse(s, 'dict store of %s -> %s' % (y1, y2))
                d = t.value.id
                o, c = self.binds(b2 + b1, ind)
                return o + '%slet %s := idict_set %s %s %s in\n' % (ind, d, d, self.par(k1), self.par(v2)) \
                    + nxt(env, ind) + (c and ind + c + '\n')
            raise Refuse(s, 'assignment target')
        if isinstance(s, ast.AugAssign) and isinstance(s.op, ast.Add) and isinstance(s.target, ast.Subscript) \
                and isinstance(s.target.value, ast.Name) and env.get(s.target.value.id) == 'ddict' \
                and isinstance(s.value, ast.Constant) and type(s.value.value) is int:
            b, key, y = self.ex(s.target.slice, env)
            if y != 'natpair':
                raise Refuse(s, 'defaultdict key of type %s' % y)
            d = s.target.value.id
            o, c = self.binds(b, ind)
            return o + '%slet %s := dd_incr %s %s %d in\n' % (ind, d, d, key, s.value.value) + nxt(env, ind) \
                + (c and ind + c + '\n')
        if isinstance(s, ast.Expr) and isinstance(s.value, ast.Call) and isinstance(s.value.func, ast.Attribute) \
                and s.value.func.attr == 'append' and isinstance(s.value.func.value, ast.Name) \
                and len(s.value.args) == 1 and not s.value.keywords:
            l = s.value.func.value.id
            if env.get(l) != 'texts':
                raise Refuse(s, 'append to %s' % env.get(l))
            b, tm, ty = self.ex(s.value.args[0], env)
            if ty != 'text':
                raise Refuse(s, 'append of %s' % ty)
            o, c = self.binds(b, ind)
            return o + '%slet %s := %s ++ [%s] in\n' % (ind, l, l, tm) + nxt(env, ind) + (c and ind + c + '\n')
        if isinstance(s, ast.Continue):
            if rest or self.loop is None:
                raise Refuse(s, 'continue here')
            return '%sVal %s\n' % (ind, self.tup(self.loop))
        if isinstance(s, ast.Raise):
            return ind + self.raise_(s) + '\n'
        if isinstance(s, ast.Return):
            if self.loop is not None or rest:
                raise Refuse(s, 'return here')
            return self.ret(s, env, ind)
        if isinstance(s, ast.If):
            b, c, y = self.ex(s.test, env)
            if y != 'bool':
                raise Refuse(s, 'condition of type %s' % y)
            o, cl = self.binds(b, ind)
            t1, t2 = self.terminates(s.body), self.terminates(s.orelse)
            if t1 or t2 or not rest:
                k1 = (lambda e, i: '') if t1 else nxt
                k2 = (lambda e, i: '') if t2 else nxt
                return o + '%sif %s then\n' % (ind, c) + self.block(s.body, env, k1, ind + '  ') \
                    + '%selse\n' % ind + self.block(s.orelse, env, k2, ind + '  ') + (cl and ind + cl + '\n')
            names, env2, kend = self.join(s, [(None, s.body), (None, s.orelse)], env, rest, k, ind)
            return o + '%sobind (if %s then\n' % (ind, c) + self.block(s.body, env, kend, ind + '    ') \
                + '%s  else\n' % ind + self.block(s.orelse, env, kend, ind + '    ') \
                + '%s) (fun %s =>\n' % (ind, self.pat(names)) + nxt(env2, ind) + ind + ')' + cl + '\n'
        if isinstance(s, ast.Try):
            if len(s.handlers) != 1 or s.orelse or s.finalbody:
                raise Refuse(s, 'try shape')
            h = s.handlers[0]
            if not isinstance(h.type, ast.Name) or h.type.id not in EXN or h.name is not None:
                raise Refuse(h, 'except clause')
            if not self.terminates(h.body) or self.terminates(s.body):
                raise Refuse(s, 'try: the handler must end in raise / continue and the body fall through')
            names, env2, kend = self.join(s, [(None, s.body)], env, rest, k, ind)
            return '%sobind (ocatch (\n' % ind + self.block(s.body, env, kend, ind + '    ') \
                + '%s  ) %s (\n' % (ind, h.type.id) + self.block(h.body, env, lambda e, i: '', ind + '    ') \
                + '%s  )) (fun %s =>\n' % (ind, self.pat(names)) + nxt(env2, ind) + ind + ')\n'
        raise Refuse(s, 'statement %s' % type(s).__name__)

    def raise_(self, s):
        e = s.exc
        if s.cause is not None or not isinstance(e, ast.Call) or not isinstance(e.func, ast.Name) \
                or e.func.id not in EXN or e.keywords or len(e.args) != 1 \
                or not isinstance(e.args[0], ast.Constant) or not isinstance(e.args[0].value, str):
            raise Refuse(s, 'raise shape')
        if e.args[0].value not in self.sig['messages'].get(e.func.id, []):
            raise Refuse(s, 'message text of %s is not in the signature file' % e.func.id)
        return 'Exn %s' % e.func.id

    def ret(self, s, env, ind):
        c = self.sig['constructor']
        e = s.value
        if not isinstance(e, ast.Call) or not isinstance(e.func, ast.Name) or e.func.id != c['name'] \
                or c['name'] not in self.sig['imports']:
            raise Refuse(s, 'return of something other than %s(..)' % c['name'])
        args = {}
        if len(e.args) > len(c['positional']):
            raise Refuse(s, 'positional arguments of %s' % c['name'])
        for n, a in zip(c['positional'], e.args):
            args[n] = a
        for kw in e.keywords:
            if kw.arg is None or kw.arg in args or kw.arg not in c['fields']:
                raise Refuse(s, 'keyword %r of %s' % (kw.arg, c['name']))
            args[kw.arg] = kw.value
        if sorted(args) != sorted(c['fields']):
            raise Refuse(s, 'arguments of %s: %s' % (c['name'], sorted(args)))
        out = []
        for n in c['fields']:
            b, t, y = self.ex(args[n], env)
            if b or y != c['types'][n]:
                raise Refuse(s, 'argument %s of %s has type %s' % (n, c['name'], y))
            out.append(self.par(t))
        return '%sVal (%s %s)\n' % (ind, c['coq'], ' '.join(out))

    # ---------------------------------------------------------------- the function
    def emit(self):
        fn, sig = self.fn, self.sig
        a = fn.args
        if [x.arg for x in a.args] != sig['params'] or a.vararg or a.kwarg or a.kwonlyargs or a.defaults \
                or a.posonlyargs or fn.decorator_list:
            raise Refuse(fn, 'parameters / decorators differ from the signature file')
        body = list(fn.body)
        loops = [i for i, s in enumerate(body) if isinstance(s, ast.For)]
        if len(loops) != 1:
            raise Refuse(fn, 'exactly one for loop expected')
        li = loops[0]
        loop = body[li]
        if loop.orelse or not isinstance(loop.target, ast.Name) or not isinstance(loop.iter, ast.Name) \
                or loop.iter.id != sig['params'][0]:
            raise Refuse(loop, 'loop shape')
        for n in ast.walk(loop):
            if n is not loop and isinstance(n, (ast.For, ast.While, ast.Break, ast.Return)):
                raise Refuse(n, '%s inside the loop' % type(n).__name__)
        env0 = {sig['params'][0]: 'lines'}
        # prefix: plain initialisations
        pre = []

        def kpre(e, i):
            pre.append(e)
            return ''
        init = self.block(body[:li], env0, kpre, '  ')
        env1 = pre[0]
        item = loop.target.id
        if item in env1:
            raise Refuse(loop, 'loop variable shadows a local')
        asg = self.assigned(loop.body)
        state = [n for n in env1 if n in asg]
        reads = set(n.id for n in ast.walk(loop) if isinstance(n, ast.Name))
        free = [n for n in env1 if n not in state and n in reads and env1[n] != 'lines']
        COQ = {'text': 'text', 'texts': 'list text', 'strset': 'list text', 'nat': 'nat', 'idict': 'idict',
               'ddict': 'ddict'}
        self.loop = state
        envb = dict((n, env1[n]) for n in free + state)
        envb[item] = 'text'
        self.types[item] = 'text'
        step = self.block(loop.body, envb, lambda e, i: '%sVal %s\n' % (i, self.tup(state)), '  ')
        self.loop = None
        name = sig['loop_name']
        sty = ' * '.join(COQ[env1[n]] for n in state)
        out = []
        out.append('(* the loop of %s (line %d): one turn *)\n' % (fn.name, loop.lineno))
        out.append('Definition %s_gen %s (st : %s) (%s : text) : outcome (%s) :=\n'
                   % (name, ' '.join('(%s : %s)' % (n, COQ[env1[n]]) for n in free), sty, item, sty))
        out.append("  let %s := st in\n" % self.pat(state))
        out.append(step.rstrip('\n') + '.\n\n')
        tail = self.block(body[li + 1:], env1, lambda e, i: (_ for _ in ()).throw(Refuse(fn, 'function can end without return')), '    ')
        out.append('(* %s, lines %d-%d *)\n' % (fn.name, fn.lineno, fn.end_lineno))
        out.append('Definition %s_gen (%s : list text) : outcome %s :=\n' % (fn.name, sig['params'][0], sig['constructor']['coq_type']))
        out.append(init)
        out.append('  obind (ofor (%s_gen %s) %s %s) (fun %s =>\n'
                   % (name, ' '.join(free), sig['params'][0], self.tup(state), self.pat(state)))
        out.append(tail.rstrip('\n') + ').\n')
        return ''.join(out)


def translate(sig, repo):
    path = os.path.join(repo, sig['source'])
    with open(path, 'rb') as fh:
        raw = fh.read()
    mod = ast.parse(raw.decode('utf-8'))
    have = {}
    fns = []
    for s in mod.body:
        if isinstance(s, ast.ImportFrom) and s.level == 0:
            for al in s.names:
                have[al.asname or al.name] = '%s.%s' % (s.module, al.name)
        elif isinstance(s, ast.Import):
            for al in s.names:
                have[(al.asname or al.name).split('.')[0]] = al.name
        elif isinstance(s, (ast.FunctionDef, ast.ClassDef)):
            if s.name in sig['imports'] or s.name in ('len', 'set', 'int') + EXN:
                raise Refuse(s, 'module-level definition shadows %r' % s.name)
            if isinstance(s, ast.FunctionDef) and s.name == sig['function']:
                fns.append(s)
        elif isinstance(s, (ast.Assign, ast.AugAssign, ast.AnnAssign)):
            for n in ast.walk(s):
                if isinstance(n, ast.Name) and isinstance(n.ctx, ast.Store) and \
                        (n.id in sig['imports'] or n.id in ('len', 'set', 'int') + EXN):
                    raise Refuse(s, 'module-level assignment shadows %r' % n.id)
    for name, origin in sorted(sig['imports'].items()):
        if have.get(name) != origin:
            raise Refuse(mod, 'the module does not import %s as %s' % (origin, name))
    if len(fns) != 1:
        raise Refuse(mod, 'function %s not found exactly once' % sig['function'])
    for pin in sig.get('pinned', []):       # relied on, not translated: identified by the hash of the AST
        with open(os.path.join(repo, pin['source']), 'rb') as fh:
            pm = ast.parse(fh.read().decode('utf-8'))
        found = [m for c in pm.body if isinstance(c, ast.ClassDef) and c.name == pin['class']
                 for m in c.body if isinstance(m, ast.FunctionDef) and m.name == pin['method']]
        if len(found) != 1 or ast_hash(found[0]) != pin['hash']:
            raise Refuse(mod, 'pinned %s %s.%s is missing or changed' % (pin['source'], pin['class'], pin['method']))
    text = Fn(sig, fns[0]).emit()
    head = ('(* GENERATED by tools/py2v_uc from %s (%s) - do not edit; regenerated on every check. *)\n'
            'From Coq Require Import List Arith ZArith Bool.\n'
            'From BiomV Require Import Model.Table Model.Slicer Gen.StrPrelude Gen.UcPrelude.\n'
            'Import ListNotations.\nOpen Scope Z_scope.\n\n' % (sig['source'], sig['function']))
    return head + text, hashlib.sha256(raw).hexdigest()


def main(argv):
    ap = argparse.ArgumentParser()
    ap.add_argument('--repo', default=os.environ.get('BIOM_REPO', '/repo'))
    ap.add_argument('--out', default=os.path.dirname(os.path.dirname(HERE)))
    ap.add_argument('targets', nargs='*')
    a = ap.parse_args(argv)
    targets = a.targets or ['uc']
    results = []
    rc = 0
    for t in targets:
        p = os.path.join(HERE, 'sigs', t + '.json')
        if not os.path.exists(p):
            print('py2v_uc: REFUSED %s: no signature file' % t, file=sys.stderr)
            return 2
        with open(p) as fh:
            sig = json.load(fh)
        try:
            text, sha = translate(sig, a.repo)
        except Refuse as e:
            print('py2v_uc: REFUSED %s (%s): %s' % (sig['source'], t, e), file=sys.stderr)
            rc = 2
            continue
        except Exception as e:  # fail closed on anything unexpected
            print('py2v_uc: REFUSED %s (%s): %s: %s' % (sig['source'], t, type(e).__name__, e), file=sys.stderr)
            rc = 2
            continue
        results.append((sig, text, sha))
    if rc:
        return rc
    for sig, text, sha in results:
        dst = os.path.join(a.out, sig['output'])
        old = None
        if os.path.exists(dst):
            with open(dst) as fh:
                old = fh.read()
        if old != text:
            with open(dst + '.tmp', 'w') as fh:
                fh.write(text)
            os.replace(dst + '.tmp', dst)
            state = 'written'
        else:
            state = 'unchanged'
        print('py2v_uc: %s -> %s %s (source sha256 %s)' % (sig['source'], sig['output'], state, sha))
    return 0


if __name__ == '__main__':
    sys.exit(main(sys.argv[1:]))
