"""The edits of parse_uc (biom/parse.py) tried against the C17 uc-importer translator tie (docs/C17.md, "Translator
tie"): each is applied to a scratch copy of the repository (cp -r /repo /tmp/c17gen-repo first) and run through the
whole `BIOM_REPO=/tmp/c17gen-repo VERIF_OUT=/tmp/c17gen-out ./check C17`; rows go to /tmp/c17gen/rows.json.
Afterwards run tools/regen.sh and ./check C17 against /repo again.
C17GEN_VERIF (default /verif) is the framework tree the check is run in: a private copy (tar without .git to
/tmp/c17gen-verif) keeps other people's tools/regen.sh runs from rewriting coq/Gen/UcGen.v between the regeneration and
the build of an edit."""
import glob, os, re, shutil, subprocess, sys, json
REPO = '/tmp/c17gen-repo'
V = os.environ.get('C17GEN_VERIF', '/verif')
REF = subprocess.run(['git', 'show', 'HEAD:coq/Gen/UcGen.v'], cwd='/verif', capture_output=True, text=True).stdout
F = '/biom/parse.py'
EDITS = [
 ('types-HS', 'semantic', 'library seeds (L) are no longer read', "line_types = set('HSL')", "line_types = set('HS')"),
 ('field-swap', 'semantic', 'the target is read from the query field', "observation_id = fields[9].split()[0]", "observation_id = fields[8].split()[0]"),
 ('star-off', 'semantic', 'the "query is the seed" marker changed', "if observation_id == '*':", "if observation_id == '-':"),
 ('index-late', 'semantic', 'the observation index is taken after the append (off by one)',
  "            observation_idx = len(observation_ids)\n            observation_ids.append(observation_id)\n",
  "            observation_ids.append(observation_id)\n            observation_idx = len(observation_ids)\n"),
 ('H-only', 'semantic', 'seed lines (S) are not counted', "if line_type == 'H' or line_type == 'S':", "if line_type == 'H' or line_type == 'H':"),
 ('sample-is-query', 'semantic', 'the sample id is the whole query label', "sample_id = query_id[:underscore_index]", "sample_id = query_id"),
 ('count-2', 'semantic', 'every record counts twice', "data[(observation_idx, sample_idx)] += 1", "data[(observation_idx, sample_idx)] += 2"),
 ('dict-stale', 'semantic', 'a new sample id is not entered into its dict', "                sample_idxs[sample_id] = sample_idx\n", "                pass\n"),
 ('swap-key', 'semantic', 'the count is stored under (sample, observation)', "data[(observation_idx, sample_idx)] += 1", "data[(sample_idx, observation_idx)] += 1"),
 ('no-strip', 'semantic', 'the line is not stripped',
  "        # determine if the current line is one that we need\n        line = line.strip()", "        # determine if the current line is one that we need\n        line = line"),
 ('or-flip', 'preserving', "the H / S test written S / H", "if line_type == 'H' or line_type == 'S':", "if line_type == 'S' or line_type == 'H':"),
 ('append-order', 'preserving', 'dict store before the append in the observation block',
  "            observation_ids.append(observation_id)\n            observation_idxs[observation_id] = observation_idx\n",
  "            observation_idxs[observation_id] = observation_idx\n            observation_ids.append(observation_id)\n"),
 ('not-in', 'preserving', 'sample block: branches swapped under `not in`',
  "            if sample_id in sample_idxs:\n                sample_idx = sample_idxs[sample_id]\n            else:\n                sample_idx = len(sample_ids)\n                sample_idxs[sample_id] = sample_idx\n                sample_ids.append(sample_id)\n",
  "            if sample_id not in sample_idxs:\n                sample_idx = len(sample_ids)\n                sample_idxs[sample_id] = sample_idx\n                sample_ids.append(sample_id)\n            else:\n                sample_idx = sample_idxs[sample_id]\n"),
 ('index', 'reject', 'rindex -> index (first underscore)', "query_id.rindex('_')", "query_id.index('_')"),
 ('message', 'reject', 'the error message text changed', "underscore. An underscore is required", "underscore. One underscore is required"),
 ('maxsplit', 'reject', 'split with a second argument', "fields = line.split('\\t')\n\n        line_type", "fields = line.split('\\t', 10)\n\n        line_type"),
 ('ctor-kw', 'reject', 'a further keyword handed to the constructor', "sample_ids=sample_ids)\n\n\ndef parse_biom_table", "sample_ids=sample_ids, type='OTU table')\n\n\ndef parse_biom_table"),
]
names = sys.argv[1:]
rows = []
os.makedirs('/tmp/c17gen', exist_ok=True)
for name, group, what, old, new in EDITS:
    if names and name not in names:
        continue
    shutil.copy('/repo' + F, REPO + F)
    subprocess.run(['tools/regen_uc.sh'], cwd=V, capture_output=True)    # a refusal leaves the /repo text
    s = open(REPO + F).read()
    assert s.count(old) == 1, name
    open(REPO + F, 'w').write(s.replace(old, new))
    env = dict(os.environ, BIOM_REPO=REPO, VERIF_OUT='/tmp/c17gen-out')
    shutil.rmtree('/tmp/c17gen-out', ignore_errors=True)
    p = subprocess.run(['./check', 'C17'], cwd=V, env=env, capture_output=True, text=True)
    out = p.stdout + p.stderr
    open('/tmp/c17gen/%s.log' % name, 'w').write(out)
    diff = open(V + '/coq/Gen/UcGen.v').read() != REF
    broke = ''
    rep = {}
    for f in glob.glob('/tmp/c17gen-out/replays/C17-*.json'):
        try:
            rep = json.load(open(f))
        except Exception:
            pass
    refused = re.findall(r'(?:py2v_uc: REFUSED|translator rejected) [^\\\n\']*', out + str(rep.get('broken', '')))
    out2 = out
    if p.returncode and not refused:
        q = subprocess.run('ulimit -v 8000000; timeout 300 coqc -Q . BiomV Gen/UcGen.v && timeout 300 coqc -Q . BiomV '
                           'Proofs/GenBridgeUcProofs.v && timeout 300 coqc -Q . BiomV Props/C17.v', shell=True,
                           cwd=V + '/coq', capture_output=True, text=True)
        out2 = q.stdout + q.stderr
    m = re.search(r'File "\./(Gen/UcGen\.v|Proofs/GenBridgeUcProofs\.v|Props/C17\.v)", line (\d+)', out2)
    if m:
        lines = open(V + '/coq/' + m.group(1)).read().split('\n')[:int(m.group(2))]
        for l in reversed(lines):
            mm = re.match(r'\s*(Lemma|Theorem|Example|Definition)\s+(\w+)', l)
            if mm:
                broke = m.group(1) + ': ' + mm.group(2)
                break
    verdict = [l for l in out.split('\n') if l.startswith('VIOLATION') or 'quick:' in l]
    fail = json.dumps([rep.get('case', ''), rep.get('impl', ''), rep.get('oracle', '')])[:400]
    rows.append((name, group, what, 'REFUSES' if refused else 'accepts', 'differs' if diff else 'same text',
                 broke or (refused[0][:160] if refused else 'all proofs check'), ' | '.join(verdict)[:300], p.returncode, fail))
    print(rows[-1], flush=True)
shutil.copy('/repo' + F, REPO + F)
subprocess.run(['tools/regen_uc.sh'], cwd=V, capture_output=True)
old = [r for r in (json.load(open('/tmp/c17gen/rows.json')) if os.path.exists('/tmp/c17gen/rows.json') else []) if r[0] not in [x[0] for x in rows]]
json.dump(old + [list(r) for r in rows], open('/tmp/c17gen/rows.json', 'w'), indent=1)
