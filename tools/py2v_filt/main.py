#!/venv/bin/python
"""py2v_filt: small fail-closed translator for the Python-level wrappers of filtering
(biom/_filter.pyx `_filter` through tools/decython.py; biom/table.py Table.filter / remove_empty / head).
Every numpy / scipy / builtin / Table operation becomes a named primitive of the hand-written prelude
coq/Gen/FiltPrelude.v, chosen by the signature file from the SHAPE of the expression (callee name or
method name, number of positional arguments, keyword names; for comparisons and subscripts also the shape
of the left operand).  Statements become nested lets (a later binding of a name shadows the earlier one);
an operation that may raise becomes a bind of the result monad; an `if` whose branches only rebind names
becomes a let of a conditional tuple, any other `if` repeats the rest of the block in its branches; a
`for` becomes rfold over the names the signature lists as its state.  A method returns the pair
(receiver afterwards, value); `t = self if c else self.copy()` makes later reads of `self` read
`if c then t else self` (the two names are one object when c holds).  Calls of a translated function
take their missing arguments from the defaults written in the callee's `def`.

usage: main.py [--repo DIR] [--out DIR] [--stdout] [--hashes] [target ...]
Any AST node, name, attribute, call, keyword, constant, message text not covered by the signature file
gives exit code 2 and NO file is written.  Functions the primitives stand for are pinned by AST hash.
Output is deterministic; a file is rewritten only when its text changed.  Source text is never copied
into the output.  (Sibling of tools/py2v, py2v_dyn, py2v_eq, ...; docs/translator.md, "Wrapper mode".)"""
import ast
import glob
import hashlib
import json
import os
import sys

HERE = os.path.dirname(os.path.abspath(__file__))
sys.path.insert(0, os.path.dirname(HERE))


class Unsupported(Exception):
    def __init__(self, node, msg):
        Exception.__init__(self, 'line %s: %s' % (getattr(node, 'lineno', 0), msg))


def dump_hash(nodes, extra=''):
    text = ast.dump(ast.Module(body=nodes, type_ignores=[]), annotate_fields=False, include_attributes=False)
    return hashlib.sha256((text + extra).encode()).hexdigest()[:16]


def strip_doc(body):
    if body and isinstance(body[0], ast.Expr) and isinstance(getattr(body[0], 'value', None), ast.Constant) \
            and isinstance(body[0].value.value, str):
        return body[1:]
    return body


def ast_hash(fn):
    return dump_hash(strip_doc(fn.body), '|' + ast.dump(fn.args, annotate_fields=False, include_attributes=False))


def top_bindings(tree):
    b = {}

    def put(name, origin):
        b[name] = 'AMBIGUOUS' if name in b else origin
    for n in tree.body:
        if isinstance(n, ast.ImportFrom):
            for a in n.names:
                put(a.asname or a.name, '%s%s.%s' % ('.' * n.level, n.module or '', a.name))
        elif isinstance(n, ast.Import):
            for a in n.names:
                put((a.asname or a.name).split('.')[0], 'module:' + a.name)
        elif isinstance(n, (ast.FunctionDef, ast.ClassDef)):
            put(n.name, 'local:' + n.name)
        elif isinstance(n, ast.Assign):
            for t in n.targets:
                for x in ast.walk(t):
                    if isinstance(x, ast.Name):
                        put(x.id, 'assigned')
    return b


def find_fn(tree, qual):
    body = tree.body
    parts = qual.split('.')
    for p in parts[:-1]:
        cls = [n for n in body if isinstance(n, ast.ClassDef) and n.name == p]
        if len(cls) != 1:
            raise Unsupported(tree, 'class %s not found exactly once' % p)
        body = cls[0].body
    fns = [n for n in body if isinstance(n, ast.FunctionDef) and n.name == parts[-1]]
    if len(fns) != 1:
        raise Unsupported(tree, 'function %s not found exactly once' % qual)
    return fns[0]


def paren(t):
    t = t.strip()
    if ' ' not in t and '\n' not in t:
        return t
    if t[0] == '(' and t[-1] == ')':
        d = 0
        for i, ch in enumerate(t):
            d += ch == '('
            d -= ch == ')'
            if d == 0 and i < len(t) - 1:
                break
        else:
            return t
    return '(' + t + ')'


class Fn:
    """translation of one function"""

    def __init__(self, tr, spec, node, bindings):
        self.tr, self.sig, self.spec, self.node, self.bindings = tr, tr.sig, spec, node, bindings
        self.locals = set()
        self.alias = None      # (table name, self name, condition name)
        self.nbind = 0
        self.fresh = 0
        self.method = bool(spec.get('method'))

    # ---------------------------------------------------------------- shapes
    def shape(self, n):
        if isinstance(n, ast.Name):
            return 'name:' + n.id
        if isinstance(n, ast.Attribute):
            return '.' + n.attr
        if isinstance(n, ast.Call):
            return self.call_key(n)[0]
        if isinstance(n, ast.Constant):
            return 'const'
        return type(n).__name__

    def call_key(self, n):
        kws = []
        for k in n.keywords:
            if k.arg is None:
                raise Unsupported(n, '** argument')
            kws.append(k.arg)
        tail = '/%d/%s' % (len(n.args), ','.join(sorted(kws)))
        f = n.func
        if isinstance(f, ast.Name):
            return f.id + tail, None
        if isinstance(f, ast.Attribute):
            if isinstance(f.value, ast.Name) and f.value.id in self.sig['modules'] and f.value.id not in self.locals:
                want = self.sig['modules'][f.value.id]
                if self.bindings.get(f.value.id) != want:
                    raise Unsupported(n, 'module name %s is bound to %s' % (f.value.id, self.bindings.get(f.value.id)))
                return '%s.%s%s' % (f.value.id, f.attr, tail), None
            return '.' + f.attr + tail, f.value
        raise Unsupported(n, 'callee form')

    def find_call(self, n):
        """(key, receiver, rule or None, positional args): the rule is looked up first with the shape of the
        receiver (or of the first argument) appended after '@'"""
        key, recv = self.call_key(n)
        args = list(n.args)
        if key == 'isinstance/2/' and isinstance(args[1], ast.Name) and args[1].id not in self.locals:
            cls = args[1].id
            r = self.sig['isinstance'].get(cls)
            if r is None or self.bindings.get(cls) != r['origin']:
                raise Unsupported(n, 'isinstance with %s (bound to %s)' % (cls, self.bindings.get(cls)))
            return 'isinstance:' + cls, None, r, args[:1]
        first = recv if recv is not None else (args[0] if args else None)
        r = None
        if first is not None:
            r = self.sig['calls'].get('%s@%s' % (key, self.shape(first)))
        if r is None:
            r = self.sig['calls'].get(key)
        return key, recv, r, args

    # ---------------------------------------------------------------- expressions
    def new(self, base):
        self.fresh += 1
        return '%s_%d' % (base, self.fresh)

    def rd(self, name, node):
        if name not in self.locals:
            raise Unsupported(node, 'name %s is not a local of the function' % name)
        if self.alias and name == self.alias[1]:
            return '(if %s then %s else %s)' % (self.alias[2], self.alias[0], self.alias[1])
        return name

    def const(self, n):
        v = n.value
        if v is True:
            return 'true'
        if v is False:
            return 'false'
        if isinstance(v, int):
            return '%d%%Z' % v if v >= 0 else '(%d)%%Z' % v
        if isinstance(v, str):
            if v not in self.sig['strings']:
                raise Unsupported(n, 'string constant not in the signature')
            return self.sig['strings'][v]
        raise Unsupported(n, 'constant of type %s here' % type(v).__name__)

    def E(self, n, pre):
        if isinstance(n, ast.Name):
            return self.rd(n.id, n)
        if isinstance(n, ast.Constant):
            return self.const(n)
        if isinstance(n, ast.IfExp):
            return '(if %s then %s else %s)' % (self.E(n.test, pre), self.E(n.body, pre), self.E(n.orelse, pre))
        if isinstance(n, ast.List):
            return '[' + '; '.join(self.E(e, pre) for e in n.elts) + ']'
        if isinstance(n, ast.Tuple):
            if not n.elts:
                raise Unsupported(n, 'empty tuple')
            return '(' + ', '.join(self.E(e, pre) for e in n.elts) + ')'
        if isinstance(n, ast.Compare):
            return self.compare(n, pre)
        if isinstance(n, ast.BinOp):
            if isinstance(n.op, ast.Mult) and isinstance(n.left, ast.Tuple) and len(n.left.elts) == 1 \
                    and isinstance(n.left.elts[0], ast.Constant) and n.left.elts[0].value is None \
                    and 'none_tuple_times' in self.sig:
                return self.sig['none_tuple_times'].replace('{0}', paren(self.E(n.right, pre)))
            raise Unsupported(n, 'binary operation')
        if isinstance(n, ast.Attribute):
            r = self.sig['attrs'].get(n.attr)
            if r is None:
                raise Unsupported(n, 'attribute .%s' % n.attr)
            return self.rule(r, n, {'0': self.E(n.value, pre)}, pre)
        if isinstance(n, ast.Subscript):
            left = self.shape(n.value)
            if isinstance(n.slice, ast.Slice):
                s = n.slice
                if s.lower is not None or s.step is not None or s.upper is None:
                    raise Unsupported(n, 'slice form')
                key, idx = 'slice_to@' + left, s.upper
            else:
                key, idx = 'sub@' + left, n.slice
            r = self.sig['subscripts'].get(key)
            if r is None:
                raise Unsupported(n, 'subscript %s' % key)
            return self.rule(r, n, {'0': self.E(n.value, pre), '1': self.E(idx, pre)}, pre)
        if isinstance(n, ast.ListComp):
            return self.listcomp(n, pre)
        if isinstance(n, ast.Call):
            return self.call(n, pre)
        raise Unsupported(n, 'expression %s' % type(n).__name__)

    def rule(self, r, node, env, pre):
        """instantiate a signature rule {coq, raises?}; a raising one is bound to a fresh name"""
        t = r['coq']
        for k, v in env.items():
            t = t.replace('{%s}' % k, paren(v))
        if '{' in t:
            raise Unsupported(node, 'rule %s has an unfilled hole' % r['coq'])
        if r.get('raises'):
            v = self.new('r')
            pre.append((v, t))
            self.nbind += 1
            return v
        return t

    def compare(self, n, pre):
        if len(n.ops) != 1:
            raise Unsupported(n, 'chained comparison')
        op, right = type(n.ops[0]).__name__, n.comparators[0]
        if isinstance(right, ast.Constant) and right.value is None:
            kind, r = 'none', ''
        elif isinstance(right, ast.Constant) and isinstance(right.value, bool):
            raise Unsupported(n, 'comparison with a boolean')
        elif isinstance(right, ast.Constant) and isinstance(right.value, int):
            kind, r = 'int', self.const(right)
        elif isinstance(right, ast.Constant) and isinstance(right.value, str):
            kind, r = 'str', self.const(right)
        elif isinstance(right, ast.List) and right.elts and all(isinstance(e, ast.Constant) and isinstance(e.value, str) for e in right.elts):
            kind, r = 'strlist', '[' + '; '.join(self.const(e) for e in right.elts) + ']'
        else:
            raise Unsupported(n, 'right operand of the comparison')
        rules = self.sig['compare']
        rl = rules.get('%s/%s@%s' % (op, kind, self.shape(n.left))) or rules.get('%s/%s' % (op, kind))
        if rl is None:
            raise Unsupported(n, 'comparison %s/%s@%s' % (op, kind, self.shape(n.left)))
        return self.rule(rl, n, {'l': self.E(n.left, pre), 'r': r}, pre)

    def listcomp(self, n, pre):
        if len(n.generators) != 1:
            raise Unsupported(n, 'nested comprehension')
        g = n.generators[0]
        if g.ifs or g.is_async or not isinstance(g.target, ast.Name):
            raise Unsupported(n, 'comprehension form')
        co = self.sig['iter_coerce'].get(self.shape(g.iter))
        if co is None:
            raise Unsupported(n, 'iteration over %s' % self.shape(g.iter))
        it = co.replace('{0}', paren(self.E(g.iter, pre)))
        x = g.target.id
        if x in self.locals:
            raise Unsupported(n, 'comprehension variable shadows a local')
        self.locals.add(x)
        inner = []
        body = self.E(n.elt, inner)
        self.locals.discard(x)
        if inner:
            t = 'ROk %s' % paren(body)
            for v, e in reversed(inner):
                t = '%s <- %s ;; %s' % (v, e, t)
            r = self.new('r')
            pre.append((r, 'rmap (fun %s => %s) %s' % (x, t, paren(it))))
            self.nbind += 1
            return r
        return 'map (fun %s => %s) %s' % (x, body, paren(it))

    def call(self, n, pre):
        key, recv, r, args = self.find_call(n)
        f = n.func
        # a translated function / method of this file
        gen = self.tr.gen_for(f.id if isinstance(f, ast.Name) else f.attr, recv is not None)
        if gen is not None and (recv is not None or self.bindings.get(f.id) == gen['spec'].get('bound_as')):
            raise Unsupported(n, 'call of a translated function as a plain expression')
        if r is None:
            raise Unsupported(n, 'call %s' % key)
        if isinstance(f, ast.Name) and not key.startswith('isinstance:'):
            if f.id in self.locals:
                raise Unsupported(n, 'call of a local name')
            if self.bindings.get(f.id) != r.get('origin'):
                raise Unsupported(n, '%s is bound to %s in this module, the signature says %s'
                                  % (f.id, self.bindings.get(f.id), r.get('origin')))
        env = {}
        if recv is not None:
            env['recv'] = self.E(recv, pre)
        for i, a in enumerate(args):
            env[str(i)] = self.arg(r, str(i), a, pre)
        for k in n.keywords:
            env[k.arg] = self.arg(r, k.arg, k.value, pre)
        if 'mutates' in r:
            raise Unsupported(n, 'mutating call %s used as an expression' % key)
        return self.rule(r, n, env, pre)

    def arg(self, r, name, a, pre):
        kc = r.get('kwconst', {})
        if name in kc:      # an argument that must be this very name / constant (dtype=bool, np.uint8, True)
            if ast.dump(a, annotate_fields=False) != kc[name]:
                raise Unsupported(a, 'argument %s must be %s' % (name, kc[name]))
            return 'tt'
        if name in r.get('opt', []):
            if isinstance(a, ast.Constant) and a.value is None:
                return 'None'
            return 'Some %s' % paren(self.E(a, pre))
        return self.E(a, pre)

    def gen_call(self, n, pre):
        """call of a translated function: (term of type result _, receiver name or None)"""
        f = n.func
        recv = f.value if isinstance(f, ast.Attribute) else None
        gen = self.tr.gen_for(f.id if isinstance(f, ast.Name) else f.attr, recv is not None)
        if gen is None:
            return None
        spec, node = gen['spec'], gen['node']
        if recv is None and self.bindings.get(f.id) != spec.get('bound_as'):
            raise Unsupported(n, '%s is bound to %s here' % (f.id, self.bindings.get(f.id)))
        if recv is not None and not isinstance(recv, ast.Name):
            raise Unsupported(n, 'receiver of a translated method must be a name')
        a = node.args
        if a.vararg or a.kwarg or a.kwonlyargs or a.posonlyargs:
            raise Unsupported(node, 'parameter form')
        names = [x.arg for x in a.args][1 if spec.get('method') else 0:]
        defaults = dict(zip([x.arg for x in a.args][len(a.args) - len(a.defaults):], a.defaults))
        given = {}
        if len(n.args) > len(names):
            raise Unsupported(n, 'too many arguments')
        for nm, v in zip(names, n.args):
            given[nm] = v
        for k in n.keywords:
            if k.arg not in names or k.arg in given:
                raise Unsupported(n, 'keyword %s' % k.arg)
            given[k.arg] = k.value
        terms = []
        for nm in names:
            if nm in given:
                t = self.E(given[nm], pre)
                co = spec.get('coerce_internal', {}).get(nm)
                if co and nm in given:
                    t = co.replace('{0}', paren(t))
            elif nm in defaults:
                if not isinstance(defaults[nm], ast.Constant):
                    raise Unsupported(node, 'default of %s' % nm)
                t = self.const(defaults[nm])
            else:
                raise Unsupported(n, 'argument %s missing' % nm)
            terms.append(paren(t))
        head = spec['coq'] + (' ' + paren(self.rd(recv.id, recv)) if recv is not None else '')
        return head + ' ' + ' '.join(terms), (recv.id if recv is not None else None)

    # ---------------------------------------------------------------- statements
    def binds(self, pre, rest):
        for v, e in reversed(pre):
            rest = '%s <- %s ;;\n%s' % (v, e, rest)
        return rest

    def ret(self, value):
        if self.method:
            return 'ROk (%s, %s)' % (self.rd('self', self.node), value)
        return 'ROk %s' % paren(value)

    def assigned(self, stmts):
        out = []
        for s in stmts:
            if isinstance(s, ast.Assign) and len(s.targets) == 1:
                t = s.targets[0]
                if isinstance(t, ast.Name):
                    out.append(t.id)
                elif isinstance(t, ast.Attribute) and isinstance(t.value, ast.Name):
                    out.append(t.value.id)
                else:
                    return None
            elif isinstance(s, ast.Expr) and isinstance(s.value, ast.Call):
                key, recv, r, _ = self.find_call(s.value)
                if r is None or 'mutates' not in r:
                    return None
                tgt = recv if r['mutates'] == 'recv' else s.value.args[int(r['mutates'])]
                if not isinstance(tgt, ast.Name):
                    return None
                out.append(tgt.id)
            elif isinstance(s, ast.If):
                for b in (s.body, s.orelse):
                    a = self.assigned(b)
                    if a is None:
                        return None
                    out.extend(a)
            else:
                return None
        return out

    def all_assign(self, s, name):
        """every path through the if assigns name"""
        def blk(b):
            for x in b:
                if isinstance(x, ast.Assign) and len(x.targets) == 1 and isinstance(x.targets[0], ast.Name) and x.targets[0].id == name:
                    return True
                if isinstance(x, ast.If) and x.orelse and blk(x.body) and blk(x.orelse):
                    return True
            return False
        return bool(s.orelse) and blk(s.body) and blk(s.orelse)

    def S(self, stmts, k):
        if not stmts:
            return k()
        s, rest = stmts[0], stmts[1:]
        go = lambda: self.S(rest, k)
        pre = []
        if isinstance(s, ast.Assign):
            if len(s.targets) != 1:
                raise Unsupported(s, 'chained assignment')
            t = s.targets[0]
            if isinstance(t, ast.Name):
                if self.alias and t.id in self.alias[:2]:
                    raise Unsupported(s, 'rebinding a name that shares an object')
                v = s.value
                if isinstance(v, ast.Constant) and v.value is None:
                    if t.id not in self.sig['none_of']:
                        raise Unsupported(s, 'None assigned to %s' % t.id)
                    term = self.sig['none_of'][t.id]
                elif isinstance(v, ast.Call) and self.tr.is_gen(v):
                    call, recv = self.gen_call(v, pre)
                    p = self.new('p')
                    self.nbind += 1
                    self.locals.add(t.id)
                    if recv is not None:
                        if self.alias and recv in self.alias[:2]:
                            raise Unsupported(s, 'translated method called on a shared object')
                        return self.binds(pre, '%s <- %s ;;\nlet %s := fst %s in\nlet %s := snd %s in\n%s'
                                          % (p, call, recv, p, t.id, p, go()))
                    return self.binds(pre, '%s <- %s ;;\nlet %s := %s in\n%s' % (p, call, t.id, p, go()))
                else:
                    term = self.E(v, pre)
                    if isinstance(v, ast.IfExp) and isinstance(v.test, ast.Name) and isinstance(v.body, ast.Name) \
                            and v.body.id == 'self' and self.method:
                        o = v.orelse
                        if not (isinstance(o, ast.Call) and self.call_key(o)[0] == self.sig['fresh_copy']
                                and isinstance(o.func.value, ast.Name) and o.func.value.id == 'self'):
                            raise Unsupported(s, 'the other arm of a conditional alias must be a fresh copy of self')
                        if self.alias:
                            raise Unsupported(s, 'second alias')
                        self.locals.add(t.id)
                        out = self.binds(pre, 'let %s := %s in\n' % (t.id, term))
                        self.alias = (t.id, 'self', v.test.id)
                        return out + go()
                    elif isinstance(v, ast.Name) and v.id == 'self':
                        raise Unsupported(s, 'unconditional alias of self')
                self.locals.add(t.id)
                return self.binds(pre, 'let %s := %s in\n%s' % (t.id, term, go()))
            if isinstance(t, ast.Tuple) and all(isinstance(e, ast.Name) for e in t.elts):
                names = [e.id for e in t.elts]
                if self.alias and set(names) & set(self.alias[:2]):
                    raise Unsupported(s, 'rebinding a name that shares an object')
                if isinstance(s.value, ast.Call) and self.tr.is_gen(s.value):
                    call, recv = self.gen_call(s.value, pre)
                    if recv is not None:
                        raise Unsupported(s, 'tuple from a method')
                    p = self.new('p')
                    self.nbind += 1
                    self.locals.update(names)
                    return self.binds(pre, "%s <- %s ;;\nlet '(%s) := %s in\n%s" % (p, call, ', '.join(names), p, go()))
                raise Unsupported(s, 'tuple assignment from this expression')
            if isinstance(t, ast.Attribute) and isinstance(t.value, ast.Name):
                r = self.sig['setattr'].get(t.attr)
                obj = t.value.id
                if r is None:
                    raise Unsupported(s, 'assignment to attribute .%s' % t.attr)
                if obj not in self.locals or (self.alias and obj == self.alias[1]):
                    raise Unsupported(s, 'attribute assignment on %s' % obj)
                term = self.rule(r, s, {'o': obj, 'v': self.E(s.value, pre)}, pre)
                return self.binds(pre, 'let %s := %s in\n%s' % (obj, term, go()))
            raise Unsupported(s, 'assignment target')
        if isinstance(s, ast.Expr):
            v = s.value
            if not isinstance(v, ast.Call):
                raise Unsupported(s, 'expression statement')
            if self.tr.is_gen(v):
                call, recv = self.gen_call(v, pre)
                if recv is None:
                    raise Unsupported(s, 'value of a translated function dropped')
                if self.alias and recv == self.alias[1]:
                    raise Unsupported(s, 'translated method called on self while it shares an object')
                p = self.new('p')
                self.nbind += 1
                return self.binds(pre, '%s <- %s ;;\nlet %s := fst %s in\n%s' % (p, call, recv, p, go()))
            key, recv, r, _ = self.find_call(v)
            if r is None:
                raise Unsupported(s, 'call %s' % key)
            if isinstance(v.func, ast.Name) and self.bindings.get(v.func.id) != r.get('origin'):
                raise Unsupported(s, '%s is bound to %s in this module' % (v.func.id, self.bindings.get(v.func.id)))
            env = {}
            if recv is not None:
                env['recv'] = self.E(recv, pre)
            for i, a in enumerate(v.args):
                env[str(i)] = self.arg(r, str(i), a, pre)
            for kw in v.keywords:
                env[kw.arg] = self.arg(r, kw.arg, kw.value, pre)
            if 'mutates' in r:
                tgt = recv if r['mutates'] == 'recv' else v.args[int(r['mutates'])]
                if not isinstance(tgt, ast.Name) or tgt.id not in self.locals or (self.alias and tgt.id == self.alias[1]):
                    raise Unsupported(s, 'mutated object must be a plain local')
                term = self.rule(r, s, env, pre)
                return self.binds(pre, 'let %s := %s in\n%s' % (tgt.id, term, go()))
            if r.get('raises') and r.get('unit'):
                self.rule(r, s, env, pre)
                return self.binds(pre, go())
            raise Unsupported(s, 'call %s has no effect the signature knows' % key)
        if isinstance(s, ast.If):
            # t = self / t = self.copy() in the two arms: a conditional alias
            if len(s.body) == 1 and len(s.orelse) == 1 and all(
                    isinstance(x, ast.Assign) and len(x.targets) == 1 and isinstance(x.targets[0], ast.Name)
                    for x in (s.body[0], s.orelse[0])) and s.body[0].targets[0].id == s.orelse[0].targets[0].id:
                new = ast.Assign(targets=s.body[0].targets,
                                 value=ast.IfExp(test=s.test, body=s.body[0].value, orelse=s.orelse[0].value))
                ast.copy_location(new, s)
                ast.fix_missing_locations(new)
                return self.S([new] + rest, k)
            test = self.E(s.test, pre)
            names = self.assigned([s])
            if names is not None:
                names = sorted(set(names))
                if names and all(n in self.locals or self.all_assign(s, n) for n in names) \
                        and not (self.alias and set(names) & {self.alias[1]}):
                    save = (set(self.locals), self.nbind, self.fresh)
                    tup = names[0] if len(names) == 1 else '(%s)' % ', '.join(names)
                    a = self.S(s.body, lambda: tup)
                    self.locals = set(save[0])
                    b = self.S(s.orelse, lambda: tup)
                    if self.nbind == save[1]:
                        self.locals = set(save[0]) | set(names)
                        pat = names[0] if len(names) == 1 else "'(%s)" % ', '.join(names)
                        return self.binds(pre, 'let %s :=\n  if %s\n  then\n%s\n  else\n%s in\n%s'
                                          % (pat, test, indent(a, 4), indent(b, 4), go()))
                    self.locals, self.nbind, self.fresh = set(save[0]), save[1], save[2]
            save = set(self.locals)
            a = self.S(s.body + rest, k)
            self.locals = set(save)
            b = self.S(s.orelse + rest, k)
            return self.binds(pre, 'if %s\nthen\n%s\nelse\n%s' % (test, indent(a, 2), indent(b, 2)))
        if isinstance(s, ast.Raise):
            if s.cause is not None or not isinstance(s.exc, ast.Call) or not isinstance(s.exc.func, ast.Name):
                raise Unsupported(s, 'raise form')
            r = self.sig['raises'].get(s.exc.func.id)
            if r is None:
                raise Unsupported(s, 'exception class %s' % s.exc.func.id)
            if self.bindings.get(s.exc.func.id) != r.get('origin'):
                raise Unsupported(s, 'exception name bound to %s' % self.bindings.get(s.exc.func.id))
            if len(s.exc.args) != 1 or s.exc.keywords:
                raise Unsupported(s, 'exception arguments')
            a = s.exc.args[0]
            if isinstance(a, ast.Constant) and isinstance(a.value, str):
                if a.value not in r.get('messages', []):
                    raise Unsupported(s, 'message text not in the signature')
            elif isinstance(a, ast.Name):
                if a.id not in r.get('arg_names', []):
                    raise Unsupported(s, 'exception argument %s' % a.id)
                self.rd(a.id, a)
            else:
                raise Unsupported(s, 'exception argument')
            return 'RErr %s' % r['code']
        if isinstance(s, ast.Return):
            if s.value is None:
                raise Unsupported(s, 'bare return')
            if isinstance(s.value, ast.Call) and self.tr.is_gen(s.value):
                call, recv = self.gen_call(s.value, pre)
                p = self.new('p')
                self.nbind += 1
                if recv is not None:
                    if self.alias and recv in self.alias[:2]:
                        raise Unsupported(s, 'translated method called on a shared object')
                    return self.binds(pre, '%s <- %s ;;\nlet %s := fst %s in\n%s' % (p, call, recv, p, self.ret('snd %s' % p)))
                return self.binds(pre, '%s <- %s ;;\n%s' % (p, call, self.ret(p)))
            v = self.E(s.value, pre)
            return self.binds(pre, self.ret(v))
        if isinstance(s, ast.For):
            if s.orelse or not isinstance(s.target, ast.Name) or not isinstance(s.iter, ast.Name):
                raise Unsupported(s, 'for form')
            state = self.spec.get('loop_state')
            if not state:
                raise Unsupported(s, 'no loop state in the signature')
            for x in ast.walk(ast.Module(body=s.body, type_ignores=[])):
                if isinstance(x, (ast.Break, ast.Continue, ast.Return)):
                    raise Unsupported(x, 'jump inside a for')
            if any(n not in self.locals for n in state) or (self.alias and self.alias[1] in state):
                raise Unsupported(s, 'loop state')
            it = self.rd(s.iter.id, s.iter)
            x = s.target.id
            if x in self.locals:
                raise Unsupported(s, 'loop variable shadows a local')
            save = set(self.locals)
            self.locals.add(x)
            tup = state[0] if len(state) == 1 else '(%s)' % ', '.join(state)
            pat = state[0] if len(state) == 1 else "'(%s)" % ', '.join(state)
            body = self.S(s.body, lambda: 'ROk %s' % tup)
            self.locals = save
            self.nbind += 1
            st = self.new('st')
            return '%s <- rfold (fun %s %s =>\n%s) %s %s ;;\nlet %s := %s in\n%s' % (
                st, pat, x, indent(body, 4), paren(it), tup, pat, st, go())
        raise Unsupported(s, 'statement %s' % type(s).__name__)

    def emit(self):
        a = self.node.args
        if a.vararg or a.kwarg or a.kwonlyargs or a.posonlyargs:
            raise Unsupported(self.node, 'parameter form')
        names = [x.arg for x in a.args]
        want = (['self'] if self.method else []) + list(self.spec['params'])
        if names != want:
            raise Unsupported(self.node, 'parameters are %s, the signature says %s' % (names, want))
        self.locals = set(names)
        ps = ''.join(' (%s : %s)' % (n, 'tobj' if n == 'self' and self.method else self.spec['params'][n]) for n in names)

        def end():
            raise Unsupported(self.node, 'a path reaches the end of the function without return')
        body = self.S(strip_doc(self.node.body), end)
        rt = '(tobj * %s)' % self.spec['returns'] if self.method else self.spec['returns']
        return 'Definition %s%s : result %s :=\n%s.\n' % (self.spec['coq'], ps, rt, indent(body, 2))


def indent(t, n):
    return '\n'.join(' ' * n + ln if ln else ln for ln in t.split('\n'))


class Translator:
    def __init__(self, sig, repo):
        self.sig, self.repo = sig, repo
        self.trees, self.bind, self.sha = {}, {}, {}
        self.gens = []

    def load(self, rel):
        if rel not in self.trees:
            raw = open(os.path.join(self.repo, rel), 'rb').read()
            self.sha[rel] = hashlib.sha256(raw).hexdigest()
            text = raw.decode()
            if rel.endswith('.pyx'):
                import decython
                text = decython.decython(text)
            self.trees[rel] = ast.parse(text)
            self.bind[rel] = top_bindings(self.trees[rel])
        return self.trees[rel]

    def gen_for(self, name, is_method):
        for g in self.gens:
            if g['spec']['py'].split('.')[-1] == name and bool(g['spec'].get('method')) == is_method:
                return g
        return None

    def is_gen(self, call):
        f = call.func
        if isinstance(f, ast.Name):
            return self.gen_for(f.id, False) is not None
        if isinstance(f, ast.Attribute):
            return self.gen_for(f.attr, True) is not None
        return False

    def run(self):
        sig = self.sig
        for rel, pins in sorted(sig['pinned'].items()):
            tree = self.load(rel)
            for qual, h in sorted(pins.items()):
                got = ast_hash(find_fn(tree, qual))
                if got != h:
                    raise Unsupported(tree, '%s %s is pinned by hash %s, found %s' % (rel, qual, h, got))
        for rel, want in sorted(sig['bindings'].items()):
            self.load(rel)
            for name, origin in sorted(want.items()):
                if self.bind[rel].get(name) != origin:
                    raise Unsupported(self.trees[rel], '%s: %s is bound to %s, the signature says %s'
                                      % (rel, name, self.bind[rel].get(name), origin))
        for spec in sig['functions']:
            node = find_fn(self.load(spec['source']), spec['py'])
            if node.decorator_list:
                raise Unsupported(node, 'decorated function')
            self.gens.append({'spec': spec, 'node': node})
        parts = []
        for g in self.gens:
            if not g['spec'].get('emit', True):
                continue
            fn = Fn(self, g['spec'], g['node'], self.bind[g['spec']['source']])
            lines = '%s:%d-%d' % (g['spec']['source'], g['node'].lineno, g['node'].end_lineno)
            parts.append('(* %s %s *)\n%s' % (lines, g['spec']['py'], fn.emit()))
        srcs = sorted(set(s['source'] for s in sig['functions']))
        head = ('(* GENERATED by tools/py2v_filt from %s with tools/py2v_filt/sigs/%s -- do not edit.\n'
                '   Regenerated on every check; the proofs are re-checked against this text.\n'
                '   Vocabulary: Gen/FiltPrelude.v (hand-written).  A method returns (receiver afterwards, value). *)\n'
                % (', '.join(srcs), sig['name']))
        return head + '\n'.join(sig['header']) + '\n\n' + '\n'.join(parts), ' '.join('%s=%s' % (s, self.sha[s]) for s in srcs)


def main(argv):
    repo = os.environ.get('BIOM_REPO', '/repo')
    outroot = os.path.dirname(os.path.dirname(HERE))
    to_stdout = hashes = False
    targets = []
    it = iter(argv)
    for a in it:
        if a == '--repo':
            repo = next(it)
        elif a == '--out':
            outroot = next(it)
        elif a == '--stdout':
            to_stdout = True
        elif a == '--hashes':
            hashes = True
        else:
            targets.append(a)
    sigs = sorted(glob.glob(os.path.join(HERE, 'sigs', '*.json')))
    if targets:
        sigs = [s for s in sigs if os.path.basename(s)[:-5] in targets]
        if len(sigs) != len(targets):
            print('py2v_filt: unknown target in %s' % targets, file=sys.stderr)
            return 2
    failed = False
    for s in sigs:
        sig = json.load(open(s))
        tr = Translator(sig, repo)
        if hashes:
            for rel, pins in sorted(sig['pinned'].items()):
                for qual in sorted(pins):
                    print(rel, qual, ast_hash(find_fn(tr.load(rel), qual)))
            continue
        src = '+'.join(sorted(set(f['source'] for f in sig['functions'])))
        try:
            out, sha = tr.run()
        except Unsupported as e:
            print('py2v_filt: REFUSED %s (%s): %s' % (src, sig['name'], e), file=sys.stderr)
            failed = True
            continue
        except (OSError, SyntaxError, ValueError, KeyError, IndexError, TypeError, AttributeError, AssertionError) as e:
            print('py2v_filt: REFUSED %s (%s): %s: %s' % (src, sig['name'], type(e).__name__, e), file=sys.stderr)
            failed = True
            continue
        if to_stdout:
            sys.stdout.write(out)
            continue
        path = os.path.join(outroot, sig['output'])
        old = open(path).read() if os.path.exists(path) else None
        if old != out:
            os.makedirs(os.path.dirname(path), exist_ok=True)
            tmp = path + '.tmp'
            open(tmp, 'w').write(out)
            os.replace(tmp, path)
            state = 'written'
        else:
            state = 'unchanged'
        print('py2v_filt: %s -> %s %s (source sha256 %s)' % (src, sig['output'], state, sha))
    return 2 if failed else 0


if __name__ == '__main__':
    sys.exit(main(sys.argv[1:]))
