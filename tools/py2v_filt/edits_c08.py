"""The edits of biom/table.py and biom/_filter.pyx tried against the C08 wrapper tie T17 (docs/C08.md, "Translator tie"):
each is applied to a scratch copy of the repository (cp -r /repo /tmp/c08gen-repo first) and run through the whole
`BIOM_REPO=/tmp/c08gen-repo VERIF_OUT=/tmp/c08gen-out ./check C08`; rows go to /tmp/c08gen/rows.json.
Afterwards run tools/regen_filt.sh and ./check C08 against /repo again."""
import os, re, shutil, subprocess, sys, json
REPO = '/tmp/c08gen-repo'
T = 'biom/table.py'
F = 'biom/_filter.pyx'
EDITS = [
 ('ids-wrong-axis', 'semantic', 'Table.filter installs the filtered ids of the sample axis as observation ids', T,
  "            table._sample_ids = ids\n", "            table._observation_ids = ids\n"),
 ('stale-lookup', 'semantic', 'Table.filter, sample axis: keeps the old sample lookup and rebuilds the observation one', T,
  "            table._index_ids(self._obs_index.copy(), None)", "            table._index_ids(None, self._sample_index.copy())"),
 ('no-cast', 'semantic', 'Table.filter no longer calls _cast_metadata on the result', T,
  "        # the remaining entries may all be empty\n        table._cast_metadata()\n", ""),
 ('rows-wrong-axis', 'semantic', '_filter removes rows for axis 1 and transposes for axis 0', F,
  "    if axis == 0:\n        _remove_rows_csr(arr, bools)\n    elif axis == 1:\n        arr = arr.T  #", "    if axis == 1:\n        _remove_rows_csr(arr, bools)\n    elif axis == 0:\n        arr = arr.T  #"),
 ('invert-ignored', 'semantic', '_filter, id path: invert is not applied', F,
  "bools = np.bitwise_xor(ids_to_keep, invert).view(np.uint8)", "bools = ids_to_keep.view(np.uint8)"),
 ('count-other-axis', 'semantic', 'remove_empty counts the non-zero cells along the other axis', T,
  "sum(axis=0 if ax == 'sample' else 1)", "sum(axis=1 if ax == 'sample' else 0)"),
 ('whole-order', 'semantic', "remove_empty('whole') filters observations first (same result, other order of the calls)", T,
  "            table = self.copy()\n\n        if axis == 'whole':\n            axes = ['sample', 'observation']", "            table = self.copy()\n\n        if axis == 'whole':\n            axes = ['observation', 'sample']"),
 ('head-n-le-1', 'semantic', 'head refuses n = 1', T, "        if n <= 0:\n            raise IndexError", "        if n <= 1:\n            raise IndexError"),
 ('head-inplace', 'semantic', 'head filters the receiver itself on the observation axis', T,
  "table = self.filter(row_ids, axis='observation', inplace=False)", "table = self.filter(row_ids, axis='observation', inplace=True)"),
 ('default-invert', 'semantic', 'the default of invert in the def of Table.filter is True (callers remove_empty / head rely on it)', T,
  "def filter(self, ids_to_keep, axis='sample', invert=False, inplace=True):", "def filter(self, ids_to_keep, axis='sample', invert=True, inplace=True):"),
 ('head-cols-n', 'semantic', 'head keeps n samples instead of m', T, "col_ids = self.ids(axis='sample')[:m]", "col_ids = self.ids(axis='sample')[:n]"),
 ('alias-as-if', 'preserving', 'Table.filter: the conditional expression choosing self / a copy written as an if statement', T,
  "        table = self if inplace else self.copy()\n\n        metadata = table.metadata(axis=axis)\n        ids = table.ids(axis=axis)\n        index =",
  "        if inplace:\n            table = self\n        else:\n            table = self.copy()\n\n        metadata = table.metadata(axis=axis)\n        ids = table.ids(axis=axis)\n        index ="),
 ('format-tests-swapped', 'preserving', '_filter: the two format conversions tested in the other order', F,
  "    if axis == 0:\n        arr = arr.tocsr()\n    elif axis == 1:\n        arr = arr.tocsc()", "    if axis == 1:\n        arr = arr.tocsc()\n    elif axis == 0:\n        arr = arr.tocsr()"),
 ('put-one', 'reject', '_filter: put(idx, 1) instead of True (constant outside the signature)', F, "ids_to_keep.put(idx, True)", "ids_to_keep.put(idx, 1)"),
 ('gt-zero', 'reject', 'remove_empty: (table._data > 0) (comparison outside the signature; would drop negative-only vectors)', T,
  "counts = (table._data != 0).sum(", "counts = (table._data > 0).sum("),
 ('pinned-index-ids', 'reject', 'Table._index_ids (pinned, stands behind tb_index_ids) installs the observation lookup as sample lookup', T,
  "            self._sample_index = sample_index\n", "            self._sample_index = observation_index\n"),
 ('pinned-kernel', 'reject', '_remove_rows_csr (pinned here, translated by tools/py2v row T2) keeps the rows whose flag is false', F,
  "        if booleans[row]:", "        if not booleans[row]:"),
]
names = sys.argv[1:]
rows = []
os.makedirs('/tmp/c08gen', exist_ok=True)
for name, group, what, f, old, new in EDITS:
    if names and name not in names:
        continue
    for g in (F, T):
        shutil.copy('/repo/' + g, REPO + '/' + g)
    s = open(REPO + '/' + f).read()
    assert s.count(old) == 1, (name, s.count(old))
    open(REPO + '/' + f, 'w').write(s.replace(old, new))
    env = dict(os.environ, BIOM_REPO=REPO, VERIF_OUT='/tmp/c08gen-out')
    p = subprocess.run(['./check', 'C08'], cwd='/verif', env=env, capture_output=True, text=True)
    out = p.stdout + p.stderr
    open('/tmp/c08gen/%s.log' % name, 'w').write(out)
    diff = subprocess.run(['git', 'diff', '--quiet', '--', 'coq/Gen/FilterWrapGen.v'], cwd='/verif').returncode
    body = subprocess.run("git diff -- coq/Gen/FilterWrapGen.v | grep '^[-+]' | grep -v '^[-+][-+]' | grep -v '^[-+](\\* biom/' | wc -l",
                          shell=True, cwd='/verif', capture_output=True, text=True).stdout.strip()
    broke = ''
    rep = {}
    m = re.search(r'VIOLATION property=C08 replay=(\S+)', out)
    if m:
        try:
            rep = json.load(open(m.group(1)))
        except Exception:
            rep = {}
    refused = [str(b) for b in rep.get('broken', []) if 'translator rejected' in str(b)]
    out2 = out
    if p.returncode and not refused:
        q = subprocess.run('ulimit -v 8000000; timeout 300 coqc -Q . BiomV Gen/FilterWrapGen.v && timeout 300 coqc -Q . BiomV Proofs/GenBridgeFilterWrapProofs.v && timeout 300 coqc -Q . BiomV Props/C08.v',
                           shell=True, cwd='/verif/coq', capture_output=True, text=True)
        out2 = q.stdout + q.stderr
    m = re.search(r'File "\./(Gen/FilterWrapGen\.v|Proofs/GenBridgeFilterWrapProofs\.v|Props/C08\.v)", line (\d+)', out2)
    if m:
        broke = m.group(1)
        lines = open('/verif/coq/' + m.group(1)).read().split('\n')[:int(m.group(2))]
        for l in reversed(lines):
            mm = re.match(r'(Lemma|Theorem|Example|Corollary|Definition)\s+(\w+)', l)
            if mm:
                broke = m.group(1) + ': ' + mm.group(2)
                break
    verdict = [l for l in out.split('\n') if l.startswith('VIOLATION') or 'quick:' in l]
    fail = json.dumps([rep.get('case', ''), rep.get('impl', ''), rep.get('model', '')])[:400]
    rows.append((name, group, what, 'REFUSES' if refused else 'accepts',
                 ('differs (%s lines)' % body) if diff else 'same text',
                 broke or (refused[0][:200] if refused else 'all proofs check'), ' | '.join(verdict)[:260], p.returncode, fail))
    print(rows[-1], flush=True)
for g in (F, T):
    shutil.copy('/repo/' + g, REPO + '/' + g)
json.dump(rows, open('/tmp/c08gen/rows.json', 'w'), indent=1)
