#!/bin/sh
# Regenerate the reader-mode translated part of the Coq model (tools/py2v_h5r: coq/Gen/Hdf5ReadGen.v
# from Table.from_hdf5 in biom/table.py) from the source tree under test (BIOM_REPO, default /repo).
# Exit code 2 = the translator refused the source (the tie is broken); nothing is written then.
here="$(cd "$(dirname "$0")/.." && pwd)"
exec /venv/bin/python "$here/tools/py2v_h5r/main.py" --repo "${BIOM_REPO:-/repo}" --out "$here" "$@"
