#!/bin/sh
# tools/try_seed.sh <property id> <dir with patch.diff and demo.py> [more property ids to run ...]
# Applies the change to a scratch worktree of /repo (never to /repo itself), confirms that the
# baseline tests still pass and that the demonstration fails with / passes without the change,
# then runs the quick check(s) against the scratch tree. Evidence/replays go to a scratch dir.
pid="$1"; dir="$2"; shift 2; others="$*"
wt=/tmp/mutwt-$$; out=/tmp/mutout-$$
git -C /repo worktree add -q --detach "$wt" HEAD || exit 3
cp /repo/biom/*.so "$wt/biom/"
res=0
# the change was made against the HEAD of its day; later repairs may have moved its context
if git -C "$wt" apply "$dir/patch.diff" 2>/dev/null; then echo "SEED patch: applies"
elif git -C "$wt" apply --3way "$dir/patch.diff" >/dev/null 2>&1 && ! git -C "$wt" diff --name-only --diff-filter=U | grep -q .; then git -C "$wt" reset -q; echo "SEED patch: applies (3-way)"
elif (cd "$wt" && git checkout -q -- . && patch -p1 -s -F3 --no-backup-if-mismatch < "$dir/patch.diff" >/dev/null 2>&1); then echo "SEED patch: applies (fuzz)"
else echo "SEED: patch does not apply"; git -C /repo worktree remove --force "$wt"; exit 4; fi
tests=$(cd "$wt" && PYTHONPATH="$wt" /venv/bin/python -m pytest -q -p no:cacheprovider --timeout=900 --continue-on-collection-errors 2>&1 | tail -1)
echo "SEED tests with change: $tests"
if [ -f "$dir/demo.py" ]; then
  (cd /tmp && PYTHONPATH="$wt" PYTHONHASHSEED=0 /venv/bin/python -W ignore "$dir/demo.py" >/dev/null 2>&1); echo "SEED demo with change: exit $?"
  (cd /tmp && PYTHONPATH=/repo PYTHONHASHSEED=0 /venv/bin/python -W ignore "$dir/demo.py" >/dev/null 2>&1); echo "SEED demo without change: exit $?"
fi
mkdir -p "$out"
for p in $pid $others; do
  (cd /verif && BIOM_REPO="$wt" VERIF_OUT="$out" ./check "$p" --tier quick >"$out/log.$p" 2>&1); rc=$?
  grep -E "VIOLATION|KNOWN-FINDING|quick:" "$out/log.$p" | cut -c1-300
  if [ "$rc" != 0 ] && [ -z "$NO_CONTROL" ]; then
    # control: the same check, same harness as it sits on disk right now, on the UNCHANGED tree; a catch counts
    # only if that run is green (a harness that is red for another reason must not read as a catch)
    (cd /verif && BIOM_REPO=/repo VERIF_OUT="$out/control" ./check "$p" --tier quick >"$out/control.$p" 2>&1); crc=$?
    if [ "$crc" != 0 ]; then echo "SEED control $p: RED on the unchanged tree (exit $crc) - not counted"; rc="0 (control red)"; fi
  fi
  echo "SEED check $p: exit $rc"
done
if [ -n "$KEEP_REPLAY" ]; then mkdir -p "$KEEP_REPLAY"; cp "$out"/replays/* "$KEEP_REPLAY"/ 2>/dev/null; fi
git -C /repo worktree remove --force "$wt"; rm -rf "$out"
