#!/usr/bin/env python3
"""py2v_h5: fail-closed translator of the HDF5 writer Table.to_hdf5 (biom/table.py) into Gallina
(coq/Gen/Hdf5Gen.v, vocabulary coq/Gen/H5Prelude.v).

Writer mode: the function body is a straight sequence of statements with effects on the file that
is written (h5py calls) and on the table (self.nnz, self._data = ...).  Every statement becomes one
`mbind` of the state monad of H5Prelude.v; Python locals become Coq binders.  Covered: assignments
of typed expressions, `X.attrs[k] = e`, `create_group` / `create_dataset` calls, `if` statements that
only assign locals (both arms become one `if` expression over the tuple of assigned names) or only
have effects, `for a, b in zip(list, list)`, the default-argument idiom `if p is None: p = {}`.
Blocks named in the signature file as pinned are not translated: their AST hash must match and they
become one primitive.  Anything else -> exit code 2, nothing written.
Usage: main.py --repo R --out VERIF [--hashes]"""
import argparse
import ast
import hashlib
import json
import os
import sys

HERE = os.path.dirname(os.path.abspath(__file__))


class Refuse(Exception):
    pass


def refuse(node, why):
    raise Refuse('line %s: %s' % (getattr(node, 'lineno', '?'), why))


def ahash(node):
    if isinstance(node, list):
        s = '|'.join(ast.dump(n) for n in node)
    else:
        s = ast.dump(node)
    return hashlib.sha256(s.encode()).hexdigest()


def colit(s, node):
    if not all(32 <= ord(c) < 127 and c not in '"\\' for c in s):
        refuse(node, 'string literal outside the printable ASCII subset')
    return '(lit "%s"%%string)' % s


class Tr:
    def __init__(self, sig):
        self.sig = sig

    # ------------------------------------------------------------ expressions: (coq, type)
    def ex(self, n, env):
        sig = self.sig
        if isinstance(n, ast.Constant):
            if isinstance(n.value, str):
                return colit(n.value, n), 'str'
            if n.value is None:
                return 'None', 'none'
            if isinstance(n.value, int) and not isinstance(n.value, bool) and n.value >= 0:
                return '%d' % n.value, 'nat'
            refuse(n, 'constant %r' % (n.value,))
        if isinstance(n, ast.Name):
            if n.id in env:
                return env[n.id][0], env[n.id][1]
            if n.id in sig['globals']:
                g = sig['globals'][n.id]
                return g[0], g[1]
            refuse(n, 'unknown name %s' % n.id)
        if isinstance(n, ast.Attribute):
            key = self.dotted(n)
            if key in sig['attributes']:
                a = sig['attributes'][key]
                for need in a[2:]:
                    if need not in env:
                        refuse(n, '%s read outside a statement that binds %s' % (key, need))
                return a[0], a[1]
            refuse(n, 'attribute %s not in the signature' % key)
        if isinstance(n, ast.IfExp):
            c = self.cond(n.test, env)
            a, ta = self.ex(n.body, env)
            b, tb = self.ex(n.orelse, env)
            if ta == 'ostr' and tb == 'str':
                a, ta = '(ostr_val %s)' % a, 'str'
            if ta != tb:
                refuse(n, 'conditional expression with arms of types %s / %s' % (ta, tb))
            return '(if %s then %s else %s)' % (c, a, b), ta
        if isinstance(n, ast.List):
            if not n.elts:
                return '[]', 'empty'
            parts = [self.ex(e, env) for e in n.elts]
            if any(t != 'str' for _, t in parts):
                refuse(n, 'list display of non-strings')
            return '[%s]' % '; '.join(c for c, _ in parts), 'list:str'
        if isinstance(n, ast.Tuple):
            parts = [self.ex(e, env) for e in n.elts]
            if any(t != 'nat' for _, t in parts):
                refuse(n, 'tuple of non-lengths')
            return '[%s]' % '; '.join(c for c, _ in parts), 'shape'
        if isinstance(n, ast.ListComp):
            if len(n.generators) != 1 or n.generators[0].ifs or n.generators[0].is_async \
                    or not isinstance(n.generators[0].target, ast.Name):
                refuse(n, 'comprehension shape')
            src, ts = self.ex(n.generators[0].iter, env)
            if ts != 'list:str':
                refuse(n, 'comprehension over %s' % ts)
            v = n.generators[0].target.id
            env2 = dict(env)
            env2[v] = (v, 'str')
            body, tb = self.ex(n.elt, env2)
            if tb != 'bytes':
                refuse(n, 'comprehension element of type %s' % tb)
            return '(map (fun %s => %s) %s)' % (v, body, src), 'list:bytes'
        if isinstance(n, ast.Compare):
            if len(n.ops) != 1:
                refuse(n, 'chained comparison')
            return self.cond(n, env), 'bool'
        if isinstance(n, ast.Call):
            return self.call(n, env)
        refuse(n, 'expression %s' % type(n).__name__)

    def dotted(self, n):
        parts = []
        while isinstance(n, ast.Attribute):
            parts.append(n.attr)
            n = n.value
        if not isinstance(n, ast.Name):
            refuse(n, 'attribute of a non-name')
        parts.append(n.id)
        return '.'.join(reversed(parts))

    def call(self, n, env):
        f = n.func
        if isinstance(f, ast.Name) and f.id == 'len' and len(n.args) == 1 and not n.keywords:
            a, t = self.ex(n.args[0], env)
            if not (t.startswith('list:') or t in ('zlist', 'natlist')):
                refuse(n, 'len of %s' % t)
            return '(length %s)' % a, 'nat'
        if isinstance(f, ast.Name) and f.id == 'zip' and len(n.args) == 2 and not n.keywords:
            a, ta = self.ex(n.args[0], env)
            b, tb = self.ex(n.args[1], env)
            if ta != 'list:str' or tb != 'list:str':
                refuse(n, 'zip of %s, %s' % (ta, tb))
            return '(py_zip %s %s)' % (a, b), 'list:str*str'
        if isinstance(f, ast.Name) and f.id == 'defaultdict' and len(n.args) == 1 and not n.keywords \
                and isinstance(n.args[0], ast.Lambda) and not n.args[0].args.args \
                and not n.args[0].args.vararg and not n.args[0].args.kwarg and not n.args[0].args.kwonlyargs:
            a, t = self.ex(n.args[0].body, env)
            if t != 'fmt_fn':
                refuse(n, 'default factory of type %s' % t)
            return '(fm_new %s)' % a, 'fmap'
        if isinstance(f, ast.Attribute):
            # datetime.now().isoformat() / d.isoformat() / s.encode('utf8')
            if f.attr == 'isoformat' and not n.args and not n.keywords:
                v = f.value
                if isinstance(v, ast.Call) and isinstance(v.func, ast.Attribute) and v.func.attr == 'now' \
                        and isinstance(v.func.value, ast.Name) and v.func.value.id == 'datetime' \
                        and not v.args and not v.keywords and 'datetime' not in env:
                    return '(dt_isoformat (dt_now now))', 'str'
                a, t = self.ex(v, env)
                if t == 'odate':
                    return '(dt_isoformat (ostr_val %s))' % a, 'str'
                refuse(n, 'isoformat of %s' % t)
            if f.attr == 'encode' and len(n.args) == 1 and not n.keywords \
                    and isinstance(n.args[0], ast.Constant) and n.args[0].value == 'utf8':
                a, t = self.ex(f.value, env)
                if t != 'str':
                    refuse(n, 'encode of %s' % t)
                return '(utf8_encode %s)' % a, 'bytes'
        refuse(n, 'call not in the subset')

    def cond(self, n, env):
        if isinstance(n, ast.Compare) and len(n.ops) == 1:
            l, r, op = n.left, n.comparators[0], n.ops[0]
            if isinstance(op, ast.Is) and isinstance(r, ast.Constant) and r.value is None:
                a, t = self.ex(l, env)
                if t not in ('odate', 'ofs', 'ostr'):
                    refuse(n, '`is None` on %s' % t)
                return '(opt_is_none %s)' % a
            if isinstance(op, ast.Is) and isinstance(r, ast.Constant) and r.value is True:
                a, t = self.ex(l, env)
                if t != 'bool':
                    refuse(n, '`is True` on %s' % t)
                return '(bool_is_true %s)' % a
            if isinstance(op, (ast.Gt, ast.Lt, ast.GtE, ast.LtE, ast.Eq, ast.NotEq)):
                a, ta = self.ex(l, env)
                b, tb = self.ex(r, env)
                if ta != 'nat' or tb != 'nat':
                    refuse(n, 'comparison of %s and %s' % (ta, tb))
                return {ast.Gt: '(Nat.ltb %s %s)' % (b, a), ast.Lt: '(Nat.ltb %s %s)' % (a, b),
                        ast.GtE: '(Nat.leb %s %s)' % (b, a), ast.LtE: '(Nat.leb %s %s)' % (a, b),
                        ast.Eq: '(Nat.eqb %s %s)' % (a, b), ast.NotEq: '(negb (Nat.eqb %s %s))' % (a, b)}[type(op)]
            refuse(n, 'comparison operator %s' % type(op).__name__)
        a, t = self.ex(n, env)
        if t == 'ostr':
            return '(ostr_truthy %s)' % a
        if t == 'bool':
            return a
        refuse(n, 'truth value of %s' % t)

    # ------------------------------------------------------------ statements -> term of type M unit
    def wrap_data(self, node, env):
        """a statement that reads self._data binds the arrays held at that point"""
        for sub in ast.walk(node):
            if isinstance(sub, ast.Attribute) and isinstance(sub.value, ast.Attribute) \
                    and sub.value.attr == '_data' and isinstance(sub.value.value, ast.Name) \
                    and sub.value.value.id == 'self':
                return True
        return False

    def block(self, stmts, env, depth):
        ind = '  ' * depth
        if not stmts:
            return ind + 'mret tt'
        s, rest = stmts[0], stmts[1:]
        env = dict(env)
        pre = ''
        close = ''
        if not isinstance(s, (ast.For, ast.If)) and self.wrap_data(s, env) and not self.is_asformat(s):
            pre = ind + 'mbind (tbl_data self) (fun self_data =>\n'
            close = ')'
            env['self_data'] = ('self_data', 'cs')
        head = self.stmt(s, env, depth)      # text ending where the continuation goes; may extend env
        env.pop('self_data', None)
        return pre + head[0] + '\n' + self.block(rest, env, depth) + head[1] + close

    def is_asformat(self, s):
        return isinstance(s, ast.Assign) and isinstance(s.targets[0], ast.Attribute) \
            and isinstance(s.value, ast.Call) and isinstance(s.value.func, ast.Attribute) \
            and s.value.func.attr == 'asformat'

    def stmt(self, s, env, depth):
        ind = '  ' * depth
        sig = self.sig
        if isinstance(s, ast.Expr) and isinstance(s.value, ast.Constant) and isinstance(s.value.value, str):
            return ('', '')          # docstring
        if isinstance(s, ast.Assign) and len(s.targets) == 1:
            t, v = s.targets[0], s.value
            # X.attrs[k] = e
            if isinstance(t, ast.Subscript) and isinstance(t.value, ast.Attribute) and t.value.attr == 'attrs' \
                    and isinstance(t.value.value, ast.Name):
                h, th = self.ex(t.value.value, env)
                if th != 'group':
                    refuse(s, 'attribute of a %s handle' % th)
                if not (isinstance(t.slice, ast.Constant) and isinstance(t.slice.value, str)):
                    refuse(s, 'attribute name')
                k = t.slice.value
                if k not in sig['attrs']:
                    refuse(s, 'attribute %r not in the signature' % k)
                e, te = self.ex(v, env)
                if te == 'ostr' or te != sig['attrs'][k]:
                    refuse(s, 'attribute %r gets a %s, signature says %s' % (k, te, sig['attrs'][k]))
                val = {'str': 'AStr (utf8_encode %s)', 'ints': 'AInts %s', 'nat': 'AInt (Z.of_nat %s)'}[te] % e
                return (ind + 'mbind (h5_set_attr %s %s (%s)) (fun _ =>' % (h, colit(k, s), val), ')')
            # self._data = self._data.asformat(order)
            if self.is_asformat(s):
                if self.dotted(t) != 'self._data' or self.dotted(v.func.value) != 'self._data' \
                        or len(v.args) != 1 or v.keywords:
                    refuse(s, 'asformat shape')
                o, to = self.ex(v.args[0], env)
                if to != 'str':
                    refuse(s, 'asformat of %s' % to)
                return (ind + 'mbind (tbl_asformat self %s) (fun _ =>' % o, ')')
            # formatter['k'] = f
            if isinstance(t, ast.Subscript) and isinstance(t.value, ast.Name):
                m, tm = self.ex(t.value, env)
                k, tk = self.ex(t.slice, env)
                f, tf = self.ex(v, env)
                if (tm, tk, tf) != ('fmap', 'str', 'fmt_fn'):
                    refuse(s, 'item assignment on %s' % tm)
                return (ind + 'let %s := fm_set %s %s %s in' % (m, m, k, f), '')
            if isinstance(t, ast.Name):
                x = t.id
                if x in sig['params'] or x == 'self':
                    refuse(s, 'assignment to parameter %s' % x)
                # effectful right-hand sides
                if isinstance(v, ast.Attribute) and self.dotted(v) in sig['effect_attributes']:
                    p, ty = sig['effect_attributes'][self.dotted(v)]
                    env[x] = (x, ty)
                    return (ind + 'mbind (%s) (fun %s =>' % (p, x), ')')
                if isinstance(v, ast.Call) and isinstance(v.func, ast.Attribute):
                    key = None
                    if isinstance(v.func.value, ast.Name) and v.func.value.id == 'self':
                        key = 'self.' + v.func.attr
                    if key in sig['effect_methods']:
                        p, ty = sig['effect_methods'][key]
                        args = list(v.args) + [k.value for k in v.keywords]
                        if len(args) != 1 or any(k.arg != 'axis' for k in v.keywords):
                            refuse(s, 'arguments of %s' % key)
                        a, ta = self.ex(args[0], env)
                        if ta != 'str':
                            refuse(s, 'axis argument of type %s' % ta)
                        env[x] = (x, ty)
                        return (ind + 'mbind (%s self %s) (fun %s =>' % (p, a, x), ')')
                    if v.func.attr in ('create_group', 'create_dataset'):
                        c, ty = self.h5call(v, env)
                        env[x] = (x, ty)
                        return (ind + 'mbind %s (fun %s =>' % (c, x), ')')
                e, te = self.ex(v, env)
                if te in ('none',):
                    e, te = '(@None str)', 'ostr'
                if x in env and env[x][1] != te:
                    refuse(s, 'local %s changes type from %s to %s' % (x, env[x][1], te))
                env[x] = (x, te)
                return (ind + 'let %s := %s in' % (x, e), '')
            refuse(s, 'assignment target')
        if isinstance(s, ast.Expr) and isinstance(s.value, ast.Call) and isinstance(s.value.func, ast.Attribute):
            c = s.value
            if c.func.attr in ('create_group', 'create_dataset'):
                t, _ = self.h5call(c, env)
                return (ind + 'mbind %s (fun _ =>' % t, ')')
            if c.func.attr == 'update' and len(c.args) == 1 and not c.keywords and isinstance(c.func.value, ast.Name):
                m, tm = self.ex(c.func.value, env)
                a, ta = self.ex(c.args[0], env)
                if (tm, ta) != ('fmap', 'fs'):
                    refuse(s, 'update of %s with %s' % (tm, ta))
                return (ind + 'let %s := fm_update %s %s in' % (m, m, a), '')
            refuse(s, 'call statement')
        if isinstance(s, ast.For):
            if s.orelse or not isinstance(s.target, ast.Tuple) or len(s.target.elts) != 2 \
                    or not all(isinstance(e, ast.Name) for e in s.target.elts):
                refuse(s, 'loop shape')
            it, ti = self.ex(s.iter, env)
            if ti != 'list:str*str':
                refuse(s, 'loop over %s' % ti)
            a, b = [e.id for e in s.target.elts]
            for nm in (a, b):
                if nm in env or nm in sig['params']:
                    refuse(s, 'loop variable %s shadows a binding' % nm)
            before = set(env)
            env2 = dict(env)
            env2[a] = (a, 'str')
            env2[b] = (b, 'str')
            body = self.block(s.body, env2, depth + 1)
            return (ind + 'mbind (h5_for %s (fun \'(%s, %s) =>\n%s)) (fun _ =>' % (it, a, b, body), ')')
        if isinstance(s, ast.If):
            # pinned blocks
            if isinstance(s.test, ast.Name) and s.test.id in sig['pinned_blocks']:
                pb = sig['pinned_blocks'][s.test.id]
                if ahash(s) != pb['sha256']:
                    refuse(s, 'pinned block `if %s:` changed (AST hash %s)' % (s.test.id, ahash(s)))
                for r in pb['reads']:
                    if r not in env:
                        refuse(s, 'pinned block reads unbound %s' % r)
                    if env[r][1] != pb['types'][r]:
                        refuse(s, 'pinned block reads %s of type %s' % (r, env[r][1]))
                return (ind + 'mbind (%s %s) (fun _ =>' % (pb['emit'], ' '.join(pb['reads'])), ')')
            # default-argument idiom
            if isinstance(s.test, ast.Compare) and isinstance(s.test.left, ast.Name) \
                    and s.test.left.id in env and env[s.test.left.id][1] == 'ofs' and not s.orelse \
                    and len(s.body) == 1 and isinstance(s.body[0], ast.Assign) \
                    and isinstance(s.body[0].targets[0], ast.Name) and s.body[0].targets[0].id == s.test.left.id \
                    and isinstance(s.body[0].value, ast.Dict) and not s.body[0].value.keys \
                    and isinstance(s.test.ops[0], ast.Is) and isinstance(s.test.comparators[0], ast.Constant) \
                    and s.test.comparators[0].value is None and len(s.test.ops) == 1:
                x = s.test.left.id
                env[x] = (x, 'fs')
                return (ind + 'let %s := opt_default %s [] in' % (x, x), '')
            c = self.cond(s.test, env)
            allst = list(s.body) + list(s.orelse)
            if all(isinstance(b, ast.Assign) and len(b.targets) == 1 and isinstance(b.targets[0], ast.Name) for b in allst):
                names = []
                for b in allst:
                    if b.targets[0].id not in names:
                        names.append(b.targets[0].id)

                def arm(bs):
                    e2 = dict(env)
                    vals = {}
                    for b in bs:
                        v, tv = self.ex(b.value, e2)
                        x = b.targets[0].id
                        if x not in env:
                            refuse(b, 'conditional assignment to unbound %s' % x)
                        if tv == 'str' and env[x][1] == 'ostr':
                            v, tv = '(Some %s)' % v, 'ostr'
                        if tv != env[x][1]:
                            refuse(b, 'conditional assignment changes the type of %s' % x)
                        e2[x] = ('(%s)' % v, tv)
                        vals[x] = v
                    return '(%s)' % ', '.join(vals.get(x, env[x][0]) for x in names)
                a1, a2 = arm(s.body), arm(s.orelse)
                pat = names[0] if len(names) == 1 else "'(%s)" % ', '.join(names)
                return (ind + 'let %s := (if %s then %s else %s) in' % (pat, c, a1, a2), '')
            if any(isinstance(b, ast.Assign) and isinstance(b.targets[0], ast.Name) for b in ast.walk(s) if isinstance(b, ast.Assign)):
                refuse(s, 'conditional mixing effects and assignments to locals')
            b1 = self.block(s.body, env, depth + 1)
            b2 = self.block(s.orelse, env, depth + 1)
            return (ind + 'mbind (if %s then (\n%s) else (\n%s)) (fun _ =>' % (c, b1, b2), ')')
        refuse(s, 'statement %s' % type(s).__name__)

    def h5call(self, c, env):
        h, th = self.ex(c.func.value, env)
        if th != 'group':
            refuse(c, '%s on a %s' % (c.func.attr, th))
        if c.func.attr == 'create_group':
            if len(c.args) != 1 or c.keywords:
                refuse(c, 'create_group arguments')
            a, ta = self.ex(c.args[0], env)
            if ta != 'str':
                refuse(c, 'group name of type %s' % ta)
            return '(h5_create_group %s %s)' % (h, a), 'group'
        if len(c.args) != 1:
            refuse(c, 'create_dataset arguments')
        a, ta = self.ex(c.args[0], env)
        if ta != 'str':
            refuse(c, 'dataset name of type %s' % ta)
        kw = {}
        for k in c.keywords:
            if k.arg in kw or k.arg not in ('shape', 'dtype', 'data', 'compression'):
                refuse(c, 'keyword %s' % k.arg)
            kw[k.arg] = self.ex(k.value, env)
        if 'shape' not in kw or 'data' not in kw or 'compression' not in kw:
            refuse(c, 'create_dataset needs shape, data, compression')
        if kw['shape'][1] != 'shape' or kw['compression'][1] != 'ostr':
            refuse(c, 'shape / compression types')
        dt = 'None'
        if 'dtype' in kw:
            if kw['dtype'][1] != 'dkind':
                refuse(c, 'dtype')
            dt = '(Some %s)' % kw['dtype'][0]
        d, td = kw['data']
        pay = {'zlist': 'PNum %s', 'natlist': 'PNum (zs %s)', 'list:bytes': 'PStr %s', 'empty': 'PNum %s', 'str': 'PStr [utf8_encode %s]'}
        if td not in pay:
            refuse(c, 'data of type %s' % td)
        return '(h5_create_dataset %s %s %s %s (%s) %s)' % (h, a, kw['shape'][0], dt, pay[td] % d, kw['compression'][0]), 'dataset'


def find(tree, cls, name):
    for n in tree.body:
        if isinstance(n, ast.ClassDef) and n.name == cls:
            for m in n.body:
                if isinstance(m, ast.FunctionDef) and m.name == name:
                    return m
    return None


def pinned_hash(tree, qual):
    if '.' in qual:
        c, m = qual.split('.')
        n = find(tree, c, m)
    else:
        n = next((x for x in tree.body if isinstance(x, ast.FunctionDef) and x.name == qual), None)
    if n is None:
        raise Refuse('pinned function %s not found' % qual)
    return ahash(n)


def translate(src, sig, show_hashes=False):
    tree = ast.parse(src)
    fn = find(tree, sig['class'], sig['function'])
    if fn is None:
        raise Refuse('%s.%s not found' % (sig['class'], sig['function']))
    if show_hashes:
        for q in sig['pinned']:
            print('pinned %s %s' % (q, pinned_hash(tree, q)))
        for s in ast.walk(fn):
            if isinstance(s, ast.If) and isinstance(s.test, ast.Name):
                print('block if %s: %s' % (s.test.id, ahash(s)))
        return None
    for q, h in sig['pinned'].items():
        got = pinned_hash(tree, q)
        if got != h:
            raise Refuse('pinned function %s changed (AST hash %s)' % (q, got))
    a = fn.args
    if a.vararg or a.kwarg or a.kwonlyargs or a.posonlyargs or fn.decorator_list:
        raise Refuse('signature shape of %s' % fn.name)
    names = [x.arg for x in a.args]
    if names != ['self'] + [p for p in sig['param_order']]:
        raise Refuse('parameters %s' % names)
    defaults = [ast.dump(d) for d in a.defaults]
    if defaults != sig['defaults']:
        raise Refuse('parameter defaults changed: %s' % defaults)
    env = {'self': ('self', 'table')}
    for p in sig['param_order']:
        env[p] = (sig['params'][p][0], sig['params'][p][1])
    tr = Tr(sig)
    body = tr.block(fn.body, env, 2)
    out = []
    out.append('(* GENERATED by tools/py2v_h5/main.py from biom/table.py (%s.%s) - do not edit.' % (sig['class'], sig['function']))
    out.append('   Vocabulary: Gen/H5Prelude.v.  Bridge theorems: Proofs/GenBridgeHdf5Proofs.v. *)')
    out.append('From Coq Require Import String.')
    out.append('From Coq Require Import List Arith ZArith Bool.')
    out.append('From BiomV Require Import Base.Tree Base.TreeStr Base.ListUtil Base.Matrix Model.Table Model.Sparse Model.Hdf5 Gen.H5Prelude.')
    out.append('Import ListNotations.')
    out.append('Open Scope list_scope.')
    out.append('')
    out.append('Definition %s (self : state) %s (now : str) : result h5 :=' % (sig['coq_name'], ' '.join('(%s : %s)' % (sig['params'][p][0], sig['params'][p][2]) for p in sig['param_order'] if sig['params'][p][2])))
    out.append('  h5_run self (')
    out.append(body)
    out.append('  ).')
    out.append('')
    return '\n'.join(out)


def main():
    ap = argparse.ArgumentParser()
    ap.add_argument('--repo', default=os.environ.get('BIOM_REPO', '/repo'))
    ap.add_argument('--out', default=os.path.dirname(os.path.dirname(HERE)))
    ap.add_argument('--hashes', action='store_true')
    ap.add_argument('targets', nargs='*')
    args = ap.parse_args()
    sig = json.load(open(os.path.join(HERE, 'sigs', 'to_hdf5.json')))
    path = os.path.join(args.repo, sig['source'])
    raw = open(path, 'rb').read()
    sha = hashlib.sha256(raw).hexdigest()
    try:
        text = translate(raw.decode('utf8'), sig, args.hashes)
    except Refuse as r:
        print('py2v_h5: REFUSED %s: %s' % (sig['source'], r))
        return 2
    except SyntaxError as e:
        print('py2v_h5: REFUSED %s: syntax error %s' % (sig['source'], e))
        return 2
    if text is None:
        return 0
    dst = os.path.join(args.out, sig['out'])
    old = open(dst).read() if os.path.exists(dst) else None
    if old != text:
        with open(dst, 'w') as f:
            f.write(text)
    print('py2v_h5: %s -> %s %s (source sha256 %s)' % (sig['source'], sig['out'], 'unchanged' if old == text else 'written', sha))
    return 0


if __name__ == '__main__':
    sys.exit(main())
