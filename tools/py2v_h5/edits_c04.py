#!/usr/bin/env python3
"""Edit runner for the HDF5-writer tie (T19): applies one edit at a time to a scratch copy of
biom/table.py, re-translates into a scratch copy of /verif/coq and compiles the generated file and
the bridge proofs there (coqc, no shared lock).  With --check NAME the full `./check C04` is run
against the scratch repo for that edit instead.
Usage: edits_c04.py [--check NAME] [--jobs N]"""
import os
import shutil
import subprocess
import sys
from concurrent.futures import ThreadPoolExecutor

ROOT = os.path.dirname(os.path.dirname(os.path.dirname(os.path.abspath(__file__))))
SCR = '/tmp/c04gen-edits'

EDITS = [
    # name, kind, old, new
    ('default-id-text', 'semantic', '"No Table ID"', '"No table ID"'),
    ('orders-swapped', 'semantic', "['csr', 'csc']", "['csc', 'csr']"),
    ('format-url-text', 'semantic', 'h5grp.attrs[\'format-url\'] = "http://biom-format.org"', 'h5grp.attrs[\'format-url\'] = "http://biom-format.org/"'),
    ('indices-shape', 'semantic', "grp.create_dataset('matrix/indices', shape=(len_data,),", "grp.create_dataset('matrix/indices', shape=(len_indptr,),"),
    ('empty-ids-threshold', 'semantic', 'if len_ids > 0:', 'if len_ids > 1:'),
    ('indptr-dtype', 'semantic', "dtype=np.int32,\n                               data=self._data.indptr,", "dtype=np.float64,\n                               data=self._data.indptr,"),
    ('matrix-group-dropped', 'semantic', "            grp.create_group('matrix')\n", ""),
    ('Taxonomy-general', 'semantic', "formatter['Taxonomy'] = vlen_list_of_str_formatter", "formatter['Taxonomy'] = general_formatter"),
    ('type-from-id', 'semantic', "h5grp.attrs['type'] = self.type if self.type else \"\"", "h5grp.attrs['type'] = self.type if self.table_id else \"\""),
    ('compare-flipped', 'harmless', 'if len_ids > 0:', 'if 0 < len_ids:'),
    ('local-renamed', 'harmless', 'len_indptr', 'n_indptr'),
    ('statements-reordered', 'harmless', "            len_ids = len(ids)\n            len_indptr = len(self._data.indptr)\n", "            len_indptr = len(self._data.indptr)\n            len_ids = len(ids)\n"),
    ('unknown-attribute', 'outside', "h5grp.attrs['nnz'] = nnz\n", "h5grp.attrs['nnz'] = nnz\n        h5grp.attrs['written-by'] = generated_by\n"),
    ('pinned-block-edited', 'outside', 'if set(other_md) != exp:', 'if set(other_md) == exp:'),
    ('while-loop', 'outside', "        compression = None\n", "        compression = None\n        while compress is None:\n            compress = True\n"),
    ('pinned-method-edited', 'outside', "        self._data.eliminate_zeros()\n        return self._data.nnz", "        return self._data.nnz"),
]


def one(e):
    name, kind, old, new = e
    d = os.path.join(SCR, name)
    shutil.rmtree(d, ignore_errors=True)
    os.makedirs(os.path.join(d, 'repo', 'biom'))
    src = open('/repo/biom/table.py').read()
    if src.count(old) < 1:
        return name, kind, 'EDIT DOES NOT APPLY', ''
    src2 = src.replace(old, new)
    open(os.path.join(d, 'repo', 'biom', 'table.py'), 'w').write(src2)
    shutil.copytree(os.path.join(ROOT, 'coq'), os.path.join(d, 'out', 'coq'), ignore=shutil.ignore_patterns('.buildlock', '*.aux'))
    p = subprocess.run(['/venv/bin/python', os.path.join(ROOT, 'tools/py2v_h5/main.py'), '--repo', os.path.join(d, 'repo'), '--out', os.path.join(d, 'out')],
                       stdout=subprocess.PIPE, stderr=subprocess.STDOUT, text=True)
    if p.returncode == 2:
        return name, kind, 'refused', p.stdout.strip().split('REFUSED', 1)[1].strip()[:160]
    if p.returncode != 0:
        return name, kind, 'translator crashed', p.stdout[-300:]
    changed = 'written' in p.stdout
    cq = os.path.join(d, 'out', 'coq')
    msg = ''
    for f in ('Gen/Hdf5Gen.v', 'Proofs/GenBridgeHdf5Proofs.v'):
        q = subprocess.run('ulimit -v 8000000; timeout 900 coqc -Q . BiomV %s' % f, shell=True, cwd=cq,
                           stdout=subprocess.PIPE, stderr=subprocess.STDOUT, text=True)
        if q.returncode != 0:
            first = [ln for ln in q.stdout.split('\n') if ln.startswith('File ')]
            line = first[0] if first else q.stdout[:120]
            msg = 'BREAKS %s (%s)' % (f, line.strip())
            break
    else:
        msg = 'bridge proofs still check'
    return name, kind, 'generated file %s' % ('changed' if changed else 'identical'), msg


def main():
    if '--check' in sys.argv:
        nm = sys.argv[sys.argv.index('--check') + 1]
        e = [x for x in EDITS if x[0] == nm][0]
        d = os.path.join(SCR, 'check-' + nm)
        shutil.rmtree(d, ignore_errors=True)
        shutil.copytree('/repo', os.path.join(d, 'repo'))
        pth = os.path.join(d, 'repo', 'biom', 'table.py')
        src = open(pth).read()
        open(pth, 'w').write(src.replace(e[2], e[3]))
        env = dict(os.environ, BIOM_REPO=os.path.join(d, 'repo'), VERIF_OUT=os.path.join(d, 'out'))
        p = subprocess.run([os.path.join(ROOT, 'check'), 'C04'], env=env, stdout=subprocess.PIPE, stderr=subprocess.STDOUT, text=True)
        print(p.stdout[-3000:])
        print('exit', p.returncode)
        return
    jobs = int(sys.argv[sys.argv.index('--jobs') + 1]) if '--jobs' in sys.argv else 8
    with ThreadPoolExecutor(jobs) as ex:
        for r in ex.map(one, EDITS):
            print(' | '.join(r))
            sys.stdout.flush()


if __name__ == '__main__':
    main()
