#!/venv/bin/python
"""Self-test of tools/py2v_sum at translator level (no Coq, a few seconds): every edit of edits_c19.py is applied to a
temporary copy of the three source files and translated; a meaning-changing edit must be accepted and change the generated
text, a meaning-preserving one must be accepted, an edit leaving the subset must be refused (exit code 2, nothing written).
The same edits run through the whole ./check C19 by edits_c19.py (table in docs/C19.md).  Exit code 0 = all as expected."""
import os, shutil, subprocess, sys, tempfile
HERE = os.path.dirname(os.path.abspath(__file__))
REPO = os.environ.get('BIOM_REPO', '/repo')
ns = {}
exec(open(os.path.join(HERE, 'edits_c19.py')).read().split('names = sys.argv')[0], ns)
FILES = ('biom/util.py', 'biom/table.py', 'biom/cli/table_summarizer.py')


def gen(repo):
    p = subprocess.run([sys.executable, os.path.join(HERE, 'main.py'), '--repo', repo, '--stdout'], capture_output=True, text=True)
    return p.returncode, p.stdout, p.stderr


tmp = tempfile.mkdtemp(prefix='py2v_sum_selftest')
bad = 0
try:
    for f in FILES:
        os.makedirs(os.path.dirname(os.path.join(tmp, f)), exist_ok=True)
        shutil.copy(os.path.join(REPO, f), os.path.join(tmp, f))
    rc0, base, err0 = gen(tmp)
    assert rc0 == 0, err0
    for name, group, what, f, old, new in ns['EDITS']:
        for g in FILES:
            shutil.copy(os.path.join(REPO, g), os.path.join(tmp, g))
        s = open(os.path.join(tmp, f)).read()
        assert s.count(old) >= 1, name
        open(os.path.join(tmp, f), 'w').write(s.replace(old, new))
        compile(open(os.path.join(tmp, f)).read(), f, 'exec')
        rc, out, err = gen(tmp)
        ok = {'semantic': rc == 0 and out != base, 'preserving': rc == 0, 'reject': rc == 2 and 'REFUSED' in err}[group]
        bad += not ok
        print('%-22s %-10s rc=%d %-8s %s %s' % (name, group, rc, 'same' if out == base else 'differs',
                                                'ok' if ok else 'UNEXPECTED', err.strip()[:120]))
finally:
    shutil.rmtree(tmp)
sys.exit(1 if bad else 0)
