"""The edits of biom/util.py (and one of biom/table.py) tried against the C19 translator tie (docs/C19.md,
"Translator tie"): each is applied to a scratch copy of the repository (cp -r /repo /tmp/c19gen-repo first;
mkdir -p /tmp/c19gen) and run through the whole `BIOM_REPO=/tmp/c19gen-repo VERIF_OUT=/tmp/c19gen-out ./check C19`;
rows go to /tmp/c19gen/rows.json.  Afterwards run tools/regen_sum.sh and ./check C19 against /repo again."""
import os, re, shutil, subprocess, sys, json, glob
REPO = '/tmp/c19gen-repo'
U = 'biom/util.py'
T = 'biom/table.py'
R = 'biom/cli/table_summarizer.py'
RET = "        return (min(counts),\n                max(counts),\n                median(counts),\n                mean(counts),\n                sample_counts)"
EDITS = [
 ('swap-min-max', 'semantic', 'min and max change places in the result', U,
  RET, RET.replace('min(counts)', 'XX(counts)').replace('max(counts)', 'min(counts)').replace('XX(counts)', 'max(counts)')),
 ('swap-branches', 'semantic', 'qualitative branch stores the total, quantitative one the non-zero count', U,
  "            sample_counts[sample_id] = (count_vector != 0).sum()\n        else:\n            sample_counts[sample_id] = float(count_vector.sum())",
  "            sample_counts[sample_id] = float(count_vector.sum())\n        else:\n            sample_counts[sample_id] = (count_vector != 0).sum()"),
 ('ne-one', 'semantic', 'qualitative count compares the cells with 1', U, "(count_vector != 0).sum()", "(count_vector != 1).sum()"),
 ('median-is-mean', 'semantic', 'the median position holds mean(counts)', U, "                median(counts),", "                mean(counts),"),
 ('empty-test-one', 'semantic', 'the all-zero result is given for exactly one sample instead of none', U, "if len(counts) == 0:", "if len(counts) == 1:"),
 ('empty-mean-one', 'semantic', 'a table without samples reports mean 1', U, "return (0, 0, 0, 0, sample_counts)", "return (0, 0, 0, 1, sample_counts)"),
 ('import-min-is-max', 'semantic', 'the module imports numpy.max under the name min', U, "from numpy import mean, median, min, max", "from numpy import mean, median, max as min, max"),
 ('rename-counts', 'preserving', 'local `counts` renamed', U,
  "    counts = list(sample_counts.values())\n\n    if len(counts) == 0:\n        return (0, 0, 0, 0, sample_counts)\n    else:\n" + RET,
  ("    counts = list(sample_counts.values())\n\n    if len(counts) == 0:\n        return (0, 0, 0, 0, sample_counts)\n    else:\n" + RET).replace('counts)', 'cnts)').replace('    counts =', '    cnts =').replace('sample_cnts)', 'sample_counts)')),
 ('drop-else', 'preserving', 'the `else:` after the returning branch dropped', U,
  "    else:\n" + RET, "\n" + RET.replace('\n        ', '\n    ').replace('        return', '    return', 1)),
 ('times-two', 'reject', 'the stored total is multiplied (arithmetic is outside the subset)', U,
  "float(count_vector.sum())", "float(count_vector.sum() * 2)"),
 ('iter-sparse', 'reject', 'table.iter(dense=False) (keyword outside the signature)', U, "in table.iter():", "in table.iter(dense=False):"),
 ('density-not', 'semantic', 'get_table_density: the emptiness test inverted', T, "        if not self.is_empty():\n            density", "        if self.is_empty():\n            density"),
 ('density-square', 'semantic', 'get_table_density divides by the squared number of samples', T,
  "density = (self.nnz /\n                       (len(self.ids()) * len(self.ids(axis='observation'))))", "density = (self.nnz /\n                       (len(self.ids()) * len(self.ids())))"),
 ('empty-and', 'semantic', 'is_empty: both axes must be empty', T, "if not self.ids().size or not self.ids(axis='observation').size:", "if not self.ids().size and not self.ids(axis='observation').size:"),
 ('explicit-axis', 'preserving', "get_table_density: self.ids(axis='sample') written out", T,
  "(len(self.ids()) * len(self.ids(axis='observation')))", "(len(self.ids(axis='sample')) * len(self.ids(axis='observation')))"),
 ('density-shape', 'reject', 'get_table_density divides by self.shape[0] * self.shape[1] (subscript outside the subset)', T,
  "(len(self.ids()) * len(self.ids(axis='observation')))", "(self.shape[0] * self.shape[1])"),
 ('pinned-nnz', 'reject', 'the property nnz (pinned, stands behind tb_nnz) no longer eliminates stored zeros', T,
  "        self._data.eliminate_zeros()\n        return self._data.nnz", "        return self._data.nnz"),
 ('report-swap-labels', 'semantic', '_summarize_table, plain mode: the two counts printed under each other\'s label', R,
  "        lines.append('Num samples: ' + locale.format_string('%d',\n                     num_samples, grouping=True))\n        lines.append('Num observations: ' + locale.format_string('%d',\n                     num_observations, grouping=True))",
  "        lines.append('Num samples: ' + locale.format_string('%d',\n                     num_observations, grouping=True))\n        lines.append('Num observations: ' + locale.format_string('%d',\n                     num_samples, grouping=True))"),
 ('report-total-always', 'semantic', '_summarize_table: total and density also in qualitative mode', R, "    if not qualitative:\n        total_count", "    if True:\n        total_count"),
 ('report-last-keys', 'semantic', '_summarize_table: the sample key list is read from the observation metadata', R,
  "        sample_md_keys = table.metadata()[0].keys()", "        sample_md_keys = table.metadata(axis='observation')[0].keys()"),
 ('report-no-transpose', 'semantic', '_summarize_table --observations no longer transposes', R, "    if observations:\n        table = table.transpose()\n", "    if observations:\n        table = table\n"),
 ('report-median-is-mean', 'semantic', '_summarize_table: the Median line prints mean_counts', R, "                 median_counts, grouping=True))", "                 mean_counts, grouping=True))"),
 ('report-unsorted', 'semantic', '_summarize_table: detail lines in table order (no sort)', R, "in sorted(counts_per_samp.items(), key=itemgetter(1)):", "in counts_per_samp.items():"),
 ('report-rename', 'preserving', '_summarize_table: local num_samples renamed', R, "num_samples", "n_samp"),
 ('report-round', 'reject', '_summarize_table: round(mean_counts) (call outside the signature)', R, "                 mean_counts, grouping=True))", "                 round(mean_counts), grouping=True))"),
 ('pinned-iter', 'reject', 'Table.iter (pinned, stands behind table_iter) defaults to the observation axis', T,
  "    def iter(self, dense=True, axis='sample'):", "    def iter(self, dense=True, axis='observation'):"),
]
names = sys.argv[1:]
rows = []
os.makedirs('/tmp/c19gen', exist_ok=True)
for name, group, what, f, old, new in EDITS:
    if names and name not in names:
        continue
    for g in (U, T, R):
        shutil.copy('/repo/' + g, REPO + '/' + g)
    s = open(REPO + '/' + f).read()
    assert s.count(old) == 1 or name == 'report-rename', (name, s.count(old))
    open(REPO + '/' + f, 'w').write(s.replace(old, new))
    env = dict(os.environ, BIOM_REPO=REPO, VERIF_OUT='/tmp/c19gen-out')
    p = subprocess.run(['./check', 'C19'], cwd='/verif', env=env, capture_output=True, text=True)
    out = p.stdout + p.stderr
    open('/tmp/c19gen/%s.log' % name, 'w').write(out)
    diff = subprocess.run(['git', 'diff', '--quiet', '--', 'coq/Gen/SummaryGen.v', 'coq/Gen/SummaryTableGen.v', 'coq/Gen/SummaryReportGen.v'], cwd='/verif').returncode
    broke = ''
    rep = {}
    m = re.search(r'VIOLATION property=C19 replay=(\S+)', out)
    if m:
        try:
            rep = json.load(open(m.group(1)))
        except Exception:
            rep = {}
    refused = [str(b) for b in rep.get('broken', []) if 'translator rejected' in str(b)]
    out2 = out
    if p.returncode and not refused:
        q = subprocess.run('ulimit -v 8000000; timeout 300 coqc -Q . BiomV Gen/SummaryGen.v && timeout 300 coqc -Q . BiomV Proofs/GenBridgeSummaryProofs.v && timeout 300 coqc -Q . BiomV Gen/SummaryTableGen.v && timeout 300 coqc -Q . BiomV Proofs/GenBridgeSummaryTableProofs.v && timeout 300 coqc -Q . BiomV Gen/SummaryReportGen.v && timeout 300 coqc -Q . BiomV Proofs/GenBridgeSummaryReportProofs.v && timeout 300 coqc -Q . BiomV Props/C19.v',
                           shell=True, cwd='/verif/coq', capture_output=True, text=True)
        out2 = q.stdout + q.stderr
    m = re.search(r'File "\./(Gen/Summary\w*Gen\.v|Proofs/GenBridgeSummary\w*Proofs\.v|Props/C19\.v)", line (\d+)', out2)
    if m:
        broke = m.group(1)
        lines = open('/verif/coq/' + m.group(1)).read().split('\n')[:int(m.group(2))]
        for l in reversed(lines):
            mm = re.match(r'(Lemma|Theorem|Example|Corollary|Definition)\s+(\w+)', l)
            if mm:
                broke = m.group(1) + ': ' + mm.group(2)
                break
    verdict = [l for l in out.split('\n') if l.startswith('VIOLATION') or 'quick:' in l]
    fail = json.dumps([rep.get('case', ''), rep.get('impl', ''), rep.get('model', '')])[:400]
    rows.append((name, group, what, 'REFUSES' if refused else 'accepts', 'differs' if diff else 'same text',
                 broke or (refused[0][:200] if refused else 'all proofs check'), ' | '.join(verdict)[:260], p.returncode, fail))
    print(rows[-1], flush=True)
for g in (U, T, R):
    shutil.copy('/repo/' + g, REPO + '/' + g)
json.dump(rows, open('/tmp/c19gen/rows.json', 'w'), indent=1)
